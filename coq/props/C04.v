(* C04 -- every valid Jelly stream decodes to exactly the statements it encodes. *)
From PJ.Model Require Import Base Lookup Terms Wire Encoder Streams Decoder Spec.
From PJ.Proofs Require Import DecoderProofs DecoderSound AgreeProofs.

(* For EVERY row sequence the Spec referee accepts -- whatever eviction policy, IRI split points,
   explicit-versus-zero ids, early or redundant entries, use of repeated terms, table sizes up to
   4096, versions 0..2 the producer chose -- the options are accepted, the stream is routed to an
   adapter, the decoder is built, and decoding yields exactly the events the stream denotes, in
   order, without error. *)
Theorem C04_decoder_sound :
  forall (rows : list row) (evs : list event) (md : list (str * str)) (delimited : bool),
    run rows = Valid evs ->
    exists o rest ak st0,
      rows = ROptions o :: rest /\
      options_from_frame {| f_rows := rows; f_meta := md |} delimited = Ok (po_of o delimited) /\
      route (o_phys o) = Ok ak /\ decoder_new (po_of o delimited) = Ok st0 /\
      rows_obs Generic ak (po_of o delimited) rows st0 = (evs, None).
Proof. exact decoder_sound. Qed.
Print Assumptions C04_decoder_sound.

(* The same for any partition of the rows into frames (empty frames, metadata, leading empty
   frames included): options come from the first non-empty frame and the flat parse of the frame
   list is the denotation. *)
Theorem C04_decoder_sound_frames :
  forall (fs : list frame) (evs : list event) (d : bool),
    run_frames fs = Valid evs ->
    exists po ak st0 sk first more,
      skip_empty fs = (sk, first :: more) /\ options_from_frame first d = Ok po /\
      route (po_phys po) = Ok ak /\ decoder_new po = Ok st0 /\
      flat_obs (decode_frames Generic ak po fs st0) = (evs, None).
Proof. exact decoder_sound_frames. Qed.
Print Assumptions C04_decoder_sound_frames.

(* One row: the simulation step, from any related pair of states. *)
Theorem C04_step_simulation :
  forall (r : row) (s s' : sstate) (evs : list event) (st : dstate) (ak : adapter_kind) (po : poptions),
    R s st -> Ropts s ak po -> step r s = SOk (s', evs) ->
    exists st', decode_row Generic ak po r st = Ok (st', evs) /\ R s' st' /\ Ropts s' ak po.
Proof. exact step_sim. Qed.
Print Assumptions C04_step_simulation.

(* The rdflib decoder (a second copy, with rdflib's term constructors) hands out, on RDF 1.1 streams, the VIEW of what the generic
   one hands out: the same terms except that rdflib's Literal constructor has rewritten the lexical form of xsd:token /
   xsd:normalizedString literals (AgreeProofs.rview) ... *)
Theorem C04_rdflib_is_view_of_generic :
  forall (ak : adapter_kind) (po : poptions) (fs : list frame) (st : dstate),
    forallb (fun f => forallb row_rdf11 (f_rows f)) fs = true ->
    decode_frames Rdflib ak po fs (vst st) = map fview (decode_frames Generic ak po fs st).
Proof. exact decode_frames_view. Qed.
Print Assumptions C04_rdflib_is_view_of_generic.

(* ... hence exactly the statements the stream denotes wherever those are terms rdflib can hold ... *)
Theorem C04_rdflib_agrees :
  forall (ak : adapter_kind) (po : poptions) (fs : list frame) (st : dstate),
    forallb (fun f => forallb row_rdf11 (f_rows f)) fs = true -> vst st = st ->
    Forall result_fixed (decode_frames Generic ak po fs st) ->
    decode_frames Rdflib ak po fs st = decode_frames Generic ak po fs st.
Proof. exact decode_frames_agree. Qed.
Print Assumptions C04_rdflib_agrees.

(* ... and NOT always (known finding rdflib-whitespace-facet): the valid RDF 1.1 stream holding "  a"^^xsd:token denotes that
   literal, the generic reader returns it, the rdflib reader returns "a"^^xsd:token.  The witness, replayed on the implementation,
   is findings/C04_C15_rdflib_whitespace_facet.py. *)
Theorem C04_rdflib_reader_refuted :
  exists st, decoder_new token_po = Ok st /\
    forallb (fun f => forallb row_rdf11 (f_rows f)) token_stream = true /\
    decode_frames Generic ATriples token_po token_stream st = [([], [ETriple (TBnode [115]) (TBnode [112]) (TLit [32; 32; 97] None (Some xsd_token))], None)] /\
    decode_frames Rdflib ATriples token_po token_stream st = [([], [ETriple (TBnode [115]) (TBnode [112]) (TLit [97] None (Some xsd_token))], None)].
Proof. exact readers_differ_on_token_literals. Qed.
Print Assumptions C04_rdflib_reader_refuted.

(* non-vacuity: a concrete stream with an eviction-free but non-trivial shape is Valid *)
Example a_valid_stream :
  run [ROptions {| o_name := []; o_phys := 1; o_gen := false; o_star := false; o_maxn := 8; o_maxp := 1; o_maxd := 0; o_logical := 1; o_version := 1 |};
       RPrefix 0 [104]; RName 0 [97]; RName 0 [98];
       RTriple (Some (WIri 1 0)) (Some (WIri 0 0)) (Some (WLit [120] LkNone));
       RTriple None None (Some (WIri 0 1))]
  = Valid [ETriple (TIri [104; 97]) (TIri [104; 98]) (TLit [120] None None);
           ETriple (TIri [104; 97]) (TIri [104; 98]) (TIri [104; 97])].
Proof. vm_compute. reflexivity. Qed.

(* ---- from bytes: any valid stream, serialised, is decoded to what it encodes ---- *)
From PJ.Model Require Import Wire.
From PJ.Proofs Require Import WireProofs WireRT BytesE2E.

Theorem C04_valid_bytes_decode_delimited :
  forall (fs : list frame) (evs : list event) (grouped : bool),
    run_frames fs = Valid evs -> Forall small fs ->
    (match fs with f :: _ => (f_rows f = [] /\ f_meta f = []) \/ f_rows f <> [] | [] => True end) ->
    let r := parse_stream Generic grouped false (write_delimited fs) in
    flat_events r = evs /\ pr_end r = PEnd /\ length (pr_frames r) = length fs.
Proof. exact valid_bytes_decode_delimited. Qed.
Print Assumptions C04_valid_bytes_decode_delimited.

Theorem C04_valid_bytes_decode_single :
  forall (f : frame) (evs : list event) (grouped : bool),
    run_frames [f] = Valid evs -> small f ->
    let r := parse_stream Generic grouped false (write_single f) in
    flat_events r = evs /\ pr_end r = PEnd /\ length (pr_frames r) = 1%nat.
Proof. exact valid_bytes_decode_single. Qed.
Print Assumptions C04_valid_bytes_decode_single.
