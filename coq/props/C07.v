(* C07 -- frame boundaries never change content; grouped parsing is one sink per frame. *)
From PJ.Model Require Import Base Terms Encoder Streams Decoder.
From PJ.Proofs Require Import DecoderProofs.

(* The flat parse (events in order, and whether/where it fails) depends only on the row sequence:
   any two partitions of the same rows into frames -- empty frames and metadata included -- give
   the same result, from any decoder state. *)
Theorem C07_partition :
  forall (ig : integ) (ak : adapter_kind) (po : poptions) (fs1 fs2 : list frame) (st : dstate),
    flat_map f_rows fs1 = flat_map f_rows fs2 ->
    flat_obs (decode_frames ig ak po fs1 st) = flat_obs (decode_frames ig ak po fs2 st).
Proof. exact repartition_invariant. Qed.
Print Assumptions C07_partition.

(* Grouped parsing yields exactly one result per frame, in order, each carrying that frame's metadata. *)
Theorem C07_grouped_one_per_frame :
  forall (ig : integ) (ak : adapter_kind) (po : poptions) (fs : list frame) (st : dstate),
    last_err (decode_frames ig ak po fs st) = None ->
    map (fun fr => fst (fst fr)) (decode_frames ig ak po fs st) = map f_meta fs.
Proof. exact grouped_one_per_frame. Qed.
Print Assumptions C07_grouped_one_per_frame.

(* The concatenation of the grouped results is the flat parse of the concatenated rows. *)
Theorem C07_grouped_concat_is_flat :
  forall (ig : integ) (ak : adapter_kind) (po : poptions) (fs : list frame) (st : dstate),
    flat_obs (decode_frames ig ak po fs st) = rows_obs ig ak po (flat_map f_rows fs) st.
Proof. exact flat_is_rows. Qed.
Print Assumptions C07_grouped_concat_is_flat.

(* Writing side: a grouped write through one shared TripleStream with a GraphsFrameFlow -- every
   sink (input graph) that ends without a raise comes out as exactly one frame carrying all the
   rows that sink appended (or no frame when it appended none), in sink order. *)
From PJ.Model Require Import Api.
From PJ.Proofs Require Import GroupedProofs.
Theorem C07_grouped_write_one_frame_per_sink :
  forall (sinks : list sdata) (s s' : stream) (evs : list tev),
    st_class s = TripleStream -> fl_kind (st_flow s) = FGraphs ->
    grouped_frames sinks s = (s', evs) -> raised evs = None ->
    emitted evs = flat_map one_frame (per_sink_rows sinks s).
Proof. exact grouped_write_one_frame_per_sink. Qed.
Print Assumptions C07_grouped_write_one_frame_per_sink.

(* the same for datasets: a shared QuadStream with a DatasetsFrameFlow *)
Theorem C07_grouped_write_one_frame_per_sink_quads :
  forall (sinks : list sdata) (s s' : stream) (evs : list tev),
    st_class s = QuadStream -> fl_kind (st_flow s) = FDatasets ->
    grouped_frames sinks s = (s', evs) -> raised evs = None ->
    emitted evs = flat_map one_frame (per_sink_rows_q sinks s).
Proof. exact grouped_write_one_frame_per_sink_quads. Qed.
Print Assumptions C07_grouped_write_one_frame_per_sink_quads.

(* rdflib: grouped_stream_to_frames over Graph sinks through a shared TripleStream with a GraphsFrameFlow
   is the generic grouped write -- one frame per non-empty graph *)
From PJ.Proofs Require Import EncRdflib RdflibFlush.
Theorem C07_grouped_write_one_frame_per_graph_rdflib :
  forall (sinks : list rdata) (s s' : stream) (evs : list tev),
    Forall (fun d => rd_kind d <> RDataset) sinks -> st_class s = TripleStream -> fl_kind (st_flow s) = FGraphs ->
    rdf_grouped_frames sinks s = (s', evs) -> raised evs = None ->
    emitted evs = flat_map one_frame (per_sink_rows (map sdata_of sinks) s).
Proof. exact rdf_grouped_write_one_frame_per_graph. Qed.
Print Assumptions C07_grouped_write_one_frame_per_graph_rdflib.
