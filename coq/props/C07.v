(* C07 -- frame boundaries never change content; grouped parsing is one sink per frame. *)
From PJ.Model Require Import Base Terms Encoder Streams Decoder.
From PJ.Proofs Require Import DecoderProofs.

(* The flat parse (events in order, and whether/where it fails) depends only on the row sequence:
   any two partitions of the same rows into frames -- empty frames and metadata included -- give
   the same result, from any decoder state. *)
Theorem C07_partition :
  forall (ig : integ) (ak : adapter_kind) (po : poptions) (fs1 fs2 : list frame) (st : dstate),
    flat_map f_rows fs1 = flat_map f_rows fs2 ->
    flat_obs (decode_frames ig ak po fs1 st) = flat_obs (decode_frames ig ak po fs2 st).
Proof. exact repartition_invariant. Qed.
Print Assumptions C07_partition.

(* Grouped parsing yields exactly one result per frame, in order, each carrying that frame's metadata. *)
Theorem C07_grouped_one_per_frame :
  forall (ig : integ) (ak : adapter_kind) (po : poptions) (fs : list frame) (st : dstate),
    last_err (decode_frames ig ak po fs st) = None ->
    map (fun fr => fst (fst fr)) (decode_frames ig ak po fs st) = map f_meta fs.
Proof. exact grouped_one_per_frame. Qed.
Print Assumptions C07_grouped_one_per_frame.

(* The concatenation of the grouped results is the flat parse of the concatenated rows. *)
Theorem C07_grouped_concat_is_flat :
  forall (ig : integ) (ak : adapter_kind) (po : poptions) (fs : list frame) (st : dstate),
    flat_obs (decode_frames ig ak po fs st) = rows_obs ig ak po (flat_map f_rows fs) st.
Proof. exact flat_is_rows. Qed.
Print Assumptions C07_grouped_concat_is_flat.
