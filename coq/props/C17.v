(* C17.  Theorems are added here as they are proved. *)
From PJ.Model Require Import Base.
