(* C17 -- arbitrary bytes cannot crash, hang or balloon the parser (the part a model can carry:
   every model function is a terminating Gallina function by construction; tables are capped;
   output is bounded by input). *)
From PJ.Model Require Import Base Lookup Terms Encoder Streams Decoder.
From PJ.Proofs Require Import DecoderProofs.

Theorem C17_tables_capped :
  forall (po : poptions) (st : dstate),
    decoder_new po = Ok st ->
    nlen (d_data (ds_names st)) <= MAX_LOOKUP_SIZE /\ nlen (d_data (ds_prefixes st)) <= MAX_LOOKUP_SIZE /\
    nlen (d_data (ds_datatypes st)) <= MAX_LOOKUP_SIZE.
Proof. exact decoder_tables_capped. Qed.
Print Assumptions C17_tables_capped.

Theorem C17_declared_sizes_refused_before_allocation :
  forall po : poptions,
    MAX_LOOKUP_SIZE < po_maxn po \/ MAX_LOOKUP_SIZE < po_maxp po \/ MAX_LOOKUP_SIZE < po_maxd po ->
    exists e, decoder_new po = Err e.
Proof. exact decoder_refuses_large. Qed.
Print Assumptions C17_declared_sizes_refused_before_allocation.

Theorem C17_tables_never_grow :
  forall (id : N) (v : str) (d d' : @ldec str), assign_entry id v d = Some d' -> length (d_data d') = length (d_data d).
Proof. exact assign_keeps_size. Qed.
Print Assumptions C17_tables_never_grow.

Theorem C17_no_amplification :
  forall (ig : integ) (ak : adapter_kind) (po : poptions) (rows : list row) (st : dstate),
    let '(_, evs, _) := decode_rows ig ak po rows st in (length evs <= length rows)%nat.
Proof. exact no_amplification. Qed.
Print Assumptions C17_no_amplification.

(* For EVERY byte string -- hostile or not, delimited or not, any integration, strict or not -- the
   parser model yields at most one event per input byte: rows cost bytes, a row yields at most one
   event, frames only partition the input.  With the capped tables above, what the parser builds is
   bounded by the size of what it was given. *)
From PJ.Model Require Import Wire.
From PJ.Proofs Require Import NoAmplification.
Theorem C17_events_bounded_by_input_size :
  forall (ig : integ) (grouped strict : bool) (b : list N),
    (length (flat_events (parse_stream ig grouped strict b)) <= length b)%nat.
Proof. exact events_bounded_by_bytes. Qed.
Print Assumptions C17_events_bounded_by_input_size.
