(* C08 -- delimited vs non-delimited framing is always detected correctly. *)
From PJ.Model Require Import Base Terms Wire Decoder.
From PJ.Proofs Require Import HintProofs.

(* Anything written delimited whose first frame is empty or starts with a row -- every frame
   length, every first-row length, incl. the 0x0A = 10 coincidences -- is detected as delimited. *)
Theorem C08_delimited :
  forall (f : frame) (fs : list frame),
    (f_rows f = [] /\ f_meta f = []) \/ f_rows f <> [] ->
    (3 <= length (write_delimited (f :: fs)))%nat ->
    hint (firstn 3 (write_delimited (f :: fs))) = true.
Proof. exact write_delimited_detected. Qed.
Print Assumptions C08_delimited.

(* Anything written as a single frame whose first row is the options row is detected as
   non-delimited, whatever the length of the options row and of the frame. *)
Theorem C08_single :
  forall (o : woptions) (rows : list row) (md : list (str * str)),
    hint (firstn 3 (write_single {| f_rows := ROptions o :: rows; f_meta := md |})) = false.
Proof. exact write_single_detected. Qed.
Print Assumptions C08_single.

(* The decision is the documented truth table on all three-byte headers and "non-delimited" on
   shorter ones. *)
Theorem C08_truth_table :
  forall b0 b1 b2 : N, hint [b0; b1; b2] = negb (b0 =? 10) || ((b1 =? 10) && negb (b2 =? 10)).
Proof. exact hint_truth_table. Qed.
Print Assumptions C08_truth_table.

Theorem C08_short_headers : forall h : list N, (length h < 3)%nat -> hint h = false.
Proof. exact hint_short. Qed.
Print Assumptions C08_short_headers.

(* ---- the same content in both modes parses to the same result: a valid one-frame stream written
   as a single message and written delimited both decode to the events the referee assigns it ---- *)
From PJ.Model Require Import Spec Encoder.
From PJ.Proofs Require Import WireRT BytesE2E.
Theorem C08_both_modes_same_result :
  forall (f : frame) (evs : list event) (grouped : bool),
    run_frames [f] = Valid evs -> small f -> f_rows f <> [] ->
    let r1 := parse_stream Generic grouped false (write_single f) in
    let r2 := parse_stream Generic grouped false (write_delimited [f]) in
    flat_events r1 = evs /\ flat_events r2 = evs /\ pr_end r1 = PEnd /\ pr_end r2 = PEnd.
Proof. exact both_modes_same_result. Qed.
Print Assumptions C08_both_modes_same_result.
