(* C12 -- streams are isolated and serialization is deterministic. *)
From PJ.Model Require Import Base Terms Encoder Streams Decoder Api World.
From PJ.Proofs Require Import WorldProofs.

(* Determinism is by type: Api.api_encode and Decoder.parse_stream are functions of their
   arguments.  Isolation: a process holding any number of streams, stepped in any interleaving,
   leaves each stream in the state -- and gives it the outputs -- it has when run alone. *)
Theorem C12_isolation_writers :
  forall (ops : list (nat * sop)) (w : list stream) (i : nat) (s : stream),
    nth_error w i = Some s ->
    nth_error (fst (wrun run_op ops w)) i = Some (fst (run_alone run_op (ops_of i ops) s)) /\
    outs_of i (snd (wrun run_op ops w)) = snd (run_alone run_op (ops_of i ops) s).
Proof. exact (isolation run_op). Qed.
Print Assumptions C12_isolation_writers.

(* the same for decoders stepped row by row *)
Definition dec_step (ig : integ) (ak : adapter_kind) (po : poptions) (r : row) (st : dstate)
  : dstate * option (list event) :=
  match decode_row ig ak po r st with Ok (st', evs) => (st', Some evs) | Err _ => (st, None) end.

Theorem C12_isolation_parsers :
  forall (ig : integ) (ak : adapter_kind) (po : poptions) (ops : list (nat * row)) (w : list dstate) (i : nat) (s : dstate),
    nth_error w i = Some s ->
    nth_error (fst (wrun (dec_step ig ak po) ops w)) i = Some (fst (run_alone (dec_step ig ak po) (ops_of i ops) s)) /\
    outs_of i (snd (wrun (dec_step ig ak po) ops w)) = snd (run_alone (dec_step ig ak po) (ops_of i ops) s).
Proof. intros ig ak po. exact (isolation (dec_step ig ak po)). Qed.
Print Assumptions C12_isolation_parsers.
