(* C05 -- writer and reader lookup tables stay mirrored for all histories.
   Property theorems only; proofs live in PJ.Proofs. *)
From PJ.Model Require Import Base Lookup Api.
From PJ.Proofs Require Import Mirror MirrorRun.

(* For every rule set (name / prefix incl. the empty prefix / datatype), every table size >= 1
   and every finite history of keys -- no bound on length or alphabet -- each use resolves on
   the reader to the key the writer meant, entry and term ids lie in [0,size], at most [size]
   entries are live, and both sides agree on last-assigned / last-reused. *)
Theorem C05_mirror_all_histories :
  forall (rule : lk_rule) (size : N) (keys : list str),
    1 <= size ->
    Forall2 (fun k o => exists obs, o = Some obs /\ obs_ok size k obs) keys (api_lookup rule size keys).
Proof. exact api_lookup_ok. Qed.
Print Assumptions C05_mirror_all_histories.

(* One use preserves the mirror invariant from any state that satisfies it (the induction step,
   stated on its own because C01/C03 use it per table). *)
Theorem C05_use_preserves_invariant :
  forall (rule : lk_rule) (k : str) (e : @lenc str) (d : @ldec str),
    @Inv str e d ->
    exists e' d' o, lk_use rule k e d = Some (e', d', o) /\ @Inv str e' d' /\
                    l_max (e_lookup e') = l_max (e_lookup e) /\ obs_ok (l_max (e_lookup e)) k o.
Proof. exact lk_use_ok. Qed.
Print Assumptions C05_use_preserves_invariant.
