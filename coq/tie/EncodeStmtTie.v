(* EncodeStmtTie.v -- source tie for encode_spo / encode_triple / encode_quad (pyjelly/serialize/encode.py):
   the repeated-term logic, the order of entry rows and statement row, what is left behind on a refusal.
   TermEncoder.encode_spo / encode_graph are overridden by the integrations' dispatchers (not translated):
   the translation takes them as parameters, and the theorems here hold for ANY dispatcher that simulates
   the model's encode_spo_term / encode_graph_term (premises H_spo, H_graph -- what the EN / ER
   correspondence families check of the real dispatchers). *)
From Coq Require Import Lia ZifyBool.
From PJ.Model Require Import Base Terms.
From PJ.Model Require Lookup Encoder.
From PJ.Tie Require Import PyPrims.
From PJ.Gen Require Import LookupEncGen OptionsGen EncodeGen.
From PJ.Tie Require Import StrN LookupEncTie EncodeTie.
Local Open Scope Z_scope.

Section Stmt.
Context (ig : E.integ).
(* the integration's term objects: any type T the model's terms embed in, with the equality test (`!=` on them) the
   repeated-term logic uses (for the generic integration: the translated term classes and their translated __eq__) *)
Context {T : Type} (inj : term -> T) (teqb : T -> T -> bool).
(* ... on the terms the integration's equality is exact for (ok): all of them for the generic integration; for rdflib, whose
   Literal.__eq__ ignores the case of the language tag, the terms whose language tags are in lower case (RDF 1.1's value space) *)
Context (ok : term -> Prop).
Context (H_teqb : forall a b, ok a -> ok b -> teqb (inj a) (inj b) = term_eqb a b).
(* what the integration's dispatcher does *)
Context (enc_spo : T -> Z -> pbval str -> TermEncoder SN -> outcome (list (pbval str)) * TermEncoder SN * pbval str).
Context (enc_graph : T -> pbval str -> TermEncoder SN -> outcome (list (pbval str)) * TermEncoder SN * pbval str).
(* how it writes an encoded term into slot i of a statement message *)
Context (put : Z -> wterm -> pbval str -> pbval str).

Definition put_opt (i : Z) (w : option wterm) (stmt : pbval str) : pbval str :=
  match w with Some w => put i w stmt | None => stmt end.

Definition triple_msg (ws wp wo : option wterm) : pbval str :=
  put_opt 2 wo (put_opt 1 wp (put_opt 0 ws (PMsg "RdfTriple" []))).

Definition quad_msg (ws wp wo wg : option wterm) : pbval str :=
  put_opt 3 wg (put_opt 2 wo (put_opt 1 wp (put_opt 0 ws (PMsg "RdfQuad" [])))).

(* every row of the model as the message object the source builds for it *)
Definition rmsg (r : row) : pbval str :=
  match r with
  | ROptions o => options_msg o
  | RTriple ws wp wo => PMsg "RdfStreamRow" [("triple"%string, triple_msg ws wp wo)]
  | RQuad ws wp wo wg => PMsg "RdfStreamRow" [("quad"%string, quad_msg ws wp wo wg)]
  | RNamespace name p n => ns_msg name p n
  | RGraphStart w => PMsg "RdfStreamRow" [("graph_start"%string, put_opt 3 w (PMsg "RdfGraphStart" []))]
  | RGraphEnd => PMsg "RdfStreamRow" [("graph_end"%string, PMsg "RdfGraphEnd" [])]
  | _ => msg_of_row r
  end.

(* the statement messages a dispatcher is handed: a fresh RdfTriple / RdfQuad / RdfGraphStart whose slots below i have been
   filled (or left out: a repeated term) by earlier calls *)
Definition building (i : Z) (stmt : pbval str) : Prop :=
  exists n ws wp wo, In n ["RdfTriple"; "RdfQuad"; "RdfGraphStart"]%string /\
    stmt = (if i =? 0 then PMsg n []
            else if i =? 1 then put_opt 0 ws (PMsg n [])
            else if i =? 2 then put_opt 1 wp (put_opt 0 ws (PMsg n []))
            else put_opt 2 wo (put_opt 1 wp (put_opt 0 ws (PMsg n [])))).

Definition sim_spo : Prop := forall tm i stmt g m, Rt g m -> (0 <= i <= 2) -> building i stmt ->
  match enc_spo (inj tm) i stmt g, E.encode_spo_term ig tm m with
  | (Val rows, g', stmt'), Ok (m', mrows, w) => rows = map rmsg mrows /\ Rt g' m' /\ stmt' = put i w stmt
  | (Exn _, _, _), Err _ => True
  | _, _ => False
  end.

Definition sim_graph : Prop := forall tm stmt g m, Rt g m -> building 3 stmt ->
  match enc_graph (inj tm) stmt g, E.encode_graph_term ig tm m with
  | (Val rows, g', stmt'), Ok (m', mrows, w) => rows = map rmsg mrows /\ Rt g' m' /\ stmt' = put 3 w stmt
  | (Exn _, _, _), Err _ => True
  | _, _ => False
  end.

Context (H_spo : sim_spo) (H_graph : sim_graph).

Notation oi := (option_map inj).
Definition rlist (rp : E.repeated) : list (option T) := [oi (E.r_s rp); oi (E.r_p rp); oi (E.r_o rp); oi (E.r_g rp)].

Definition ok_opt (o : option term) : Prop := match o with Some t => ok t | None => True end.
Definition rep_ok (rp : E.repeated) : Prop := ok_opt (E.r_s rp) /\ ok_opt (E.r_p rp) /\ ok_opt (E.r_o rp) /\ ok_opt (E.r_g rp).

Lemma differs_is (prev : option term) (tm : term) : ok_opt prev -> ok tm ->
  negb (match oi prev with Some x_ => teqb x_ (inj tm) | None => false end) = E.differs prev tm.
Proof. intros Hp Ht. unfold E.differs. destruct prev as [p|]; cbn [option_map]; [rewrite (H_teqb p tm Hp Ht)|]; reflexivity. Qed.

(* one slot of encode_spo, as the model does it, against the dispatcher *)
Lemma slot_step (i : Z) (prev : option term) (tm : term) (stmt : pbval str) g m : Rt g m -> (0 <= i <= 2) -> building i stmt ->
  match E.encode_slot ig prev tm m with
  | Ok (m', mrows, w, prev') =>
      if E.differs prev tm
      then exists g' rows, enc_spo (inj tm) i stmt g = (Val rows, g', put_opt i w stmt) /\ rows = map rmsg mrows /\ Rt g' m' /\ prev' = Some tm
      else m' = m /\ mrows = [] /\ w = None /\ prev' = prev
  | Err _ => E.differs prev tm = true /\ exists e g' s', enc_spo (inj tm) i stmt g = (Exn e, g', s')
  end.
Proof.
  intros HR Hi Hb. unfold E.encode_slot.
  destruct (E.differs prev tm) eqn:Ed.
  - pose proof (H_spo tm i stmt g m HR Hi Hb) as H.
    destruct (enc_spo (inj tm) i stmt g) as [[[rows|e] g'] stmt'];
      destruct (E.encode_spo_term ig tm m) as [[[m' mrows] w]|e']; try contradiction; cbn [bind].
    + destruct H as (-> & HR' & ->). exists g', (map rmsg mrows).
      split; [reflexivity|]. split; [reflexivity|]. split; [exact HR' | reflexivity].
    + split; [reflexivity|]. exists e, g', stmt'. reflexivity.
  - split; [reflexivity|]. split; [reflexivity|]. split; reflexivity.
Qed.

(* encode_spo: the three slots in order.  The result relates to the model's three encode_slot steps. *)
Definition spo_result (terms : list term) (rp : E.repeated) (m : E.tenc)
  : res (E.tenc * E.repeated * list row * option wterm * option wterm * option wterm) :=
  do s <- E.nth_term terms 0;
  do (t1, r1, ws, ps) <- E.encode_slot ig (E.r_s rp) s m;
  do p <- E.nth_term terms 1;
  do (t2, r2, wp, pp) <- E.encode_slot ig (E.r_p rp) p t1;
  do o <- E.nth_term terms 2;
  do (t3, r3, wo, po) <- E.encode_slot ig (E.r_o rp) o t2;
  Ok (t3, {| E.r_s := ps; E.r_p := pp; E.r_o := po; E.r_g := E.r_g rp |}, r1 ++ r2 ++ r3, ws, wp, wo).

Lemma spo_result_rg terms rp m m' rp' rows ws wp wo :
  spo_result terms rp m = Ok (m', rp', rows, ws, wp, wo) -> E.r_g rp' = E.r_g rp.
Proof.
  unfold spo_result.
  destruct (E.nth_term terms 0) as [s|]; cbn [bind]; [|discriminate].
  destruct (E.encode_slot ig (E.r_s rp) s m) as [[[[t1 r1] ws1] ps]|]; cbn [bind]; [|discriminate].
  destruct (E.nth_term terms 1) as [p|]; cbn [bind]; [|discriminate].
  destruct (E.encode_slot ig (E.r_p rp) p t1) as [[[[t2 r2] wp1] pp]|]; cbn [bind]; [|discriminate].
  destruct (E.nth_term terms 2) as [o|]; cbn [bind]; [|discriminate].
  destruct (E.encode_slot ig (E.r_o rp) o t2) as [[[[t3 r3] wo1] po]|]; cbn [bind]; [|discriminate].
  intros H. injection H as <- <- <- <- <- <-. reflexivity.
Qed.

Lemma skipn3_nth (l : list term) :
  match skipn 3 l with
  | [] => E.nth_term l 3 = Err StopIter
  | x :: rest => E.nth_term l 3 = Ok x /\ skipn 4 l = rest
  end.
Proof. unfold E.nth_term. destruct l as [|a [|b [|c [|d l]]]]; cbn; auto. Qed.

Notation gen_spo := (encode_spo SN teqb enc_spo).

Ltac bld n a b := exists n, a, b, (@None wterm); split; [assumption | reflexivity].

Ltac use_slot i prev tm stmt g m HR bl :=
  let H := fresh "Hs" in
  let Hc := fresh "Hcall" in
  let Ed := fresh "Ed" in
  pose proof (slot_step i prev tm stmt g m HR ltac:(lia) ltac:(bl)) as H;
  destruct (E.encode_slot ig prev tm m) as [[[[?m' ?mrows] ?w] ?prev']|?e'];
  [ destruct (E.differs prev tm) eqn:Ed;
    [ destruct H as (?g' & ?rows & Hc & ?Hrows & ?HR' & ?Hprev); cbv beta iota; rewrite Hc; clear Hc; subst
    | destruct H as (?Hm & ?Hr & ?Hw & ?Hp); subst ]
  | destruct H as (Ed & ?e & ?g' & ?s' & Hc); rewrite Ed; cbv beta iota; rewrite Hc; clear Hc ].

Ltac rows_eq := rewrite ?map_app; cbn [map app]; rewrite ?app_nil_r; rewrite <- ?app_assoc; cbn [app]; reflexivity.

Ltac rep_tac := unfold rep_ok; cbn [E.r_s E.r_p E.r_o E.r_g ok_opt]; repeat split;
  first [assumption | match goal with H : forall t, In t _ -> ok t |- _ => apply H; cbn [In]; tauto end].

Lemma tie_encode_spo (terms : list term) (rp : E.repeated) (n : string) g m : let stmt := PMsg n [] in
  In n ["RdfTriple"; "RdfQuad"; "RdfGraphStart"]%string -> Rt g m -> Forall ok terms -> rep_ok rp ->
  match gen_spo (map inj terms) g (rlist rp) stmt, spo_result terms rp m with
  | (Val rows, terms', g', rl', stmt'), Ok (m', rp', mrows, ws, wp, wo) =>
      rows = map rmsg mrows /\ terms' = map inj (skipn 3 terms) /\ Rt g' m' /\ rl' = rlist rp' /\
      stmt' = put_opt 2 wo (put_opt 1 wp (put_opt 0 ws stmt)) /\ rep_ok rp'
  | (Exn _, _, _, _, _), Err _ => True
  | _, _ => False
  end.
Proof.
  intros stmt Hn HR Hok (Hrs & Hrp & Hro & Hrg).
  assert (HokIn : forall t, In t terms -> ok t) by (apply Forall_forall; exact Hok). clear Hok.
  unfold encode_spo, spo_result, rlist.
  destruct terms as [|s terms]; [exact I|]. cbn [map E.nth_term nth_error bind].
  change (seq_get [oi (E.r_s rp); oi (E.r_p rp); oi (E.r_o rp); oi (E.r_g rp)] 0) with (@Val (option T) (oi (E.r_s rp))). cbv beta iota.
  rewrite differs_is by (first [assumption | apply HokIn; cbn [In]; tauto]).
  use_slot 0 (E.r_s rp) s stmt g m HR ltac:(bld n (@None wterm) (@None wterm)); cbn [bind]; try exact I.
  - (* subject encoded *)
    change (seq_set [oi (E.r_s rp); oi (E.r_p rp); oi (E.r_o rp); oi (E.r_g rp)] 0 (Some (inj s))) with (@Val (list (option T)) [Some (inj s); oi (E.r_p rp); oi (E.r_o rp); oi (E.r_g rp)]).
    cbv beta iota. destruct terms as [|p terms]; [exact I|]. cbn [map E.nth_term nth_error bind].
    change (seq_get [Some (inj s); oi (E.r_p rp); oi (E.r_o rp); oi (E.r_g rp)] 1) with (@Val (option T) (oi (E.r_p rp))). cbv beta iota.
    rewrite differs_is by (first [assumption | apply HokIn; cbn [In]; tauto]).
    use_slot 1 (E.r_p rp) p (put_opt 0 w stmt) g' m' HR' ltac:(bld n w (@None wterm)); cbn [bind]; try exact I.
    + change (seq_set [Some (inj s); oi (E.r_p rp); oi (E.r_o rp); oi (E.r_g rp)] 1 (Some (inj p))) with (@Val (list (option T)) [Some (inj s); Some (inj p); oi (E.r_o rp); oi (E.r_g rp)]).
      cbv beta iota. destruct terms as [|o terms]; [exact I|]. cbn [map E.nth_term nth_error bind].
      change (seq_get [Some (inj s); Some (inj p); oi (E.r_o rp); oi (E.r_g rp)] 2) with (@Val (option T) (oi (E.r_o rp))). cbv beta iota.
      rewrite differs_is by (first [assumption | apply HokIn; cbn [In]; tauto]).
      use_slot 2 (E.r_o rp) o (put_opt 1 w0 (put_opt 0 w stmt)) g'0 m'0 HR'0 ltac:(bld n w w0); cbn [bind]; try exact I.
      * change (seq_set [Some (inj s); Some (inj p); oi (E.r_o rp); oi (E.r_g rp)] 2 (Some (inj o))) with (@Val (list (option T)) [Some (inj s); Some (inj p); Some (inj o); oi (E.r_g rp)]).
        cbv iota. split; [rows_eq|]. split; [reflexivity|]. split; [assumption|]. split; [reflexivity|]. split; [reflexivity | rep_tac].
      * split; [rows_eq|]. split; [reflexivity|]. split; [assumption|]. split; [reflexivity|]. split; [reflexivity | rep_tac].
    + destruct terms as [|o terms]; [exact I|]. cbn [map E.nth_term nth_error bind].
      change (seq_get [Some (inj s); oi (E.r_p rp); oi (E.r_o rp); oi (E.r_g rp)] 2) with (@Val (option T) (oi (E.r_o rp))). cbv beta iota.
      rewrite differs_is by (first [assumption | apply HokIn; cbn [In]; tauto]).
      use_slot 2 (E.r_o rp) o (put_opt 0 w stmt) g' m' HR' ltac:(bld n w (@None wterm)); cbn [bind]; try exact I.
      * change (seq_set [Some (inj s); oi (E.r_p rp); oi (E.r_o rp); oi (E.r_g rp)] 2 (Some (inj o))) with (@Val (list (option T)) [Some (inj s); oi (E.r_p rp); Some (inj o); oi (E.r_g rp)]).
        cbv iota. split; [rows_eq|]. split; [reflexivity|]. split; [assumption|]. split; [reflexivity|]. split; [reflexivity | rep_tac].
      * split; [rows_eq|]. split; [reflexivity|]. split; [assumption|]. split; [reflexivity|]. split; [reflexivity | rep_tac].
  - (* subject repeated *)
    destruct terms as [|p terms]; [exact I|]. cbn [map E.nth_term nth_error bind].
    change (seq_get [oi (E.r_s rp); oi (E.r_p rp); oi (E.r_o rp); oi (E.r_g rp)] 1) with (@Val (option T) (oi (E.r_p rp))). cbv beta iota.
    rewrite differs_is by (first [assumption | apply HokIn; cbn [In]; tauto]).
    use_slot 1 (E.r_p rp) p stmt g m HR ltac:(bld n (@None wterm) (@None wterm)); cbn [bind]; try exact I.
    + change (seq_set [oi (E.r_s rp); oi (E.r_p rp); oi (E.r_o rp); oi (E.r_g rp)] 1 (Some (inj p))) with (@Val (list (option T)) [oi (E.r_s rp); Some (inj p); oi (E.r_o rp); oi (E.r_g rp)]).
      cbv beta iota. destruct terms as [|o terms]; [exact I|]. cbn [map E.nth_term nth_error bind].
      change (seq_get [oi (E.r_s rp); Some (inj p); oi (E.r_o rp); oi (E.r_g rp)] 2) with (@Val (option T) (oi (E.r_o rp))). cbv beta iota.
      rewrite differs_is by (first [assumption | apply HokIn; cbn [In]; tauto]).
      use_slot 2 (E.r_o rp) o (put_opt 1 w stmt) g' m' HR' ltac:(bld n (@None wterm) w); cbn [bind]; try exact I.
      * change (seq_set [oi (E.r_s rp); Some (inj p); oi (E.r_o rp); oi (E.r_g rp)] 2 (Some (inj o))) with (@Val (list (option T)) [oi (E.r_s rp); Some (inj p); Some (inj o); oi (E.r_g rp)]).
        cbv iota. split; [rows_eq|]. split; [reflexivity|]. split; [assumption|]. split; [reflexivity|]. split; [reflexivity | rep_tac].
      * split; [rows_eq|]. split; [reflexivity|]. split; [assumption|]. split; [reflexivity|]. split; [reflexivity | rep_tac].
    + destruct terms as [|o terms]; [exact I|]. cbn [map E.nth_term nth_error bind].
      change (seq_get [oi (E.r_s rp); oi (E.r_p rp); oi (E.r_o rp); oi (E.r_g rp)] 2) with (@Val (option T) (oi (E.r_o rp))). cbv beta iota.
      rewrite differs_is by (first [assumption | apply HokIn; cbn [In]; tauto]).
      use_slot 2 (E.r_o rp) o stmt g m HR ltac:(bld n (@None wterm) (@None wterm)); cbn [bind]; try exact I.
      * change (seq_set [oi (E.r_s rp); oi (E.r_p rp); oi (E.r_o rp); oi (E.r_g rp)] 2 (Some (inj o))) with (@Val (list (option T)) [oi (E.r_s rp); oi (E.r_p rp); Some (inj o); oi (E.r_g rp)]).
        cbv iota. split; [rows_eq|]. split; [reflexivity|]. split; [assumption|]. split; [reflexivity|]. split; [reflexivity | rep_tac].
      * split; [reflexivity|]. split; [reflexivity|]. split; [assumption|]. split; [reflexivity|]. split; [reflexivity | rep_tac].
Qed.

(* encode_triple: a new statement, the three slots, then the statement row after the entry rows.  The
   iterator is left after the third term, the repeated terms are what the model keeps. *)
Theorem source_encode_triple_is_model (terms : list term) (rp : E.repeated) g m : Rt g m -> Forall ok terms -> rep_ok rp ->
  match encode_triple SN teqb enc_spo (map inj terms) g (rlist rp), E.encode_triple ig terms m rp with
  | (Val rows, terms', g', rl'), Ok (m', rp', mrows) =>
      rows = map rmsg mrows /\ Rt g' m' /\ rl' = rlist rp' /\ terms' = map inj (skipn 3 terms) /\ rep_ok rp'
  | (Exn _, _, _, _), Err _ => True
  | _, _ => False
  end.
Proof.
  intros HR Hok Hrep. unfold encode_triple.
  pose proof (source_start_statement_is_model g m HR) as H0.
  destruct (TermEncoder_start_statement SN g) as [[u|e] g0]; [|contradiction].
  pose proof (tie_encode_spo terms rp "RdfTriple" g0 (E.start_statement m) ltac:(left; reflexivity) H0 Hok Hrep) as H. cbv zeta in H.
  assert (Hm : E.encode_triple ig terms m rp =
               do x <- spo_result terms rp (E.start_statement m);
               let '(t3, rp', rows, ws, wp, wo) := x in Ok (t3, rp', rows ++ [RTriple ws wp wo])).
  { unfold E.encode_triple, spo_result.
    destruct (E.nth_term terms 0) as [s|]; cbn [bind]; [|reflexivity].
    destruct (E.encode_slot ig (E.r_s rp) s (E.start_statement m)) as [[[[t1 r1] ws] ps]|]; cbn [bind]; [|reflexivity].
    destruct (E.nth_term terms 1) as [p|]; cbn [bind]; [|reflexivity].
    destruct (E.encode_slot ig (E.r_p rp) p t1) as [[[[t2 r2] wp] pp]|]; cbn [bind]; [|reflexivity].
    destruct (E.nth_term terms 2) as [o|]; cbn [bind]; [|reflexivity].
    destruct (E.encode_slot ig (E.r_o rp) o t2) as [[[[t3 r3] wo] po]|]; cbn [bind]; [|reflexivity].
    rewrite <- !app_assoc. reflexivity. }
  rewrite Hm. norm.
  match goal with |- context [encode_spo ?x1 ?x2 ?x3 ?x4 ?x5 ?x6 ?x7] => destruct (encode_spo x1 x2 x3 x4 x5 x6 x7) as [[[[[rows|e] terms'] g'] rl'] stmt'] end;
    destruct (spo_result terms rp (E.start_statement m)) as [[[[[[m' rp'] mrows] ws] wp] wo]|e']; try contradiction; cbn [bind]; [|exact I].
  destruct H as (-> & -> & HR' & -> & -> & Hrep').
  split; [rewrite map_app; reflexivity|]. split; [exact HR'|]. split; [reflexivity|]. split; [reflexivity | exact Hrep'].
Qed.

Lemma gslot_step (prev : option term) (tm : term) (stmt : pbval str) g m : Rt g m -> building 3 stmt ->
  match E.encode_gslot ig prev tm m with
  | Ok (m', mrows, w, prev') =>
      if E.differs prev tm
      then exists g' rows, enc_graph (inj tm) stmt g = (Val rows, g', put_opt 3 w stmt) /\ rows = map rmsg mrows /\ Rt g' m' /\ prev' = Some tm
      else m' = m /\ mrows = [] /\ w = None /\ prev' = prev
  | Err _ => E.differs prev tm = true /\ exists e g' s', enc_graph (inj tm) stmt g = (Exn e, g', s')
  end.
Proof.
  intros HR Hb. unfold E.encode_gslot.
  destruct (E.differs prev tm) eqn:Ed.
  - pose proof (H_graph tm stmt g m HR Hb) as H.
    destruct (enc_graph (inj tm) stmt g) as [[[rows|e] g'] stmt'];
      destruct (E.encode_graph_term ig tm m) as [[[m' mrows] w]|e']; try contradiction; cbn [bind].
    + destruct H as (-> & HR' & ->). exists g', (map rmsg mrows).
      split; [reflexivity|]. split; [reflexivity|]. split; [exact HR' | reflexivity].
    + split; [reflexivity|]. exists e, g', stmt'. reflexivity.
  - split; [reflexivity|]. split; [reflexivity|]. split; reflexivity.
Qed.

Theorem source_encode_quad_is_model (terms : list term) (rp : E.repeated) g m : Rt g m -> Forall ok terms -> rep_ok rp ->
  match encode_quad SN teqb enc_spo enc_graph (map inj terms) g (rlist rp), E.encode_quad ig terms m rp with
  | (Val rows, terms', g', rl'), Ok (m', rp', mrows) =>
      rows = map rmsg mrows /\ Rt g' m' /\ rl' = rlist rp' /\ terms' = map inj (skipn 4 terms) /\ rep_ok rp'
  | (Exn _, _, _, _), Err _ => True
  | _, _ => False
  end.
Proof.
  intros HR Hok Hrep. unfold encode_quad.
  pose proof (source_start_statement_is_model g m HR) as H0.
  destruct (TermEncoder_start_statement SN g) as [[u|e] g0]; [|contradiction].
  pose proof (tie_encode_spo terms rp "RdfQuad" g0 (E.start_statement m) ltac:(right; left; reflexivity) H0 Hok Hrep) as H. cbv zeta in H.
  assert (Hm : E.encode_quad ig terms m rp =
               do x <- spo_result terms rp (E.start_statement m);
               let '(t3, rp3, rows, ws, wp, wo) := x in
               do gt <- E.nth_term terms 3;
               do (t4, r4, wg, pg) <- E.encode_gslot ig (E.r_g rp) gt t3;
               Ok (t4, {| E.r_s := E.r_s rp3; E.r_p := E.r_p rp3; E.r_o := E.r_o rp3; E.r_g := pg |}, rows ++ r4 ++ [RQuad ws wp wo wg])).
  { unfold E.encode_quad, spo_result.
    destruct (E.nth_term terms 0) as [s|]; cbn [bind]; [|reflexivity].
    destruct (E.encode_slot ig (E.r_s rp) s (E.start_statement m)) as [[[[t1 r1] ws] ps]|]; cbn [bind]; [|reflexivity].
    destruct (E.nth_term terms 1) as [p|]; cbn [bind]; [|reflexivity].
    destruct (E.encode_slot ig (E.r_p rp) p t1) as [[[[t2 r2] wp] pp]|]; cbn [bind]; [|reflexivity].
    destruct (E.nth_term terms 2) as [o|]; cbn [bind]; [|reflexivity].
    destruct (E.encode_slot ig (E.r_o rp) o t2) as [[[[t3 r3] wo] po]|]; cbn [bind]; [|reflexivity].
    destruct (E.nth_term terms 3) as [gt|]; cbn [bind]; [|reflexivity].
    destruct (E.encode_gslot ig (E.r_g rp) gt t3) as [[[[t4 r4] wg] pg]|]; cbn [bind E.r_s E.r_p E.r_o]; [|reflexivity].
    rewrite <- !app_assoc. reflexivity. }
  rewrite Hm. norm.
  match goal with |- context [encode_spo ?x1 ?x2 ?x3 ?x4 ?x5 ?x6 ?x7] => destruct (encode_spo x1 x2 x3 x4 x5 x6 x7) as [[[[[rows|e] terms'] g'] rl'] stmt'] end;
    destruct (spo_result terms rp (E.start_statement m)) as [[[[[[m' rp'] mrows] ws] wp] wo]|e'] eqn:Es; try contradiction; cbn [bind]; [|exact I].
  destruct H as (-> & -> & HR' & -> & -> & Hrep').
  pose proof (spo_result_rg _ _ _ _ _ _ _ _ _ Es) as Hg.
  assert (Hokg : forall gt rest, skipn 3 terms = gt :: rest -> ok gt).
  { intros gt rest Hsk. apply (proj1 (Forall_forall ok terms) Hok). rewrite <- (firstn_skipn 3 terms), Hsk. apply in_or_app. right. left. reflexivity. }
  destruct Hrep as (_ & _ & _ & Hrg). destruct Hrep' as (Hrs' & Hrp' & Hro' & _).
  (* the graph slot *)
  cbv beta iota.
  pose proof (skipn3_nth terms) as Hn.
  destruct (skipn 3 terms) as [|gt rest]; [rewrite Hn; cbn [bind map]; exact I|].
  specialize (Hokg gt rest eq_refl).
  destruct Hn as [Hn ->]. rewrite Hn. cbn [bind map].
  change (seq_get (rlist rp') 3) with (@Val (option T) (oi (E.r_g rp'))). cbv beta iota.
  rewrite differs_is by (first [rewrite Hg; assumption | assumption]). rewrite Hg.
  pose proof (gslot_step (E.r_g rp) gt (put_opt 2 wo (put_opt 1 wp (put_opt 0 ws (PMsg "RdfQuad" [])))) g' m' HR'
                ltac:(exists "RdfQuad"%string, ws, wp, wo; split; [right; left; reflexivity | reflexivity])) as Hs.
  destruct (E.encode_gslot ig (E.r_g rp) gt m') as [[[[m4 r4] wg] pg]|e4].
  - destruct (E.differs (E.r_g rp) gt) eqn:Ed.
    + destruct Hs as (g4 & rows4 & Hcall & -> & HR4 & ->). norm. rewrite Hcall. cbn [bind].
      change (seq_set (rlist rp') 3 (Some (inj gt))) with (@Val (list (option T)) [oi (E.r_s rp'); oi (E.r_p rp'); oi (E.r_o rp'); Some (inj gt)]). cbv beta iota.
      split; [rewrite !map_app; rewrite <- app_assoc; reflexivity|]. split; [exact HR4|]. split; [reflexivity|]. split; [reflexivity|].
      unfold rep_ok. cbn [E.r_s E.r_p E.r_o E.r_g ok_opt]. repeat split; assumption.
    + destruct Hs as (-> & -> & -> & ->). cbn [bind].
      split; [rewrite map_app; reflexivity|]. split; [exact HR'|]. split; [|split; [reflexivity|]].
      * unfold rlist. cbn [E.r_s E.r_p E.r_o E.r_g]. rewrite Hg. reflexivity.
      * unfold rep_ok. cbn [E.r_s E.r_p E.r_o E.r_g ok_opt]. repeat split; assumption.
  - destruct Hs as (Ed & e & g4 & s4 & Hcall). rewrite Ed. norm. rewrite Hcall. cbn [bind]. exact I.
Qed.

End Stmt.

Print Assumptions source_encode_triple_is_model.
Print Assumptions source_encode_quad_is_model.
