(* StmtLayout.v -- where an encoded term goes in a statement message (the layout the dispatchers of BOTH integrations write through
   the base-class helpers get_iri_field / get_literal_field / get_triple_field / set_bnode_field and the g_* fields), and the lemmas
   about it that the proofs of sim_spo / sim_graph share: GenericSerializeTie.v and RdflibSerializeTie.v. *)
From Coq Require Import Lia ZifyBool.
From PJ.Model Require Import Base Terms.
From PJ.Model Require Lookup Encoder.
From PJ.Tie Require Import PyPrims StrN LookupEncTie EncodeTie EncodeStmtTie DecoderBase.
From PJ.Gen Require Import LookupEncGen OptionsGen EncodeGen.
Local Open Scope Z_scope.

(* ------------------------------------------------------------------ where a term goes in a statement message *)
Definition grp (i : Z) : list string := if i =? 0 then g_s else if i =? 1 then g_p else if i =? 2 then g_o else g_g.
Definition pre (i : Z) : string := if i =? 0 then "s" else if i =? 1 then "p" else if i =? 2 then "o" else "g".
Definition gput (i : Z) (w : wterm) (stmt : pbval str) : pbval str :=
  msg_set (grp i) (pre i ++ suffix w)%string (wmsg w) stmt.

Notation grmsg := (rmsg gput).
Notation gbuilding := (building gput).

(* the slot being filled is still empty: reading its sub-messages gives fresh ones *)
Lemma building_fresh i stmt : (0 <= i <= 3) -> gbuilding i stmt -> which_of (grp i) (msg_fields stmt) = None.
Proof.
  intros Hi [n [ws [wp [wo [_ Hs]]]]]. subst stmt.
  assert (Hc : i = 0 \/ i = 1 \/ i = 2 \/ i = 3) by lia.
  destruct Hc as [-> | [-> | [-> | ->]]]; cbn [Z.eqb Pos.eqb].
  - reflexivity.
  - destruct ws as [[]|]; reflexivity.
  - destruct ws as [[]|], wp as [[]|]; reflexivity.
  - destruct ws as [[]|], wp as [[]|], wo as [[]|]; reflexivity.
Qed.

Lemma which_none_get G (fs : list (string * pbval str)) f : which_of G fs = None -> In f G -> msg_get f fs = None.
Proof.
  induction fs as [|[n v] fs IH]; cbn [which_of msg_get]; [reflexivity|]. intros H Hf.
  destruct (existsb (String.eqb n) G) eqn:E; [discriminate|].
  destruct (String.eqb n f) eqn:E2; [|exact (IH H Hf)].
  apply String.eqb_eq in E2. subst f.
  assert (existsb (String.eqb n) G = true) by (apply existsb_exists; exists n; split; [exact Hf | apply String.eqb_refl]). congruence.
Qed.

Lemma fresh_sub i stmt f ty : (0 <= i <= 3) -> gbuilding i stmt -> In f (grp i) -> msg_sub f ty stmt = PMsg ty [].
Proof.
  intros Hi Hb Hf. unfold msg_sub. rewrite (which_none_get _ _ _ (building_fresh i stmt Hi Hb) Hf). reflexivity.
Qed.

(* the quoted triple a dispatcher builds, slot by slot, is the message of the wire term *)
Lemma quoted_msg ws wp wo :
  gput 2 wo (gput 1 wp (gput 0 ws (PMsg "RdfTriple" []))) = wmsg (WTriple (Some ws) (Some wp) (Some wo)).
Proof. destruct ws, wp, wo; reflexivity. Qed.

(* the rows that come with a term are lookup entries: the same message whatever the layout of terms *)
Definition entry_row (r : row) : Prop := match r with RPrefix _ _ | RName _ _ | RDatatype _ _ => True | _ => False end.

Lemma entry_rows_grmsg (rows : list row) : Forall entry_row rows -> map msg_of_row rows = map grmsg rows.
Proof.
  induction 1 as [|r rows Hr _ IH]; [reflexivity|]. cbn [map]. rewrite IH. destruct r; try contradiction; reflexivity.
Qed.

Lemma encode_iri_entries iri m m' rows p n : E.encode_iri iri m = Ok (m', rows, p, n) -> Forall entry_row rows.
Proof.
  unfold E.encode_iri. destruct (E.split_iri iri) as [prefix name0].
  match goal with |- context [bind ?x _] => destruct x as [[[[pfx pkeys] pe] name]|]; cbn [bind]; [|discriminate] end.
  destruct (E.entry_index _ _ _) as [[[nms nkeys] ne]|]; cbn [bind]; [|discriminate].
  cbv zeta.
  destruct (E.lift _ _) as [[pfx2 pidx]|]; cbn [bind]; [|discriminate].
  destruct (E.lift _ _) as [[nms2 nidx]|]; cbn [bind]; [|discriminate].
  intros [= _ <- _ _]. destruct pe, ne; repeat constructor.
Qed.

Lemma encode_literal_entries lex lang dt m m' rows w : E.encode_literal lex lang dt m = Ok (m', rows, w) -> Forall entry_row rows.
Proof.
  unfold E.encode_literal.
  destruct (E.truthy dt) as [d|]; cbn [bind].
  - destruct (str_eqb d xsd_string); cbn [bind]; [intros [= _ <- _]; constructor|].
    destruct (_ =? 0)%N; cbn [bind]; [discriminate|].
    destruct (E.entry_index _ _ _) as [[[dts dkeys] oe]|]; cbn [bind]; [|discriminate].
    destruct (E.lift _ _) as [[dts2 idx]|]; cbn [bind]; [|discriminate].
    intros [= _ <- _]. destruct oe; repeat constructor.
  - intros [= _ <- _]. constructor.
Qed.

Ltac slot_cases i Hi := let H := fresh in assert (H : i = 0 \/ i = 1 \/ i = 2) by lia; destruct H as [-> | [-> | ->]]; cbn [Z.eqb Pos.eqb].


Lemma In_grp_s f : In f g_s -> In f (grp 0). Proof. exact (fun H => H). Qed.
