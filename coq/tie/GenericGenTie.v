(* GenericGenTie.v -- the other alternative of the generic drivers' `data` union: a generator of statements (a list here), as
   flat_stream_to_frames hands it on.  triples_stream_frames / quads_stream_frames / graphs_stream_frames and the singledispatch
   stream_frames translated a second time for that choice (the `_gen` copies in generated/GenericSerializeGen.v: no bindings to
   declare -- asking a generator for them is the AttributeError the model has), and flat_stream_to_frames itself, against
   model/Streams.v (d_is_sink = false; flat_stream_to_frames). *)
From Coq Require Import Lia ZifyBool.
From PJ.Model Require Import Base Terms Encoder Streams Api.
From PJ.Model Require Lookup.
From PJ.Tie Require Import PyPrims StrN LookupEncTie OptionsTie EncodeTie EncodeStmtTie FlowsTie StreamsTie DecoderBase GenericTerms GenericSerializeTie GenericDriversTie GenericEntryTie.
From PJ.Gen Require Import LookupEncGen OptionsGen EncodeGen FlowsGen StreamsGen GenericSinkGen.
From PJ.Gen Require GenericSerializeGen.
Local Open Scope Z_scope.

Notation gobj := (obj SN).
Notation GSink := (GenericStatementSink SN).
Notation GStream := (@Stream SN gobj).
Notation gRs := (Rs E.Generic obj_of_term all_ok gput).
Notation fmsg := (frame_msg (rmsg gput)).

(* the generator yields the objects of d's statements; d is not a sink *)
Definition Rg (data : list gobj) (d : sdata) : Prop := d_is_sink d = false /\ data = map obj_of_stmt (d_stmts d).

Theorem source_triples_stream_frames_gen_is_model (data : list gobj) (d : sdata) (g : GStream) (m : stream) :
  Rg data d -> Forall stmt_ok (d_stmts d) -> gRs g m -> st_class m <> QuadStream ->
  match GenericSerializeGen.triples_stream_frames_gen SN g data, Streams.triples_stream_frames d m with
  | (r, g', _, ys), (m', evs) => gRs g' m' /\ ys = map fmsg (emitted evs) /\ ends r evs
  end.
Proof.
  intros [Hns ->] Hok HR Hc.
  unfold GenericSerializeGen.triples_stream_frames_gen, Streams.triples_stream_frames. cbv zeta.
  pose proof (source_enroll_is_model E.Generic obj_of_term all_ok gput g m HR) as H0.
  destruct (Stream_enroll SN g) as [[u|e] g0]; [|contradiction].
  destruct (enroll_class m) as [Hc0 _].
  assert (Hphase : ns_phase false d (enroll m) = (enroll m, Ok tt)) by (unfold ns_phase; rewrite Hns; destruct (p_nd _); reflexivity).
  rewrite Hphase. clear Hphase.
  match goal with |- context [?f (map obj_of_stmt (d_stmts d)) (g0, ?k, ?n)] => set (li := f) end.
  pose proof (inner_loop_is_feed li _ stream_triple (fun mx => st_class mx <> QuadStream) (fun st => eq_refl)
                ltac:(intros s xs gx k0 ys [Hl|Hl]; destruct s as [|s1 [|s2 [|s3 [|s4 [|s5 s]]]]]; try discriminate Hl; reflexivity)
                (fun st gx mx HRx HPx => generic_stream_triple_is_model st gx mx HRx HPx)
                (fun st mx mx' r E HP => eq_ind_r (fun c => c <> QuadStream) HP (stream_triple_class _ _ _ _ E))
                (d_stmts d) Hok g0 (enroll m) [] (map obj_of_stmt (d_stmts d)) H0 ltac:(cbv beta; rewrite Hc0; exact Hc)) as H.
  change (carrier SN) with str in *.
  destruct (li (map obj_of_stmt (d_stmts d)) (g0, map obj_of_stmt (d_stmts d), [])) as [[[g2 k2] ys2]|rv [[g2 k2] ys2]|e [[g2 k2] ys2]];
    destruct (feed stream_triple (d_stmts d) (enroll m)) as [[m2 evs] ok]; destruct ok; try contradiction.
  - destruct H as (HR2 & -> & -> & _ & Hr). cbn [app].
    pose proof (finish_tie true g2 m2 (map obj_of_stmt (d_stmts d)) (map fmsg (emitted evs)) HR2) as Hf. unfold finish_gen in Hf. after_finish Hf;
      destruct (finish true m2) as [m3 fin]; destruct Hf as (H1 & _ & H3 & H4 & H5); try discriminate H4;
      (split; [exact H1|]; split; [rewrite emitted_app, map_app; exact H3|]; unfold ends; rewrite raised_app, Hr, H5; exact I).
  - destruct H as (HR2 & -> & -> & Hr). split; [exact HR2|]. split; [reflexivity|]. unfold ends. destruct (raised evs); [exact I | contradiction].
Qed.

Theorem source_quads_stream_frames_gen_is_model (data : list gobj) (d : sdata) (g : GStream) (m : stream) :
  Rg data d -> Forall stmt_ok (d_stmts d) -> gRs g m -> st_class m = QuadStream ->
  match GenericSerializeGen.quads_stream_frames_gen SN g data, Streams.quads_stream_frames d m with
  | (r, g', _, ys), (m', evs) => gRs g' m' /\ ys = map fmsg (emitted evs) /\ ends r evs
  end.
Proof.
  intros [Hns ->] Hok HR Hc.
  unfold GenericSerializeGen.quads_stream_frames_gen, Streams.quads_stream_frames. cbv zeta.
  pose proof (source_enroll_is_model E.Generic obj_of_term all_ok gput g m HR) as H0.
  destruct (Stream_enroll SN g) as [[u|e] g0]; [|contradiction].
  destruct (enroll_class m) as [Hc0 _].
  unfold ns_phase. rewrite Hns, (nd_of_Rs g0 (enroll m) H0).
  destruct (p_nd (so_params (st_opts (enroll m)))).
  - (* declarations asked of a generator: AttributeError, nothing written *)
    split; [exact H0|]. split; reflexivity.
  - match goal with |- context [?f (map obj_of_stmt (d_stmts d)) (g0, ?k, ?n)] => set (li := f) end.
    pose proof (inner_loop_is_feed li _ stream_quad (fun mx => st_class mx = QuadStream) (fun st => eq_refl)
                  ltac:(intros s xs gx k0 ys [Hl|Hl]; destruct s as [|s1 [|s2 [|s3 [|s4 [|s5 s]]]]]; try discriminate Hl; reflexivity)
                  (fun st gx mx HRx HPx => generic_stream_quad_is_model st gx mx HRx HPx)
                  (fun st mx mx' r E HP => eq_trans (stream_quad_class _ _ _ _ E) HP)
                  (d_stmts d) Hok g0 (enroll m) [] (map obj_of_stmt (d_stmts d)) H0 ltac:(cbv beta; rewrite Hc0; exact Hc)) as H.
    change (carrier SN) with str in *.
    destruct (li (map obj_of_stmt (d_stmts d)) (g0, map obj_of_stmt (d_stmts d), [])) as [[[g2 k2] ys2]|rv [[g2 k2] ys2]|e [[g2 k2] ys2]];
      destruct (feed stream_quad (d_stmts d) (enroll m)) as [[m2 evs] ok]; destruct ok; try contradiction.
    + destruct H as (HR2 & -> & -> & _ & Hr). cbn [app].
      pose proof (finish_tie false g2 m2 (map obj_of_stmt (d_stmts d)) (map fmsg (emitted evs)) HR2) as Hf. unfold finish_gen in Hf. after_finish Hf;
        destruct (finish false m2) as [m3 fin]; destruct Hf as (H1 & _ & H3 & H4 & H5); try discriminate H4;
        (split; [exact H1|]; split; [rewrite emitted_app, map_app; exact H3|]; unfold ends; rewrite raised_app, Hr, H5; exact I).
    + destruct H as (HR2 & -> & -> & Hr). split; [exact HR2|]. split; [reflexivity|]. unfold ends. destruct (raised evs); [exact I | contradiction].
Qed.

Theorem source_graphs_stream_frames_gen_is_model (data : list gobj) (d : sdata) (g : GStream) (m : stream) :
  Rg data d -> Forall quad_ok (d_stmts d) -> gRs g m -> st_class m = GraphStream ->
  match GenericSerializeGen.graphs_stream_frames_gen SN g data, Streams.graphs_stream_frames_generic d m with
  | (r, g', _, ys), (m', evs) => gRs g' m' /\ ys = map fmsg (emitted evs) /\ ends r evs
  end.
Proof.
  intros [Hns ->] Hok HR Hc.
  unfold GenericSerializeGen.graphs_stream_frames_gen, Streams.graphs_stream_frames_generic. cbv zeta.
  pose proof (source_enroll_is_model E.Generic obj_of_term all_ok gput g m HR) as H0.
  destruct (Stream_enroll SN g) as [[u|e] g0]; [|contradiction].
  destruct (enroll_class m) as [Hc0 _].
  unfold ns_phase. rewrite Hns, (nd_of_Rs g0 (enroll m) H0).
  destruct (p_nd (so_params (st_opts (enroll m)))).
  - split; [exact H0|]. split; reflexivity.
  - rewrite (source_split_to_graphs_is_model (d_stmts d) Hok).
    pose proof (split_runs_ok (d_stmts d) Hok None I) as Hruns.
    match goal with |- context [?f (map sink_of_run (split_runs (d_stmts d) None)) (g0, ?k, ?n)] => set (lg := f) end.
    assert (Hcons : forall r xs gx (k : list gobj) ys, run_ok r ->
               lg (sink_of_run r :: xs) (gx, k, ys) =
               let '(res, gx', _, ys1) := Stream_graph SN (obj_eqb SN) gs_spo gs_graph (obj_of_term (fst r)) (map (map obj_of_term) (snd r)) gx in
               match res with
               | Exn e => LRaise e (gx', k, ys ++ ys1)
               | Val _ => lg xs (gx', k, ys ++ ys1)
               end).
    { intros [gid ts] xs gx k0 ys Hr. unfold lg at 1. fold lg. unfold sink_of_run at 1. cbv beta iota.
      unfold GenericStatementSink_identifier, GenericStatementSink___iter__. cbv beta iota zeta.
      cbn [fst snd GenericStatementSink__store GenericStatementSink__identifier app].
      rewrite (items_of_triples ts Hr).
      change (Stream_graph SN (any_eqb SN) (GenericSerializeGen.TermEncoder_encode_spo SN) (GenericSerializeGen.TermEncoder_encode_graph SN)) with (Stream_graph SN (obj_eqb SN) gs_spo gs_graph).
      destruct (Stream_graph SN (obj_eqb SN) gs_spo gs_graph (obj_of_term gid) (map (map obj_of_term) ts) gx) as [[[[u2|e2] gx'] rest] ys1]; reflexivity. }
    pose proof (graph_loop_is_feed lg (fun st => eq_refl) Hcons _ Hruns true g0 (enroll m) [] (map obj_of_stmt (d_stmts d)) H0 ltac:(rewrite Hc0; exact Hc)) as H.
    change (carrier SN) with str in *.
    (* the model's result, with or without statements *)
    assert (Hm : let '(s2, evs2, ok) := feed_graphs_generic true (split_runs (d_stmts d) None) (enroll m) in
                 exists m' evs,
                   match d_stmts d with
                   | [] => let '(s3, fin) := finish false (enroll m) in (s3, Pull :: fin)
                   | _ => if ok then let '(s3, fin) := finish false s2 in (s3, evs2 ++ fin) else (s2, evs2)
                   end = (m', evs) /\
                   (if ok then let '(s3, fin) := finish false s2 in m' = s3 /\ emitted evs = emitted (evs2 ++ fin) /\ raised evs = raised (evs2 ++ fin)
                    else m' = s2 /\ evs = evs2)).
    { destruct (d_stmts d) as [|st rest] eqn:Ed.
      - cbn [split_runs feed_graphs_generic]. destruct (finish false (enroll m)) as [s3 fin]. exists s3, (Pull :: fin).
        split; [reflexivity|]. split; [reflexivity|]. split; reflexivity.
      - destruct (feed_graphs_generic true (split_runs (st :: rest) None) (enroll m)) as [[s2 evs2] ok]. destruct ok.
        + destruct (finish false s2) as [s3 fin]. exists s3, (evs2 ++ fin). split; [reflexivity|]. split; [reflexivity|]. split; reflexivity.
        + exists s2, evs2. split; [reflexivity|]. split; reflexivity. }
    destruct (lg (map sink_of_run (split_runs (d_stmts d) None)) (g0, map obj_of_stmt (d_stmts d), [])) as [[[g2 k2] ys2]|rv [[g2 k2] ys2]|e2 [[g2 k2] ys2]];
      destruct (feed_graphs_generic true (split_runs (d_stmts d) None) (enroll m)) as [[m2 evs2] ok]; destruct ok; try contradiction;
      destruct Hm as (m' & evs & Hmeq & Hrel).
    + assert (Hmodel : match d_stmts d with
                       | [] => let '(s3, fin) := finish false (enroll m) in (s3, Pull :: fin)
                       | _ :: _ => let '(s2, evs0, ok) := (m2, evs2, true) in if ok then let '(s3, fin) := finish false s2 in (s3, evs0 ++ fin) else (s2, evs0)
                       end = (m', evs)) by exact Hmeq.
      destruct H as (HR2 & -> & -> & Hr2). cbn [app].
      pose proof (finish_tie false g2 m2 (map obj_of_stmt (d_stmts d)) (map fmsg (emitted evs2)) HR2) as Hf. unfold finish_gen in Hf.
      replace (match d_stmts d with [] => let '(s3, fin) := finish false (enroll m) in (s3, Pull :: fin) | _ :: _ => let '(s3, fin) := finish false m2 in (s3, evs2 ++ fin) end)
        with (m', evs) by (rewrite <- Hmeq; destruct (d_stmts d); reflexivity).
      after_finish Hf; destruct (finish false m2) as [m3 fin]; destruct Hrel as (-> & He & Hrr); destruct Hf as (H1 & _ & H3 & H4 & H5); try discriminate H4;
        (split; [exact H1|]; split; [rewrite He, emitted_app, map_app; exact H3|]; unfold ends; rewrite Hrr, raised_app, Hr2, H5; exact I).
    + destruct H as (HR2 & -> & -> & Hr2). destruct Hrel as [-> ->].
      replace (match d_stmts d with [] => let '(s3, fin) := finish false (enroll m) in (s3, Pull :: fin) | _ :: _ => (m2, evs2) end) with (m2, evs2)
        by (rewrite <- Hmeq; destruct (d_stmts d); reflexivity).
      split; [exact HR2|]. split; [reflexivity|]. unfold ends. destruct (raised evs2); [exact I | contradiction].
Qed.

(* ------------------------------------------------------------------ stream_frames(stream, generator) *)
Theorem source_stream_frames_gen_is_model (data : list gobj) (d : sdata) (g : GStream) (m : stream) :
  Rg data d -> shape (st_class m) d -> gRs g m ->
  match GenericSerializeGen.stream_frames_gen SN g data, Streams.stream_frames d m with
  | (r, g', _, ys), (m', evs) => gRs g' m' /\ ys = map fmsg (emitted evs) /\ ends r evs
  end.
Proof.
  intros HRg Hsh HR. pose proof HR as (Ht & _). unfold GenericSerializeGen.stream_frames_gen, Streams.stream_frames. cbv zeta. rewrite Ht.
  destruct (st_class m) eqn:Ec; cbn [tag_of_class Stream_cls_eqb orb shape] in *.
  - pose proof (source_triples_stream_frames_gen_is_model data d g m HRg Hsh HR ltac:(rewrite Ec; discriminate)) as H.
    destruct (GenericSerializeGen.triples_stream_frames_gen SN g data) as [[[r g'] k'] ys]. destruct (Streams.triples_stream_frames d m) as [m' evs].
    destruct H as (H1 & H3 & H4). cbn [app]. destruct r; (split; [exact H1|]; split; [exact H3 | exact H4]).
  - pose proof (source_quads_stream_frames_gen_is_model data d g m HRg Hsh HR Ec) as H.
    destruct (GenericSerializeGen.quads_stream_frames_gen SN g data) as [[[r g'] k'] ys]. destruct (Streams.quads_stream_frames d m) as [m' evs].
    destruct H as (H1 & H3 & H4). cbn [app]. destruct r; (split; [exact H1|]; split; [exact H3 | exact H4]).
  - pose proof (source_graphs_stream_frames_gen_is_model data d g m HRg Hsh HR Ec) as H.
    destruct (GenericSerializeGen.graphs_stream_frames_gen SN g data) as [[[r g'] k'] ys]. destruct (Streams.graphs_stream_frames_generic d m) as [m' evs].
    destruct H as (H1 & H3 & H4). cbn [app]. destruct r; (split; [exact H1|]; split; [exact H3 | exact H4]).
Qed.

(* ------------------------------------------------------------------ flat_stream_to_frames(statements, options) *)
(* the sink flat_stream_to_frames makes of the first statement, to guess from *)
Lemma first_sink_related (first : list term) : stmt_ok first ->
  Rd (set_GenericStatementSink__store SN [obj_of_stmt first] (mk_GenericStatementSink [] [] (@O__DefaultGraph SN)))
     {| d_is_sink := true; d_namespaces := []; d_stmts := [first] |}.
Proof. intros _. split; [reflexivity|]. split; reflexivity. Qed.

Theorem source_flat_stream_to_frames_is_model (stmts : list (list term)) (gopts : option (SerializerOptions SN)) (o : option soptions) :
  Forall stmt_ok stmts -> opts_rel gopts o ->
  (forall first rest, stmts = first :: rest ->
     shape (entry_class o {| d_is_sink := true; d_namespaces := []; d_stmts := [first] |}) {| d_is_sink := false; d_namespaces := []; d_stmts := stmts |}) ->
  match GenericSerializeGen.flat_stream_to_frames SN (map obj_of_stmt stmts) gopts, Streams.flat_stream_to_frames o stmts with
  | (r, _, ys), (evs, _) => ys = map fmsg (emitted evs) /\ ends r evs
  end.
Proof.
  intros Hok Hopt Hsh. unfold GenericSerializeGen.flat_stream_to_frames, Streams.flat_stream_to_frames. cbv zeta.
  destruct stmts as [|first rest]; cbn [map]; [split; reflexivity|].
  specialize (Hsh first rest eq_refl). unfold entry_class in Hsh. cbn [d_stmts] in Hsh.
  pose proof (Forall_inv Hok) as Hok1.
  unfold GenericStatementSink___init__, GenericStatementSink_add. cbv beta iota zeta. cbn [app GenericStatementSink__store].
  set (k := set_GenericStatementSink__store SN [obj_of_stmt first] (mk_GenericStatementSink [] [] (@O__DefaultGraph SN))).
  set (d1 := {| d_is_sink := true; d_namespaces := []; d_stmts := [first] |}).
  pose proof (first_sink_related first Hok1) as HRd1. fold k d1 in HRd1.
  assert (Hok1' : Forall stmt_ok (d_stmts d1)) by (constructor; [exact Hok1 | constructor]).
  set (quads := negb (is_triples_sink [first])) in *.
  assert (Hgoal : forall go oo, Ro gput go oo -> preset_ok (so_maxn oo) (so_maxp oo) (so_maxd oo) = true ->
                    shape (guess_stream_class (so_logical oo) quads) {| d_is_sink := false; d_namespaces := []; d_stmts := first :: rest |} ->
                  match (let '(r, go', k') := GenericSerializeGen.guess_stream SN go k in
                         match r with
                         | Exn e => (Exn (gen_exn e), map obj_of_stmt rest, @nil (pbval str))
                         | Val g =>
                           let '(r2, g', _, ys) := GenericSerializeGen.stream_frames_gen SN g ([obj_of_stmt first] ++ map obj_of_stmt rest) in
                           match r2 with Exn e => (Exn (gen_exn e), map obj_of_stmt rest, [] ++ ys) | Val _ => (Val tt, map obj_of_stmt rest, [] ++ ys) end
                         end),
                        (match stream_new (guess_stream_class (so_logical oo) quads) Generic oo with
                         | Err e => ([Pull; Raise e], None)
                         | Ok s => let '(s', evs) := Streams.stream_frames {| d_is_sink := false; d_namespaces := []; d_stmts := first :: rest |} s in (evs, Some s')
                         end) with
                  | (r, _, ys), (evs, _) => ys = map fmsg (emitted evs) /\ ends r evs
                  end).
  { intros go oo HRo Hpre Hsh'.
    pose proof (source_guess_stream_is_model k d1 go oo HRd1 Hok1' HRo Hpre) as Hgs. cbn [d_stmts d1] in Hgs. fold quads in Hgs.
    destruct (GenericSerializeGen.guess_stream SN go k) as [[[g|e] go'] k']; destruct (stream_new (guess_stream_class (so_logical oo) quads) Generic oo) as [m|me] eqn:En; try contradiction.
    - destruct Hgs as (_ & _ & HR).
      pose proof (source_stream_frames_gen_is_model (obj_of_stmt first :: map obj_of_stmt rest) {| d_is_sink := false; d_namespaces := []; d_stmts := first :: rest |} g m
                    ltac:(split; reflexivity) ltac:(rewrite (class_of_new _ _ _ En); exact Hsh') HR) as H.
      cbn [app]. destruct (GenericSerializeGen.stream_frames_gen SN g (obj_of_stmt first :: map obj_of_stmt rest)) as [[[r2 g'] k2] ys].
      destruct (Streams.stream_frames _ m) as [m' evs]. destruct H as (_ & -> & Hends). destruct r2; (split; [reflexivity | exact Hends]).
    - split; [reflexivity | exact I]. }
  destruct gopts as [go|]; destruct o as [oo|]; cbn [opts_rel] in Hopt; try contradiction.
  - destruct Hopt as [HRo Hpre]. specialize (Hgoal go oo HRo Hpre Hsh).
    destruct (GenericSerializeGen.guess_stream SN go k) as [[[g|e] go'] k']; [|exact Hgoal].
    cbn [app] in Hgoal |- *. destruct (GenericSerializeGen.stream_frames_gen SN g (obj_of_stmt first :: map obj_of_stmt rest)) as [[[[u2|e2] g'] k2] ys]; exact Hgoal.
  - destruct (source_guess_options_is_model k d1 HRd1 Hok1') as (go & Hgo & HRo). cbn [d_stmts d1] in HRo. fold quads in HRo.
    specialize (Hgoal go (Streams.guess_options Generic quads) HRo eq_refl Hsh). rewrite Hgo. cbv beta iota.
    destruct (GenericSerializeGen.guess_stream SN go k) as [[[g|e] go'] k']; [|exact Hgoal].
    cbn [app] in Hgoal |- *. destruct (GenericSerializeGen.stream_frames_gen SN g (obj_of_stmt first :: map obj_of_stmt rest)) as [[[[u2|e2] g'] k2] ys]; exact Hgoal.
Qed.

Print Assumptions source_triples_stream_frames_gen_is_model.
Print Assumptions source_quads_stream_frames_gen_is_model.
Print Assumptions source_graphs_stream_frames_gen_is_model.
Print Assumptions source_stream_frames_gen_is_model.
Print Assumptions source_flat_stream_to_frames_is_model.
