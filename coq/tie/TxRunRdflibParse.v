(* TxRunRdflibParse.v -- the translated reader of the rdflib integration as one executable function, for the translation cross-check
   (harness/txcheck.py: gen_rdflib_reader_cases): the harness runs the REAL code (options_from_frame, then
   pyjelly.integrations.rdflib.parse.parse_jelly_flat(frames=.., options=..)) on a list of frames and this function on the same frames
   under vm_compute; every yielded object (rdflib terms inside Triple / Quad / Prefix tuples) and the class of the exception that
   ended the run must be equal.  This compares the unit's SPECIFICATION of rdflib's constructors (URIRef, BNode, and Literal with its
   language-tag check and whiteSpace-facet rewriting) with the real rdflib, and the translation of the rdflib adapters with the code. *)
From PJ.Model Require Import Base.
From PJ.Tie Require Import PyPrims StrN.
From PJ.Gen Require Import LookupDecGen OptionsGen DecodeGen RdflibParseGen.
Local Open Scope Z_scope.

Notation pobj := (obj SN).

Definition txp_reader (fms : list (pbval str)) : list (option pobj) * option exn :=
  match fms with
  | [] => ([], None)
  | f0 :: _ =>
    match options_from_frame SN f0 true with
    | Exn e => ([], Some e)
    | Val po =>
      let '(r, _, ys) := parse_jelly_flat SN fms po false in
      (ys, match r with Exn e => Some e | Val _ => None end)
    end
  end.
