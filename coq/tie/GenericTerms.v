(* GenericTerms.v -- the terms of the generic integration (generated/GenericSinkGen.v: the classes of
   pyjelly/integrations/generic/generic_sink.py as the inductive type obj, translated on every run) against the model's
   terms (model/Terms.v): the object of a term, of a decoded event; equality (the classes' __eq__, as generated) is the
   model's term_eqb. *)
From Coq Require Import Lia ZifyBool.
From PJ.Model Require Import Base Terms.
From PJ.Tie Require Import PyPrims StrN.
From PJ.Gen Require Import GenericSinkGen.
Local Open Scope Z_scope.

Notation gobj := (obj SN).

(* ------------------------------------------------------------------ values: the object of a term, of an event *)
Fixpoint obj_of_term (t : term) : gobj :=
  match t with
  | TIri s => (@O_IRI SN) s
  | TBnode l => (@O_BlankNode SN) l
  | TLit lex lang dt => (@O_Literal SN) lex lang dt
  | TTriple s p o => (@O_Triple SN) (obj_of_term s) (obj_of_term p) (obj_of_term o)
  | TDefault => (@O__DefaultGraph SN)
  | TOther => (@O_None SN)
  end.
Definition obj_of_event (e : event) : gobj :=
  match e with
  | ETriple s p o => (@O_Triple SN) (obj_of_term s) (obj_of_term p) (obj_of_term o)
  | EQuad s p o g => (@O_Quad SN) (obj_of_term s) (obj_of_term p) (obj_of_term o) (obj_of_term g)
  | EPrefix name iri => (@O_Prefix SN) name ((@O_IRI SN) iri)
  end.

Lemma opt_str_eqb (a b : option str) :
  match a, b with Some x_, Some y_ => str_eqb x_ y_ | None, None => true | _, _ => false end = opt_eqb str_eqb a b.
Proof. destruct a, b; reflexivity. Qed.

(* a == b on the objects of two terms is the model's equality of the terms *)
Theorem source_term_eq_is_model (a b : term) : obj_eqb SN (obj_of_term a) (obj_of_term b) = term_eqb a b.
Proof.
  revert b. induction a as [x|x|l1 g1 d1|s1 IHs p1 IHp o1 IHo| |]; intros [y|y|l2 g2 d2|s2 p2 o2| |]; cbn [obj_of_term obj_eqb term_eqb]; try reflexivity.
  rewrite IHs, IHp, IHo. reflexivity.
Qed.

(* nesting: the fuel the translated encode_spo asks for *)
Fixpoint term_depth (t : term) : nat :=
  match t with TTriple s p o => Datatypes.S (Nat.max (term_depth o) (Nat.max (term_depth p) (Nat.max (term_depth s) O))) | _ => O end.
Lemma obj_depth_of_term t : obj_depth SN (obj_of_term t) = term_depth t.
Proof. induction t; cbn [obj_of_term obj_depth term_depth]; try reflexivity. rewrite IHt1, IHt2, IHt3. reflexivity. Qed.

Print Assumptions source_term_eq_is_model.
