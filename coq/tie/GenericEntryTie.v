(* GenericEntryTie.v -- source tie for the entry points around the generic writer drivers (pyjelly/integrations/generic/serialize.py:
   the singledispatch stream_frames, guess_options, guess_stream, grouped_stream_to_frames; GenericStatementSink.is_triples_sink),
   translated on every run, against model/Streams.v (stream_frames, guess_options, guess_stream_class) and model/Api.v
   (api_grouped_generic: what the harness runs for that entry point). *)
From Coq Require Import Lia ZifyBool.
From PJ.Model Require Import Base Terms Encoder Streams Api.
From PJ.Model Require Lookup Encoder.
From PJ.Tie Require Import PyPrims StrN LookupEncTie OptionsTie EncodeTie EncodeStmtTie FlowsTie StreamsTie DecoderBase GenericTerms GenericSerializeTie GenericDriversTie.
From PJ.Gen Require Import LookupEncGen OptionsGen EncodeGen FlowsGen StreamsGen GenericSinkGen.
From PJ.Gen Require GenericSerializeGen.
Local Open Scope Z_scope.

Notation gobj := (obj SN).
Notation GSink := (GenericStatementSink SN).
Notation GStream := (@Stream SN gobj).
Notation gRs := (Rs E.Generic obj_of_term all_ok gput).
Notation fmsg := (frame_msg (rmsg gput)).

(* the statements a driver is given have the shape it reads: triples or quads for the flat drivers, quads for the graphs driver *)
Definition shape (c : stream_class) (d : sdata) : Prop :=
  match c with GraphStream => Forall quad_ok (d_stmts d) | _ => Forall stmt_ok (d_stmts d) end.

(* ------------------------------------------------------------------ GenericStatementSink.is_triples_sink *)
Theorem source_is_triples_sink_is_model (k : GSink) (d : sdata) : Rd k d -> Forall stmt_ok (d_stmts d) ->
  GenericStatementSink_is_triples_sink SN k = (Val (is_triples_sink (d_stmts d)), k).
Proof.
  intros (_ & Hstore & _) Hok. unfold GenericStatementSink_is_triples_sink. rewrite Hstore.
  destruct (d_stmts d) as [|st rest]; [reflexivity|].
  inversion Hok as [|? ? Hst _]; subst.
  destruct Hst as [Hl | Hl]; destruct st as [|a [|b [|c [|e [|x st]]]]]; try discriminate Hl; reflexivity.
Qed.

(* ------------------------------------------------------------------ stream_frames(stream, sink): the implementation registered for the class *)
Theorem source_stream_frames_is_model (k : GSink) (d : sdata) (g : GStream) (m : stream) :
  Rd k d -> shape (st_class m) d -> gRs g m ->
  match GenericSerializeGen.stream_frames SN g k, Streams.stream_frames d m with
  | (r, g', k', ys), (m', evs) => gRs g' m' /\ k' = k /\ ys = map fmsg (emitted evs) /\ ends r evs
  end.
Proof.
  intros HRd Hsh HR. pose proof HR as (Ht & _). unfold GenericSerializeGen.stream_frames, Streams.stream_frames. cbv zeta. rewrite Ht.
  destruct (st_class m) eqn:Ec; cbn [tag_of_class Stream_cls_eqb orb shape] in *.
  - pose proof (source_triples_stream_frames_is_model k d g m HRd Hsh HR ltac:(rewrite Ec; discriminate)) as H.
    destruct (GenericSerializeGen.triples_stream_frames SN g k) as [[[r g'] k'] ys]. destruct (Streams.triples_stream_frames d m) as [m' evs].
    destruct H as (H1 & H2 & H3 & H4). cbn [app]. destruct r; (split; [exact H1|]; split; [exact H2|]; split; [exact H3 | exact H4]).
  - pose proof (source_quads_stream_frames_is_model k d g m HRd Hsh HR Ec) as H.
    destruct (GenericSerializeGen.quads_stream_frames SN g k) as [[[r g'] k'] ys]. destruct (Streams.quads_stream_frames d m) as [m' evs].
    destruct H as (H1 & H2 & H3 & H4). cbn [app]. destruct r; (split; [exact H1|]; split; [exact H2|]; split; [exact H3 | exact H4]).
  - pose proof (source_graphs_stream_frames_is_model k d g m HRd Hsh HR Ec) as H.
    destruct (GenericSerializeGen.graphs_stream_frames SN g k) as [[[r g'] k'] ys]. destruct (Streams.graphs_stream_frames_generic d m) as [m' evs].
    destruct H as (H1 & H2 & H3 & H4). cbn [app]. destruct r; (split; [exact H1|]; split; [exact H2|]; split; [exact H3 | exact H4]).
Qed.

(* ------------------------------------------------------------------ guess_options(sink) *)
Theorem source_guess_options_is_model (k : GSink) (d : sdata) : Rd k d -> Forall stmt_ok (d_stmts d) ->
  exists go, GenericSerializeGen.guess_options SN k = (Val go, k) /\
             Ro gput go (Streams.guess_options Generic (negb (is_triples_sink (d_stmts d)))).
Proof.
  intros HRd Hok. unfold GenericSerializeGen.guess_options. rewrite (source_is_triples_sink_is_model k d HRd Hok).
  cbv beta iota zeta. rewrite source_params_version_is_model.
  change (LookupPreset___init__ 4000 150 32) with (LookupPreset___init__ (Z.of_N 4000) (Z.of_N 150) (Z.of_N 32)).
  rewrite source_preset_is_model. cbn [preset_ok]. unfold SerializerOptions___init__.
  eexists. split; [reflexivity|].
  unfold Ro, Streams.guess_options, default_params, params_obj, params_version.
  cbn [SerializerOptions_flow SerializerOptions_frame_size SerializerOptions_logical_type SerializerOptions_params SerializerOptions_lookup_preset
       so_flow so_frame_size so_logical so_params so_maxn so_maxp so_maxd p_gen p_star p_delimited p_nd p_name].
  split; [exact I|]. split; [reflexivity|]. split; [destruct (is_triples_sink (d_stmts d)); reflexivity|]. split; reflexivity.
Qed.

(* ------------------------------------------------------------------ guess_stream(options, sink) *)
Lemma mod10_is (l : N) : (Z.of_N l mod 10 =? 3) = (l mod 10 =? 3)%N.
Proof. pose proof (N2Z.inj_mod l 10) as H. change (Z.of_N 10) with 10 in H. rewrite <- H. destruct (l mod 10 =? 3)%N eqn:E; lia. Qed.

Theorem source_guess_stream_is_model (k : GSink) (d : sdata) (go : SerializerOptions SN) (o : soptions) :
  Rd k d -> Forall stmt_ok (d_stmts d) -> Ro gput go o -> preset_ok (so_maxn o) (so_maxp o) (so_maxd o) = true ->
  match GenericSerializeGen.guess_stream SN go k,
        stream_new (guess_stream_class (so_logical o) (negb (is_triples_sink (d_stmts d)))) Generic o with
  | (Val g, go', k'), Ok m => go' = go /\ k' = k /\ gRs g m
  | (Exn _, go', k'), Err _ => go' = go /\ k' = k
  | _, _ => False
  end.
Proof.
  intros HRd Hok HRo Hpre. pose proof HRo as (_ & _ & Hol & _ & Hpr).
  unfold GenericSerializeGen.guess_stream. cbn [Z.eqb]. rewrite (source_is_triples_sink_is_model k d HRd Hok). cbv beta iota zeta.
  rewrite Hol, mod10_is, Hpr. unfold guess_stream_class.
  destruct (source_term_encoder_init_is_model (so_maxn o) (so_maxp o) (so_maxd o)) as (genc & Hg & HRt).
  destruct (negb (so_logical o mod 10 =? 3)%N && negb (is_triples_sink (d_stmts d)))%bool; cbv beta iota zeta; rewrite Hg.
  - pose proof (source_stream_new_is_model E.Generic obj_of_term all_ok gput QuadStream o genc go Hpre HRt HRo) as H. cbn [ctor] in H.
    destruct (QuadStream___init__ SN genc (Some go)) as [g|e]; destruct (stream_new QuadStream Generic o) as [m|e']; try contradiction;
      [split; [reflexivity|]; split; [reflexivity | exact H] | split; reflexivity].
  - pose proof (source_stream_new_is_model E.Generic obj_of_term all_ok gput TripleStream o genc go Hpre HRt HRo) as H. cbn [ctor] in H.
    destruct (TripleStream___init__ SN genc (Some go)) as [g|e]; destruct (stream_new TripleStream Generic o) as [m|e']; try contradiction;
      [split; [reflexivity|]; split; [reflexivity | exact H] | split; reflexivity].
Qed.

(* ------------------------------------------------------------------ the model's drivers leave the class of the stream alone *)
Lemma feed_class (step : list term -> stream -> step_result) :
  (forall st m m' r, step st m = (m', r) -> st_class m' = st_class m) ->
  forall stmts m m' evs ok, feed step stmts m = (m', evs, ok) -> st_class m' = st_class m.
Proof.
  intros Hs. induction stmts as [|st stmts IH]; intros m m' evs ok; cbn [feed]; [intros [= <- _ _]; reflexivity|].
  destruct (step st m) as [m1 [fr|e]] eqn:E; pose proof (Hs _ _ _ _ E) as H1.
  - destruct (feed step stmts m1) as [[m2 evs2] ok2] eqn:Ef. intros [= <- _ _]. rewrite (IH _ _ _ _ Ef). exact H1.
  - intros [= <- _ _]. exact H1.
Qed.

Lemma finish_class b m m' fin : finish b m = (m', fin) -> st_class m' = st_class m.
Proof.
  unfold finish. destruct (if b then frame_from_graph (st_flow m) else frame_from_dataset (st_flow m)) as [fl1 fr1].
  destruct (to_stream_frame fl1) as [fl2 fr2]. intros [= <- _]. reflexivity.
Qed.

Lemma ns_phase_class always d m m' r : ns_phase always d m = (m', r) -> st_class m' = st_class m.
Proof.
  unfold ns_phase. destruct (p_nd _); [|intros [= <- _]; reflexivity].
  destruct (d_is_sink d); [intros H; exact (proj1 (declare_all_class _ _ _ _ H))|]. destruct always; intros [= <- _]; reflexivity.
Qed.

Lemma feed_graphs_generic_class : forall graphs first m m' evs ok, feed_graphs_generic first graphs m = (m', evs, ok) -> st_class m' = st_class m.
Proof.
  induction graphs as [|[g ts] graphs IH]; intros first m m' evs ok; cbn [feed_graphs_generic]; [intros [= <- _ _]; reflexivity|].
  destruct (stream_graph g ts m) as [[m1 evs1] ok1] eqn:Eg. destruct (stream_graph_ends _ _ _ _ _ _ Eg) as [H1 _]. destruct ok1.
  - destruct (feed_graphs_generic false graphs m1) as [[m2 evs2] ok2] eqn:Ef. intros [= <- _ _]. rewrite (IH _ _ _ _ _ Ef). exact H1.
  - intros [= <- _ _]. exact H1.
Qed.

Lemma stream_frames_class d m m' evs : Streams.stream_frames d m = (m', evs) -> st_class m' = st_class m.
Proof.
  unfold Streams.stream_frames. destruct (enroll_class m) as [He _].
  destruct (st_class m) eqn:Ec; unfold Streams.triples_stream_frames, Streams.quads_stream_frames, graphs_stream_frames_generic.
  - destruct (ns_phase false d (enroll m)) as [m1 [u|e]] eqn:En; pose proof (ns_phase_class _ _ _ _ _ En) as H1; [|intros [= <- _]; congruence].
    destruct (feed stream_triple (d_stmts d) m1) as [[m2 evs2] ok] eqn:Ef. pose proof (feed_class _ stream_triple_class _ _ _ _ _ Ef) as H2.
    destruct ok; [destruct (finish true m2) as [m3 fin] eqn:Efi; pose proof (finish_class _ _ _ _ Efi)|]; intros [= <- _]; congruence.
  - destruct (ns_phase true d (enroll m)) as [m1 [u|e]] eqn:En; pose proof (ns_phase_class _ _ _ _ _ En) as H1; [|intros [= <- _]; congruence].
    destruct (feed stream_quad (d_stmts d) m1) as [[m2 evs2] ok] eqn:Ef. pose proof (feed_class _ stream_quad_class _ _ _ _ _ Ef) as H2.
    destruct ok; [destruct (finish false m2) as [m3 fin] eqn:Efi; pose proof (finish_class _ _ _ _ Efi)|]; intros [= <- _]; congruence.
  - destruct (ns_phase true d (enroll m)) as [m1 [u|e]] eqn:En; pose proof (ns_phase_class _ _ _ _ _ En) as H1; [|intros [= <- _]; congruence].
    destruct (d_stmts d) as [|st rest].
    + destruct (finish false m1) as [m3 fin] eqn:Efi; pose proof (finish_class _ _ _ _ Efi). intros [= <- _]; congruence.
    + destruct (feed_graphs_generic true (split_runs (st :: rest) None) m1) as [[m2 evs2] ok] eqn:Ef. pose proof (feed_graphs_generic_class _ _ _ _ _ _ Ef) as H2.
      destruct ok; [destruct (finish false m2) as [m3 fin] eqn:Efi; pose proof (finish_class _ _ _ _ Efi)|]; intros [= <- _]; congruence.
Qed.

(* ------------------------------------------------------------------ grouped_stream_to_frames(sinks, options) *)
(* the loop once the stream exists: one stream_frames per sink, stopping at the first that raises *)
Section RestLoop.
Context {OPT : Type}.
Context (lp : list GSink -> list GSink * list (pbval str) * OPT * option GStream -> loopres unit (list GSink * list (pbval str) * OPT * option GStream)).
Context (H_nil : forall st, lp [] st = LContinue st).
Context (H_cons : forall k ks sg ys op g,
  lp (k :: ks) (sg, ys, op, Some g) =
  let '(r, g', _, ys1) := GenericSerializeGen.stream_frames SN g k in
  match r with
  | Exn e => LRaise e (sg, ys ++ ys1, op, Some g')
  | Val _ => lp ks (sg, ys ++ ys1, op, Some g')
  end).

Lemma rest_loop_is_grouped_frames (c : stream_class) : forall ks ds, Forall2 Rd ks ds -> Forall (shape c) ds ->
  forall g m sg ys op, gRs g m -> st_class m = c ->
  match lp ks (sg, ys, op, Some g), grouped_frames ds m with
  | LContinue (_, ys', _, _), (m', evs) => ys' = ys ++ map fmsg (emitted evs) /\ raised evs = None
  | LRaise _ (_, ys', _, _), (m', evs) => ys' = ys ++ map fmsg (emitted evs) /\ raised evs <> None
  | _, _ => False
  end.
Proof.
  induction 1 as [|k d ks ds HRd _ IH]; intros Hsh g m sg ys op HR Hc.
  - rewrite H_nil. cbn. split; [rewrite app_nil_r; reflexivity | reflexivity].
  - rewrite H_cons. cbn [grouped_frames].
    pose proof (source_stream_frames_is_model k d g m HRd ltac:(rewrite Hc; exact (Forall_inv Hsh)) HR) as Hstep.
    destruct (GenericSerializeGen.stream_frames SN g k) as [[[r g'] k'] ys1]. destruct (Streams.stream_frames d m) as [m1 evs1] eqn:Es.
    destruct Hstep as (HR1 & _ & -> & Hends). unfold ends in Hends.
    destruct r as [u|e]; destruct (raised evs1) eqn:Er; try contradiction.
    + specialize (IH (Forall_inv_tail Hsh) g' m1 sg (ys ++ map fmsg (emitted evs1)) op HR1 ltac:(rewrite (stream_frames_class _ _ _ _ Es); exact Hc)).
      destruct (lp ks (sg, ys ++ map fmsg (emitted evs1), op, Some g')) as [[[[sg' ys'] op'] st']|rv [[[sg' ys'] op'] st']|e [[[sg' ys'] op'] st']];
        destruct (grouped_frames ds m1) as [m2 evs2]; try contradiction.
      * destruct IH as [-> Hr2]. split; [rewrite emitted_app, map_app, app_assoc; reflexivity|]. rewrite raised_app, Er. exact Hr2.
      * destruct IH as [-> Hr2]. split; [rewrite emitted_app, map_app, app_assoc; reflexivity|]. rewrite raised_app, Er. exact Hr2.
    + split; [reflexivity|]. rewrite Er. discriminate.
Qed.
End RestLoop.

Lemma class_of_new c o s : stream_new c Generic o = Ok s -> st_class s = c.
Proof.
  unfold stream_new. destruct (negb _); [discriminate|]. destruct (match so_flow o with Some f => Ok f | None => infer_flow c o end); [|discriminate].
  cbn [bind]. destruct (negb _); [discriminate|]. intros [= <-]. reflexivity.
Qed.

Definition opts_rel (gopts : option (SerializerOptions SN)) (o : option soptions) : Prop :=
  match gopts, o with
  | Some go, Some oo => Ro gput go oo /\ preset_ok (so_maxn oo) (so_maxp oo) (so_maxd oo) = true
  | None, None => True
  | _, _ => False
  end.

(* the class of the stream the entry point creates (from the first sink and the options), as the model computes it *)
Definition entry_class (o : option soptions) (first : sdata) : stream_class :=
  let quads := negb (is_triples_sink (d_stmts first)) in
  guess_stream_class (so_logical (match o with Some x => x | None => Streams.guess_options Generic quads end)) quads.

Theorem source_grouped_stream_to_frames_is_model (ks : list GSink) (ds : list sdata) (gopts : option (SerializerOptions SN)) (o : option soptions) :
  Forall2 Rd ks ds -> Forall (fun d => Forall stmt_ok (d_stmts d)) ds -> opts_rel gopts o ->
  (forall first rest, ds = first :: rest -> Forall (shape (entry_class o first)) ds) ->
  match ds with
  | [] => GenericSerializeGen.grouped_stream_to_frames SN ks gopts = (Val tt, ks, [])
  | _ :: _ =>
    match GenericSerializeGen.grouped_stream_to_frames SN ks gopts, api_grouped_generic o ds with
    | (r, _, ys), Ok (m', evs) => ys = map fmsg (emitted evs) /\ ends r evs
    | (Exn _, _, ys), Err _ => ys = []
    | _, _ => False
    end
  end.
Proof.
  intros Hall Hoks Hopt Hsh. unfold GenericSerializeGen.grouped_stream_to_frames. cbv zeta.
  match goal with |- context [?f ks (ks, ?a0, gopts, ?b0)] => set (lp := f) end.
  destruct Hall as [|k d ks ds HRd Hall]; [reflexivity|].
  specialize (Hsh d ds eq_refl). unfold entry_class in Hsh. cbv zeta in Hsh.
  pose proof (Forall_inv Hoks) as Hok1.
  assert (Hcons : forall k0 ks0 sg ys op g,
            lp (k0 :: ks0) (sg, ys, op, Some g) =
            let '(r, g', _, ys1) := GenericSerializeGen.stream_frames SN g k0 in
            match r with
            | Exn e => LRaise e (sg, ys ++ ys1, op, Some g')
            | Val _ => lp ks0 (sg, ys ++ ys1, op, Some g')
            end).
  { intros k0 ks0 sg ys op g. unfold lp at 1. fold lp. cbv beta iota. cbn [negb].
    destruct (GenericSerializeGen.stream_frames SN g k0) as [[[r g'] k'] ys1]. destruct r; reflexivity. }
  (* the first sink: the options (given or guessed) and the stream *)
  unfold api_grouped_generic.
  set (quads := negb (is_triples_sink (d_stmts d))) in *.
  assert (Hcreate : exists go oo, Ro gput go oo /\ preset_ok (so_maxn oo) (so_maxp oo) (so_maxd oo) = true /\
            oo = match o with Some x => x | None => Streams.guess_options Generic quads end /\
            lp (k :: ks) (k :: ks, [], gopts, None) =
            match GenericSerializeGen.guess_stream SN go k with
            | (Val g, _, _) => lp (k :: ks) (k :: ks, [], Some go, Some g)
            | (Exn e, _, _) => LRaise e (k :: ks, [], Some go, None)
            end).
  { destruct gopts as [go|]; destruct o as [oo|]; cbn [opts_rel] in Hopt; try contradiction.
    - destruct Hopt as [HRo Hpre]. exists go, oo. split; [exact HRo|]. split; [exact Hpre|]. split; [reflexivity|].
      unfold lp at 1. fold lp. cbv beta iota. cbn [negb].
      destruct (GenericSerializeGen.guess_stream SN go k) as [[[g|e] go'] k'] eqn:Eg.
      + pose proof (source_guess_stream_is_model k d go oo HRd Hok1 HRo Hpre) as H. rewrite Eg in H.
        destruct (stream_new _ Generic oo); [|contradiction]. destruct H as (-> & -> & _). rewrite Hcons.
        destruct (GenericSerializeGen.stream_frames SN g k) as [[[r g'] k2] ys1]. destruct r; reflexivity.
      + pose proof (source_guess_stream_is_model k d go oo HRd Hok1 HRo Hpre) as H. rewrite Eg in H.
        destruct (stream_new _ Generic oo); [contradiction|]. destruct H as (-> & ->). reflexivity.
    - destruct (source_guess_options_is_model k d HRd Hok1) as (go & Hgo & HRo).
      exists go, (Streams.guess_options Generic quads). split; [exact HRo|]. split; [reflexivity|]. split; [reflexivity|].
      unfold lp at 1. fold lp. cbv beta iota. cbn [negb]. rewrite Hgo. cbv beta iota.
      destruct (GenericSerializeGen.guess_stream SN go k) as [[[g|e] go'] k'] eqn:Eg.
      + pose proof (source_guess_stream_is_model k d go _ HRd Hok1 HRo eq_refl) as H. rewrite Eg in H.
        destruct (stream_new _ Generic _); [|contradiction]. destruct H as (-> & -> & _). rewrite Hcons.
        destruct (GenericSerializeGen.stream_frames SN g k) as [[[r g'] k2] ys1]. destruct r; reflexivity.
      + pose proof (source_guess_stream_is_model k d go _ HRd Hok1 HRo eq_refl) as H. rewrite Eg in H.
        destruct (stream_new _ Generic _); [contradiction|]. destruct H as (-> & ->). reflexivity. }
  destruct Hcreate as (go & oo & HRo & Hpre & Hoo & Hfirst). rewrite Hfirst. clear Hfirst. rewrite <- Hoo in *. clear Hoo.
  pose proof (source_guess_stream_is_model k d go oo HRd Hok1 HRo Hpre) as Hgs. fold quads in Hgs.
  destruct (GenericSerializeGen.guess_stream SN go k) as [[[g|e] go'] k']; destruct (stream_new (guess_stream_class (so_logical oo) quads) Generic oo) as [m|me] eqn:En;
    try contradiction; cbn [bind].
  - destruct Hgs as (_ & _ & HR).
    pose proof (class_of_new _ _ _ En) as Hc.
    pose proof (rest_loop_is_grouped_frames lp ltac:(intros st; reflexivity) Hcons _ (k :: ks) (d :: ds) (Forall2_cons _ _ HRd Hall) Hsh g m (k :: ks) [] (Some go) HR Hc) as H.
    change (carrier SN) with str in *.
    destruct (lp (k :: ks) (k :: ks, [], Some go, Some g)) as [[[[sg' ys'] op'] st']|rv [[[sg' ys'] op'] st']|e [[[sg' ys'] op'] st']];
      destruct (grouped_frames (d :: ds) m) as [m2 evs2]; try contradiction.
    + destruct H as [-> Hr]. split; [reflexivity|]. unfold ends. rewrite Hr. exact I.
    + destruct H as [-> Hr]. split; [reflexivity|]. unfold ends. destruct (raised evs2); [exact I | contradiction].
  - reflexivity.
Qed.

Print Assumptions source_is_triples_sink_is_model.
Print Assumptions source_stream_frames_is_model.
Print Assumptions source_guess_options_is_model.
Print Assumptions source_guess_stream_is_model.
Print Assumptions source_grouped_stream_to_frames_is_model.
