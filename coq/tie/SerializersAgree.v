(* SerializersAgree.v -- C15, third clause, on translated source: "both integrations' serializers, given corresponding data and the
   same options, produce byte-identical streams".  The translated triples driver of the generic integration over a
   GenericStatementSink and the translated triples driver of the rdflib integration over a Graph holding the corresponding statements
   and bindings, on streams made from the same options, yield THE SAME LIST OF MESSAGE OBJECTS (hence the same bytes under any
   serialisation of them) and end the same way.  Composition of GenericDriversTie / RdflibDriversTie (each driver is the model's) and
   the model's whole-run twin theorem (proofs/TwinRun.v: an rdflib run is, event for event, the run of its generic twin). *)
From Coq Require Import Lia ZifyBool.
From PJ.Model Require Import Base Terms Encoder Streams Decoder Spec Api.
From PJ.Proofs Require Import AgreeProofs EncStream EncRdflib EncRdflibQuads TwinRun.
From PJ.Tie Require Import PyPrims StrN OptionsTie EncodeTie EncodeStmtTie FlowsTie StreamsTie StmtLayout.
From PJ.Tie Require GenericTerms GenericSerializeTie GenericDriversTie RdflibSerializeTie RdflibDriversTie.
From PJ.Gen Require GenericSinkGen GenericSerializeGen RdflibSerializeGen.
Local Open Scope Z_scope.

Module GW := GenericSerializeGen.
Module RW := RdflibSerializeGen.
Module GD := GenericDriversTie.
Module RD := RdflibDriversTie.

Lemma class_not_quad o s : stream_new TripleStream Rdflib o = Ok s -> st_class s <> QuadStream.
Proof.
  unfold stream_new. destruct (negb _); [discriminate|]. destruct (match so_flow o with Some f => Ok f | None => infer_flow TripleStream o end); [|discriminate].
  cbn [bind]. destruct (negb _); [discriminate|]. intros H; injection H as <-. discriminate.
Qed.
Lemma class_not_quad_g o s : stream_new TripleStream Generic o = Ok s -> st_class s <> QuadStream.
Proof.
  unfold stream_new. destruct (negb _); [discriminate|]. destruct (match so_flow o with Some f => Ok f | None => infer_flow TripleStream o end); [|discriminate].
  cbn [bind]. destruct (negb _); [discriminate|]. intros H; injection H as <-. discriminate.
Qed.

Theorem C15_source_serializers_agree_triples :
  forall (o : soptions) (sr sg : stream) (gs : GD.GStream) (rs : RD.RStream) (kg : GenericSinkGen.GenericStatementSink SN) (kr : RW.Graph SN) (d : rdata),
    stream_new TripleStream Rdflib o = Ok sr -> stream_new TripleStream Generic o = Ok sg ->
    GD.gRs gs sg -> RD.rRs rs sr -> GD.Rd kg (sdata_of d) -> RD.RGr kr d ->
    Forall GD.stmt_ok (rd_stmts d) -> RD.stmts_ok (rd_stmts d) -> stmts_rdf11 (rd_stmts d) = true ->
    match GW.triples_stream_frames SN gs kg, RW.triples_stream_frames SN rs kr with
    | (r1, _, _, ys1), (r2, _, _, ys2) =>
      ys1 = ys2 /\ (match r1, r2 with Val _, Val _ => True | Exn _, Exn _ => True | _, _ => False end)
    end.
Proof.
  intros o sr sg gs rs kg kr d Hr Hg HRg HRr HRd HGr Hshape Hok H11.
  assert (Hk : rd_kind d <> RDataset) by (destruct HGr as (Hkd & _); rewrite Hkd; discriminate).
  pose proof (GD.source_triples_stream_frames_is_model kg (sdata_of d) gs sg HRd Hshape HRg (class_not_quad_g _ _ Hg)) as H1.
  pose proof (RD.rdflib_triples_stream_frames_is_model kr d rs sr HGr Hok HRr (class_not_quad _ _ Hr)) as H2.
  pose proof (same_options_same_frames_triples o sr sg d Hr Hg Hk H11) as Hsame.
  destruct (GW.triples_stream_frames SN gs kg) as [[[r1 g1] k1] ys1]. destruct (RW.triples_stream_frames SN rs kr) as [[[r2 g2] k2] ys2].
  destruct (triples_stream_frames (sdata_of d) sg) as [mg evg]. destruct (rdf_triples_stream_frames d sr) as [mr evr].
  cbn [snd] in Hsame. subst evg.
  destruct H1 as (_ & _ & -> & He1). destruct H2 as (_ & _ & -> & He2). split; [reflexivity|].
  unfold GD.ends in He1. unfold RD.ends in He2. destruct r1, r2, (raised evr); try contradiction; exact I.
Qed.

Lemma class_quad o ig s : stream_new QuadStream ig o = Ok s -> st_class s = QuadStream.
Proof.
  unfold stream_new. destruct (negb _); [discriminate|]. destruct (match so_flow o with Some f => Ok f | None => infer_flow QuadStream o end); [|discriminate].
  cbn [bind]. destruct (negb _); [discriminate|]. intros H; injection H as <-. reflexivity.
Qed.

(* QUADS: a Dataset's quads() through the rdflib quads driver, ending normally, and the corresponding quads (TwinRun.sdata_inv: the
   default graph's IRI read as the generic DefaultGraph) held by a GenericStatementSink through the generic quads driver *)
Theorem C15_source_serializers_agree_quads :
  forall (o : soptions) (sr sg : stream) (gs : GD.GStream) (rs rs' : RD.RStream) (kg : GenericSinkGen.GenericStatementSink SN) (kr kr' : RW.Dataset SN) (d : rdata)
         (ys2 : list (pbval str)),
    stream_new QuadStream Rdflib o = Ok sr -> stream_new QuadStream Generic o = Ok sg ->
    GD.gRs gs sg -> RD.rRs rs sr -> GD.Rd kg (sdata_inv d) -> RD.RDs kr d ->
    Forall GD.stmt_ok (map quad_inv (rd_stmts d)) -> RD.stmts_ok (rd_stmts d) -> forallb spo_rdf11 (rd_stmts d) = true ->
    RW.quads_stream_frames SN rs kr = (Val tt, rs', kr', ys2) ->
    match GW.quads_stream_frames SN gs kg with
    | (r1, _, _, ys1) => ys1 = ys2 /\ match r1 with Val _ => True | Exn _ => False end
    end.
Proof.
  intros o sr sg gs rs rs' kg kr kr' d ys2 Hr Hg HRg HRr HRd HDs Hshape Hok H11 Hrun.
  pose proof (GD.source_quads_stream_frames_is_model kg (sdata_inv d) gs sg HRd Hshape HRg (class_quad _ _ _ Hg)) as H1.
  pose proof (RD.rdflib_quads_stream_frames_is_model kr d rs sr HDs Hok HRr (class_quad _ _ _ Hr)) as H2. rewrite Hrun in H2.
  destruct (rdf_quads_stream_frames d sr) as [mr evr] eqn:Er. destruct H2 as (_ & _ & -> & He2).
  assert (Hraise : raised evr = None) by (unfold RD.ends in He2; destruct (raised evr); [contradiction | reflexivity]).
  pose proof (same_options_same_frames_quads o sr mr sg d evr Hr Hg H11 Er Hraise) as Hsame.
  destruct (GW.quads_stream_frames SN gs kg) as [[[r1 g1] k1] ys1]. destruct (quads_stream_frames (sdata_inv d) sg) as [mg evg].
  cbn [snd] in Hsame. subst evg. destruct H1 as (_ & _ & -> & He1). split; [reflexivity|].
  unfold GD.ends in He1. rewrite Hraise in He1. destruct r1; [exact I | contradiction].
Qed.

Print Assumptions C15_source_serializers_agree_triples.
Print Assumptions C15_source_serializers_agree_quads.
