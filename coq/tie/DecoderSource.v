(* DecoderSource.v -- clauses of C16 and C13 stated directly about the translated Decoder class
   (generated/DecodeGen.v, from pyjelly/parse/decode.py on every run), with NO model in the statement and for ANY adapter
   (the adapter's methods are section parameters with no assumption on them) and any string structure:
   what the reader refuses, it refuses whatever the integration. *)
From Coq Require Import Lia ZifyBool.
From PJ.Tie Require Import PyPrims.
From PJ.Gen Require Import LookupDecGen OptionsGen DecodeGen.
Local Open Scope Z_scope.

Section AnyAdapter.
Context (S : strops) {T A : Type}.
Notation K := (carrier S).
Context (o_options : A -> ParserOptions S)
        (o_iri : K -> A -> outcome T * A) (o_default_graph : A -> outcome T * A) (o_bnode : K -> A -> outcome T * A)
        (o_literal : K -> option K -> option K -> A -> outcome T * A)
        (o_triple o_quad : list T -> A -> outcome T * A) (o_graph_start : T -> A -> outcome T * A)
        (o_graph_end : A -> outcome T * A) (o_namespace : K -> T -> A -> outcome T * A) (o_quoted : list T -> A -> outcome T * A).
Notation Dec := (@Decoder S T A).
Notation g_literal := (Decoder_decode_literal S o_literal).
Notation g_quoted_open := (Decoder_decode_quoted_triple_open S o_quoted).
Notation g_term_fuel := (Decoder_decode_term_fuel S o_iri o_default_graph o_bnode o_literal o_quoted).
Notation g_row := (Decoder_decode_row S o_options o_iri o_default_graph o_bnode o_literal o_triple o_quad o_graph_start o_graph_end o_namespace o_quoted).
Notation g_iter_rows := (Decoder_iter_rows S o_options o_iri o_default_graph o_bnode o_literal o_triple o_quad o_graph_start o_graph_end o_namespace o_quoted).
Notation g_triple := (Decoder_decode_triple S o_iri o_default_graph o_bnode o_literal o_triple o_quoted).
Notation g_validate := (Decoder_validate_stream_options S o_options).

Definition g_s := ["s_iri"; "s_bnode"; "s_literal"; "s_triple_term"]%string.
Definition g_p := ["p_iri"; "p_bnode"; "p_literal"; "p_triple_term"]%string.
Definition g_o := ["o_iri"; "o_bnode"; "o_literal"; "o_triple_term"]%string.
Definition g_rows := ["options"; "triple"; "quad"; "graph_start"; "graph_end"; "namespace"; "name"; "prefix"; "datatype"]%string.

(* a datatype reference while the datatype table is disabled: refused, nothing changed, the adapter not called *)
Theorem C16_source_datatype_while_disabled (literal : pbval K) (d : Dec) :
  s_is_empty S (msg_str (s_empty S) "langtag" literal) = true -> msg_has "datatype" literal = true ->
  LookupDecoder_lookup_size (Decoder_datatypes S d) = 0 ->
  g_literal literal d = (Exn JellyConformanceError, d).
Proof.
  intros Hl Hh Hz. unfold Decoder_decode_literal. cbv zeta. rewrite Hl, Hh, Hz. reflexivity.
Qed.

(* datatype id 0 is never a reference *)
Theorem C16_source_datatype_zero (literal : pbval K) (d : Dec) :
  s_is_empty S (msg_str (s_empty S) "langtag" literal) = true -> msg_has "datatype" literal = true -> msg_int "datatype" literal = 0 ->
  fst (g_literal literal d) = Exn JellyConformanceError.
Proof.
  intros Hl Hh Hi. unfold Decoder_decode_literal. cbv zeta. rewrite Hl, Hh, Hi. cbn [negb].
  destruct (negb (negb (LookupDecoder_lookup_size (Decoder_datatypes S d) =? 0))); [reflexivity|].
  unfold LookupDecoder_decode_datatype_term_index. reflexivity.
Qed.

(* a quoted triple with a slot left out ("repeated"): refused whatever the slots before it decode to *)
Theorem C16_source_quoted_slot_missing (rec : pbval K -> Dec -> outcome T * Dec) (triple : pbval K) (d : Dec) :
  msg_which g_s triple = None \/ msg_which g_p triple = None \/ msg_which g_o triple = None ->
  exists e d', g_quoted_open rec triple d = (Exn e, d').
Proof.
  intros H. unfold Decoder_decode_quoted_triple_open. cbv zeta.
  change ["s_iri"%string; "s_bnode"%string; "s_literal"%string; "s_triple_term"%string] with g_s.
  change ["p_iri"%string; "p_bnode"%string; "p_literal"%string; "p_triple_term"%string] with g_p.
  change ["o_iri"%string; "o_bnode"%string; "o_literal"%string; "o_triple_term"%string] with g_o.
  destruct (msg_which g_s triple) as [f1|]; [|eauto].
  destruct (msg_field f1 triple) as [v1|]; [|eauto].
  destruct (rec v1 d) as [[x1|e1] d1]; [|eauto].
  destruct (msg_which g_p triple) as [f2|]; [|eauto].
  destruct (msg_field f2 triple) as [v2|]; [|eauto].
  destruct (rec v2 d1) as [[x2|e2] d2]; [|eauto].
  destruct (msg_which g_o triple) as [f3|]; [|eauto].
  destruct H as [H|[H|H]]; discriminate.
Qed.

(* a term of a kind the decoder has no handler for (an int, a row message, ..): TypeError *)
Theorem C16_source_unknown_term_kind fuel (term : pbval K) (d : Dec) :
  ~ In (pb_kind term) ["RdfIri"; "str"; "RdfLiteral"; "RdfDefaultGraph"; "RdfTriple"]%string ->
  g_term_fuel (Datatypes.S fuel) term d = (Exn TypeError, d).
Proof.
  intros H. cbn [Decoder_decode_term_fuel].
  repeat match goal with |- context [String.eqb (pb_kind term) ?s] =>
    let E := fresh "E" in destruct (String.eqb (pb_kind term) s) eqn:E; [apply String.eqb_eq in E; exfalso; apply H; rewrite E; cbn; tauto|] end.
  reflexivity.
Qed.

(* a row of no known kind: TypeError *)
Theorem C16_source_unknown_row_kind (row : pbval K) (d : Dec) :
  ~ In (pb_kind row) ["RdfStreamOptions"; "RdfPrefixEntry"; "RdfNameEntry"; "RdfDatatypeEntry"; "RdfTriple"; "RdfQuad"; "RdfGraphStart";
                      "RdfGraphEnd"; "RdfNamespaceDeclaration"]%string ->
  g_row row d = (Exn TypeError, d).
Proof.
  intros H. unfold Decoder_decode_row.
  repeat match goal with |- context [String.eqb (pb_kind row) ?s] =>
    let E := fresh "E" in destruct (String.eqb (pb_kind row) s) eqn:E; [apply String.eqb_eq in E; exfalso; apply H; rewrite E; cbn; tauto|] end.
  reflexivity.
Qed.

(* a frame whose first row has nothing set: TypeError before anything is yielded or changed *)
Theorem C16_source_unset_row (fm owner : pbval K) (rest : list (pbval K)) (d : Dec) :
  msg_rep "rows" fm = owner :: rest -> msg_which g_rows owner = None ->
  g_iter_rows fm d = (Exn TypeError, d, []).
Proof.
  intros Hr Hw. unfold Decoder_iter_rows. cbv zeta. rewrite Hr.
  change ["options"%string; "triple"%string; "quad"%string; "graph_start"%string; "graph_end"%string; "namespace"%string; "name"%string; "prefix"%string; "datatype"%string] with g_rows.
  rewrite Hw. reflexivity.
Qed.

(* a statement that leaves its subject out when nothing was decoded before: KeyError (no term is made up) *)
Theorem C16_source_repeated_without_previous (triple : pbval K) (d : Dec) :
  msg_which g_s triple = None -> Decoder_repeated_terms S d = [] ->
  g_triple triple d = (Exn KeyError, d).
Proof.
  intros Hw Hr. unfold Decoder_decode_triple. cbv zeta.
  change ["s_iri"%string; "s_bnode"%string; "s_literal"%string; "s_triple_term"%string] with g_s.
  rewrite Hw, Hr. reflexivity.
Qed.

(* C13: a stream options row that names another physical type than the one the parser was set up with: AssertionError *)
Theorem C13_source_reader_checks_physical_type (options : pbval K) (d : Dec) :
  StreamTypes_physical_type (ParserOptions_stream_types (o_options (Decoder_adapter S d))) <> msg_int "physical_type" options ->
  g_validate options d = (Exn AssertionError, d).
Proof.
  intros H. unfold Decoder_validate_stream_options. cbv zeta.
  destruct (_ =? _) eqn:E; [apply Z.eqb_eq in E; contradiction | reflexivity].
Qed.

(* C13: ... or a later version than the one the parser was told: AssertionError *)
Theorem C13_source_reader_checks_version (options : pbval K) (d : Dec) :
  StreamParameters_version (ParserOptions_params (o_options (Decoder_adapter S d))) < msg_int "version" options ->
  fst (g_validate options d) = Exn AssertionError.
Proof.
  intros H. unfold Decoder_validate_stream_options. cbv zeta.
  repeat match goal with |- context [if ?c then _ else _] => let E := fresh "E" in destruct c eqn:E; try reflexivity end. lia.
Qed.

End AnyAdapter.

Print Assumptions C16_source_datatype_while_disabled.
Print Assumptions C16_source_datatype_zero.
Print Assumptions C16_source_quoted_slot_missing.
Print Assumptions C16_source_unknown_term_kind.
Print Assumptions C16_source_unknown_row_kind.
Print Assumptions C16_source_unset_row.
Print Assumptions C16_source_repeated_without_previous.
Print Assumptions C13_source_reader_checks_physical_type.
Print Assumptions C13_source_reader_checks_version.
