(* C05Source.v -- property C05 stated and proved about the TRANSLATED SOURCE, with no model in the statement:
   a LookupEncoder and a LookupDecoder as translated from pyjelly/serialize/lookup.py and
   pyjelly/parse/lookup.py on this run, coupled the way a writer and a reader are coupled by the wire
   (an entry id the writer returns is assigned on the reader; the term id the writer returns is resolved by
   the reader).  For every rule (name / prefix with the empty prefix / datatype), every table size 1..4096
   and every finite history of keys, no call raises, every use resolves to the key the writer meant, and
   every id lies in [0, size].
   Proof: the tie theorems (translated source = model, LookupEncTie / LookupDecTie) composed with the
   model's mirror theorem (proofs/MirrorRun.lk_use_ok). *)
From Coq Require Import Lia ZifyBool.
From PJ.Model Require Import Base Api.
From PJ.Model Require Lookup.
From PJ.Proofs Require Import Mirror MirrorRun.
From PJ.Tie Require Import PyPrims StrN LookupEncTie LookupDecTie.
From PJ.Gen Require Import LookupEncGen LookupDecGen.
Local Open Scope Z_scope.

Record sobs := { so_entry : option Z; so_term : Z; so_resolved : str }.

(* one use of a key through the translated writer and reader *)
Definition src_use (rule : lk_rule) (k : str) (ge : LookupEncoder SN) (gd : LookupDecoder SN)
  : option (LookupEncoder SN * LookupDecoder SN * sobs) :=
  match LookupEncoder_encode_entry_index SN k ge with
  | (Exn _, _) => None
  | (Val oe, ge1) =>
    match (match oe with Some id => LookupDecoder_assign_entry SN id k gd | None => (Val tt, gd) end) with
    | (Exn _, _) => None
    | (Val _, gd1) =>
      match (match rule with
             | LkName => LookupEncoder_encode_name_term_index SN k ge1
             | LkPrefix => LookupEncoder_encode_prefix_term_index SN k ge1
             | LkDatatype => LookupEncoder_encode_datatype_term_index SN k ge1
             end) with
      | (Exn _, _) => None
      | (Val ti, ge2) =>
        match (match rule with
               | LkName => LookupDecoder_decode_name_term_index SN ti gd1
               | LkPrefix => LookupDecoder_decode_prefix_term_index SN ti gd1
               | LkDatatype =>
                 let '(r, d) := LookupDecoder_decode_datatype_term_index SN ti gd1 in
                 (match r with Val (Some v) => Val v | Val None => Exn ValueError | Exn e => Exn e end, d)
               end) with
        | (Exn _, _) => None
        | (Val v, gd2) => Some (ge2, gd2, {| so_entry := oe; so_term := ti; so_resolved := v |})
        end
      end
    end
  end.

Fixpoint src_run (rule : lk_rule) (keys : list str) (ge : LookupEncoder SN) (gd : LookupDecoder SN) : list (option sobs) :=
  match keys with
  | [] => []
  | k :: rest =>
    match src_use rule k ge gd with
    | None => [None]
    | Some (ge', gd', o) => Some o :: src_run rule rest ge' gd'
    end
  end.

Definition sobs_ok (size : N) (k : str) (o : sobs) : Prop :=
  so_resolved o = k /\ 0 <= so_term o <= Z.of_N size /\
  match so_entry o with Some id => 0 <= id <= Z.of_N size | None => True end.

Ltac norm := change (carrier SN) with str in *; change (s_eqb SN) with str_eqb in *;
             change (s_is_empty SN) with (@is_nil N) in *; change (s_empty SN) with (@nil N) in *.

Notation Re := (Re SN).
Notation Rd := (Rd SN).

Lemma src_use_ok (rule : lk_rule) (k : str) ge gd (e : @Lookup.lenc str) (d : @Lookup.ldec str) :
  Re ge e -> Rd gd d -> SInv e d ->
  exists ge' gd' o e' d', src_use rule k ge gd = Some (ge', gd', o) /\ Re ge' e' /\ Rd gd' d' /\ SInv e' d' /\
                          Lookup.l_max (Lookup.e_lookup e') = Lookup.l_max (Lookup.e_lookup e) /\ sobs_ok (Lookup.l_max (Lookup.e_lookup e)) k o.
Proof.
  intros HRe HRd HI.
  destruct (lk_use_ok rule k e d HI) as (e' & d' & o & Huse & HI' & Hmax & Hok).
  unfold lk_use in Huse. unfold src_use.
  pose proof (tie_encode_entry_index SN k ge e HRe) as H1. norm.
  destruct (Lookup.encode_entry_index str_eqb k e) as [[e1 oe]|]; [|discriminate].
  destruct (LookupEncoder_encode_entry_index SN k ge) as [[r|ex] ge1]; [|contradiction].
  destruct H1 as [-> HRe1].
  (* the entry, if any, on the reader *)
  assert (H2 : exists gd1 d1, (match zo oe with Some id => LookupDecoder_assign_entry SN id k gd | None => (Val tt, gd) end) = (Val tt, gd1) /\
                              (match oe with Some id => Lookup.assign_entry id k d | None => Some d end) = Some d1 /\ Rd gd1 d1).
  { destruct oe as [id|]; cbn [zo option_map].
    - pose proof (tie_assign_entry SN id k gd d HRd) as H. norm.
      destruct (Lookup.assign_entry id k d) as [d1|]; [|discriminate].
      destruct (LookupDecoder_assign_entry SN (Z.of_N id) k gd) as [[[]|ex] gd1]; [|contradiction].
      exists gd1, d1. split; [reflexivity|]. split; [reflexivity | exact H].
    - exists gd, d. split; [reflexivity|]. split; [reflexivity | exact HRd]. }
  destruct H2 as (gd1 & d1 & -> & Hd1 & HRd1). rewrite Hd1 in Huse.
  destruct rule.
  - (* name *)
    pose proof (tie_encode_name_term_index SN k ge1 e1 HRe1) as H3. norm.
    destruct (Lookup.encode_name_term_index str_eqb k e1) as [[e2 ti]|]; [|discriminate].
    destruct (LookupEncoder_encode_name_term_index SN k ge1) as [[tz|ex] ge2]; [|contradiction].
    destruct H3 as [-> HRe2].
    pose proof (tie_decode_name_term_index SN ti gd1 d1 HRd1) as H4. norm.
    destruct (Lookup.decode_name_term_index ti d1) as [[d2 v]|].
    + destruct (LookupDecoder_decode_name_term_index SN (Z.of_N ti) gd1) as [[gv|ex] gd2]; [|contradiction].
      destruct H4 as [-> HRd2].
      injection Huse as <- <- <-.
      exists ge2, gd2, {| so_entry := zo oe; so_term := Z.of_N ti; so_resolved := v |}, e2, d2.
      split; [reflexivity|]. split; [exact HRe2|]. split; [exact HRd2|]. split; [exact HI'|]. split; [exact Hmax|].
      destruct Hok as (Hres & Hent & Hti & _). cbn in Hres, Hent, Hti.
      split; [cbn; congruence|]. split; [cbn; lia|]. cbn. destruct oe as [id|]; cbn; [lia | exact I].
    + (* the model's reader failed: excluded by the mirror theorem *)
      injection Huse as <- <- <-. destruct Hok as (Hres & _). cbn in Hres. discriminate.
  - (* prefix *)
    pose proof (tie_encode_prefix_term_index SN k ge1 e1 HRe1) as H3. norm.
    destruct (Lookup.encode_prefix_term_index str_eqb (is_nil k) k e1) as [[e2 ti]|]; [|discriminate].
    destruct (LookupEncoder_encode_prefix_term_index SN k ge1) as [[tz|ex] ge2]; [|contradiction].
    destruct H3 as [-> HRe2].
    pose proof (tie_decode_prefix_term_index SN ti gd1 d1 HRd1) as H4. norm.
    destruct (Lookup.decode_prefix_term_index ti d1) as [[d2 ov]|].
    + destruct (LookupDecoder_decode_prefix_term_index SN (Z.of_N ti) gd1) as [[gv|ex] gd2]; [|contradiction].
      destruct H4 as [-> HRd2].
      assert (Hres' : (match ov with Some v => Some v | None => Some [] end) = Some k).
      { destruct ov; injection Huse as <- <- <-; destruct Hok as (Hres & _); cbn in Hres; exact Hres. }
      assert (Hrest : exists o', Some (e2, d2, o') = Some (e', d', o) /\ lo_entry o' = oe /\ lo_term o' = ti).
      { destruct ov; eexists; (split; [exact Huse|]); split; reflexivity. }
      destruct Hrest as (o' & Ho' & Hoe & Hot). injection Ho' as <- <- <-.
      exists ge2, gd2, {| so_entry := zo oe; so_term := Z.of_N ti; so_resolved := str_of SN ov |}, e2, d2.
      split; [reflexivity|]. split; [exact HRe2|]. split; [exact HRd2|]. split; [exact HI'|]. split; [exact Hmax|].
      destruct Hok as (_ & Hent & Hti & _). rewrite Hoe in Hent. rewrite Hot in Hti.
      split; [cbn; destruct ov; cbn in *; congruence|]. split; [cbn; lia|]. cbn. destruct oe as [id|]; cbn; [lia | exact I].
    + injection Huse as <- <- <-. destruct Hok as (Hres & _). cbn in Hres. discriminate.
  - (* datatype *)
    pose proof (tie_encode_datatype_term_index SN k ge1 e1 HRe1) as H3. norm.
    destruct (Lookup.encode_datatype_term_index str_eqb k e1) as [[e2 ti]|]; [|discriminate].
    destruct (LookupEncoder_encode_datatype_term_index SN k ge1) as [[tz|ex] ge2]; [|contradiction].
    destruct H3 as [-> HRe2].
    pose proof (tie_decode_datatype_term_index SN ti gd1 d1 HRd1) as H4. norm.
    destruct (Lookup.decode_datatype_term_index ti d1) as [[d2 v]|].
    + destruct (LookupDecoder_decode_datatype_term_index SN (Z.of_N ti) gd1) as [[gv|ex] gd2]; [|contradiction].
      destruct H4 as [-> HRd2].
      injection Huse as <- <- <-.
      exists ge2, gd2, {| so_entry := zo oe; so_term := Z.of_N ti; so_resolved := v |}, e2, d2.
      split; [reflexivity|]. split; [exact HRe2|]. split; [exact HRd2|]. split; [exact HI'|]. split; [exact Hmax|].
      destruct Hok as (Hres & Hent & Hti & _). cbn in Hres, Hent, Hti.
      split; [cbn; congruence|]. split; [cbn; lia|]. cbn. destruct oe as [id|]; cbn; [lia | exact I].
    + injection Huse as <- <- <-. destruct Hok as (Hres & _). cbn in Hres. discriminate.
Qed.

Lemma src_run_ok (rule : lk_rule) (keys : list str) : forall ge gd (e : @Lookup.lenc str) (d : @Lookup.ldec str),
  Re ge e -> Rd gd d -> SInv e d ->
  Forall2 (fun k o => exists ob, o = Some ob /\ sobs_ok (Lookup.l_max (Lookup.e_lookup e)) k ob) keys (src_run rule keys ge gd).
Proof.
  induction keys as [|k rest IH]; intros ge gd e d HRe HRd HI; cbn [src_run]; [constructor|].
  destruct (src_use_ok rule k ge gd e d HRe HRd HI) as (ge' & gd' & o & e' & d' & Hu & HRe' & HRd' & HI' & Hmax & Hok).
  rewrite Hu. constructor.
  - exists o. split; [reflexivity | exact Hok].
  - rewrite <- Hmax. apply (IH ge' gd' e' d' HRe' HRd' HI').
Qed.

(* C05 about the translated source *)
Theorem C05_source_mirror_all_histories (rule : lk_rule) (size : N) (keys : list str) :
  (1 <= size <= 4096)%N ->
  exists ge0 gd0,
    LookupEncoder___init__ SN (Z.of_N size) = Val ge0 /\ LookupDecoder___init__ SN (Z.of_N size) = Val gd0 /\
    Forall2 (fun k o => exists ob, o = Some ob /\ sobs_ok size k ob) keys (src_run rule keys ge0 gd0).
Proof.
  intros [H1 H2].
  destruct (tie_init_encoder SN size) as (ge0 & Hge & HRe).
  destruct (tie_init_decoder SN size H2) as (gd0 & Hgd & HRd).
  exists ge0, gd0. split; [exact Hge|]. split; [exact Hgd|].
  exact (src_run_ok rule keys ge0 gd0 _ _ HRe HRd (inv_init size H1)).
Qed.

Print Assumptions C05_source_mirror_all_histories.
