(* DecoderTie.v -- source tie for the Decoder class of pyjelly/parse/decode.py (generated/DecodeGen.v, translated on
   every run) against model/Decoder.v.

   The translated Decoder is parametric in the Adapter (the integrations subclass it; in the generated code its methods
   are section parameters).  model/Decoder.v fuses the decoder with what the adapters of the two integrations do.  This
   file states that adapter behaviour once (`madapter`, below: the flat triples / flat quads / graphs-as-quads adapters,
   quoted triples in the generic integration only), instantiates the translated Decoder with it, and proves that the
   result and the model's decode_term / decode_row / decode_rows are in lock step: related states stay related, equal
   values, the same class of exception (any class where the model only says "a lookup failed").

   A message object is described by what reading it gives (reads_term / reads_row), not by how it was built: the
   theorems hold for every protobuf object that reads as the wire-level value. *)
From Coq Require Import Lia ZifyBool.
From PJ.Model Require Import Base Terms Encoder Streams Decoder.
From PJ.Model Require Lookup.
From PJ.Proofs Require Import TermInd.
From PJ.Tie Require Import PyPrims StrN LookupDecTie OptionsTie EncodeTie DecodeTie.
From PJ.Gen Require Import LookupDecGen OptionsGen DecodeGen.
Module L := PJ.Model.Lookup.
Local Open Scope Z_scope.

(* ------------------------------------------------------------------ the adapters, as the model has them *)
Inductive aval := ATerm (t : term) | AEv (e : event) | AUnit.

Record madapter := { ma_opts : ParserOptions SN; ma_ig : integ; ma_kind : adapter_kind; ma_graph : option term }.
Definition ma_set_graph (g : option term) (a : madapter) : madapter :=
  {| ma_opts := ma_opts a; ma_ig := ma_ig a; ma_kind := ma_kind a; ma_graph := g |}.

Definition a_iri (k : str) (a : madapter) : outcome aval * madapter := (Val (ATerm (TIri k)), a).
Definition a_default_graph (a : madapter) : outcome aval * madapter := (Val (ATerm TDefault), a).
Definition a_bnode (k : str) (a : madapter) : outcome aval * madapter := (Val (ATerm (TBnode k)), a).
Definition a_literal (lex : str) (lang dt : option str) (a : madapter) : outcome aval * madapter :=
  (Val (ATerm (TLit lex lang dt)), a).
Definition a_triple (ts : list aval) (a : madapter) : outcome aval * madapter :=
  match ma_kind a with
  | ATriples => match ts with [ATerm s; ATerm p; ATerm o] => (Val (AEv (ETriple s p o)), a) | _ => (Exn TypeError, a) end
  | AQuads => (Exn NotImplementedError, a)
  | AGraphs =>
    match ma_graph a with
    | Some g => match ts with [ATerm s; ATerm p; ATerm o] => (Val (AEv (EQuad s p o g)), a) | _ => (Exn TypeError, a) end
    | None => (Exn JellyConformanceError, a)
    end
  end.
Definition a_quad (ts : list aval) (a : madapter) : outcome aval * madapter :=
  match ma_kind a with
  | AQuads => match ts with [ATerm s; ATerm p; ATerm o; ATerm g] => (Val (AEv (EQuad s p o g)), a) | _ => (Exn TypeError, a) end
  | _ => (Exn NotImplementedError, a)
  end.
Definition a_graph_start (g : aval) (a : madapter) : outcome aval * madapter :=
  match ma_kind a with
  | AGraphs => match g with ATerm t => (Val AUnit, ma_set_graph (Some t) a) | _ => (Exn TypeError, a) end
  | _ => (Exn NotImplementedError, a)
  end.
Definition a_graph_end (a : madapter) : outcome aval * madapter :=
  match ma_kind a with
  | AGraphs => (Val AUnit, ma_set_graph None a)
  | _ => (Exn NotImplementedError, a)
  end.
Definition a_namespace (name : str) (iri : aval) (a : madapter) : outcome aval * madapter :=
  match iri with ATerm (TIri s) => (Val (AEv (EPrefix name s)), a) | _ => (Exn TypeError, a) end.
Definition a_quoted (ts : list aval) (a : madapter) : outcome aval * madapter :=
  match ma_ig a with
  | Generic => match ts with [ATerm s; ATerm p; ATerm o] => (Val (ATerm (TTriple s p o)), a) | _ => (Exn TypeError, a) end
  | Rdflib => (Exn NotImplementedError, a)
  end.

(* the translated Decoder over these adapters *)
Notation Dec := (@Decoder SN aval madapter).
Notation g_term_fuel := (Decoder_decode_term_fuel SN a_iri a_default_graph a_bnode a_literal a_quoted).
Notation g_term := (Decoder_decode_term SN a_iri a_default_graph a_bnode a_literal a_quoted).
Notation g_quoted_open := (Decoder_decode_quoted_triple_open SN a_quoted).
Notation g_iri := (Decoder_decode_iri SN a_iri).
Notation g_literal := (Decoder_decode_literal SN a_literal).
Notation g_row := (Decoder_decode_row SN ma_opts a_iri a_default_graph a_bnode a_literal a_triple a_quad a_graph_start a_graph_end a_namespace a_quoted).
Notation g_iter_rows := (Decoder_iter_rows SN ma_opts a_iri a_default_graph a_bnode a_literal a_triple a_quad a_graph_start a_graph_end a_namespace a_quoted).

(* ------------------------------------------------------------------ exceptions *)
Definition exn_of (e : Base.exn) : PyPrims.exn :=
  match e with
  | KeyErr => KeyError | IndexErr => IndexError | Conformance => JellyConformanceError | JAssertion => JellyAssertionError
  | AssertionErr => AssertionError | NotImpl => NotImplementedError | TypeErr => TypeError | ValueErr => ValueError
  | DecodeErr => ValueError | StopIter => StopIteration | AttrErr => AttributeError
  end.
(* the model lifts every failure of a lookup table to IndexErr (model/Lookup.v says only that the call fails) *)
Definition err_ok (pe : PyPrims.exn) (me : Base.exn) : Prop := me = IndexErr \/ pe = exn_of me.

(* ------------------------------------------------------------------ states *)
Definition Rz (g : LookupDecoder SN) (m : sldec) : Prop :=
  Rd SN g m /\ LookupDecoder_lookup_size g = Z.of_nat (length (L.d_data m)).

Definition k_subject : str := s_lit SN [115; 117; 98; 106; 101; 99; 116].
Definition k_predicate : str := s_lit SN [112; 114; 101; 100; 105; 99; 97; 116; 101].
Definition k_object : str := s_lit SN [111; 98; 106; 101; 99; 116].
Definition k_graph : str := s_lit SN [103; 114; 97; 112; 104].

Definition rt_ok (rt : list (str * aval)) (st : dstate) : Prop :=
  ad_find str_eqb k_subject rt = option_map ATerm (ds_s st) /\
  ad_find str_eqb k_predicate rt = option_map ATerm (ds_p st) /\
  ad_find str_eqb k_object rt = option_map ATerm (ds_o st) /\
  ad_find str_eqb k_graph rt = option_map ATerm (ds_g st).

(* the tables and the adapter ... *)
Definition Rcore (ig : integ) (ak : adapter_kind) (po : poptions) (d : Dec) (st : dstate) : Prop :=
  Rz (Decoder_names SN d) (ds_names st) /\ Rz (Decoder_prefixes SN d) (ds_prefixes st) /\ Rz (Decoder_datatypes SN d) (ds_datatypes st) /\
  Decoder_adapter SN d = {| ma_opts := popts_obj po; ma_ig := ig; ma_kind := ak; ma_graph := ds_graph st |}.
(* ... and the repeated terms *)
Definition Rdec (ig : integ) (ak : adapter_kind) (po : poptions) (d : Dec) (st : dstate) : Prop :=
  Rcore ig ak po d st /\ rt_ok (Decoder_repeated_terms SN d) st.

(* decoding a term leaves the repeated terms alone, on both sides *)
Definition same_regs (st st' : dstate) : Prop :=
  ds_s st' = ds_s st /\ ds_p st' = ds_p st /\ ds_o st' = ds_o st /\ ds_g st' = ds_g st.
Definition step_ok ig ak po (d : Dec) st (d' : Dec) st' : Prop :=
  Rcore ig ak po d' st' /\ Decoder_repeated_terms SN d' = Decoder_repeated_terms SN d /\ same_regs st st'.

(* ------------------------------------------------------------------ what reading a message object gives *)
Definition g_s := ["s_iri"; "s_bnode"; "s_literal"; "s_triple_term"]%string.
Definition g_p := ["p_iri"; "p_bnode"; "p_literal"; "p_triple_term"]%string.
Definition g_o := ["o_iri"; "o_bnode"; "o_literal"; "o_triple_term"]%string.
Definition g_g := ["g_iri"; "g_bnode"; "g_default_graph"; "g_literal"]%string.

Definition reads_lit (k : wlitkind) (m : pbval str) : Prop :=
  match k with
  | LkNone => msg_str (K := str) [] "langtag" m = [] /\ msg_has "datatype" m = false
  | LkLang t => msg_str (K := str) [] "langtag" m = t /\ msg_has "datatype" m = false
  | LkDt id => msg_str (K := str) [] "langtag" m = [] /\ msg_has "datatype" m = true /\ msg_int "datatype" m = Z.of_N id
  end.

Fixpoint reads_term (w : wterm) (m : pbval str) {struct w} : Prop :=
  match w with
  | WIri p n => pb_kind m = "RdfIri"%string /\ msg_int "prefix_id" m = Z.of_N p /\ msg_int "name_id" m = Z.of_N n
  | WBnode l => m = PStr l
  | WLit lex k => pb_kind m = "RdfLiteral"%string /\ msg_str (K := str) [] "lex" m = lex /\ reads_lit k m
  | WDefault => pb_kind m = "RdfDefaultGraph"%string
  | WTriple s p o =>
    pb_kind m = "RdfTriple"%string /\
    match s with
    | Some s' => exists f v, msg_which g_s m = Some f /\ msg_field f m = Some v /\ reads_term s' v
    | None => msg_which g_s m = None
    end /\
    match p with
    | Some p' => exists f v, msg_which g_p m = Some f /\ msg_field f m = Some v /\ reads_term p' v
    | None => msg_which g_p m = None
    end /\
    match o with
    | Some o' => exists f v, msg_which g_o m = Some f /\ msg_field f m = Some v /\ reads_term o' v
    | None => msg_which g_o m = None
    end
  end.

Definition reads_slot (group : list string) (w : option wterm) (m : pbval str) : Prop :=
  match w with
  | Some w' => exists f v, msg_which group m = Some f /\ msg_field f m = Some v /\ reads_term w' v
  | None => msg_which group m = None
  end.

(* ------------------------------------------------------------------ small facts *)
Lemma str_eqb_true a b : str_eqb a b = true <-> a = b.
Proof.
  revert b. induction a as [|x a IH]; intros [|y b]; cbn; split; intros H; try reflexivity; try discriminate.
  - apply andb_true_iff in H as [H1 H2]. apply N.eqb_eq in H1. apply IH in H2. congruence.
  - injection H as -> ->. rewrite N.eqb_refl. cbn. apply IH. reflexivity.
Qed.

Lemma str_eqb_false a b : a <> b -> str_eqb a b = false.
Proof. intros H. destruct (str_eqb a b) eqn:E; [apply str_eqb_true in E; contradiction | reflexivity]. Qed.

Lemma ad_find_update {V} k' k (v : V) d :
  ad_find str_eqb k' (ad_update str_eqb k v d) =
  if str_eqb k' k then match ad_find str_eqb k d with Some _ => Some v | None => None end else ad_find str_eqb k' d.
Proof.
  induction d as [|[k0 v0] d IH]; cbn [ad_update ad_find].
  - destruct (str_eqb k' k); reflexivity.
  - destruct (str_eqb k k0) eqn:E0; cbn [ad_find].
    + apply str_eqb_true in E0. subst k0. destruct (str_eqb k' k); reflexivity.
    + rewrite IH. destruct (str_eqb k' k0) eqn:E1; [|reflexivity].
      apply str_eqb_true in E1. subst k0.
      destruct (str_eqb k' k) eqn:E2; [|reflexivity].
      apply str_eqb_true in E2. subst k'. rewrite (proj2 (str_eqb_true k k) eq_refl) in E0. discriminate.
Qed.

Lemma ad_find_app {V} k' (d1 d2 : list (str * V)) :
  ad_find str_eqb k' (d1 ++ d2) = match ad_find str_eqb k' d1 with Some v => Some v | None => ad_find str_eqb k' d2 end.
Proof. induction d1 as [|[k0 v0] d1 IH]; cbn [app ad_find]; [reflexivity|]. destruct (str_eqb k' k0); [reflexivity | exact IH]. Qed.

Lemma ad_find_set {V} k' k (v : V) d :
  ad_find str_eqb k' (ad_set str_eqb k v d) = if str_eqb k' k then Some v else ad_find str_eqb k' d.
Proof.
  unfold ad_set. destruct (ad_find str_eqb k d) eqn:E.
  - rewrite ad_find_update, E. reflexivity.
  - rewrite ad_find_app. cbn [ad_find].
    destruct (str_eqb k' k) eqn:E1.
    + apply str_eqb_true in E1. subst k'. rewrite E. reflexivity.
    + destruct (ad_find str_eqb k' d); reflexivity.
Qed.

(* a field of a message nests less deeply than the message *)
Lemma msg_get_depth {K} f (fs : list (string * pbval K)) v :
  msg_get f fs = Some v ->
  (pb_depth v <= (fix go (l : list (string * pbval K)) : nat :=
                    match l with [] => O | (_, v) :: l' => Nat.max (pb_depth v) (go l') end) fs)%nat.
Proof.
  induction fs as [|[n x] fs IH]; cbn [msg_get]; [discriminate|].
  destruct (String.eqb n f).
  - intros [= ->]. lia.
  - intros H. specialize (IH H). lia.
Qed.

Lemma msg_field_depth (f : string) (m v : pbval str) : msg_field f m = Some v -> (pb_depth v < pb_depth m)%nat.
Proof.
  unfold msg_field. destruct m as [z|b|s|n fs|l]; cbn [msg_fields msg_get]; try discriminate.
  intros H. apply msg_get_depth in H. cbn [pb_depth]. lia.
Qed.

(* ------------------------------------------------------------------ the lookup tables: size and length stay *)
Lemma at_size i (g : LookupDecoder SN) : LookupDecoder_lookup_size (snd (LookupDecoder_at SN i g)) = LookupDecoder_lookup_size g.
Proof.
  unfold LookupDecoder_at. cbn [LookupDecoder_data set_LookupDecoder_last_reused_index].
  destruct (seq_get (LookupDecoder_data g) (i - 1)) as [[v|]|e]; reflexivity.
Qed.

Lemma name_size i (g : LookupDecoder SN) :
  LookupDecoder_lookup_size (snd (LookupDecoder_decode_name_term_index SN i g)) = LookupDecoder_lookup_size g.
Proof.
  unfold LookupDecoder_decode_name_term_index. cbv zeta.
  match goal with |- context [if ?c then (Exn _, _) else _] => destruct c end; [reflexivity|].
  match goal with |- context [LookupDecoder_at SN ?j g] => pose proof (at_size j g) as H; destruct (LookupDecoder_at SN j g) as [[r|e] g'] end;
    exact H.
Qed.

Lemma prefix_size i (g : LookupDecoder SN) :
  LookupDecoder_lookup_size (snd (LookupDecoder_decode_prefix_term_index SN i g)) = LookupDecoder_lookup_size g.
Proof.
  unfold LookupDecoder_decode_prefix_term_index. cbv zeta.
  match goal with |- context [if ?c then (Val _, _) else _] => destruct c end; [reflexivity|].
  match goal with |- context [LookupDecoder_at SN ?j g] => pose proof (at_size j g) as H; destruct (LookupDecoder_at SN j g) as [[r|e] g'] end;
    exact H.
Qed.

Lemma datatype_size i (g : LookupDecoder SN) :
  LookupDecoder_lookup_size (snd (LookupDecoder_decode_datatype_term_index SN i g)) = LookupDecoder_lookup_size g.
Proof.
  unfold LookupDecoder_decode_datatype_term_index.
  destruct (i =? 0); [reflexivity|].
  pose proof (at_size i g) as H; destruct (LookupDecoder_at SN i g) as [[r|e] g']; exact H.
Qed.

Lemma assign_size i v (g : LookupDecoder SN) :
  LookupDecoder_lookup_size (snd (LookupDecoder_assign_entry SN i v g)) = LookupDecoder_lookup_size g.
Proof.
  unfold LookupDecoder_assign_entry. cbv zeta.
  destruct (i =? 0).
  - destruct (LookupDecoder_last_assigned_index g + 1 >? 0); [|reflexivity].
    destruct (seq_set _ _ _); reflexivity.
  - destruct (i >? 0); [|reflexivity]. destruct (seq_set _ _ _); reflexivity.
Qed.

Lemma m_at_data i (m m' : sldec) r : L.at_ i m = Some (m', r) -> L.d_data m' = L.d_data m.
Proof.
  unfold L.at_. destruct (L.in_range i m); [|discriminate].
  destruct (nth_error _ _) as [[v|]|]; try discriminate. intros [= <- _]. reflexivity.
Qed.

Lemma set_nth_length {A} n (x : A) l l' : L.set_nth n x l = Some l' -> length l' = length l.
Proof.
  revert l l'. induction n as [|n IH]; intros [|h t] l'; cbn; try discriminate.
  - intros [= <-]. reflexivity.
  - destruct (L.set_nth n x t) eqn:E; [|discriminate]. intros [= <-]. cbn. f_equal. exact (IH _ _ E).
Qed.

Lemma m_assign_len i v (m m' : sldec) : L.assign_entry i v m = Some m' -> length (L.d_data m') = length (L.d_data m).
Proof.
  unfold L.assign_entry. cbv zeta. destruct (L.in_range _ m); [|discriminate].
  destruct (L.set_nth _ _ _) eqn:E; [|discriminate]. intros [= <-]. cbn. exact (set_nth_length _ _ _ _ E).
Qed.

Lemma tiez_name idx g m : Rz g m ->
  match LookupDecoder_decode_name_term_index SN (Z.of_N idx) g, L.decode_name_term_index idx m with
  | (Val r, g'), Some (m', r') => r = r' /\ Rz g' m'
  | (Exn _, _), None => True
  | _, _ => False
  end.
Proof.
  intros [HR Hs]. pose proof (tie_decode_name_term_index SN idx g m HR) as H. pose proof (name_size (Z.of_N idx) g) as Hz.
  change (carrier SN) with str in *.
  destruct (LookupDecoder_decode_name_term_index SN (Z.of_N idx) g) as [[r|e] g']; destruct (L.decode_name_term_index idx m) as [[m' r']|] eqn:Em;
    try contradiction; [|exact I].
  destruct H as [-> HR']. split; [reflexivity|]. split; [exact HR'|]. cbn [snd] in Hz. rewrite Hz, Hs.
  unfold L.decode_name_term_index in Em. cbv zeta in Em. rewrite (m_at_data _ _ _ _ Em). reflexivity.
Qed.

Lemma tiez_prefix idx g m : Rz g m ->
  match LookupDecoder_decode_prefix_term_index SN (Z.of_N idx) g, L.decode_prefix_term_index idx m with
    | (Val r, g'), Some (m', r') => r = str_of SN r' /\ Rz g' m'
  | (Exn _, _), None => True
  | _, _ => False
  end.
Proof.
  intros [HR Hs]. pose proof (tie_decode_prefix_term_index SN idx g m HR) as H. pose proof (prefix_size (Z.of_N idx) g) as Hz.
  change (carrier SN) with str in *.
  destruct (LookupDecoder_decode_prefix_term_index SN (Z.of_N idx) g) as [[r|e] g']; destruct (L.decode_prefix_term_index idx m) as [[m' r']|] eqn:Em;
    try contradiction; [|exact I].
  destruct H as [-> HR']. split; [reflexivity|]. split; [exact HR'|]. cbn [snd] in Hz. rewrite Hz, Hs.
  unfold L.decode_prefix_term_index in Em. cbv zeta in Em.
  destruct (_ =? 0)%N in Em; [injection Em as <- _; reflexivity|].
  destruct (L.at_ _ m) as [[m2 v]|] eqn:Ea; [|discriminate]. injection Em as <- _. rewrite (m_at_data _ _ _ _ Ea). reflexivity.
Qed.

Lemma tiez_datatype idx g m : Rz g m ->
  match LookupDecoder_decode_datatype_term_index SN (Z.of_N idx) g, L.decode_datatype_term_index idx m with
  | (Val r, g'), Some (m', r') => r = Some r' /\ Rz g' m'
  | (Exn _, _), None => True
  | _, _ => False
  end.
Proof.
  intros [HR Hs]. pose proof (tie_decode_datatype_term_index SN idx g m HR) as H. pose proof (datatype_size (Z.of_N idx) g) as Hz.
  change (carrier SN) with str in *.
  destruct (LookupDecoder_decode_datatype_term_index SN (Z.of_N idx) g) as [[r|e] g']; destruct (L.decode_datatype_term_index idx m) as [[m' r']|] eqn:Em;
    try contradiction; [|exact I].
  destruct H as [-> HR']. split; [reflexivity|]. split; [exact HR'|]. cbn [snd] in Hz. rewrite Hz, Hs.
  unfold L.decode_datatype_term_index in Em. destruct (idx =? 0)%N; [discriminate|]. rewrite (m_at_data _ _ _ _ Em). reflexivity.
Qed.

Lemma tiez_assign idx v g m : Rz g m ->
  match LookupDecoder_assign_entry SN (Z.of_N idx) v g, L.assign_entry idx v m with
  | (Val _, g'), Some m' => Rz g' m'
  | (Exn _, _), None => True
  | _, _ => False
  end.
Proof.
  intros [HR Hs]. pose proof (tie_assign_entry SN idx v g m HR) as H. pose proof (assign_size (Z.of_N idx) v g) as Hz.
  change (carrier SN) with str in *.
  destruct (LookupDecoder_assign_entry SN (Z.of_N idx) v g) as [[r|e] g']; destruct (L.assign_entry idx v m) as [m'|] eqn:Em;
    try contradiction; [|exact I].
  split; [exact H|]. cbn [snd] in Hz. rewrite Hz, Hs, (m_assign_len _ _ _ _ Em). reflexivity.
Qed.

(* ------------------------------------------------------------------ terms *)
Lemma tie_dec_iri ig ak po (d : Dec) st m p n : Rcore ig ak po d st ->
  msg_int "prefix_id" m = Z.of_N p -> msg_int "name_id" m = Z.of_N n ->
  match g_iri m d, decode_iri p n st with
  | (Val v, d'), Ok (st', iri) => v = ATerm (TIri iri) /\ step_ok ig ak po d st d' st'
  | (Exn e, _), Err me => err_ok e me
  | _, _ => False
  end.
Proof.
  intros (Hn & Hp & Hd & Ha) Hpid Hnid.
  unfold Decoder_decode_iri, decode_iri. rewrite Hpid, Hnid.
  pose proof (tiez_name n _ _ Hn) as H1. change (carrier SN) with str in *.
  destruct (LookupDecoder_decode_name_term_index SN (Z.of_N n) (Decoder_names SN d)) as [[name|e] gn];
    destruct (L.decode_name_term_index n (ds_names st)) as [[mn name']|]; try contradiction; cbn [lift bind].
  2: { left. reflexivity. }
  destruct H1 as [-> Hn'].
  cbn [set_Decoder_names Decoder_prefixes Decoder_adapter Decoder_names Decoder_datatypes Decoder_repeated_terms Decoder_cls_tag].
  pose proof (tiez_prefix p _ _ Hp) as H2. change (carrier SN) with str in *.
  destruct (LookupDecoder_decode_prefix_term_index SN (Z.of_N p) (Decoder_prefixes SN d)) as [[prefix|e] gp];
    destruct (L.decode_prefix_term_index p (ds_prefixes st)) as [[mp prefix']|]; try contradiction; cbn [lift bind].
  2: { left. reflexivity. }
  destruct H2 as [-> Hp'].
  cbn [set_Decoder_prefixes set_Decoder_adapter Decoder_prefixes Decoder_adapter Decoder_names Decoder_datatypes Decoder_repeated_terms Decoder_cls_tag a_iri].
  split.
  - destruct prefix'; reflexivity.
  - unfold step_ok, Rcore, same_regs.
    cbn [set_tables ds_names ds_prefixes ds_datatypes ds_s ds_p ds_o ds_g ds_graph Decoder_prefixes Decoder_adapter Decoder_names Decoder_datatypes Decoder_repeated_terms].
    repeat split; try assumption; try apply Hn'; try apply Hp'; try apply Hd.
Qed.

Lemma Rcore_same_decoder ig ak po (d : Dec) st : Rcore ig ak po d st ->
  step_ok ig ak po d st (set_Decoder_adapter SN (Decoder_adapter SN d) d) st.
Proof. intros HR. destruct d. split; [exact HR|]. repeat split. Qed.

Lemma tie_dec_literal ig ak po (d : Dec) st m lex k : Rcore ig ak po d st ->
  msg_str (K := str) [] "lex" m = lex -> reads_lit k m ->
  match g_literal m d, decode_literal lex k st with
  | (Val v, d'), Ok (st', t) => v = ATerm t /\ step_ok ig ak po d st d' st'
  | (Exn e, _), Err me => err_ok e me
  | _, _ => False
  end.
Proof.
  intros HR Hlex Hk. pose proof HR as (Hn & Hp & Hd & Ha).
  unfold Decoder_decode_literal, decode_literal. cbv zeta.
  change (s_is_empty SN) with (@is_nil N). change (s_empty SN) with (@nil N). change (carrier SN) with str in *.
  rewrite Hlex.
  destruct k as [|t|id]; cbn [reads_lit] in Hk.
  - destruct Hk as [Hl Hh]. rewrite Hl, Hh. cbn [is_nil negb a_literal]. split; [reflexivity|].
    exact (Rcore_same_decoder _ _ _ _ _ HR).
  - destruct Hk as [Hl Hh]. rewrite Hl, Hh. destruct t as [|c t]; cbn [is_nil negb a_literal]; (split; [reflexivity|]);
      exact (Rcore_same_decoder _ _ _ _ _ HR).
  - destruct Hk as (Hl & Hh & Hi). rewrite Hl, Hh, Hi. cbn [is_nil negb].
    destruct Hd as [Hd Hz]. rewrite Hz. unfold nlen.
    destruct (N.of_nat (length (L.d_data (ds_datatypes st))) =? 0)%N eqn:E0.
    + replace (Z.of_nat (length (L.d_data (ds_datatypes st))) =? 0) with true by lia. cbn [negb]. right. reflexivity.
    + replace (Z.of_nat (length (L.d_data (ds_datatypes st))) =? 0) with false by lia. cbn [negb].
      pose proof (tiez_datatype id _ _ (conj Hd Hz)) as H1. change (carrier SN) with str in *.
      destruct (LookupDecoder_decode_datatype_term_index SN (Z.of_N id) (Decoder_datatypes SN d)) as [[dt|e] gd];
        destruct (L.decode_datatype_term_index id (ds_datatypes st)) as [[md dt']|]; try contradiction; cbn [lift bind].
      2: { left. reflexivity. }
      destruct H1 as [-> Hd'].
      cbn [set_Decoder_datatypes set_Decoder_adapter Decoder_prefixes Decoder_adapter Decoder_names Decoder_datatypes Decoder_repeated_terms Decoder_cls_tag a_literal].
      split; [reflexivity|].
      unfold step_ok, Rcore, same_regs.
      cbn [set_tables ds_names ds_prefixes ds_datatypes ds_s ds_p ds_o ds_g ds_graph Decoder_prefixes Decoder_adapter Decoder_names Decoder_datatypes Decoder_repeated_terms].
      repeat split; try assumption; try apply Hn; try apply Hp; try apply Hd'.
Qed.

(* ------------------------------------------------------------------ decode_term *)
Definition term_tie ig ak po (w : wterm) (fuel : nat) : Prop :=
  forall m (d : Dec) st, Rcore ig ak po d st -> reads_term w m -> (pb_depth m < fuel)%nat ->
  match g_term_fuel fuel m d, decode_term ig w st with
  | (Val v, d'), Ok (st', t) => v = ATerm t /\ step_ok ig ak po d st d' st'
  | (Exn e, _), Err me => err_ok e me
  | _, _ => False
  end.

Lemma adapter_of ig ak po (d : Dec) st : Rcore ig ak po d st ->
  Decoder_adapter SN d = {| ma_opts := popts_obj po; ma_ig := ig; ma_kind := ak; ma_graph := ds_graph st |}.
Proof. intros (_ & _ & _ & H). exact H. Qed.

Lemma step_ok_trans ig ak po (d d1 d2 : Dec) st st1 st2 :
  step_ok ig ak po d st d1 st1 -> step_ok ig ak po d1 st1 d2 st2 -> step_ok ig ak po d st d2 st2.
Proof.
  intros (_ & Hr1 & Ha1 & Hb1 & Hc1 & Hd1) (HR & Hr2 & Ha2 & Hb2 & Hc2 & Hd2).
  split; [exact HR|]. split; [congruence|]. repeat split; congruence.
Qed.

Theorem tie_dec_term ig ak po (w : wterm) : forall fuel, term_tie ig ak po w fuel.
Proof.
  induction w as [p n|l|lex k| |a b c IHa IHb IHc] using wterm_ind'; intros fuel m d st HR Hm Hf;
    (destruct fuel as [|fuel]; [lia|]); cbn [Decoder_decode_term_fuel decode_term]; cbn [reads_term] in Hm; change (carrier SN) with str in *; change (s_empty SN) with (@nil N).
  - destruct Hm as (Hk & Hp & Hn). rewrite Hk. cbn [String.eqb Ascii.eqb Bool.eqb].
    pose proof (tie_dec_iri ig ak po d st m p n HR Hp Hn) as H.
    destruct (g_iri m d) as [[v|e] d']; destruct (decode_iri p n st) as [[st' iri]|me]; try contradiction; cbn [bind]; exact H.
  - subst m. cbn [pb_kind String.eqb Ascii.eqb Bool.eqb pb_as_str].
    unfold Decoder_decode_bnode. rewrite (adapter_of _ _ _ _ _ HR). cbn [a_bnode]. split; [reflexivity|].
    rewrite <- (adapter_of _ _ _ _ _ HR). exact (Rcore_same_decoder _ _ _ _ _ HR).
  - destruct Hm as (Hk & Hlex & Hlit). rewrite Hk. cbn [String.eqb Ascii.eqb Bool.eqb].
    exact (tie_dec_literal ig ak po d st m lex k HR Hlex Hlit).
  - rewrite Hm. cbn [String.eqb Ascii.eqb Bool.eqb].
    unfold Decoder_decode_default_graph. rewrite (adapter_of _ _ _ _ _ HR). cbn [a_default_graph]. split; [reflexivity|].
    rewrite <- (adapter_of _ _ _ _ _ HR). exact (Rcore_same_decoder _ _ _ _ _ HR).
  - destruct Hm as (Hk & Hs & Hp & Ho). rewrite Hk. cbn [String.eqb Ascii.eqb Bool.eqb].
    unfold Decoder_decode_quoted_triple_open. cbv zeta. change (carrier SN) with str in *.
    change ["s_iri"%string; "s_bnode"%string; "s_literal"%string; "s_triple_term"%string] with g_s.
    change ["p_iri"%string; "p_bnode"%string; "p_literal"%string; "p_triple_term"%string] with g_p.
    change ["o_iri"%string; "o_bnode"%string; "o_literal"%string; "o_triple_term"%string] with g_o.
    (* subject *)
    destruct a as [a'|]; [|rewrite Hs; right; reflexivity].
    destruct Hs as (f1 & v1 & Hw1 & Hf1 & Hr1). rewrite Hw1, Hf1. cbn [OP] in IHa.
    pose proof (IHa fuel v1 d st HR Hr1 ltac:(pose proof (msg_field_depth _ _ _ Hf1); lia)) as H1.
    destruct (g_term_fuel fuel v1 d) as [[x1|e1] d1]; destruct (decode_term ig a' st) as [[st1 t1]|me1]; try contradiction; cbn [bind]; [|exact H1].
    destruct H1 as [-> HS1]. pose proof HS1 as (HR1 & _).
    (* predicate *)
    destruct b as [b'|]; [|rewrite Hp; right; reflexivity].
    destruct Hp as (f2 & v2 & Hw2 & Hf2 & Hr2). rewrite Hw2, Hf2. cbn [OP] in IHb.
    pose proof (IHb fuel v2 d1 st1 HR1 Hr2 ltac:(pose proof (msg_field_depth _ _ _ Hf2); lia)) as H2.
    destruct (g_term_fuel fuel v2 d1) as [[x2|e2] d2]; destruct (decode_term ig b' st1) as [[st2 t2]|me2]; try contradiction; cbn [bind]; [|exact H2].
    destruct H2 as [-> HS2]. pose proof HS2 as (HR2 & _).
    (* object *)
    destruct c as [c'|]; [|rewrite Ho; right; reflexivity].
    destruct Ho as (f3 & v3 & Hw3 & Hf3 & Hr3). rewrite Hw3, Hf3. cbn [OP] in IHc.
    pose proof (IHc fuel v3 d2 st2 HR2 Hr3 ltac:(pose proof (msg_field_depth _ _ _ Hf3); lia)) as H3.
    destruct (g_term_fuel fuel v3 d2) as [[x3|e3] d3]; destruct (decode_term ig c' st2) as [[st3 t3]|me3]; try contradiction; cbn [bind]; [|exact H3].
    destruct H3 as [-> HS3]. pose proof HS3 as (HR3 & _).
    cbn [app]. rewrite (adapter_of _ _ _ _ _ HR3). unfold a_quoted. cbn [ma_ig].
    destruct ig; [|right; reflexivity].
    split; [reflexivity|].
    rewrite <- (adapter_of _ _ _ _ _ HR3).
    exact (step_ok_trans _ _ _ _ _ _ _ _ _ HS1 (step_ok_trans _ _ _ _ _ _ _ _ _ HS2 (step_ok_trans _ _ _ _ _ _ _ _ _ HS3 (Rcore_same_decoder _ _ _ _ _ HR3)))).
Qed.

(* the entry point: fuel from the nesting depth of the message always suffices *)
Corollary tie_dec_term_top ig ak po (w : wterm) m (d : Dec) st : Rcore ig ak po d st -> reads_term w m ->
  match g_term m d, decode_term ig w st with
  | (Val v, d'), Ok (st', t) => v = ATerm t /\ step_ok ig ak po d st d' st'
  | (Exn e, _), Err me => err_ok e me
  | _, _ => False
  end.
Proof. intros HR Hm. unfold Decoder_decode_term. apply tie_dec_term; [exact HR | exact Hm | apply le_n]. Qed.

(* ------------------------------------------------------------------ statements: decode_statement, slot by slot *)
Notation rt_of d := (Decoder_repeated_terms SN d).

(* one turn of the loop of decode_statement, with what follows it (the translation unrolls the loop over the constant
   tuple of slot names and repeats what follows in both branches; gslot is that shape, stated once) *)
Definition gslot (G : list string) (k : str) (stmt : pbval str) (d : Dec) (terms : list aval)
                 (K : Dec -> list aval -> outcome aval * Dec) : outcome aval * Dec :=
  match msg_which G stmt with
  | Some f =>
    match msg_field f stmt with
    | None => (Exn AttributeError, d)
    | Some v =>
      let '(r, d1) := g_term v d in
      match r with
      | Exn e => (Exn e, d1)
      | Val x => K (set_Decoder_repeated_terms SN (ad_set str_eqb k x (rt_of d1)) d1) (terms ++ [x])
      end
    end
  | None =>
    match ad_get str_eqb k (rt_of d) with
    | Exn e => (Exn e, d)
    | Val x => K d (terms ++ [x])
    end
  end.

Lemma Rcore_set_rt ig ak po (d : Dec) st rt : Rcore ig ak po d st -> Rcore ig ak po (set_Decoder_repeated_terms SN rt d) st.
Proof. intros H. destruct d. exact H. Qed.

Lemma gslot_tie ig ak po G k w prev m (d : Dec) st terms K :
  Rcore ig ak po d st -> reads_slot G w m -> ad_find str_eqb k (rt_of d) = option_map ATerm prev ->
  match decode_slot ig w prev st with
  | Ok (st', t) =>
    exists d' : Dec, gslot G k m d terms K = K d' (terms ++ [ATerm t]) /\ Rcore ig ak po d' st' /\ same_regs st st' /\
                     forall k', ad_find str_eqb k' (rt_of d') = if str_eqb k' k then Some (ATerm t) else ad_find str_eqb k' (rt_of d)
  | Err me => exists e (d' : Dec), gslot G k m d terms K = (Exn e, d') /\ err_ok e me
  end.
Proof.
  intros HR Hw Hprev. unfold gslot, decode_slot. destruct w as [w'|]; cbn [reads_slot] in Hw.
  - destruct Hw as (f & v & Hw & Hf & Hr). rewrite Hw, Hf.
    pose proof (tie_dec_term_top ig ak po w' v d st HR Hr) as H.
    destruct (g_term v d) as [[x|e] d1]; destruct (decode_term ig w' st) as [[st1 t1]|me]; try contradiction.
    + destruct H as (-> & HR1 & Hrt & Hregs).
      eexists. split; [reflexivity|]. split; [apply Rcore_set_rt; exact HR1|]. split; [exact Hregs|].
      intros k'. destruct d1. unfold set_Decoder_repeated_terms. cbn in Hrt |- *. rewrite ad_find_set, Hrt. reflexivity.
    + exists e, d1. split; [reflexivity | exact H].
  - rewrite Hw. unfold ad_get. rewrite Hprev. destruct prev as [t|]; cbn [option_map].
    + exists d. split; [reflexivity|]. split; [exact HR|]. split; [repeat split|].
      intros k'. destruct (str_eqb k' k) eqn:E; [|reflexivity]. apply str_eqb_true in E. subst k'. exact Hprev.
    + exists KeyError, d. split; [reflexivity | right; reflexivity].
Qed.

Definition gspo (m : pbval str) (d : Dec) (K : Dec -> list aval -> outcome aval * Dec) : outcome aval * Dec :=
  gslot g_s k_subject m d [] (fun d1 t1 => gslot g_p k_predicate m d1 t1 (fun d2 t2 => gslot g_o k_object m d2 t2 K)).

Lemma Rcore_regs ig ak po (d : Dec) st s p o g :
  Rcore ig ak po d st ->
  Rcore ig ak po d {| ds_names := ds_names st; ds_prefixes := ds_prefixes st; ds_datatypes := ds_datatypes st;
                      ds_s := s; ds_p := p; ds_o := o; ds_g := g; ds_graph := ds_graph st |}.
Proof. intros H. exact H. Qed.

Lemma gspo_tie ig ak po s p o m (d : Dec) st K :
  Rdec ig ak po d st -> reads_slot g_s s m -> reads_slot g_p p m -> reads_slot g_o o m ->
  match decode_spo ig s p o st with
  | Ok (st', ts, tp, to) => exists d' : Dec, gspo m d K = K d' [ATerm ts; ATerm tp; ATerm to] /\ Rdec ig ak po d' st'
  | Err me => exists e (d' : Dec), gspo m d K = (Exn e, d') /\ err_ok e me
  end.
Proof.
  intros [HR (Hs & Hp & Ho & Hg)] Rs Rp Ro. unfold gspo, decode_spo.
  pose proof (gslot_tie ig ak po g_s k_subject s (ds_s st) m d st []
                (fun d1 t1 => gslot g_p k_predicate m d1 t1 (fun d2 t2 => gslot g_o k_object m d2 t2 K)) HR Rs Hs) as H1.
  destruct (decode_slot ig s (ds_s st) st) as [[st1 ts]|me1]; cbn [bind]; [|exact H1].
  destruct H1 as (d1 & -> & HR1 & (Ea1 & Eb1 & Ec1 & Ed1) & F1).
  assert (Hp1 : ad_find str_eqb k_predicate (rt_of d1) = option_map ATerm (ds_p st)) by (rewrite F1; exact Hp).
  pose proof (gslot_tie ig ak po g_p k_predicate p (ds_p st) m d1 st1 ([] ++ [ATerm ts])
                (fun d2 t2 => gslot g_o k_object m d2 t2 K) HR1 Rp Hp1) as H2.
  destruct (decode_slot ig p (ds_p st) st1) as [[st2 tp]|me2]; cbn [bind]; [|exact H2].
  destruct H2 as (d2 & -> & HR2 & (Ea2 & Eb2 & Ec2 & Ed2) & F2).
  assert (Ho2 : ad_find str_eqb k_object (rt_of d2) = option_map ATerm (ds_o st)) by (rewrite F2, F1; exact Ho).
  pose proof (gslot_tie ig ak po g_o k_object o (ds_o st) m d2 st2 (([] ++ [ATerm ts]) ++ [ATerm tp]) K HR2 Ro Ho2) as H3.
  destruct (decode_slot ig o (ds_o st) st2) as [[st3 to]|me3]; cbn [bind]; [|exact H3].
  destruct H3 as (d3 & -> & HR3 & (Ea3 & Eb3 & Ec3 & Ed3) & F3).
  exists d3. split; [reflexivity|]. split.
  - unfold set_spo. apply Rcore_regs. exact HR3.
  - unfold rt_ok, set_spo. cbn [ds_s ds_p ds_o ds_g]. rewrite !F3, !F2, !F1. cbn.
    repeat split. change [103%N; 114%N; 97%N; 112%N; 104%N] with k_graph. rewrite Hg. congruence.
Qed.

(* ------------------------------------------------------------------ rows *)
Notation g_triple := (Decoder_decode_triple SN a_iri a_default_graph a_bnode a_literal a_triple a_quoted).
Notation g_quad := (Decoder_decode_quad SN a_iri a_default_graph a_bnode a_literal a_quad a_quoted).
Notation g_graph_start := (Decoder_decode_graph_start SN a_iri a_default_graph a_bnode a_literal a_graph_start a_quoted).
Notation g_graph_end := (Decoder_decode_graph_end SN a_graph_end).
Notation g_namespace := (Decoder_decode_namespace_declaration SN a_iri a_namespace).
Notation g_validate := (Decoder_validate_stream_options SN ma_opts).

Definition fin (call : list aval -> madapter -> outcome aval * madapter) (d : Dec) (terms : list aval) : outcome aval * Dec :=
  let '(r, o) := call terms (Decoder_adapter SN d) in
  let d := set_Decoder_adapter SN o d in
  match r with Exn e => (Exn e, d) | Val x => (Val x, d) end.

(* the translated decode_triple / decode_quad are the slots in turn, then the adapter (by computation) *)
Lemma g_triple_shape m (d : Dec) : g_triple m d = gspo m d (fin a_triple).
Proof. reflexivity. Qed.
Lemma g_quad_shape m (d : Dec) :
  g_quad m d = gspo m d (fun d3 t3 => gslot g_g k_graph m d3 t3 (fin a_quad)).
Proof. reflexivity. Qed.

Definition reads_row (r : row) (m : pbval str) : Prop :=
  match r with
  | ROptions o => pb_kind m = "RdfStreamOptions"%string /\ reads_options m o
  | Terms.RPrefix i v => pb_kind m = "RdfPrefixEntry"%string /\ msg_int "id" m = Z.of_N i /\ msg_str (K := str) [] "value" m = v
  | Terms.RName i v => pb_kind m = "RdfNameEntry"%string /\ msg_int "id" m = Z.of_N i /\ msg_str (K := str) [] "value" m = v
  | Terms.RDatatype i v => pb_kind m = "RdfDatatypeEntry"%string /\ msg_int "id" m = Z.of_N i /\ msg_str (K := str) [] "value" m = v
  | RTriple s p o => pb_kind m = "RdfTriple"%string /\ reads_slot g_s s m /\ reads_slot g_p p m /\ reads_slot g_o o m
  | RQuad s p o g => pb_kind m = "RdfQuad"%string /\ reads_slot g_s s m /\ reads_slot g_p p m /\ reads_slot g_o o m /\ reads_slot g_g g m
  | RGraphStart g => pb_kind m = "RdfGraphStart"%string /\ reads_slot g_g g m
  | RGraphEnd => pb_kind m = "RdfGraphEnd"%string
  | RNamespace name p n =>
    pb_kind m = "RdfNamespaceDeclaration"%string /\ msg_str (K := str) [] "name" m = name /\
    msg_int "prefix_id" (msg_sub "value" "RdfIri" m) = Z.of_N p /\ msg_int "name_id" (msg_sub "value" "RdfIri" m) = Z.of_N n
  | REmpty => False
  end.

(* what decode_row returns against what the model says iter_rows yields for the row *)
Definition row_out (r : row) (v : option aval) (evs : list event) : Prop :=
  match r with
  | RTriple _ _ _ | RQuad _ _ _ _ | RNamespace _ _ _ => exists ev, v = Some (AEv ev) /\ evs = [ev]
  | _ => evs = []
  end.

Lemma Rdec_same_decoder ig ak po (d : Dec) st : Rdec ig ak po d st -> Rdec ig ak po (set_Decoder_adapter SN (Decoder_adapter SN d) d) st.
Proof. intros H. destruct d. exact H. Qed.

Lemma Rdec_readapt ig ak po (d : Dec) st a :
  Rdec ig ak po d st -> a = Decoder_adapter SN d -> Rdec ig ak po (set_Decoder_adapter SN a d) st.
Proof. intros H ->. apply Rdec_same_decoder. exact H. Qed.

Lemma tie_row_triple ig ak po s p o m (d : Dec) st :
  Rdec ig ak po d st -> reads_slot g_s s m -> reads_slot g_p p m -> reads_slot g_o o m ->
  match g_triple m d, decode_row ig ak po (RTriple s p o) st with
  | (Val v, d'), Ok (st', evs) => Rdec ig ak po d' st' /\ exists ev, v = AEv ev /\ evs = [ev]
  | (Exn e, _), Err me => err_ok e me
  | _, _ => False
  end.
Proof.
  intros HR Rs Rp Ro. rewrite g_triple_shape. cbn [decode_row].
  pose proof (gspo_tie ig ak po s p o m d st (fin a_triple) HR Rs Rp Ro) as H.
  destruct (decode_spo ig s p o st) as [[[[st1 ts] tp] to]|me]; cbn [bind].
  - destruct H as (d1 & -> & HR1). unfold fin. pose proof HR1 as [HC1 _]. rewrite (adapter_of _ _ _ _ _ HC1).
    unfold a_triple. cbn [ma_kind ma_graph].
    destruct ak.
    + split; [apply Rdec_readapt; [exact HR1 | rewrite (adapter_of _ _ _ _ _ HC1); reflexivity] | eexists; split; reflexivity].
    + right. reflexivity.
    + destruct (ds_graph st1) eqn:Eg.
      * split; [apply Rdec_readapt; [exact HR1 | rewrite (adapter_of _ _ _ _ _ HC1), Eg; reflexivity] | eexists; split; reflexivity].
      * right. reflexivity.
  - destruct H as (e & d1 & -> & He). exact He.
Qed.

Lemma Rdec_set_g ig ak po (d : Dec) st tg :
  Rcore ig ak po d st -> (forall k', ad_find str_eqb k' (rt_of d) = if str_eqb k' k_graph then Some (ATerm tg) else
                                     match (if str_eqb k' k_subject then Some (ds_s st) else if str_eqb k' k_predicate then Some (ds_p st)
                                            else if str_eqb k' k_object then Some (ds_o st) else None) with
                                     | Some x => option_map ATerm x | None => ad_find str_eqb k' (rt_of d) end) ->
  Rdec ig ak po d (set_g st tg).
Proof.
  intros HR F. split; [exact HR|]. unfold rt_ok, set_g. cbn [ds_s ds_p ds_o ds_g].
  rewrite (F k_subject), (F k_predicate), (F k_object), (F k_graph). cbn. repeat split.
Qed.

Lemma tie_row_quad ig ak po s p o g m (d : Dec) st :
  Rdec ig ak po d st -> reads_slot g_s s m -> reads_slot g_p p m -> reads_slot g_o o m -> reads_slot g_g g m ->
  match g_quad m d, decode_row ig ak po (RQuad s p o g) st with
  | (Val v, d'), Ok (st', evs) => Rdec ig ak po d' st' /\ exists ev, v = AEv ev /\ evs = [ev]
  | (Exn e, _), Err me => err_ok e me
  | _, _ => False
  end.
Proof.
  intros HR Rs Rp Ro Rg. rewrite g_quad_shape. cbn [decode_row].
  pose proof (gspo_tie ig ak po s p o m d st (fun d3 t3 => gslot g_g k_graph m d3 t3 (fin a_quad)) HR Rs Rp Ro) as H.
  destruct (decode_spo ig s p o st) as [[[[st1 ts] tp] to]|me]; cbn [bind].
  2: { destruct H as (e & d1 & -> & He). exact He. }
  destruct H as (d1 & -> & [HC1 (Hs1 & Hp1 & Ho1 & Hg1)]).
  pose proof (gslot_tie ig ak po g_g k_graph g (ds_g st1) m d1 st1 [ATerm ts; ATerm tp; ATerm to] (fin a_quad) HC1 Rg Hg1) as H2.
  destruct (decode_slot ig g (ds_g st1) st1) as [[st2 tg]|me2]; cbn [bind].
  2: { destruct H2 as (e & d2 & -> & He). exact He. }
  destruct H2 as (d2 & -> & HC2 & (Ea & Eb & Ec & Ed) & F).
  unfold fin. rewrite (adapter_of _ _ _ _ _ HC2). unfold a_quad. cbn [ma_kind app].
  destruct ak; try (right; reflexivity).
  rewrite <- (adapter_of _ _ _ _ _ HC2). split; [|eexists; split; reflexivity].
  apply Rdec_same_decoder. apply Rdec_set_g; [exact HC2|].
  intros k'. rewrite F. destruct (str_eqb k' k_graph) eqn:E1; [reflexivity|].
  destruct (str_eqb k' k_subject) eqn:E2; [apply str_eqb_true in E2; subst k'; rewrite Ea; exact Hs1|].
  destruct (str_eqb k' k_predicate) eqn:E3; [apply str_eqb_true in E3; subst k'; rewrite Eb; exact Hp1|].
  destruct (str_eqb k' k_object) eqn:E4; [apply str_eqb_true in E4; subst k'; rewrite Ec; exact Ho1|].
  reflexivity.
Qed.

Lemma tie_row_options ig ak po o m (d : Dec) st :
  Rdec ig ak po d st -> reads_options m o ->
  match g_validate m d, decode_row ig ak po (ROptions o) st with
  | (Val _, d'), Ok (st', evs) => Rdec ig ak po d' st' /\ evs = []
  | (Exn e, _), Err me => err_ok e me
  | _, _ => False
  end.
Proof.
  intros HR (H1 & H2 & H3 & H4 & H5 & H6 & H7 & H8 & H9). pose proof HR as [HC _].
  unfold Decoder_validate_stream_options, decode_row, validate_stream_options. cbv zeta.
  rewrite (adapter_of _ _ _ _ _ HC). cbn [ma_opts]. unfold popts_obj.
  cbn [ParserOptions_stream_types ParserOptions_lookup_preset ParserOptions_params StreamTypes_physical_type StreamTypes_logical_type
       StreamParameters_stream_name StreamParameters_version LookupPreset_max_prefixes LookupPreset_max_datatypes LookupPreset_max_names].
  change (s_empty SN) with (@nil N). change (carrier SN) with str in *. change (s_eqb SN) with str_eqb.
  rewrite H1, H2, H3, H4, H5, H6, H9.
  destruct (po_phys po =? o_phys o)%N eqn:E1; [replace (Z.of_N (po_phys po) =? Z.of_N (o_phys o)) with true by lia | replace (Z.of_N (po_phys po) =? Z.of_N (o_phys o)) with false by lia; right; reflexivity].
  destruct (po_logical po =? o_logical o)%N eqn:E2; [replace (Z.of_N (po_logical po) =? Z.of_N (o_logical o)) with true by lia | replace (Z.of_N (po_logical po) =? Z.of_N (o_logical o)) with false by lia; right; reflexivity].
  destruct (str_eqb (po_name po) (o_name o)); [|right; reflexivity].
  destruct (o_version o <=? po_version po)%N eqn:E4; [replace (Z.of_N (po_version po) >=? Z.of_N (o_version o)) with true by lia | replace (Z.of_N (po_version po) >=? Z.of_N (o_version o)) with false by lia; right; reflexivity].
  destruct (po_maxp po =? o_maxp o)%N eqn:E5; [replace (Z.of_N (po_maxp po) =? Z.of_N (o_maxp o)) with true by lia | replace (Z.of_N (po_maxp po) =? Z.of_N (o_maxp o)) with false by lia; right; reflexivity].
  destruct (po_maxd po =? o_maxd o)%N eqn:E6; [replace (Z.of_N (po_maxd po) =? Z.of_N (o_maxd o)) with true by lia | replace (Z.of_N (po_maxd po) =? Z.of_N (o_maxd o)) with false by lia; right; reflexivity].
  destruct (po_maxn po =? o_maxn o)%N eqn:E7; [replace (Z.of_N (po_maxn po) =? Z.of_N (o_maxn o)) with true by lia | replace (Z.of_N (po_maxn po) =? Z.of_N (o_maxn o)) with false by lia; right; reflexivity].
  cbn [andb]. split; [exact HR | reflexivity].
Qed.

Lemma tie_row_prefix ig ak po i v m (d : Dec) st :
  Rdec ig ak po d st -> msg_int "id" m = Z.of_N i -> msg_str (K := str) [] "value" m = v ->
  match Decoder_ingest_prefix_entry SN m d, decode_row ig ak po (Terms.RPrefix i v) st with
  | (Val _, d'), Ok (st', evs) => Rdec ig ak po d' st' /\ evs = []
  | (Exn e, _), Err me => err_ok e me
  | _, _ => False
  end.
Proof.
  intros [(Hn & Hp & Hd & Ha) Hrt] Hi Hv. unfold Decoder_ingest_prefix_entry, decode_row, assign.
  change (s_empty SN) with (@nil N). change (carrier SN) with str in *. rewrite Hi, Hv.
  pose proof (tiez_assign i v _ _ Hp) as H. change (carrier SN) with str in *.
  destruct (LookupDecoder_assign_entry SN (Z.of_N i) v (Decoder_prefixes SN d)) as [[u|e] g'];
    destruct (L.assign_entry i v (ds_prefixes st)) as [m'|]; try contradiction; cbn [bind].
  - split; [|reflexivity]. destruct d. split; [|exact Hrt]. repeat split; try apply Hn; try apply Hd; try apply H; try exact Ha.
  - left. reflexivity.
Qed.

Lemma tie_row_name ig ak po i v m (d : Dec) st :
  Rdec ig ak po d st -> msg_int "id" m = Z.of_N i -> msg_str (K := str) [] "value" m = v ->
  match Decoder_ingest_name_entry SN m d, decode_row ig ak po (Terms.RName i v) st with
  | (Val _, d'), Ok (st', evs) => Rdec ig ak po d' st' /\ evs = []
  | (Exn e, _), Err me => err_ok e me
  | _, _ => False
  end.
Proof.
  intros [(Hn & Hp & Hd & Ha) Hrt] Hi Hv. unfold Decoder_ingest_name_entry, decode_row, assign.
  change (s_empty SN) with (@nil N). change (carrier SN) with str in *. rewrite Hi, Hv.
  pose proof (tiez_assign i v _ _ Hn) as H. change (carrier SN) with str in *.
  destruct (LookupDecoder_assign_entry SN (Z.of_N i) v (Decoder_names SN d)) as [[u|e] g'];
    destruct (L.assign_entry i v (ds_names st)) as [m'|]; try contradiction; cbn [bind].
  - split; [|reflexivity]. destruct d. split; [|exact Hrt]. repeat split; try apply Hp; try apply Hd; try apply H; try exact Ha.
  - left. reflexivity.
Qed.

Lemma tie_row_datatype ig ak po i v m (d : Dec) st :
  Rdec ig ak po d st -> msg_int "id" m = Z.of_N i -> msg_str (K := str) [] "value" m = v ->
  match Decoder_ingest_datatype_entry SN m d, decode_row ig ak po (Terms.RDatatype i v) st with
  | (Val _, d'), Ok (st', evs) => Rdec ig ak po d' st' /\ evs = []
  | (Exn e, _), Err me => err_ok e me
  | _, _ => False
  end.
Proof.
  intros [(Hn & Hp & Hd & Ha) Hrt] Hi Hv. unfold Decoder_ingest_datatype_entry, decode_row, assign.
  change (s_empty SN) with (@nil N). change (carrier SN) with str in *. rewrite Hi, Hv.
  pose proof (tiez_assign i v _ _ Hd) as H. change (carrier SN) with str in *.
  destruct (LookupDecoder_assign_entry SN (Z.of_N i) v (Decoder_datatypes SN d)) as [[u|e] g'];
    destruct (L.assign_entry i v (ds_datatypes st)) as [m'|]; try contradiction; cbn [bind].
  - split; [|reflexivity]. destruct d. split; [|exact Hrt]. repeat split; try apply Hn; try apply Hp; try apply H; try exact Ha.
  - left. reflexivity.
Qed.

Lemma Rdec_of_step ig ak po (d d' : Dec) st st' : Rdec ig ak po d st -> step_ok ig ak po d st d' st' -> Rdec ig ak po d' st'.
Proof.
  intros [_ (H1 & H2 & H3 & H4)] (HC & Hrt & (Ea & Eb & Ec & Ed)). split; [exact HC|].
  unfold rt_ok. rewrite Hrt, Ea, Eb, Ec, Ed. repeat split; assumption.
Qed.

Lemma tie_row_graph_start ig ak po g m (d : Dec) st :
  Rdec ig ak po d st -> reads_slot g_g g m ->
  match g_graph_start m d, decode_row ig ak po (RGraphStart g) st with
  | (Val _, d'), Ok (st', evs) => Rdec ig ak po d' st' /\ evs = []
  | (Exn e, _), Err me => err_ok e me
  | _, _ => False
  end.
Proof.
  intros HR Hg. pose proof HR as [HC _]. unfold Decoder_decode_graph_start, decode_row.
  change ["g_iri"%string; "g_bnode"%string; "g_default_graph"%string; "g_literal"%string] with g_g. change (carrier SN) with str in *.
  destruct g as [w|]; cbn [reads_slot] in Hg.
  2: { rewrite Hg. right. reflexivity. }
  destruct Hg as (f & v & Hw & Hf & Hr). rewrite Hw, Hf.
  pose proof (tie_dec_term_top ig ak po w v d st HC Hr) as H.
  destruct (g_term v d) as [[x|e] d1]; destruct (decode_term ig w st) as [[st1 t1]|me]; try contradiction; cbn [bind]; [|exact H].
  destruct H as [-> HS]. pose proof (Rdec_of_step _ _ _ _ _ _ _ HR HS) as HR1. pose proof HS as [HC1 _].
  rewrite (adapter_of _ _ _ _ _ HC1). unfold a_graph_start. cbn [ma_kind].
  destruct ak; try (right; reflexivity).
  split; [|reflexivity]. destruct d1. destruct HR1 as [(Hn & Hp & Hd & Ha) Hrt]. split; [|exact Hrt].
  repeat split; try apply Hn; try apply Hp; try apply Hd.
Qed.

Lemma tie_row_graph_end ig ak po m (d : Dec) st :
  Rdec ig ak po d st ->
  match g_graph_end m d, decode_row ig ak po RGraphEnd st with
  | (Val _, d'), Ok (st', evs) => Rdec ig ak po d' st' /\ evs = []
  | (Exn e, _), Err me => err_ok e me
  | _, _ => False
  end.
Proof.
  intros HR. pose proof HR as [HC _]. unfold Decoder_decode_graph_end, decode_row.
  rewrite (adapter_of _ _ _ _ _ HC). unfold a_graph_end. cbn [ma_kind].
  destruct ak; try (right; reflexivity).
  split; [|reflexivity]. destruct d. destruct HR as [(Hn & Hp & Hd & Ha) Hrt]. split; [|exact Hrt].
  repeat split; try apply Hn; try apply Hp; try apply Hd.
Qed.

Lemma tie_row_namespace ig ak po name p n m (d : Dec) st :
  Rdec ig ak po d st -> msg_str (K := str) [] "name" m = name ->
  msg_int "prefix_id" (msg_sub "value" "RdfIri" m) = Z.of_N p -> msg_int "name_id" (msg_sub "value" "RdfIri" m) = Z.of_N n ->
  match g_namespace m d, decode_row ig ak po (RNamespace name p n) st with
  | (Val v, d'), Ok (st', evs) => Rdec ig ak po d' st' /\ exists ev, v = AEv ev /\ evs = [ev]
  | (Exn e, _), Err me => err_ok e me
  | _, _ => False
  end.
Proof.
  intros HR Hname Hp Hn. pose proof HR as [HC _]. unfold Decoder_decode_namespace_declaration, decode_row.
  change (s_empty SN) with (@nil N). change (carrier SN) with str in *.
  pose proof (tie_dec_iri ig ak po d st _ p n HC Hp Hn) as H.
  destruct (g_iri (msg_sub "value" "RdfIri" m) d) as [[x|e] d1]; destruct (decode_iri p n st) as [[st1 iri]|me]; try contradiction; cbn [bind]; [|exact H].
  destruct H as [-> HS]. pose proof (Rdec_of_step _ _ _ _ _ _ _ HR HS) as HR1.
  cbn [a_namespace]. rewrite Hname. split; [|eexists; split; reflexivity].
  apply Rdec_same_decoder. exact HR1.
Qed.

(* ------------------------------------------------------------------ decode_row: the dispatch on the type of the row *)
Theorem source_decode_row_is_model ig ak po r m (d : Dec) st :
  Rdec ig ak po d st -> reads_row r m ->
  match g_row m d, decode_row ig ak po r st with
  | (Val v, d'), Ok (st', evs) => Rdec ig ak po d' st' /\ row_out r v evs
  | (Exn e, _), Err me => err_ok e me
  | _, _ => False
  end.
Proof.
  intros HR Hm. unfold Decoder_decode_row. change (carrier SN) with str in *.
  destruct r as [o|i v|i v|i v|s p o|s p o g|g| |name p n|]; cbn [reads_row] in Hm.
  - destruct Hm as [Hk Ho]. rewrite Hk. cbn [String.eqb Ascii.eqb Bool.eqb].
    pose proof (tie_row_options ig ak po o m d st HR Ho) as H.
    destruct (g_validate m d) as [[u|e] d1]; destruct (decode_row ig ak po (ROptions o) st) as [[st1 evs]|me]; try contradiction; [|exact H].
    destruct H as [H ->]. split; [exact H | reflexivity].
  - destruct Hm as (Hk & Hi & Hv). rewrite Hk. cbn [String.eqb Ascii.eqb Bool.eqb].
    pose proof (tie_row_prefix ig ak po i v m d st HR Hi Hv) as H.
    destruct (Decoder_ingest_prefix_entry SN m d) as [[u|e] d1]; destruct (decode_row ig ak po (Terms.RPrefix i v) st) as [[st1 evs]|me]; try contradiction; [|exact H].
    destruct H as [H ->]. split; [exact H | reflexivity].
  - destruct Hm as (Hk & Hi & Hv). rewrite Hk. cbn [String.eqb Ascii.eqb Bool.eqb].
    pose proof (tie_row_name ig ak po i v m d st HR Hi Hv) as H.
    destruct (Decoder_ingest_name_entry SN m d) as [[u|e] d1]; destruct (decode_row ig ak po (Terms.RName i v) st) as [[st1 evs]|me]; try contradiction; [|exact H].
    destruct H as [H ->]. split; [exact H | reflexivity].
  - destruct Hm as (Hk & Hi & Hv). rewrite Hk. cbn [String.eqb Ascii.eqb Bool.eqb].
    pose proof (tie_row_datatype ig ak po i v m d st HR Hi Hv) as H.
    destruct (Decoder_ingest_datatype_entry SN m d) as [[u|e] d1]; destruct (decode_row ig ak po (Terms.RDatatype i v) st) as [[st1 evs]|me]; try contradiction; [|exact H].
    destruct H as [H ->]. split; [exact H | reflexivity].
  - destruct Hm as (Hk & Rs & Rp & Ro). rewrite Hk. cbn [String.eqb Ascii.eqb Bool.eqb].
    pose proof (tie_row_triple ig ak po s p o m d st HR Rs Rp Ro) as H.
    destruct (g_triple m d) as [[u|e] d1]; destruct (decode_row ig ak po (RTriple s p o) st) as [[st1 evs]|me]; try contradiction; [|exact H].
    destruct H as [H (ev & -> & ->)]. split; [exact H|]. exists ev. split; reflexivity.
  - destruct Hm as (Hk & Rs & Rp & Ro & Rg). rewrite Hk. cbn [String.eqb Ascii.eqb Bool.eqb].
    pose proof (tie_row_quad ig ak po s p o g m d st HR Rs Rp Ro Rg) as H.
    destruct (g_quad m d) as [[u|e] d1]; destruct (decode_row ig ak po (RQuad s p o g) st) as [[st1 evs]|me]; try contradiction; [|exact H].
    destruct H as [H (ev & -> & ->)]. split; [exact H|]. exists ev. split; reflexivity.
  - destruct Hm as (Hk & Rg). rewrite Hk. cbn [String.eqb Ascii.eqb Bool.eqb].
    pose proof (tie_row_graph_start ig ak po g m d st HR Rg) as H.
    destruct (g_graph_start m d) as [[u|e] d1]; destruct (decode_row ig ak po (RGraphStart g) st) as [[st1 evs]|me]; try contradiction; [|exact H].
    destruct H as [H ->]. split; [exact H | reflexivity].
  - rewrite Hm. cbn [String.eqb Ascii.eqb Bool.eqb].
    pose proof (tie_row_graph_end ig ak po m d st HR) as H.
    destruct (g_graph_end m d) as [[u|e] d1]; destruct (decode_row ig ak po RGraphEnd st) as [[st1 evs]|me]; try contradiction; [|exact H].
    destruct H as [H ->]. split; [exact H | reflexivity].
  - destruct Hm as (Hk & Hname & Hp & Hn). rewrite Hk. cbn [String.eqb Ascii.eqb Bool.eqb].
    pose proof (tie_row_namespace ig ak po name p n m d st HR Hname Hp Hn) as H.
    destruct (g_namespace m d) as [[u|e] d1]; destruct (decode_row ig ak po (RNamespace name p n) st) as [[st1 evs]|me]; try contradiction; [|exact H].
    destruct H as [H (ev & -> & ->)]. split; [exact H|]. exists ev. split; reflexivity.
  - contradiction.
Qed.

(* ------------------------------------------------------------------ iter_rows: the rows of a frame *)
Definition g_rows := ["options"; "triple"; "quad"; "graph_start"; "graph_end"; "namespace"; "name"; "prefix"; "datatype"]%string.

(* a row of the frame (an RdfStreamRow) holds the row message under the name WhichOneof("row") gives; a row with nothing
   set is the model's REmpty *)
Definition reads_owner (r : row) (owner : pbval str) : Prop :=
  match r with
  | REmpty => msg_which g_rows owner = None
  | _ => exists f v, msg_which g_rows owner = Some f /\ msg_field f owner = Some v /\ reads_row r v
  end.

Definition yielded (evs : list event) : list (option aval) := map (fun e => Some (AEv e)) evs.

Lemma row_out_kind r v evs m : reads_row r m -> row_out r v evs ->
  (if (String.eqb (pb_kind m) "RdfTriple" || String.eqb (pb_kind m) "RdfQuad" || String.eqb (pb_kind m) "RdfNamespaceDeclaration")%bool
   then [v] else []) = yielded evs.
Proof.
  destruct r; cbn [reads_row row_out]; intros Hm Ho;
    try (destruct Hm as [Hk _]; rewrite Hk); try (rewrite Hm); try contradiction; cbn [String.eqb Ascii.eqb Bool.eqb orb];
    try (subst evs; reflexivity); destruct Ho as (ev & -> & ->); reflexivity.
Qed.

Theorem source_iter_rows_is_model ig ak po (rows : list row) (owners : list (pbval str)) (fm : pbval str) (d : Dec) st :
  Rdec ig ak po d st -> msg_rep "rows" fm = owners -> Forall2 reads_owner rows owners ->
  match g_iter_rows fm d, decode_rows ig ak po rows st with
  | (r, d', ys), (st', evs, err) =>
    ys = yielded evs /\
    match r, err with
    | Val _, None => Rdec ig ak po d' st'
    | Exn e, Some me => err_ok e me
    | _, _ => False
    end
  end.
Proof.
  intros HR Hrep Hall. unfold Decoder_iter_rows. cbv zeta. change (carrier SN) with str in *. rewrite Hrep.
  match goal with |- context [?f owners (d, @nil (option aval))] => set (loop := f) end.
  assert (Hloop : forall rows owners (dx : Dec) stx (ys : list (option aval)),
             Rdec ig ak po dx stx -> Forall2 reads_owner rows owners ->
             match loop owners (dx, ys), decode_rows ig ak po rows stx with
             | LContinue (d', ys'), (st', evs, None) => ys' = ys ++ yielded evs /\ Rdec ig ak po d' st'
             | LRaise e (d', ys'), (st', evs, Some me) => ys' = ys ++ yielded evs /\ err_ok e me
             | _, _ => False
             end).
  { clear. intros rows owners dx stx ys HRx Hall. revert dx stx ys HRx.
    induction Hall as [|r owner rows owners Hr Hall IH]; intros dx stx ys HRx.
    - cbn. split; [rewrite app_nil_r; reflexivity | exact HRx].
    - cbn [decode_rows]. unfold loop at 1. fold loop. cbv beta iota.
      change ["options"%string; "triple"%string; "quad"%string; "graph_start"%string; "graph_end"%string; "namespace"%string; "name"%string; "prefix"%string; "datatype"%string] with g_rows.
      assert (Hcase : r = REmpty /\ msg_which g_rows owner = None \/
                      exists f v, msg_which g_rows owner = Some f /\ msg_field f owner = Some v /\ reads_row r v).
      { destruct r; cbn [reads_owner] in Hr; try (right; exact Hr). left. split; [reflexivity | exact Hr]. }
      destruct Hcase as [[-> Hw]|(f & v & Hw & Hf & Hv)].
      + change (carrier SN) with str in *. rewrite Hw. cbn. split; [rewrite app_nil_r; reflexivity | right; reflexivity].
      + change (carrier SN) with str in *. rewrite Hw, Hf.
        pose proof (source_decode_row_is_model ig ak po r v dx stx HRx Hv) as H.
        destruct (g_row v dx) as [[x|e] d1]; destruct (decode_row ig ak po r stx) as [[st1 evs1]|me]; try contradiction.
        * destruct H as [HR1 Hout]. pose proof (row_out_kind r x evs1 v Hv Hout) as Hy.
          match goal with |- context [if ?c then _ else _] => destruct c end.
          -- specialize (IH d1 st1 (ys ++ [x]) HR1).
             destruct (loop owners (d1, ys ++ [x])) as [[d' ys']|rv [d' ys']|e [d' ys']];
               destruct (decode_rows ig ak po rows st1) as [[st' evs] [me|]]; try contradiction;
               destruct IH as [-> IH]; (split; [|exact IH]); unfold yielded in *; rewrite map_app, <- Hy, <- app_assoc; reflexivity.
          -- specialize (IH d1 st1 ys HR1).
             destruct (loop owners (d1, ys)) as [[d' ys']|rv [d' ys']|e [d' ys']];
               destruct (decode_rows ig ak po rows st1) as [[st' evs] [me|]]; try contradiction;
               destruct IH as [-> IH]; (split; [|exact IH]); unfold yielded in *; rewrite map_app, <- Hy; reflexivity.
        * cbn. split; [rewrite app_nil_r; reflexivity | exact H]. }
  specialize (Hloop rows owners d st [] HR Hall).
  destruct (loop owners (d, [])) as [[d' ys']|rv [d' ys']|e [d' ys']];
    destruct (decode_rows ig ak po rows st) as [[st' evs] [me|]]; try contradiction;
    destruct Hloop as [-> H]; (split; [reflexivity | exact H]).
Qed.

(* ------------------------------------------------------------------ the premises are satisfiable: for every row that
   protobuf can represent there is a message object that reads as it (the one with exactly the fields set) *)
Definition suffix (w : wterm) : string :=
  match w with WIri _ _ => "_iri" | WBnode _ => "_bnode" | WLit _ _ => "_literal" | WTriple _ _ _ => "_triple_term" | WDefault => "_default_graph" end.

Fixpoint wmsg (w : wterm) : pbval str :=
  match w with
  | WIri p n => PMsg "RdfIri" [("prefix_id"%string, PInt (Z.of_N p)); ("name_id"%string, PInt (Z.of_N n))]
  | WBnode l => PStr l
  | WLit lex k => PMsg "RdfLiteral" (("lex"%string, PStr lex) ::
                    match k with LkNone => [] | LkLang t => [("langtag"%string, PStr t)] | LkDt i => [("datatype"%string, PInt (Z.of_N i))] end)
  | WDefault => PMsg "RdfDefaultGraph" []
  | WTriple s p o =>
    PMsg "RdfTriple" (match s with Some s' => [(("s" ++ suffix s')%string, wmsg s')] | None => [] end ++
                      match p with Some p' => [(("p" ++ suffix p')%string, wmsg p')] | None => [] end ++
                      match o with Some o' => [(("o" ++ suffix o')%string, wmsg o')] | None => [] end)
  end.

Definition slot_fields (pre : string) (w : option wterm) : list (string * pbval str) :=
  match w with Some w' => [((pre ++ suffix w')%string, wmsg w')] | None => [] end.

(* what rdf.proto can say: no default graph as subject, predicate or object (nor inside a quoted triple); no quoted
   triple as a graph name *)
Fixpoint wf_term (w : wterm) : bool :=
  match w with
  | WTriple s p o =>
    match s with Some WDefault => false | Some s' => wf_term s' | None => true end &&
    match p with Some WDefault => false | Some p' => wf_term p' | None => true end &&
    match o with Some WDefault => false | Some o' => wf_term o' | None => true end
  | _ => true
  end.
Definition wf_spo (w : option wterm) : bool := match w with Some WDefault => false | Some w' => wf_term w' | None => true end.
Definition wf_g (w : option wterm) : bool := match w with Some (WTriple _ _ _) => false | Some w' => wf_term w' | None => true end.

Definition row_msg (r : row) : pbval str :=
  match r with
  | ROptions o => msg_sub "options" "RdfStreamOptions" (options_msg o)
  | Terms.RPrefix i v => PMsg "RdfPrefixEntry" [("id"%string, PInt (Z.of_N i)); ("value"%string, PStr v)]
  | Terms.RName i v => PMsg "RdfNameEntry" [("id"%string, PInt (Z.of_N i)); ("value"%string, PStr v)]
  | Terms.RDatatype i v => PMsg "RdfDatatypeEntry" [("id"%string, PInt (Z.of_N i)); ("value"%string, PStr v)]
  | RTriple s p o => PMsg "RdfTriple" (slot_fields "s" s ++ slot_fields "p" p ++ slot_fields "o" o)
  | RQuad s p o g => PMsg "RdfQuad" (slot_fields "s" s ++ slot_fields "p" p ++ slot_fields "o" o ++ slot_fields "g" g)
  | RGraphStart g => PMsg "RdfGraphStart" (slot_fields "g" g)
  | RGraphEnd => PMsg "RdfGraphEnd" []
  | RNamespace name p n => PMsg "RdfNamespaceDeclaration" [("name"%string, PStr name);
                             ("value"%string, PMsg "RdfIri" [("prefix_id"%string, PInt (Z.of_N p)); ("name_id"%string, PInt (Z.of_N n))])]
  | REmpty => PMsg "" []
  end.
Definition row_field (r : row) : string :=
  match r with
  | ROptions _ => "options" | Terms.RPrefix _ _ => "prefix" | Terms.RName _ _ => "name" | Terms.RDatatype _ _ => "datatype"
  | RTriple _ _ _ => "triple" | RQuad _ _ _ _ => "quad" | RGraphStart _ => "graph_start" | RGraphEnd => "graph_end"
  | RNamespace _ _ _ => "namespace" | REmpty => ""
  end.
Definition owner_msg (r : row) : pbval str :=
  match r with REmpty => PMsg "RdfStreamRow" [] | _ => PMsg "RdfStreamRow" [(row_field r, row_msg r)] end.

Definition wf_row (r : row) : bool :=
  match r with
  | RTriple s p o => wf_spo s && wf_spo p && wf_spo o
  | RQuad s p o g => wf_spo s && wf_spo p && wf_spo o && wf_g g
  | RGraphStart g => wf_g g
  | _ => true
  end.

Lemma wmsg_reads (w : wterm) : wf_term w = true -> reads_term w (wmsg w).
Proof.
  induction w as [p n|l|lex k| |a b c IHa IHb IHc] using wterm_ind'; intros Hwf; cbn [reads_term wmsg].
  - repeat split.
  - reflexivity.
  - split; [reflexivity|]. split; [reflexivity|]. destruct k; repeat split.
  - reflexivity.
  - cbn [wf_term] in Hwf. apply andb_true_iff in Hwf as [Hwf Hc]. apply andb_true_iff in Hwf as [Ha Hb].
    split; [reflexivity|].
    split; [|split].
    + destruct a as [a'|]; [|destruct b as [[]|], c as [[]|]; try discriminate; reflexivity].
      cbn [OP] in IHa. exists ("s" ++ suffix a')%string, (wmsg a').
      destruct a'; try discriminate; (split; [reflexivity|]); (split; [reflexivity|]); apply IHa; exact Ha.
    + destruct b as [b'|]; [|destruct a as [[]|], c as [[]|]; try discriminate; reflexivity].
      cbn [OP] in IHb. exists ("p" ++ suffix b')%string, (wmsg b').
      destruct b'; try discriminate; (split; [destruct a as [[]|]; try discriminate; reflexivity|]);
        (split; [destruct a as [[]|]; try discriminate; reflexivity|]); apply IHb; exact Hb.
    + destruct c as [c'|]; [|destruct a as [[]|], b as [[]|]; try discriminate; reflexivity].
      cbn [OP] in IHc. exists ("o" ++ suffix c')%string, (wmsg c').
      destruct c'; try discriminate; (split; [destruct a as [[]|], b as [[]|]; try discriminate; reflexivity|]);
        (split; [destruct a as [[]|], b as [[]|]; try discriminate; reflexivity|]); apply IHc; exact Hc.
Qed.

Lemma which_of_app (G : list string) (l1 l2 : list (string * pbval str)) :
  which_of G (l1 ++ l2) = match which_of G l1 with Some f => Some f | None => which_of G l2 end.
Proof. induction l1 as [|[n v] l1 IH]; cbn [app which_of]; [reflexivity|]. destruct (existsb (String.eqb n) G); [reflexivity | exact IH]. Qed.

Lemma msg_get_app f (l1 l2 : list (string * pbval str)) :
  msg_get f (l1 ++ l2) = match msg_get f l1 with Some v => Some v | None => msg_get f l2 end.
Proof. induction l1 as [|[n v] l1 IH]; cbn [app msg_get]; [reflexivity|]. destruct (String.eqb n f); [reflexivity | exact IH]. Qed.

(* a slot's field is found by its own group only, under its own name only *)
Definition own_slot (pre : string) (G : list string) : Prop :=
  forall w, (if String.eqb pre "g" then wf_g w else wf_spo w) = true ->
  match w with
  | Some w' => which_of G (slot_fields pre w) = Some (pre ++ suffix w')%string /\ msg_get (pre ++ suffix w')%string (slot_fields pre w) = Some (wmsg w')
  | None => which_of G (slot_fields pre w) = None
  end.
Lemma own_s : own_slot "s" g_s. Proof. intros [[]|]; cbn; try discriminate; intros _; repeat split. Qed.
Lemma own_p : own_slot "p" g_p. Proof. intros [[]|]; cbn; try discriminate; intros _; repeat split. Qed.
Lemma own_o : own_slot "o" g_o. Proof. intros [[]|]; cbn; try discriminate; intros _; repeat split. Qed.
Lemma own_g : own_slot "g" g_g. Proof. intros [[]|]; cbn; try discriminate; intros _; repeat split. Qed.

Definition foreign (pre pre' : string) (G : list string) : Prop :=
  forall w, which_of G (slot_fields pre w) = None /\ forall w', msg_get (pre' ++ suffix w')%string (slot_fields pre w) = None.
Ltac foreign_tac := intros [[]|]; (split; [reflexivity | intros []; reflexivity]).
Lemma for_sp : foreign "s" "p" g_p. Proof. foreign_tac. Qed.
Lemma for_so : foreign "s" "o" g_o. Proof. foreign_tac. Qed.
Lemma for_sg : foreign "s" "g" g_g. Proof. foreign_tac. Qed.
Lemma for_po : foreign "p" "o" g_o. Proof. foreign_tac. Qed.
Lemma for_pg : foreign "p" "g" g_g. Proof. foreign_tac. Qed.
Lemma for_og : foreign "o" "g" g_g. Proof. foreign_tac. Qed.

Lemma wf_spo_term w' : wf_spo (Some w') = true -> wf_term w' = true.
Proof. destruct w'; cbn; intros H; try exact H; try reflexivity; discriminate. Qed.
Lemma wf_g_term w' : wf_g (Some w') = true -> wf_term w' = true.
Proof. destruct w'; cbn; intros H; try exact H; try reflexivity; discriminate. Qed.

(* the slot pre of group G in a message whose fields are: foreign slots, then the slot, then anything *)
Lemma slot_reads n pre G (before : list (string * pbval str)) w after :
  own_slot pre G -> which_of G before = None -> (forall w', msg_get (pre ++ suffix w')%string before = None) ->
  (if String.eqb pre "g" then wf_g w else wf_spo w) = true ->
  (w = None -> which_of G after = None) ->
  reads_slot G w (PMsg n (before ++ slot_fields pre w ++ after)).
Proof.
  intros Hown Hb Hbg Hwf Hafter. specialize (Hown w Hwf). unfold reads_slot, msg_which, msg_field. cbn [msg_fields].
  destruct w as [w'|].
  - destruct Hown as [Hw Hg]. exists (pre ++ suffix w')%string, (wmsg w').
    rewrite which_of_app, Hb, which_of_app, Hw. split; [reflexivity|].
    rewrite msg_get_app, Hbg, msg_get_app, Hg. split; [reflexivity|].
    apply wmsg_reads. destruct (String.eqb pre "g"); [apply wf_g_term | apply wf_spo_term]; exact Hwf.
  - rewrite which_of_app, Hb, which_of_app, Hown. apply Hafter. reflexivity.
Qed.

Lemma none_app2 G (a b : list (string * pbval str)) : which_of G a = None -> which_of G b = None -> which_of G (a ++ b) = None.
Proof. intros Ha Hb. rewrite which_of_app, Ha. exact Hb. Qed.
Lemma get_none_app2 f (a b : list (string * pbval str)) : msg_get f a = None -> msg_get f b = None -> msg_get f (a ++ b) = None.
Proof. intros Ha Hb. rewrite msg_get_app, Ha. exact Hb. Qed.

Lemma foreign_back pre G : own_slot pre G -> True. Proof. trivial. Qed.

(* slots that come after the one looked for: invisible to its group (checked per pair) *)
Lemma after_ps w : which_of g_s (slot_fields "p" w) = None. Proof. destruct w as [[]|]; reflexivity. Qed.
Lemma after_os w : which_of g_s (slot_fields "o" w) = None. Proof. destruct w as [[]|]; reflexivity. Qed.
Lemma after_gs w : which_of g_s (slot_fields "g" w) = None. Proof. destruct w as [[]|]; reflexivity. Qed.
Lemma after_op w : which_of g_p (slot_fields "o" w) = None. Proof. destruct w as [[]|]; reflexivity. Qed.
Lemma after_gp w : which_of g_p (slot_fields "g" w) = None. Proof. destruct w as [[]|]; reflexivity. Qed.
Lemma after_go w : which_of g_o (slot_fields "g" w) = None. Proof. destruct w as [[]|]; reflexivity. Qed.

Theorem owner_msg_reads (r : row) : wf_row r = true -> reads_owner r (owner_msg r).
Proof.
  destruct r as [o|i v|i v|i v|s p o|s p o g|g| |name p n|]; cbn [wf_row]; intros Hwf; cbn [reads_owner owner_msg];
    try (eexists _, _; split; [reflexivity|]; split; [reflexivity|]; cbn [reads_row row_msg]).
  - split; [reflexivity|]. repeat split.
  - repeat split.
  - repeat split.
  - repeat split.
  - apply andb_true_iff in Hwf as [Hwf Ho]. apply andb_true_iff in Hwf as [Hs Hp].
    split; [reflexivity|]. split; [|split].
    + apply (slot_reads _ "s" g_s [] s); [exact own_s | reflexivity | reflexivity | exact Hs |].
      intros _. apply none_app2; [apply after_ps | apply after_os].
    + rewrite app_assoc. rewrite <- (app_nil_r (slot_fields "o" o)). rewrite <- app_assoc.
      apply (slot_reads _ "p" g_p (slot_fields "s" s) p); [exact own_p | apply for_sp | apply for_sp | exact Hp |].
      intros _. rewrite app_nil_r. apply after_op.
    + rewrite <- (app_nil_r (slot_fields "o" o)). rewrite !app_assoc. rewrite <- app_assoc.
      apply (slot_reads _ "o" g_o (slot_fields "s" s ++ slot_fields "p" p) o); [exact own_o | | | exact Ho | reflexivity].
      * apply none_app2; [apply for_so | apply for_po].
      * intros w'. apply get_none_app2; [apply for_so | apply for_po].
  - apply andb_true_iff in Hwf as [Hwf Hg]. apply andb_true_iff in Hwf as [Hwf Ho]. apply andb_true_iff in Hwf as [Hs Hp].
    split; [reflexivity|]. split; [|split; [|split]].
    + apply (slot_reads _ "s" g_s [] s); [exact own_s | reflexivity | reflexivity | exact Hs |].
      intros _. apply none_app2; [apply after_ps | apply none_app2; [apply after_os | apply after_gs]].
    + apply (slot_reads _ "p" g_p (slot_fields "s" s) p); [exact own_p | apply for_sp | apply for_sp | exact Hp |].
      intros _. apply none_app2; [apply after_op | apply after_gp].
    + rewrite (app_assoc (slot_fields "s" s)).
      apply (slot_reads _ "o" g_o (slot_fields "s" s ++ slot_fields "p" p) o); [exact own_o | | | exact Ho | intros _; apply after_go].
      * apply none_app2; [apply for_so | apply for_po].
      * intros w'. apply get_none_app2; [apply for_so | apply for_po].
    + rewrite <- (app_nil_r (slot_fields "g" g)). rewrite !app_assoc. rewrite <- app_assoc.
      apply (slot_reads _ "g" g_g ((slot_fields "s" s ++ slot_fields "p" p) ++ slot_fields "o" o) g); [exact own_g | | | exact Hg | reflexivity].
      * apply none_app2; [apply none_app2; [apply for_sg | apply for_pg] | apply for_og].
      * intros w'. apply get_none_app2; [apply get_none_app2; [apply for_sg | apply for_pg] | apply for_og].
  - split; [reflexivity|]. rewrite <- (app_nil_r (slot_fields "g" g)).
    apply (slot_reads _ "g" g_g [] g); [exact own_g | reflexivity | reflexivity | exact Hwf | reflexivity].
  - reflexivity.
  - repeat split.
  - reflexivity.
Qed.

(* so: whatever rows a frame carries (that rdf.proto can say), the translated iter_rows over the message object with
   exactly those fields set does what the model's decode_rows does -- no premise about the message left *)
Corollary source_iter_rows_on_built_frame ig ak po (rows : list row) (d : Dec) st :
  Rdec ig ak po d st -> forallb wf_row rows = true ->
  match g_iter_rows (PMsg "RdfStreamFrame" [("rows"%string, PRep (map owner_msg rows))]) d, decode_rows ig ak po rows st with
  | (r, d', ys), (st', evs, err) =>
    ys = yielded evs /\
    match r, err with
    | Val _, None => Rdec ig ak po d' st'
    | Exn e, Some me => err_ok e me
    | _, _ => False
    end
  end.
Proof.
  intros HR Hwf. apply (source_iter_rows_is_model ig ak po rows (map owner_msg rows)); [exact HR | reflexivity|].
  induction rows as [|r rows IH]; cbn [map]; [constructor|].
  cbn [forallb] in Hwf. apply andb_true_iff in Hwf as [Hr Hwf].
  constructor; [apply owner_msg_reads; exact Hr | apply IH; exact Hwf].
Qed.

(* ------------------------------------------------------------------ Decoder.__init__ *)
Lemma init_size z (g : LookupDecoder SN) : LookupDecoder___init__ SN z = Val g -> LookupDecoder_lookup_size g = z.
Proof.
  unfold LookupDecoder___init__. destruct (z >? 4096); [discriminate|].
  destruct (deque_make _ _); [|discriminate]. intros [= <-]. reflexivity.
Qed.

Lemma tiez_init size :
  match LookupDecoder___init__ SN (Z.of_N size), ldec_new size with
  | Val g, Ok m => Rz g m
  | Exn e, Err me => e = exn_of me
  | _, _ => False
  end.
Proof.
  unfold ldec_new, MAX_LOOKUP_SIZE. destruct (4096 <? size)%N eqn:E.
  - rewrite (tie_init_decoder_too_large SN size) by lia. reflexivity.
  - destruct (tie_init_decoder SN size ltac:(lia)) as (g & Hg & HR). rewrite Hg. split; [exact HR|].
    rewrite (init_size _ _ Hg). cbn [L.ldec_init L.d_data]. rewrite repeat_length. lia.
Qed.

Theorem source_decoder_init_is_model ig ak po :
  match Decoder___init__ SN ma_opts {| ma_opts := popts_obj po; ma_ig := ig; ma_kind := ak; ma_graph := None |}, decoder_new po with
  | Val d, Ok st => Rdec ig ak po d st
  | Exn e, Err me => e = exn_of me
  | _, _ => False
  end.
Proof.
  unfold Decoder___init__, decoder_new. cbn [ma_opts popts_obj ParserOptions_lookup_preset LookupPreset_max_names LookupPreset_max_prefixes LookupPreset_max_datatypes].
  pose proof (tiez_init (po_maxn po)) as Hn.
  destruct (LookupDecoder___init__ SN (Z.of_N (po_maxn po))) as [gn|e]; destruct (ldec_new (po_maxn po)) as [mn|me]; try contradiction; cbn [bind]; [|exact Hn].
  pose proof (tiez_init (po_maxp po)) as Hp.
  destruct (LookupDecoder___init__ SN (Z.of_N (po_maxp po))) as [gp|e]; destruct (ldec_new (po_maxp po)) as [mp|me]; try contradiction; cbn [bind]; [|exact Hp].
  pose proof (tiez_init (po_maxd po)) as Hd.
  destruct (LookupDecoder___init__ SN (Z.of_N (po_maxd po))) as [gd|e]; destruct (ldec_new (po_maxd po)) as [md|me]; try contradiction; cbn [bind]; [|exact Hd].
  split; [split; [exact Hn|]; split; [exact Hp|]; split; [exact Hd | reflexivity]|].
  repeat split.
Qed.

Print Assumptions tie_dec_term.
Print Assumptions source_decode_row_is_model.
Print Assumptions source_iter_rows_is_model.
Print Assumptions owner_msg_reads.
Print Assumptions source_iter_rows_on_built_frame.
Print Assumptions source_decoder_init_is_model.
