(* DecoderTie.v -- source tie for the Decoder class of pyjelly/parse/decode.py (generated/DecodeGen.v, translated on
   every run) against model/Decoder.v.

   The translated Decoder is parametric in the Adapter (the integrations subclass it; in the generated code its methods
   are section parameters).  model/Decoder.v fuses the decoder with what the adapters of the two integrations do;
   DecoderBase.v states that adapter behaviour once (`madapter`: the flat triples / flat quads / graphs-as-quads
   adapters, quoted triples in the generic integration only).

   Section Adapters: for ANY implementation of the adapter (a state type A, a value type T, the eleven operations) that
   simulates `madapter` through relations RA / RT (the premises H_options .. H_quoted), the translated Decoder over that implementation and
   the model's decode_term / decode_row / decode_rows are in lock step: related states stay related, related values, the
   same class of exception (any class where the model only says "a lookup failed").
   Instances: `madapter` itself (below: the theorems the checks list), and the translated adapters of the generic
   integration (GenericParseTie.v).

   A message object is described by what reading it gives (reads_term / reads_row, DecoderBase.v), not by how it was
   built: the theorems hold for every protobuf object that reads as the wire-level value. *)
From Coq Require Import Lia ZifyBool.
From PJ.Model Require Import Base Terms Encoder Streams Decoder.
From PJ.Model Require Lookup.
From PJ.Proofs Require Import TermInd.
From PJ.Tie Require Import PyPrims StrN LookupDecTie OptionsTie EncodeTie DecodeTie DecoderBase.
From PJ.Gen Require Import LookupDecGen OptionsGen DecodeGen.
Local Open Scope Z_scope.

Section Adapters.
Context {A T : Type}.
Context (o_options : A -> ParserOptions SN)
        (o_iri : str -> A -> outcome T * A) (o_default_graph : A -> outcome T * A) (o_bnode : str -> A -> outcome T * A)
        (o_literal : str -> option str -> option str -> A -> outcome T * A)
        (o_triple o_quad : list T -> A -> outcome T * A) (o_graph_start : T -> A -> outcome T * A)
        (o_graph_end : A -> outcome T * A) (o_namespace : str -> T -> A -> outcome T * A) (o_quoted : list T -> A -> outcome T * A).
Context (RA : A -> madapter -> Prop) (RT : T -> aval -> Prop).

(* an operation of the implementation against the model adapter's: related values and states, or the same exception *)
Definition sim (r : outcome T * A) (mr : outcome aval * madapter) : Prop :=
  match r, mr with
  | (Val v, a'), (Val mv, ma') => RT v mv /\ RA a' ma'
  | (Exn e, _), (Exn me, _) => e = me
  | _, _ => False
  end.

Context (H_options : forall a ma, RA a ma -> o_options a = ma_opts ma)
        (H_iri : forall k a ma, RA a ma -> sim (o_iri k a) (a_iri k ma))
        (H_default : forall a ma, RA a ma -> sim (o_default_graph a) (a_default_graph ma))
        (H_bnode : forall k a ma, RA a ma -> sim (o_bnode k a) (a_bnode k ma))
        (H_literal : forall lex lang dt a ma, RA a ma -> sim (o_literal lex lang dt a) (a_literal lex lang dt ma))
        (* (the decoder hands the adapters decoded terms only: lists of terms, a term as graph name, an IRI as namespace) *)
        (H_triple : forall ts tms a ma, RA a ma -> Forall2 RT ts (map ATerm tms) -> sim (o_triple ts a) (a_triple (map ATerm tms) ma))
        (H_quad : forall ts tms a ma, RA a ma -> Forall2 RT ts (map ATerm tms) -> sim (o_quad ts a) (a_quad (map ATerm tms) ma))
        (H_graph_start : forall g t a ma, RA a ma -> RT g (ATerm t) -> sim (o_graph_start g a) (a_graph_start (ATerm t) ma))
        (H_graph_end : forall a ma, RA a ma -> sim (o_graph_end a) (a_graph_end ma))
        (H_namespace : forall name v iri a ma, RA a ma -> RT v (ATerm (TIri iri)) -> sim (o_namespace name v a) (a_namespace name (ATerm (TIri iri)) ma))
        (H_quoted : forall ts tms a ma, RA a ma -> Forall2 RT ts (map ATerm tms) -> sim (o_quoted ts a) (a_quoted (map ATerm tms) ma)).

(* the translated Decoder over this implementation *)
Notation Dec := (@Decoder SN T A).
Notation g_term_fuel := (Decoder_decode_term_fuel SN o_iri o_default_graph o_bnode o_literal o_quoted).
Notation g_term := (Decoder_decode_term SN o_iri o_default_graph o_bnode o_literal o_quoted).
Notation g_iri := (Decoder_decode_iri SN o_iri).
Notation g_literal := (Decoder_decode_literal SN o_literal).
Notation g_row := (Decoder_decode_row SN o_options o_iri o_default_graph o_bnode o_literal o_triple o_quad o_graph_start o_graph_end o_namespace o_quoted).
Notation g_iter_rows := (Decoder_iter_rows SN o_options o_iri o_default_graph o_bnode o_literal o_triple o_quad o_graph_start o_graph_end o_namespace o_quoted).
Notation g_triple := (Decoder_decode_triple SN o_iri o_default_graph o_bnode o_literal o_triple o_quoted).
Notation g_quad := (Decoder_decode_quad SN o_iri o_default_graph o_bnode o_literal o_quad o_quoted).
Notation g_graph_start := (Decoder_decode_graph_start SN o_iri o_default_graph o_bnode o_literal o_graph_start o_quoted).
Notation g_graph_end := (Decoder_decode_graph_end SN o_graph_end).
Notation g_namespace := (Decoder_decode_namespace_declaration SN o_iri o_namespace).
Notation g_validate := (Decoder_validate_stream_options SN o_options).
Notation rt_of d := (Decoder_repeated_terms SN d).
Notation ad_of d := (Decoder_adapter SN d).

(* ------------------------------------------------------------------ states *)
(* the tables and the adapter ... *)
Definition Rcore (ig : integ) (ak : adapter_kind) (po : poptions) (d : Dec) (st : dstate) : Prop :=
  Rz (Decoder_names SN d) (ds_names st) /\ Rz (Decoder_prefixes SN d) (ds_prefixes st) /\ Rz (Decoder_datatypes SN d) (ds_datatypes st) /\
  RA (ad_of d) (mk_ma ig ak po (ds_graph st)).

(* ... and the repeated terms: the dict entry of a slot against the model's register *)
Definition rt_rel (rt : list (str * T)) (k : str) (prev : option term) : Prop :=
  match ad_find str_eqb k rt, prev with
  | Some v, Some t => RT v (ATerm t)
  | None, None => True
  | _, _ => False
  end.
Definition rt_ok (rt : list (str * T)) (st : dstate) : Prop :=
  rt_rel rt k_subject (ds_s st) /\ rt_rel rt k_predicate (ds_p st) /\ rt_rel rt k_object (ds_o st) /\ rt_rel rt k_graph (ds_g st).
Definition Rdec (ig : integ) (ak : adapter_kind) (po : poptions) (d : Dec) (st : dstate) : Prop :=
  Rcore ig ak po d st /\ rt_ok (rt_of d) st.

Definition step_ok ig ak po (d : Dec) st (d' : Dec) st' : Prop :=
  Rcore ig ak po d' st' /\ rt_of d' = rt_of d /\ same_regs st st'.

Lemma adapter_of ig ak po (d : Dec) st : Rcore ig ak po d st -> RA (ad_of d) (mk_ma ig ak po (ds_graph st)).
Proof. intros (_ & _ & _ & H). exact H. Qed.

Lemma step_ok_trans ig ak po (d d1 d2 : Dec) st st1 st2 :
  step_ok ig ak po d st d1 st1 -> step_ok ig ak po d1 st1 d2 st2 -> step_ok ig ak po d st d2 st2.
Proof.
  intros (_ & Hr1 & Ha1 & Hb1 & Hc1 & Hd1) (HR & Hr2 & Ha2 & Hb2 & Hc2 & Hd2).
  split; [exact HR|]. split; [congruence|]. repeat split; congruence.
Qed.

(* the adapter replaced by one related to the same model adapter (what every call of an adapter method does) *)
Lemma step_readapt ig ak po (d : Dec) st a' :
  Rcore ig ak po d st -> RA a' (mk_ma ig ak po (ds_graph st)) -> step_ok ig ak po d st (set_Decoder_adapter SN a' d) st.
Proof.
  intros (Hn & Hp & Hd & _) Ha. destruct d. split; [|split; [reflexivity | repeat split]].
  split; [exact Hn|]. split; [exact Hp|]. split; [exact Hd | exact Ha].
Qed.

(* ------------------------------------------------------------------ terms *)
Lemma tie_dec_iri ig ak po (d : Dec) st m p n : Rcore ig ak po d st ->
  msg_int "prefix_id" m = Z.of_N p -> msg_int "name_id" m = Z.of_N n ->
  match g_iri m d, decode_iri p n st with
  | (Val v, d'), Ok (st', iri) => RT v (ATerm (TIri iri)) /\ step_ok ig ak po d st d' st'
  | (Exn e, _), Err me => err_ok e me
  | _, _ => False
  end.
Proof.
  intros (Hn & Hp & Hd & Ha) Hpid Hnid.
  unfold Decoder_decode_iri, decode_iri. rewrite Hpid, Hnid.
  pose proof (tiez_name n _ _ Hn) as H1. change (carrier SN) with str in *.
  destruct (LookupDecoder_decode_name_term_index SN (Z.of_N n) (Decoder_names SN d)) as [[name|e] gn];
    destruct (L.decode_name_term_index n (ds_names st)) as [[mn name']|]; try contradiction; cbn [lift bind].
  2: { left. reflexivity. }
  destruct H1 as [-> Hn'].
  cbn [set_Decoder_names Decoder_prefixes Decoder_adapter Decoder_names Decoder_datatypes Decoder_repeated_terms Decoder_cls_tag].
  pose proof (tiez_prefix p _ _ Hp) as H2. change (carrier SN) with str in *.
  destruct (LookupDecoder_decode_prefix_term_index SN (Z.of_N p) (Decoder_prefixes SN d)) as [[prefix|e] gp];
    destruct (L.decode_prefix_term_index p (ds_prefixes st)) as [[mp prefix']|]; try contradiction; cbn [lift bind].
  2: { left. reflexivity. }
  destruct H2 as [-> Hp'].
  cbn [set_Decoder_prefixes Decoder_prefixes Decoder_adapter Decoder_names Decoder_datatypes Decoder_repeated_terms Decoder_cls_tag].
  replace (s_add SN (str_of SN prefix') name') with ((match prefix' with Some s => s | None => [] end) ++ name') by (destruct prefix'; reflexivity).
  change (ad_of (set_Decoder_names SN gn d)) with (ad_of d).
  pose proof (H_iri ((match prefix' with Some s => s | None => [] end) ++ name') _ _ Ha) as Hs.
  destruct (o_iri ((match prefix' with Some s => s | None => [] end) ++ name') (ad_of d)) as [[v|e] a']; cbn [a_iri sim] in Hs; [|contradiction].
  destruct Hs as [Hv Ha'].
  cbn [set_Decoder_adapter Decoder_prefixes Decoder_adapter Decoder_names Decoder_datatypes Decoder_repeated_terms Decoder_cls_tag].
  split; [exact Hv|].
  unfold step_ok, Rcore, same_regs.
  cbn [set_tables ds_names ds_prefixes ds_datatypes ds_s ds_p ds_o ds_g ds_graph Decoder_prefixes Decoder_adapter Decoder_names Decoder_datatypes Decoder_repeated_terms].
  repeat split; try assumption; try apply Hn'; try apply Hp'; try apply Hd.
Qed.

(* one call of the adapter's literal(): related term and the adapter as it was, or the same exception *)
Lemma tie_literal_call ig ak po (d : Dec) st lex l dt : Rcore ig ak po d st ->
  match o_literal lex l dt (ad_of d), mk_literal ig lex l dt with
  | (Val v, a'), Ok t => RT v (ATerm t) /\ RA a' (mk_ma ig ak po (ds_graph st))
  | (Exn e, _), Err me => e = exn_of me
  | _, _ => False
  end.
Proof.
  intros (_ & _ & _ & Ha). pose proof (H_literal lex l dt _ _ Ha) as Hs. unfold a_literal in Hs. cbn [mk_ma ma_ig] in Hs.
  destruct (mk_literal ig lex l dt) as [t|me]; destruct (o_literal lex l dt (ad_of d)) as [[v|e] a']; cbn [sim] in Hs; try contradiction; exact Hs.
Qed.

Lemma tie_dec_literal ig ak po (d : Dec) st m lex k : Rcore ig ak po d st ->
  msg_str (K := str) [] "lex" m = lex -> reads_lit k m ->
  match g_literal m d, decode_literal ig lex k st with
  | (Val v, d'), Ok (st', t) => RT v (ATerm t) /\ step_ok ig ak po d st d' st'
  | (Exn e, _), Err me => err_ok e me
  | _, _ => False
  end.
Proof.
  intros HR Hlex Hk. pose proof HR as (Hn & Hp & Hd & Ha).
  unfold Decoder_decode_literal, decode_literal. cbv zeta.
  change (s_is_empty SN) with (@is_nil N). change (s_empty SN) with (@nil N). change (carrier SN) with str in *.
  rewrite Hlex.
  destruct k as [|t|id]; cbn [reads_lit] in Hk.
  - destruct Hk as [Hl Hh]. rewrite Hl, Hh. cbn [is_nil negb].
    pose proof (tie_literal_call ig ak po d st lex None None HR) as Hs. unfold bind.
    destruct (o_literal lex None None (ad_of d)) as [[v|e] a']; destruct (mk_literal ig lex None None) as [tm|me]; try contradiction.
    + destruct Hs as [Hv Ha']. cbv beta iota zeta. split; [exact Hv|]. apply step_readapt; assumption.
    + right. exact Hs.
  - destruct Hk as [Hl Hh]. rewrite Hl, Hh. destruct t as [|c t]; cbn [is_nil negb].
    + pose proof (tie_literal_call ig ak po d st lex None None HR) as Hs. unfold bind.
      destruct (o_literal lex None None (ad_of d)) as [[v|e] a']; destruct (mk_literal ig lex None None) as [tm|me]; try contradiction.
      * destruct Hs as [Hv Ha']. cbv beta iota zeta. split; [exact Hv|]. apply step_readapt; assumption.
      * right. exact Hs.
    + unfold bind.
      match goal with |- context [o_literal lex ?l None (ad_of d)] =>
        pose proof (tie_literal_call ig ak po d st lex l None HR) as Hs;
        destruct (o_literal lex l None (ad_of d)) as [[v|e] a']; destruct (mk_literal ig lex l None) as [tm|me]; try contradiction end.
      * destruct Hs as [Hv Ha']. cbv beta iota zeta. split; [exact Hv|]. apply step_readapt; assumption.
      * right. exact Hs.
  - destruct Hk as (Hl & Hh & Hi). rewrite Hl, Hh, Hi. cbn [is_nil negb].
    destruct Hd as [Hd Hz]. rewrite Hz. unfold nlen.
    destruct (N.of_nat (length (L.d_data (ds_datatypes st))) =? 0)%N eqn:E0.
    + replace (Z.of_nat (length (L.d_data (ds_datatypes st))) =? 0) with true by lia. cbn [negb]. right. reflexivity.
    + replace (Z.of_nat (length (L.d_data (ds_datatypes st))) =? 0) with false by lia. cbn [negb].
      pose proof (tiez_datatype id _ _ (conj Hd Hz)) as H1. change (carrier SN) with str in *.
      destruct (LookupDecoder_decode_datatype_term_index SN (Z.of_N id) (Decoder_datatypes SN d)) as [[dt|e] gd];
        destruct (L.decode_datatype_term_index id (ds_datatypes st)) as [[md dt']|]; try contradiction; cbn [lift bind].
      2: { left. reflexivity. }
      destruct H1 as [-> Hd'].
      cbn [set_Decoder_datatypes Decoder_prefixes Decoder_adapter Decoder_names Decoder_datatypes Decoder_repeated_terms Decoder_cls_tag].
      unfold Encoder.lift. cbn [bind].
      pose proof (tie_literal_call ig ak po d st lex None (Some dt') HR) as Hs.
      destruct (o_literal lex None (Some dt') (ad_of d)) as [[v|e] a']; destruct (mk_literal ig lex None (Some dt')) as [tm|me]; cbv beta iota in Hs; try contradiction; cbn [bind].
      2: { right. exact Hs. }
      destruct Hs as [Hv Ha'].
      cbn [set_Decoder_adapter Decoder_prefixes Decoder_adapter Decoder_names Decoder_datatypes Decoder_repeated_terms Decoder_cls_tag].
      split; [exact Hv|].
      unfold step_ok, Rcore, same_regs.
      cbn [set_tables ds_names ds_prefixes ds_datatypes ds_s ds_p ds_o ds_g ds_graph Decoder_prefixes Decoder_adapter Decoder_names Decoder_datatypes Decoder_repeated_terms].
      repeat split; try assumption; try apply Hn; try apply Hp; try apply Hd'.
Qed.

(* ------------------------------------------------------------------ decode_term *)
Definition term_tie ig ak po (w : wterm) (fuel : nat) : Prop :=
  forall m (d : Dec) st, Rcore ig ak po d st -> reads_term w m -> (pb_depth m < fuel)%nat ->
  match g_term_fuel fuel m d, decode_term ig w st with
  | (Val v, d'), Ok (st', t) => RT v (ATerm t) /\ step_ok ig ak po d st d' st'
  | (Exn e, _), Err me => err_ok e me
  | _, _ => False
  end.

Theorem dec_term_tie ig ak po (w : wterm) : forall fuel, term_tie ig ak po w fuel.
Proof.
  induction w as [p n|l|lex k| |a b c IHa IHb IHc] using wterm_ind'; intros fuel m d st HR Hm Hf;
    (destruct fuel as [|fuel]; [lia|]); cbn [Decoder_decode_term_fuel decode_term]; cbn [reads_term] in Hm; change (carrier SN) with str in *; change (s_empty SN) with (@nil N).
  - destruct Hm as (Hk & Hp & Hn). rewrite Hk. cbn [String.eqb Ascii.eqb Bool.eqb].
    pose proof (tie_dec_iri ig ak po d st m p n HR Hp Hn) as H.
    destruct (g_iri m d) as [[v|e] d']; destruct (decode_iri p n st) as [[st' iri]|me]; try contradiction; cbn [bind]; exact H.
  - subst m. cbn [pb_kind String.eqb Ascii.eqb Bool.eqb pb_as_str].
    unfold Decoder_decode_bnode. pose proof (H_bnode l _ _ (adapter_of _ _ _ _ _ HR)) as Hs.
    destruct (o_bnode l (ad_of d)) as [[v|e] a']; cbn [a_bnode sim] in Hs; [|contradiction].
    destruct Hs as [Hv Ha']. cbv beta iota zeta. split; [exact Hv|]. apply step_readapt; assumption.
  - destruct Hm as (Hk & Hlex & Hlit). rewrite Hk. cbn [String.eqb Ascii.eqb Bool.eqb].
    exact (tie_dec_literal ig ak po d st m lex k HR Hlex Hlit).
  - rewrite Hm. cbn [String.eqb Ascii.eqb Bool.eqb].
    unfold Decoder_decode_default_graph. pose proof (H_default _ _ (adapter_of _ _ _ _ _ HR)) as Hs.
    destruct (o_default_graph (ad_of d)) as [[v|e] a']; cbn [a_default_graph sim] in Hs; [|contradiction].
    destruct Hs as [Hv Ha']. cbv beta iota zeta. split; [exact Hv|]. apply step_readapt; assumption.
  - destruct Hm as (Hk & Hs & Hp & Ho). rewrite Hk. cbn [String.eqb Ascii.eqb Bool.eqb].
    unfold Decoder_decode_quoted_triple_open. cbv zeta. change (carrier SN) with str in *.
    change ["s_iri"%string; "s_bnode"%string; "s_literal"%string; "s_triple_term"%string] with g_s.
    change ["p_iri"%string; "p_bnode"%string; "p_literal"%string; "p_triple_term"%string] with g_p.
    change ["o_iri"%string; "o_bnode"%string; "o_literal"%string; "o_triple_term"%string] with g_o.
    (* subject *)
    destruct a as [a'|]; [|rewrite Hs; right; reflexivity].
    destruct Hs as (f1 & v1 & Hw1 & Hf1 & Hr1). rewrite Hw1, Hf1. cbn [OP] in IHa.
    pose proof (IHa fuel v1 d st HR Hr1 ltac:(pose proof (msg_field_depth _ _ _ Hf1); lia)) as H1.
    destruct (g_term_fuel fuel v1 d) as [[x1|e1] d1]; destruct (decode_term ig a' st) as [[st1 t1]|me1]; try contradiction; cbn [bind]; [|exact H1].
    destruct H1 as [Hx1 HS1]. pose proof HS1 as (HR1 & _).
    (* predicate *)
    destruct b as [b'|]; [|rewrite Hp; right; reflexivity].
    destruct Hp as (f2 & v2 & Hw2 & Hf2 & Hr2). rewrite Hw2, Hf2. cbn [OP] in IHb.
    pose proof (IHb fuel v2 d1 st1 HR1 Hr2 ltac:(pose proof (msg_field_depth _ _ _ Hf2); lia)) as H2.
    destruct (g_term_fuel fuel v2 d1) as [[x2|e2] d2]; destruct (decode_term ig b' st1) as [[st2 t2]|me2]; try contradiction; cbn [bind]; [|exact H2].
    destruct H2 as [Hx2 HS2]. pose proof HS2 as (HR2 & _).
    (* object *)
    destruct c as [c'|]; [|rewrite Ho; right; reflexivity].
    destruct Ho as (f3 & v3 & Hw3 & Hf3 & Hr3). rewrite Hw3, Hf3. cbn [OP] in IHc.
    pose proof (IHc fuel v3 d2 st2 HR2 Hr3 ltac:(pose proof (msg_field_depth _ _ _ Hf3); lia)) as H3.
    destruct (g_term_fuel fuel v3 d2) as [[x3|e3] d3]; destruct (decode_term ig c' st2) as [[st3 t3]|me3]; try contradiction; cbn [bind]; [|exact H3].
    destruct H3 as [Hx3 HS3]. pose proof HS3 as (HR3 & _).
    cbn [app].
    pose proof (H_quoted [x1; x2; x3] [t1; t2; t3] _ _ (adapter_of _ _ _ _ _ HR3)
                  ltac:(cbn [map]; repeat constructor; assumption)) as Hq. cbn [map] in Hq.
    destruct (o_quoted [x1; x2; x3] (ad_of d3)) as [[v|e] aq]; unfold a_quoted, mk_ma in Hq; cbn [ma_ig sim] in Hq; destruct ig; try contradiction.
    + destruct Hq as [Hv Haq]. split; [exact Hv|].
      exact (step_ok_trans _ _ _ _ _ _ _ _ _ HS1 (step_ok_trans _ _ _ _ _ _ _ _ _ HS2 (step_ok_trans _ _ _ _ _ _ _ _ _ HS3 (step_readapt _ _ _ _ _ _ HR3 Haq)))).
    + right. exact Hq.
Qed.

(* the entry point: fuel from the nesting depth of the message always suffices *)
Corollary tie_dec_term_top ig ak po (w : wterm) m (d : Dec) st : Rcore ig ak po d st -> reads_term w m ->
  match g_term m d, decode_term ig w st with
  | (Val v, d'), Ok (st', t) => RT v (ATerm t) /\ step_ok ig ak po d st d' st'
  | (Exn e, _), Err me => err_ok e me
  | _, _ => False
  end.
Proof. intros HR Hm. unfold Decoder_decode_term. apply dec_term_tie; [exact HR | exact Hm | apply le_n]. Qed.

(* ------------------------------------------------------------------ statements: decode_statement, slot by slot *)
(* one turn of the loop of decode_statement, with what follows it (the translation unrolls the loop over the constant
   tuple of slot names and repeats what follows in both branches; gslot is that shape, stated once) *)
Definition gslot (G : list string) (k : str) (stmt : pbval str) (d : Dec) (terms : list T)
                 (K : Dec -> list T -> outcome T * Dec) : outcome T * Dec :=
  match msg_which G stmt with
  | Some f =>
    match msg_field f stmt with
    | None => (Exn AttributeError, d)
    | Some v =>
      let '(r, d1) := g_term v d in
      match r with
      | Exn e => (Exn e, d1)
      | Val x => K (set_Decoder_repeated_terms SN (ad_set str_eqb k x (rt_of d1)) d1) (terms ++ [x])
      end
    end
  | None =>
    match ad_get str_eqb k (rt_of d) with
    | Exn e => (Exn e, d)
    | Val x => K d (terms ++ [x])
    end
  end.

Lemma Rcore_set_rt ig ak po (d : Dec) st rt : Rcore ig ak po d st -> Rcore ig ak po (set_Decoder_repeated_terms SN rt d) st.
Proof. intros H. destruct d. exact H. Qed.

Lemma gslot_tie ig ak po G k w prev m (d : Dec) st terms K :
  Rcore ig ak po d st -> reads_slot G w m -> rt_rel (rt_of d) k prev ->
  match decode_slot ig w prev st with
  | Ok (st', t) =>
    exists (d' : Dec) (v : T), gslot G k m d terms K = K d' (terms ++ [v]) /\ RT v (ATerm t) /\ Rcore ig ak po d' st' /\ same_regs st st' /\
                     forall k', ad_find str_eqb k' (rt_of d') = if str_eqb k' k then Some v else ad_find str_eqb k' (rt_of d)
  | Err me => exists e (d' : Dec), gslot G k m d terms K = (Exn e, d') /\ err_ok e me
  end.
Proof.
  intros HR Hw Hprev. unfold gslot, decode_slot. destruct w as [w'|]; cbn [reads_slot] in Hw.
  - destruct Hw as (f & v & Hw & Hf & Hr). rewrite Hw, Hf.
    pose proof (tie_dec_term_top ig ak po w' v d st HR Hr) as H.
    destruct (g_term v d) as [[x|e] d1]; destruct (decode_term ig w' st) as [[st1 t1]|me]; try contradiction.
    + destruct H as (Hx & HR1 & Hrt & Hregs).
      exists (set_Decoder_repeated_terms SN (ad_set str_eqb k x (rt_of d1)) d1), x.
      split; [reflexivity|]. split; [exact Hx|]. split; [apply Rcore_set_rt; exact HR1|]. split; [exact Hregs|].
      intros k'. destruct d1. unfold set_Decoder_repeated_terms. cbn in Hrt |- *. rewrite ad_find_set, Hrt. reflexivity.
    + exists e, d1. split; [reflexivity | exact H].
  - rewrite Hw. unfold ad_get. unfold rt_rel in Hprev.
    destruct (ad_find str_eqb k (rt_of d)) as [v|] eqn:Ef; destruct prev as [t|]; try contradiction.
    + exists d, v. split; [reflexivity|]. split; [exact Hprev|]. split; [exact HR|]. split; [repeat split|].
      intros k'. destruct (str_eqb k' k) eqn:E; [|reflexivity]. apply str_eqb_true in E. subst k'. exact Ef.
    + exists KeyError, d. split; [reflexivity | right; reflexivity].
Qed.

Definition gspo (m : pbval str) (d : Dec) (K : Dec -> list T -> outcome T * Dec) : outcome T * Dec :=
  gslot g_s k_subject m d [] (fun d1 t1 => gslot g_p k_predicate m d1 t1 (fun d2 t2 => gslot g_o k_object m d2 t2 K)).

Lemma Rcore_regs ig ak po (d : Dec) st s p o g :
  Rcore ig ak po d st ->
  Rcore ig ak po d {| ds_names := ds_names st; ds_prefixes := ds_prefixes st; ds_datatypes := ds_datatypes st;
                      ds_s := s; ds_p := p; ds_o := o; ds_g := g; ds_graph := ds_graph st |}.
Proof. intros H. exact H. Qed.

Lemma rt_rel_set (rt prev : list (str * T)) k' k v t :
  (forall k0, ad_find str_eqb k0 rt = if str_eqb k0 k then Some v else ad_find str_eqb k0 prev) -> RT v (ATerm t) ->
  str_eqb k' k = true -> rt_rel rt k' (Some t).
Proof. intros F Hv E. unfold rt_rel. rewrite F, E. exact Hv. Qed.

Lemma rt_rel_keep (rt prev : list (str * T)) k' k (v : T) x :
  (forall k0, ad_find str_eqb k0 rt = if str_eqb k0 k then Some v else ad_find str_eqb k0 prev) ->
  str_eqb k' k = false -> rt_rel prev k' x -> rt_rel rt k' x.
Proof. intros F E H. unfold rt_rel in *. rewrite F, E. exact H. Qed.

Lemma gspo_tie ig ak po s p o m (d : Dec) st K :
  Rdec ig ak po d st -> reads_slot g_s s m -> reads_slot g_p p m -> reads_slot g_o o m ->
  match decode_spo ig s p o st with
  | Ok (st', ts, tp, to) =>
    exists (d' : Dec) v1 v2 v3, gspo m d K = K d' [v1; v2; v3] /\ RT v1 (ATerm ts) /\ RT v2 (ATerm tp) /\ RT v3 (ATerm to) /\ Rdec ig ak po d' st'
  | Err me => exists e (d' : Dec), gspo m d K = (Exn e, d') /\ err_ok e me
  end.
Proof.
  intros [HR (Hs & Hp & Ho & Hg)] Rs Rp Ro. unfold gspo, decode_spo.
  pose proof (gslot_tie ig ak po g_s k_subject s (ds_s st) m d st []
                (fun d1 t1 => gslot g_p k_predicate m d1 t1 (fun d2 t2 => gslot g_o k_object m d2 t2 K)) HR Rs Hs) as H1.
  destruct (decode_slot ig s (ds_s st) st) as [[st1 ts]|me1]; cbn [bind]; [|exact H1].
  destruct H1 as (d1 & v1 & -> & Hv1 & HR1 & (Ea1 & Eb1 & Ec1 & Ed1) & F1).
  assert (Hp1 : rt_rel (rt_of d1) k_predicate (ds_p st)) by (apply (rt_rel_keep _ _ _ _ _ _ F1); [reflexivity | exact Hp]).
  pose proof (gslot_tie ig ak po g_p k_predicate p (ds_p st) m d1 st1 ([] ++ [v1])
                (fun d2 t2 => gslot g_o k_object m d2 t2 K) HR1 Rp Hp1) as H2.
  destruct (decode_slot ig p (ds_p st) st1) as [[st2 tp]|me2]; cbn [bind]; [|exact H2].
  destruct H2 as (d2 & v2 & -> & Hv2 & HR2 & (Ea2 & Eb2 & Ec2 & Ed2) & F2).
  assert (Ho2 : rt_rel (rt_of d2) k_object (ds_o st)).
  { apply (rt_rel_keep _ _ _ _ _ _ F2); [reflexivity|]. apply (rt_rel_keep _ _ _ _ _ _ F1); [reflexivity | exact Ho]. }
  pose proof (gslot_tie ig ak po g_o k_object o (ds_o st) m d2 st2 (([] ++ [v1]) ++ [v2]) K HR2 Ro Ho2) as H3.
  destruct (decode_slot ig o (ds_o st) st2) as [[st3 to]|me3]; cbn [bind]; [|exact H3].
  destruct H3 as (d3 & v3 & -> & Hv3 & HR3 & (Ea3 & Eb3 & Ec3 & Ed3) & F3).
  exists d3, v1, v2, v3. split; [reflexivity|]. split; [exact Hv1|]. split; [exact Hv2|]. split; [exact Hv3|]. split.
  - unfold set_spo. apply Rcore_regs. exact HR3.
  - unfold rt_ok, set_spo. cbn [ds_s ds_p ds_o ds_g]. split; [|split; [|split]].
    + apply (rt_rel_keep _ _ _ _ _ _ F3); [reflexivity|]. apply (rt_rel_keep _ _ _ _ _ _ F2); [reflexivity|].
      apply (rt_rel_set _ _ _ _ _ _ F1 Hv1); reflexivity.
    + apply (rt_rel_keep _ _ _ _ _ _ F3); [reflexivity|]. apply (rt_rel_set _ _ _ _ _ _ F2 Hv2); reflexivity.
    + apply (rt_rel_set _ _ _ _ _ _ F3 Hv3); reflexivity.
    + apply (rt_rel_keep _ _ _ _ _ _ F3); [reflexivity|]. apply (rt_rel_keep _ _ _ _ _ _ F2); [reflexivity|].
      apply (rt_rel_keep _ _ _ _ _ _ F1); [reflexivity|]. rewrite Ed3, Ed2, Ed1. exact Hg.
Qed.

(* ------------------------------------------------------------------ rows *)
Definition fin (call : list T -> A -> outcome T * A) (d : Dec) (terms : list T) : outcome T * Dec :=
  let '(r, o) := call terms (ad_of d) in
  let d := set_Decoder_adapter SN o d in
  match r with Exn e => (Exn e, d) | Val x => (Val x, d) end.

(* the translated decode_triple / decode_quad are the slots in turn, then the adapter (by computation) *)
Lemma g_triple_shape m (d : Dec) : g_triple m d = gspo m d (fin o_triple).
Proof. reflexivity. Qed.
Lemma g_quad_shape m (d : Dec) :
  g_quad m d = gspo m d (fun d3 t3 => gslot g_g k_graph m d3 t3 (fin o_quad)).
Proof. reflexivity. Qed.

(* what decode_row returns against what the model says iter_rows yields for the row *)
Definition row_out (r : row) (v : option T) (evs : list event) : Prop :=
  match r with
  | RTriple _ _ _ | RQuad _ _ _ _ | RNamespace _ _ _ => exists x ev, v = Some x /\ RT x (AEv ev) /\ evs = [ev]
  | _ => evs = []
  end.

Lemma Rdec_readapt ig ak po (d : Dec) st a' :
  Rdec ig ak po d st -> RA a' (mk_ma ig ak po (ds_graph st)) -> Rdec ig ak po (set_Decoder_adapter SN a' d) st.
Proof.
  intros [HC Hrt] Ha. destruct (step_readapt ig ak po d st a' HC Ha) as (HC' & Hr & _).
  split; [exact HC'|]. rewrite Hr. exact Hrt.
Qed.

Lemma tie_row_triple ig ak po s p o m (d : Dec) st :
  Rdec ig ak po d st -> reads_slot g_s s m -> reads_slot g_p p m -> reads_slot g_o o m ->
  match g_triple m d, decode_row ig ak po (RTriple s p o) st with
  | (Val v, d'), Ok (st', evs) => Rdec ig ak po d' st' /\ exists ev, RT v (AEv ev) /\ evs = [ev]
  | (Exn e, _), Err me => err_ok e me
  | _, _ => False
  end.
Proof.
  intros HR Rs Rp Ro. rewrite g_triple_shape. cbn [decode_row].
  pose proof (gspo_tie ig ak po s p o m d st (fin o_triple) HR Rs Rp Ro) as H.
  destruct (decode_spo ig s p o st) as [[[[st1 ts] tp] to]|me]; cbn [bind].
  - destruct H as (d1 & v1 & v2 & v3 & -> & Hv1 & Hv2 & Hv3 & HR1). unfold fin. pose proof HR1 as [HC1 _].
    pose proof (H_triple [v1; v2; v3] [ts; tp; to] _ _ (adapter_of _ _ _ _ _ HC1) ltac:(cbn [map]; repeat constructor; assumption)) as Hs. cbn [map] in Hs.
    destruct (o_triple [v1; v2; v3] (ad_of d1)) as [[v|e] a']; unfold a_triple, mk_ma in Hs; cbn [ma_kind ma_graph sim] in Hs.
    + destruct ak; try contradiction.
      * destruct Hs as [Hv Ha']. cbv beta iota zeta. split; [apply Rdec_readapt; assumption | eexists; split; [exact Hv | reflexivity]].
      * destruct (ds_graph st1) eqn:Eg; try contradiction.
        destruct Hs as [Hv Ha']. cbv beta iota zeta. split; [apply Rdec_readapt; [exact HR1 | rewrite Eg; exact Ha'] | eexists; split; [exact Hv | reflexivity]].
    + destruct ak; try contradiction; try (right; exact Hs).
      destruct (ds_graph st1); try contradiction. right. exact Hs.
  - destruct H as (e & d1 & -> & He). exact He.
Qed.

Lemma tie_row_quad ig ak po s p o g m (d : Dec) st :
  Rdec ig ak po d st -> reads_slot g_s s m -> reads_slot g_p p m -> reads_slot g_o o m -> reads_slot g_g g m ->
  match g_quad m d, decode_row ig ak po (RQuad s p o g) st with
  | (Val v, d'), Ok (st', evs) => Rdec ig ak po d' st' /\ exists ev, RT v (AEv ev) /\ evs = [ev]
  | (Exn e, _), Err me => err_ok e me
  | _, _ => False
  end.
Proof.
  intros HR Rs Rp Ro Rg. rewrite g_quad_shape. cbn [decode_row].
  pose proof (gspo_tie ig ak po s p o m d st (fun d3 t3 => gslot g_g k_graph m d3 t3 (fin o_quad)) HR Rs Rp Ro) as H.
  destruct (decode_spo ig s p o st) as [[[[st1 ts] tp] to]|me]; cbn [bind].
  2: { destruct H as (e & d1 & -> & He). exact He. }
  destruct H as (d1 & v1 & v2 & v3 & -> & Hv1 & Hv2 & Hv3 & [HC1 (Hs1 & Hp1 & Ho1 & Hg1)]).
  pose proof (gslot_tie ig ak po g_g k_graph g (ds_g st1) m d1 st1 [v1; v2; v3] (fin o_quad) HC1 Rg Hg1) as H2.
  destruct (decode_slot ig g (ds_g st1) st1) as [[st2 tg]|me2]; cbn [bind].
  2: { destruct H2 as (e & d2 & -> & He). exact He. }
  destruct H2 as (d2 & v4 & -> & Hv4 & HC2 & (Ea & Eb & Ec & Ed) & F).
  unfold fin. cbn [app].
  pose proof (H_quad [v1; v2; v3; v4] [ts; tp; to; tg] _ _ (adapter_of _ _ _ _ _ HC2) ltac:(cbn [map]; repeat constructor; assumption)) as Hs. cbn [map] in Hs.
  destruct (o_quad [v1; v2; v3; v4] (ad_of d2)) as [[v|e] a']; unfold a_quad, mk_ma in Hs; cbn [ma_kind sim] in Hs;
    destruct ak; try contradiction; try (right; exact Hs).
  destruct Hs as [Hv Ha']. cbv beta iota zeta. split; [|eexists; split; [exact Hv | reflexivity]].
  apply Rdec_readapt; [|exact Ha']. split; [exact HC2|].
  unfold rt_ok, set_g. cbn [ds_s ds_p ds_o ds_g]. split; [|split; [|split]].
  - apply (rt_rel_keep _ _ _ _ _ _ F); [reflexivity|]. rewrite Ea. exact Hs1.
  - apply (rt_rel_keep _ _ _ _ _ _ F); [reflexivity|]. rewrite Eb. exact Hp1.
  - apply (rt_rel_keep _ _ _ _ _ _ F); [reflexivity|]. rewrite Ec. exact Ho1.
  - apply (rt_rel_set _ _ _ _ _ _ F Hv4); reflexivity.
Qed.

Lemma tie_row_options ig ak po o m (d : Dec) st :
  Rdec ig ak po d st -> reads_options m o ->
  match g_validate m d, decode_row ig ak po (ROptions o) st with
  | (Val _, d'), Ok (st', evs) => Rdec ig ak po d' st' /\ evs = []
  | (Exn e, _), Err me => err_ok e me
  | _, _ => False
  end.
Proof.
  intros HR (H1 & H2 & H3 & H4 & H5 & H6 & H7 & H8 & H9). pose proof HR as [HC _].
  unfold Decoder_validate_stream_options, decode_row, validate_stream_options. cbv zeta.
  rewrite (H_options _ _ (adapter_of _ _ _ _ _ HC)). unfold mk_ma. cbn [ma_opts]. unfold popts_obj.
  cbn [ParserOptions_stream_types ParserOptions_lookup_preset ParserOptions_params StreamTypes_physical_type StreamTypes_logical_type
       StreamParameters_stream_name StreamParameters_version LookupPreset_max_prefixes LookupPreset_max_datatypes LookupPreset_max_names].
  change (s_empty SN) with (@nil N). change (carrier SN) with str in *. change (s_eqb SN) with str_eqb.
  rewrite H1, H2, H3, H4, H5, H6, H9.
  destruct (po_phys po =? o_phys o)%N eqn:E1; [replace (Z.of_N (po_phys po) =? Z.of_N (o_phys o)) with true by lia | replace (Z.of_N (po_phys po) =? Z.of_N (o_phys o)) with false by lia; right; reflexivity].
  destruct (po_logical po =? o_logical o)%N eqn:E2; [replace (Z.of_N (po_logical po) =? Z.of_N (o_logical o)) with true by lia | replace (Z.of_N (po_logical po) =? Z.of_N (o_logical o)) with false by lia; right; reflexivity].
  destruct (str_eqb (po_name po) (o_name o)); [|right; reflexivity].
  destruct (o_version o <=? po_version po)%N eqn:E4; [replace (Z.of_N (po_version po) >=? Z.of_N (o_version o)) with true by lia | replace (Z.of_N (po_version po) >=? Z.of_N (o_version o)) with false by lia; right; reflexivity].
  destruct (po_maxp po =? o_maxp o)%N eqn:E5; [replace (Z.of_N (po_maxp po) =? Z.of_N (o_maxp o)) with true by lia | replace (Z.of_N (po_maxp po) =? Z.of_N (o_maxp o)) with false by lia; right; reflexivity].
  destruct (po_maxd po =? o_maxd o)%N eqn:E6; [replace (Z.of_N (po_maxd po) =? Z.of_N (o_maxd o)) with true by lia | replace (Z.of_N (po_maxd po) =? Z.of_N (o_maxd o)) with false by lia; right; reflexivity].
  destruct (po_maxn po =? o_maxn o)%N eqn:E7; [replace (Z.of_N (po_maxn po) =? Z.of_N (o_maxn o)) with true by lia | replace (Z.of_N (po_maxn po) =? Z.of_N (o_maxn o)) with false by lia; right; reflexivity].
  cbn [andb]. split; [exact HR | reflexivity].
Qed.

Lemma tie_row_prefix ig ak po i v m (d : Dec) st :
  Rdec ig ak po d st -> msg_int "id" m = Z.of_N i -> msg_str (K := str) [] "value" m = v ->
  match Decoder_ingest_prefix_entry SN m d, decode_row ig ak po (Terms.RPrefix i v) st with
  | (Val _, d'), Ok (st', evs) => Rdec ig ak po d' st' /\ evs = []
  | (Exn e, _), Err me => err_ok e me
  | _, _ => False
  end.
Proof.
  intros [(Hn & Hp & Hd & Ha) Hrt] Hi Hv. unfold Decoder_ingest_prefix_entry, decode_row, assign.
  change (s_empty SN) with (@nil N). change (carrier SN) with str in *. rewrite Hi, Hv.
  pose proof (tiez_assign i v _ _ Hp) as H. change (carrier SN) with str in *.
  destruct (LookupDecoder_assign_entry SN (Z.of_N i) v (Decoder_prefixes SN d)) as [[u|e] g'];
    destruct (L.assign_entry i v (ds_prefixes st)) as [m'|]; try contradiction; cbn [bind].
  - split; [|reflexivity]. destruct d. split; [|exact Hrt]. repeat split; try apply Hn; try apply Hd; try apply H; try exact Ha.
  - left. reflexivity.
Qed.

Lemma tie_row_name ig ak po i v m (d : Dec) st :
  Rdec ig ak po d st -> msg_int "id" m = Z.of_N i -> msg_str (K := str) [] "value" m = v ->
  match Decoder_ingest_name_entry SN m d, decode_row ig ak po (Terms.RName i v) st with
  | (Val _, d'), Ok (st', evs) => Rdec ig ak po d' st' /\ evs = []
  | (Exn e, _), Err me => err_ok e me
  | _, _ => False
  end.
Proof.
  intros [(Hn & Hp & Hd & Ha) Hrt] Hi Hv. unfold Decoder_ingest_name_entry, decode_row, assign.
  change (s_empty SN) with (@nil N). change (carrier SN) with str in *. rewrite Hi, Hv.
  pose proof (tiez_assign i v _ _ Hn) as H. change (carrier SN) with str in *.
  destruct (LookupDecoder_assign_entry SN (Z.of_N i) v (Decoder_names SN d)) as [[u|e] g'];
    destruct (L.assign_entry i v (ds_names st)) as [m'|]; try contradiction; cbn [bind].
  - split; [|reflexivity]. destruct d. split; [|exact Hrt]. repeat split; try apply Hp; try apply Hd; try apply H; try exact Ha.
  - left. reflexivity.
Qed.

Lemma tie_row_datatype ig ak po i v m (d : Dec) st :
  Rdec ig ak po d st -> msg_int "id" m = Z.of_N i -> msg_str (K := str) [] "value" m = v ->
  match Decoder_ingest_datatype_entry SN m d, decode_row ig ak po (Terms.RDatatype i v) st with
  | (Val _, d'), Ok (st', evs) => Rdec ig ak po d' st' /\ evs = []
  | (Exn e, _), Err me => err_ok e me
  | _, _ => False
  end.
Proof.
  intros [(Hn & Hp & Hd & Ha) Hrt] Hi Hv. unfold Decoder_ingest_datatype_entry, decode_row, assign.
  change (s_empty SN) with (@nil N). change (carrier SN) with str in *. rewrite Hi, Hv.
  pose proof (tiez_assign i v _ _ Hd) as H. change (carrier SN) with str in *.
  destruct (LookupDecoder_assign_entry SN (Z.of_N i) v (Decoder_datatypes SN d)) as [[u|e] g'];
    destruct (L.assign_entry i v (ds_datatypes st)) as [m'|]; try contradiction; cbn [bind].
  - split; [|reflexivity]. destruct d. split; [|exact Hrt]. repeat split; try apply Hn; try apply Hp; try apply H; try exact Ha.
  - left. reflexivity.
Qed.

Lemma Rdec_of_step ig ak po (d d' : Dec) st st' : Rdec ig ak po d st -> step_ok ig ak po d st d' st' -> Rdec ig ak po d' st'.
Proof.
  intros [_ (H1 & H2 & H3 & H4)] (HC & Hrt & (Ea & Eb & Ec & Ed)). split; [exact HC|].
  unfold rt_ok. rewrite Hrt, Ea, Eb, Ec, Ed. repeat split; assumption.
Qed.

Lemma Rdec_graph ig ak po (d : Dec) st g a' :
  Rdec ig ak po d st -> RA a' (mk_ma ig ak po g) -> Rdec ig ak po (set_Decoder_adapter SN a' d) (set_graph st g).
Proof.
  intros [(Hn & Hp & Hd & _) Hrt] Ha. destruct d. split; [|exact Hrt].
  split; [exact Hn|]. split; [exact Hp|]. split; [exact Hd | exact Ha].
Qed.

Lemma tie_row_graph_start ig ak po g m (d : Dec) st :
  Rdec ig ak po d st -> reads_slot g_g g m ->
  match g_graph_start m d, decode_row ig ak po (RGraphStart g) st with
  | (Val _, d'), Ok (st', evs) => Rdec ig ak po d' st' /\ evs = []
  | (Exn e, _), Err me => err_ok e me
  | _, _ => False
  end.
Proof.
  intros HR Hg. pose proof HR as [HC _]. unfold Decoder_decode_graph_start, decode_row.
  change ["g_iri"%string; "g_bnode"%string; "g_default_graph"%string; "g_literal"%string] with g_g. change (carrier SN) with str in *.
  destruct g as [w|]; cbn [reads_slot] in Hg.
  2: { rewrite Hg. right. reflexivity. }
  destruct Hg as (f & v & Hw & Hf & Hr). rewrite Hw, Hf.
  pose proof (tie_dec_term_top ig ak po w v d st HC Hr) as H.
  destruct (g_term v d) as [[x|e] d1]; destruct (decode_term ig w st) as [[st1 t1]|me]; try contradiction; cbn [bind]; [|exact H].
  destruct H as [Hx HS]. pose proof (Rdec_of_step _ _ _ _ _ _ _ HR HS) as HR1. pose proof HS as [HC1 _].
  pose proof (H_graph_start x t1 _ _ (adapter_of _ _ _ _ _ HC1) Hx) as Hs.
  destruct (o_graph_start x (ad_of d1)) as [[u|e] a']; unfold a_graph_start, mk_ma in Hs; cbn [ma_kind sim] in Hs;
    destruct ak; try contradiction; try (right; exact Hs).
  destruct Hs as [_ Ha']. split; [|reflexivity]. apply Rdec_graph; [exact HR1 | exact Ha'].
Qed.

Lemma tie_row_graph_end ig ak po m (d : Dec) st :
  Rdec ig ak po d st ->
  match g_graph_end m d, decode_row ig ak po RGraphEnd st with
  | (Val _, d'), Ok (st', evs) => Rdec ig ak po d' st' /\ evs = []
  | (Exn e, _), Err me => err_ok e me
  | _, _ => False
  end.
Proof.
  intros HR. pose proof HR as [HC _]. unfold Decoder_decode_graph_end, decode_row.
  pose proof (H_graph_end _ _ (adapter_of _ _ _ _ _ HC)) as Hs.
  destruct (o_graph_end (ad_of d)) as [[u|e] a']; unfold a_graph_end, mk_ma in Hs; cbn [ma_kind sim] in Hs;
    destruct ak; try contradiction; try (right; exact Hs).
  destruct Hs as [_ Ha']. split; [|reflexivity]. apply Rdec_graph; [exact HR | exact Ha'].
Qed.

Lemma tie_row_namespace ig ak po name p n m (d : Dec) st :
  Rdec ig ak po d st -> msg_str (K := str) [] "name" m = name ->
  msg_int "prefix_id" (msg_sub "value" "RdfIri" m) = Z.of_N p -> msg_int "name_id" (msg_sub "value" "RdfIri" m) = Z.of_N n ->
  match g_namespace m d, decode_row ig ak po (RNamespace name p n) st with
  | (Val v, d'), Ok (st', evs) => Rdec ig ak po d' st' /\ exists ev, RT v (AEv ev) /\ evs = [ev]
  | (Exn e, _), Err me => err_ok e me
  | _, _ => False
  end.
Proof.
  intros HR Hname Hp Hn. pose proof HR as [HC _]. unfold Decoder_decode_namespace_declaration, decode_row.
  change (s_empty SN) with (@nil N). change (carrier SN) with str in *.
  pose proof (tie_dec_iri ig ak po d st _ p n HC Hp Hn) as H.
  destruct (g_iri (msg_sub "value" "RdfIri" m) d) as [[x|e] d1]; destruct (decode_iri p n st) as [[st1 iri]|me]; try contradiction; cbn [bind]; [|exact H].
  destruct H as [Hx HS]. pose proof (Rdec_of_step _ _ _ _ _ _ _ HR HS) as HR1. pose proof HS as [HC1 _].
  rewrite Hname.
  pose proof (H_namespace name x iri _ _ (adapter_of _ _ _ _ _ HC1) Hx) as Hs.
  destruct (o_namespace name x (ad_of d1)) as [[u|e] a']; cbn [a_namespace sim] in Hs; [|contradiction].
  destruct Hs as [Hu Ha']. split; [apply Rdec_readapt; assumption | eexists; split; [exact Hu | reflexivity]].
Qed.

(* ------------------------------------------------------------------ decode_row: the dispatch on the type of the row *)
Theorem decode_row_tie ig ak po r m (d : Dec) st :
  Rdec ig ak po d st -> reads_row r m ->
  match g_row m d, decode_row ig ak po r st with
  | (Val v, d'), Ok (st', evs) => Rdec ig ak po d' st' /\ row_out r v evs
  | (Exn e, _), Err me => err_ok e me
  | _, _ => False
  end.
Proof.
  intros HR Hm. unfold Decoder_decode_row. change (carrier SN) with str in *.
  destruct r as [o|i v|i v|i v|s p o|s p o g|g| |name p n|]; cbn [reads_row] in Hm.
  - destruct Hm as [Hk Ho]. rewrite Hk. cbn [String.eqb Ascii.eqb Bool.eqb].
    pose proof (tie_row_options ig ak po o m d st HR Ho) as H.
    destruct (g_validate m d) as [[u|e] d1]; destruct (decode_row ig ak po (ROptions o) st) as [[st1 evs]|me]; try contradiction; [|exact H].
    destruct H as [H ->]. split; [exact H | reflexivity].
  - destruct Hm as (Hk & Hi & Hv). rewrite Hk. cbn [String.eqb Ascii.eqb Bool.eqb].
    pose proof (tie_row_prefix ig ak po i v m d st HR Hi Hv) as H.
    destruct (Decoder_ingest_prefix_entry SN m d) as [[u|e] d1]; destruct (decode_row ig ak po (Terms.RPrefix i v) st) as [[st1 evs]|me]; try contradiction; [|exact H].
    destruct H as [H ->]. split; [exact H | reflexivity].
  - destruct Hm as (Hk & Hi & Hv). rewrite Hk. cbn [String.eqb Ascii.eqb Bool.eqb].
    pose proof (tie_row_name ig ak po i v m d st HR Hi Hv) as H.
    destruct (Decoder_ingest_name_entry SN m d) as [[u|e] d1]; destruct (decode_row ig ak po (Terms.RName i v) st) as [[st1 evs]|me]; try contradiction; [|exact H].
    destruct H as [H ->]. split; [exact H | reflexivity].
  - destruct Hm as (Hk & Hi & Hv). rewrite Hk. cbn [String.eqb Ascii.eqb Bool.eqb].
    pose proof (tie_row_datatype ig ak po i v m d st HR Hi Hv) as H.
    destruct (Decoder_ingest_datatype_entry SN m d) as [[u|e] d1]; destruct (decode_row ig ak po (Terms.RDatatype i v) st) as [[st1 evs]|me]; try contradiction; [|exact H].
    destruct H as [H ->]. split; [exact H | reflexivity].
  - destruct Hm as (Hk & Rs & Rp & Ro). rewrite Hk. cbn [String.eqb Ascii.eqb Bool.eqb].
    pose proof (tie_row_triple ig ak po s p o m d st HR Rs Rp Ro) as H.
    destruct (g_triple m d) as [[u|e] d1]; destruct (decode_row ig ak po (RTriple s p o) st) as [[st1 evs]|me]; try contradiction; [|exact H].
    destruct H as [H (ev & Hu & ->)]. split; [exact H|]. exists u, ev. repeat split. exact Hu.
  - destruct Hm as (Hk & Rs & Rp & Ro & Rg). rewrite Hk. cbn [String.eqb Ascii.eqb Bool.eqb].
    pose proof (tie_row_quad ig ak po s p o g m d st HR Rs Rp Ro Rg) as H.
    destruct (g_quad m d) as [[u|e] d1]; destruct (decode_row ig ak po (RQuad s p o g) st) as [[st1 evs]|me]; try contradiction; [|exact H].
    destruct H as [H (ev & Hu & ->)]. split; [exact H|]. exists u, ev. repeat split. exact Hu.
  - destruct Hm as (Hk & Rg). rewrite Hk. cbn [String.eqb Ascii.eqb Bool.eqb].
    pose proof (tie_row_graph_start ig ak po g m d st HR Rg) as H.
    destruct (g_graph_start m d) as [[u|e] d1]; destruct (decode_row ig ak po (RGraphStart g) st) as [[st1 evs]|me]; try contradiction; [|exact H].
    destruct H as [H ->]. split; [exact H | reflexivity].
  - rewrite Hm. cbn [String.eqb Ascii.eqb Bool.eqb].
    pose proof (tie_row_graph_end ig ak po m d st HR) as H.
    destruct (g_graph_end m d) as [[u|e] d1]; destruct (decode_row ig ak po RGraphEnd st) as [[st1 evs]|me]; try contradiction; [|exact H].
    destruct H as [H ->]. split; [exact H | reflexivity].
  - destruct Hm as (Hk & Hname & Hp & Hn). rewrite Hk. cbn [String.eqb Ascii.eqb Bool.eqb].
    pose proof (tie_row_namespace ig ak po name p n m d st HR Hname Hp Hn) as H.
    destruct (g_namespace m d) as [[u|e] d1]; destruct (decode_row ig ak po (RNamespace name p n) st) as [[st1 evs]|me]; try contradiction; [|exact H].
    destruct H as [H (ev & Hu & ->)]. split; [exact H|]. exists u, ev. repeat split. exact Hu.
  - contradiction.
Qed.

(* ------------------------------------------------------------------ iter_rows: the rows of a frame *)
(* what iter_rows yields against the model's events *)
Definition yields (ys : list (option T)) (evs : list event) : Prop :=
  Forall2 (fun y ev => exists x, y = Some x /\ RT x (AEv ev)) ys evs.

Lemma yields_app a b c d : yields a b -> yields c d -> yields (a ++ c) (b ++ d).
Proof. apply Forall2_app. Qed.

Lemma row_out_kind r v evs m : reads_row r m -> row_out r v evs ->
  yields (if (String.eqb (pb_kind m) "RdfTriple" || String.eqb (pb_kind m) "RdfQuad" || String.eqb (pb_kind m) "RdfNamespaceDeclaration")%bool
          then [v] else []) evs.
Proof.
  assert (Hnil : forall evs0, evs0 = [] -> yields [] evs0) by (intros ? ->; constructor).
  assert (Hone : forall x ev, RT x (AEv ev) -> yields [Some x] [ev]) by (intros x ev Hx; repeat constructor; exists x; split; [reflexivity | exact Hx]).
  destruct r; cbn [reads_row row_out]; intros Hm Ho; try contradiction.
  - destruct Hm as [Hk _]. rewrite Hk. apply Hnil. exact Ho.
  - destruct Hm as [Hk _]. rewrite Hk. apply Hnil. exact Ho.
  - destruct Hm as [Hk _]. rewrite Hk. apply Hnil. exact Ho.
  - destruct Hm as [Hk _]. rewrite Hk. apply Hnil. exact Ho.
  - destruct Hm as [Hk _]. rewrite Hk. destruct Ho as (x & ev & -> & Hx & ->). apply Hone. exact Hx.
  - destruct Hm as [Hk _]. rewrite Hk. destruct Ho as (x & ev & -> & Hx & ->). apply Hone. exact Hx.
  - destruct Hm as [Hk _]. rewrite Hk. apply Hnil. exact Ho.
  - rewrite Hm. apply Hnil. exact Ho.
  - destruct Hm as [Hk _]. rewrite Hk. destruct Ho as (x & ev & -> & Hx & ->). apply Hone. exact Hx.
Qed.

Theorem iter_rows_tie ig ak po (rows : list row) (owners : list (pbval str)) (fm : pbval str) (d : Dec) st :
  Rdec ig ak po d st -> msg_rep "rows" fm = owners -> Forall2 reads_owner rows owners ->
  match g_iter_rows fm d, decode_rows ig ak po rows st with
  | (r, d', ys), (st', evs, err) =>
    yields ys evs /\
    match r, err with
    | Val _, None => Rdec ig ak po d' st'
    | Exn e, Some me => err_ok_gen e me
    | _, _ => False
    end
  end.
Proof.
  intros HR Hrep Hall. unfold Decoder_iter_rows. cbv zeta. change (carrier SN) with str in *. rewrite Hrep.
  match goal with |- context [?f owners (d, @nil (option T))] => set (loop := f) end.
  assert (Hloop : forall rows owners (dx : Dec) stx (ys : list (option T)),
             Rdec ig ak po dx stx -> Forall2 reads_owner rows owners ->
             match loop owners (dx, ys), decode_rows ig ak po rows stx with
             | LContinue (d', ys'), (st', evs, None) => (exists more, ys' = ys ++ more /\ yields more evs) /\ Rdec ig ak po d' st'
             | LRaise e (d', ys'), (st', evs, Some me) => (exists more, ys' = ys ++ more /\ yields more evs) /\ err_ok e me
             | _, _ => False
             end).
  { clear HR Hrep Hall rows owners d st fm. intros rows owners dx stx ys HRx Hall. revert dx stx ys HRx.
    induction Hall as [|r owner rows owners Hr Hall IH]; intros dx stx ys HRx.
    - cbn. split; [exists []; split; [rewrite app_nil_r; reflexivity | constructor] | exact HRx].
    - cbn [decode_rows]. unfold loop at 1. fold loop. cbv beta iota.
      change ["options"%string; "triple"%string; "quad"%string; "graph_start"%string; "graph_end"%string; "namespace"%string; "name"%string; "prefix"%string; "datatype"%string] with g_rows.
      assert (Hcase : r = REmpty /\ msg_which g_rows owner = None \/
                      exists f v, msg_which g_rows owner = Some f /\ msg_field f owner = Some v /\ reads_row r v).
      { destruct r; cbn [reads_owner] in Hr; try (right; exact Hr). left. split; [reflexivity | exact Hr]. }
      destruct Hcase as [[-> Hw]|(f & v & Hw & Hf & Hv)].
      + change (carrier SN) with str in *. rewrite Hw. cbn.
        split; [exists []; split; [rewrite app_nil_r; reflexivity | constructor] | right; reflexivity].
      + change (carrier SN) with str in *. rewrite Hw, Hf.
        pose proof (decode_row_tie ig ak po r v dx stx HRx Hv) as H.
        destruct (g_row v dx) as [[x|e] d1]; destruct (decode_row ig ak po r stx) as [[st1 evs1]|me]; try contradiction.
        * destruct H as [HR1 Hout]. pose proof (row_out_kind r x evs1 v Hv Hout) as Hy.
          match goal with |- context [if ?c then _ else _] => destruct c end.
          -- specialize (IH d1 st1 (ys ++ [x]) HR1).
             destruct (loop owners (d1, ys ++ [x])) as [[d' ys']|rv [d' ys']|e [d' ys']];
               destruct (decode_rows ig ak po rows st1) as [[st' evs] [me|]]; try contradiction;
               destruct IH as [(more & -> & Hmore) IH]; (split; [|exact IH]);
               (exists ([x] ++ more); split; [rewrite app_assoc; reflexivity | apply yields_app; assumption]).
          -- specialize (IH d1 st1 ys HR1). inversion Hy; subst.
             destruct (loop owners (d1, ys)) as [[d' ys']|rv [d' ys']|e [d' ys']];
               destruct (decode_rows ig ak po rows st1) as [[st' evs] [me|]]; try contradiction;
               destruct IH as [(more & -> & Hmore) IH]; (split; [|exact IH]); (exists more; split; [reflexivity | exact Hmore]).
        * cbn. split; [exists []; split; [rewrite app_nil_r; reflexivity | constructor] | exact H]. }
  specialize (Hloop rows owners d st [] HR Hall).
  destruct (loop owners (d, [])) as [[d' ys']|rv [d' ys']|e [d' ys']];
    destruct (decode_rows ig ak po rows st) as [[st' evs] [me|]]; try contradiction;
    destruct Hloop as [(more & -> & Hmore) H]; (split; [exact Hmore | first [exact H | exists e; split; [reflexivity | exact H]]]).
Qed.

(* whatever rows a frame carries (that rdf.proto can say), the translated iter_rows over the message object with
   exactly those fields set does what the model's decode_rows does -- no premise about the message left *)
Corollary iter_rows_on_built_frame ig ak po (rows : list row) (d : Dec) st :
  Rdec ig ak po d st -> forallb wf_row rows = true ->
  match g_iter_rows (PMsg "RdfStreamFrame" [("rows"%string, PRep (map owner_msg rows))]) d, decode_rows ig ak po rows st with
  | (r, d', ys), (st', evs, err) =>
    yields ys evs /\
    match r, err with
    | Val _, None => Rdec ig ak po d' st'
    | Exn e, Some me => err_ok_gen e me
    | _, _ => False
    end
  end.
Proof.
  intros HR Hwf. apply (iter_rows_tie ig ak po rows (map owner_msg rows)); [exact HR | reflexivity|].
  induction rows as [|r rows IH]; cbn [map]; [constructor|].
  cbn [forallb] in Hwf. apply andb_true_iff in Hwf as [Hr Hwf].
  constructor; [apply owner_msg_reads; exact Hr | apply IH; exact Hwf].
Qed.

(* ------------------------------------------------------------------ Decoder.__init__ *)
Theorem decoder_init_tie ig ak po (a : A) :
  RA a (mk_ma ig ak po None) ->
  match Decoder___init__ SN o_options a, decoder_new po with
  | Val d, Ok st => Rdec ig ak po d st
  | Exn e, Err me => e = exn_of me
  | _, _ => False
  end.
Proof.
  intros Ha. unfold Decoder___init__, decoder_new. rewrite (H_options _ _ Ha). unfold mk_ma.
  cbn [ma_opts popts_obj ParserOptions_lookup_preset LookupPreset_max_names LookupPreset_max_prefixes LookupPreset_max_datatypes].
  pose proof (tiez_init (po_maxn po)) as Hn.
  destruct (LookupDecoder___init__ SN (Z.of_N (po_maxn po))) as [gn|e]; destruct (ldec_new (po_maxn po)) as [mn|me]; try contradiction; cbn [bind]; [|exact Hn].
  pose proof (tiez_init (po_maxp po)) as Hp.
  destruct (LookupDecoder___init__ SN (Z.of_N (po_maxp po))) as [gp|e]; destruct (ldec_new (po_maxp po)) as [mp|me]; try contradiction; cbn [bind]; [|exact Hp].
  pose proof (tiez_init (po_maxd po)) as Hd.
  destruct (LookupDecoder___init__ SN (Z.of_N (po_maxd po))) as [gd|e]; destruct (ldec_new (po_maxd po)) as [md|me]; try contradiction; cbn [bind]; [|exact Hd].
  split; [split; [exact Hn|]; split; [exact Hp|]; split; [exact Hd | exact Ha]|].
  repeat split.
Qed.

End Adapters.

(* ------------------------------------------------------------------ the instance the checks list: the adapters as the
   model has them, related to themselves by equality *)
Section ModelInstance.
Notation MDec := (@Decoder SN aval madapter).

Lemma sim_refl (r : outcome aval * madapter) : sim (A := madapter) (T := aval) eq eq r r.
Proof. destruct r as [[v|e] a]; cbn; [split|]; reflexivity. Qed.

Lemma Forall2_eq_list {X} (l l' : list X) : Forall2 eq l l' -> l = l'.
Proof. induction 1; congruence. Qed.

Lemma Mo : forall a ma : madapter, a = ma -> ma_opts a = ma_opts ma. Proof. intros a ma ->. reflexivity. Qed.
Lemma M1 (f : madapter -> outcome aval * madapter) : forall a ma, a = ma -> sim eq eq (f a) (f ma).
Proof. intros a ma ->. apply sim_refl. Qed.
Lemma Ml (f : list aval -> madapter -> outcome aval * madapter) : forall ts tms a ma, a = ma -> Forall2 eq ts (map ATerm tms) -> sim eq eq (f ts a) (f (map ATerm tms) ma).
Proof. intros ts tms a ma -> H. apply Forall2_eq_list in H. subst. apply sim_refl. Qed.
Lemma Mv {X} (f : X -> madapter -> outcome aval * madapter) : forall x a ma, a = ma -> sim eq eq (f x a) (f x ma).
Proof. intros x a ma ->. apply sim_refl. Qed.
Lemma Mlit : forall lex lang dt a ma, a = ma -> sim eq eq (a_literal lex lang dt a) (a_literal lex lang dt ma).
Proof. intros lex lang dt a ma ->. apply sim_refl. Qed.
Lemma Mg : forall (g : aval) t a ma, a = ma -> g = ATerm t -> sim eq eq (a_graph_start g a) (a_graph_start (ATerm t) ma).
Proof. intros g t a ma -> ->. apply sim_refl. Qed.
Lemma Mn : forall (name : str) (v : aval) iri a ma, a = ma -> v = ATerm (TIri iri) -> sim eq eq (a_namespace name v a) (a_namespace name (ATerm (TIri iri)) ma).
Proof. intros name v iri a ma -> ->. apply sim_refl. Qed.

Definition MRcore := Rcore (A := madapter) (T := aval) eq.
Definition MRdec := Rdec (A := madapter) (T := aval) eq eq.
Definition Myields := yields (T := aval) eq.

(* every wire term, every message object that reads as it, any fuel above its nesting depth *)
Theorem tie_dec_term ig ak po (w : wterm) fuel m (d : MDec) st :
  MRcore ig ak po d st -> reads_term w m -> (pb_depth m < fuel)%nat ->
  match Decoder_decode_term_fuel SN a_iri a_default_graph a_bnode a_literal a_quoted fuel m d, decode_term ig w st with
  | (Val v, d'), Ok (st', t) => v = ATerm t /\ MRcore ig ak po d' st'
  | (Exn e, _), Err me => err_ok e me
  | _, _ => False
  end.
Proof.
  intros HR Hm Hf.
  pose proof (dec_term_tie a_iri a_default_graph a_bnode a_literal a_quoted eq eq
                (Mv a_iri) (M1 a_default_graph) (Mv a_bnode) Mlit (Ml a_quoted) ig ak po w fuel m d st HR Hm Hf) as H.
  destruct (Decoder_decode_term_fuel SN a_iri a_default_graph a_bnode a_literal a_quoted fuel m d) as [[v|e] d'];
    destruct (decode_term ig w st) as [[st' t]|me]; try contradiction; [|exact H].
  destruct H as [-> (HC & _)]. split; [reflexivity | exact HC].
Qed.

Theorem source_decode_row_is_model ig ak po r m (d : MDec) st :
  MRdec ig ak po d st -> reads_row r m ->
  match Decoder_decode_row SN ma_opts a_iri a_default_graph a_bnode a_literal a_triple a_quad a_graph_start a_graph_end a_namespace a_quoted m d,
        decode_row ig ak po r st with
  | (Val v, d'), Ok (st', evs) => MRdec ig ak po d' st' /\ row_out (T := aval) eq r v evs
  | (Exn e, _), Err me => err_ok e me
  | _, _ => False
  end.
Proof.
  exact (decode_row_tie ma_opts a_iri a_default_graph a_bnode a_literal a_triple a_quad a_graph_start a_graph_end a_namespace a_quoted eq eq
           Mo (Mv a_iri) (M1 a_default_graph) (Mv a_bnode) Mlit (Ml a_triple) (Ml a_quad) Mg (M1 a_graph_end) Mn (Ml a_quoted) ig ak po r m d st).
Qed.

Theorem source_iter_rows_is_model ig ak po (rows : list row) (owners : list (pbval str)) (fm : pbval str) (d : MDec) st :
  MRdec ig ak po d st -> msg_rep "rows" fm = owners -> Forall2 reads_owner rows owners ->
  match Decoder_iter_rows SN ma_opts a_iri a_default_graph a_bnode a_literal a_triple a_quad a_graph_start a_graph_end a_namespace a_quoted fm d,
        decode_rows ig ak po rows st with
  | (r, d', ys), (st', evs, err) =>
    Myields ys evs /\
    match r, err with
    | Val _, None => MRdec ig ak po d' st'
    | Exn e, Some me => err_ok_gen e me
    | _, _ => False
    end
  end.
Proof.
  exact (iter_rows_tie ma_opts a_iri a_default_graph a_bnode a_literal a_triple a_quad a_graph_start a_graph_end a_namespace a_quoted eq eq
           Mo (Mv a_iri) (M1 a_default_graph) (Mv a_bnode) Mlit (Ml a_triple) (Ml a_quad) Mg (M1 a_graph_end) Mn (Ml a_quoted) ig ak po rows owners fm d st).
Qed.

Theorem source_iter_rows_on_built_frame ig ak po (rows : list row) (d : MDec) st :
  MRdec ig ak po d st -> forallb wf_row rows = true ->
  match Decoder_iter_rows SN ma_opts a_iri a_default_graph a_bnode a_literal a_triple a_quad a_graph_start a_graph_end a_namespace a_quoted
          (PMsg "RdfStreamFrame" [("rows"%string, PRep (map owner_msg rows))]) d,
        decode_rows ig ak po rows st with
  | (r, d', ys), (st', evs, err) =>
    Myields ys evs /\
    match r, err with
    | Val _, None => MRdec ig ak po d' st'
    | Exn e, Some me => err_ok_gen e me
    | _, _ => False
    end
  end.
Proof.
  exact (iter_rows_on_built_frame ma_opts a_iri a_default_graph a_bnode a_literal a_triple a_quad a_graph_start a_graph_end a_namespace a_quoted eq eq
           Mo (Mv a_iri) (M1 a_default_graph) (Mv a_bnode) Mlit (Ml a_triple) (Ml a_quad) Mg (M1 a_graph_end) Mn (Ml a_quoted) ig ak po rows d st).
Qed.

Theorem source_decoder_init_is_model ig ak po :
  match Decoder___init__ SN ma_opts (mk_ma ig ak po None), decoder_new po with
  | Val d, Ok st => MRdec ig ak po d st
  | Exn e, Err me => e = exn_of me
  | _, _ => False
  end.
Proof. exact (decoder_init_tie ma_opts eq eq Mo ig ak po (mk_ma ig ak po None) eq_refl). Qed.

(* what is yielded, spelled out: the events, in order *)
Lemma Myields_map ys evs : Myields ys evs -> ys = map (fun e => Some (AEv e)) evs.
Proof. induction 1 as [|y ev ys evs (x & -> & ->) _ IH]; cbn; [reflexivity | rewrite IH; reflexivity]. Qed.
End ModelInstance.

Print Assumptions tie_dec_term.
Print Assumptions source_decode_row_is_model.
Print Assumptions source_iter_rows_is_model.
Print Assumptions source_iter_rows_on_built_frame.
Print Assumptions source_decoder_init_is_model.
