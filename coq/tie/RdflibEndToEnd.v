(* RdflibEndToEnd.v -- C02 end to end on translated source, for the rdflib integration: the frames the translated WRITER driver
   yields (generated/RdflibSerializeGen.v: triples_stream_frames over a Graph, quads_stream_frames over a Dataset -- the
   containers as the unit's stub module specifies them), handed to the translated READER (generated/RdflibParseGen.v:
   parse_jelly_flat(frames=.., options=..) with the rdflib adapters over the unit's specification of rdflib's constructors), give back
   exactly the Triple / Quad objects of the statements that went in (xsd:string read as plain; rdflib's default-graph IRI as it is),
   in the order the container handed them out, and no exception.

   The statements are ones an rdflib Graph can hold (stmts_rdflib: rdflib's Literal constructor leaves their lexical form alone and
   accepts their language tag -- true of every term that constructor built) with language tags in lower case (rd_ok: where rdflib's
   == is the model's equality, RdflibSerializeTie.v).  Composition of: RdflibDriversTie (driver = model driver), the model's
   rdf_*_stream_valid (what the model driver emits is a valid stream denoting the statements), and RdflibRoundTrip
   (the translated reader on any valid RDF 1.1 stream).  No model term remains in the conclusion except as the index of the objects. *)
From Coq Require Import Lia ZifyBool.
From PJ.Model Require Import Base Terms Encoder Streams Decoder Spec Api.
From PJ.Proofs Require Import DecoderProofs DecoderSound AgreeProofs EncStream EncRdflib EncRdflibQuads RdflibBytes.
From PJ.Tie Require Import PyPrims StrN OptionsTie EncodeTie EncodeStmtTie FlowsTie StreamsTie DecodeTie DecoderBase DecoderTie StmtLayout.
From PJ.Tie Require RdflibSerializeTie RdflibDriversTie RdflibParseTie RdflibRoundTrip.
From PJ.Gen Require RdflibSerializeGen RdflibParseGen.
From PJ.Gen Require Import OptionsGen DecodeGen.
Local Open Scope Z_scope.

Module W := RdflibSerializeGen.
Module R := RdflibParseGen.
Module WT := RdflibDriversTie.
Module RT := RdflibRoundTrip.
Module RP := RdflibParseTie.

Notation pobjs evs := (map (fun e => Some (RP.pobj_of_event e)) evs).

Lemma ends_val evs : WT.ends (Val tt) evs -> raised evs = None.
Proof. unfold WT.ends. destruct (raised evs); [contradiction | reflexivity]. Qed.

Lemma rows_rdf11_frames fs : rows_rdf11 (flat_map f_rows fs) -> forallb (fun f => forallb row_rdf11 (f_rows f)) fs = true.
Proof. exact (frames_rdf11_of_rows fs). Qed.

Lemma pobjs_view evs : Forall (fun e => eview e = e) evs -> map (fun e => Some (RP.pobj_of_event (eview e))) evs = pobjs evs.
Proof. induction 1 as [|e evs He _ IH]; cbn [map]; [reflexivity|]. rewrite He, IH. reflexivity. Qed.

Lemma fixed_of_map evs : map eview evs = evs -> Forall (fun e => eview e = e) evs.
Proof.
  induction evs as [|e evs IH]; cbn [map]; intros H; constructor; injection H as H1 H2; [exact H1 | exact (IH H2)].
Qed.

(* a Graph through a TripleStream, read back by the flat parser *)
Theorem C02_end_to_end_rdflib_graph :
  forall (o : soptions) (s : stream) (gs gs' : WT.RStream) (k k' : W.Graph SN) (d : rdata) (ys : list (pbval str)) (dl : bool),
    stream_new TripleStream Rdflib o = Ok s -> cfg_ok o (st_logical s) -> p_nd (so_params o) = false -> fl_rows (st_flow s) = [] ->
    WT.rRs gs s -> WT.RGr k d -> WT.stmts_ok (rd_stmts d) -> stmts_rdf11 (rd_stmts d) = true -> stmts_rdflib (rd_stmts d) = true ->
    W.triples_stream_frames SN gs k = (Val tt, gs', k', ys) ->
    exists po, (exists fs sk first more, ys = map (frame_msg (rmsg gput)) fs /\ skip_empty fs = (sk, first :: more) /\ Decoder.options_from_frame first dl = Ok po) /\
      (RP.types_named (ParserOptions_stream_types (popts_obj po)) ->
       R.parse_jelly_flat SN ys (popts_obj po) false = (Val tt, ys, pobjs (flat_map event_of_triple (rd_stmts d)))).
Proof.
  intros o s gs gs' k k' d ys dl Hnew Hcfg Hnd Hfresh HR HRd Hok H11 Hrd Hrun.
  assert (Hc : st_class s <> QuadStream).
  { unfold stream_new in Hnew. destruct (negb _); [discriminate|]. destruct (match so_flow o with Some f => Ok f | None => infer_flow TripleStream o end); [|discriminate].
    cbn [bind] in Hnew. destruct (negb _); [discriminate|]. injection Hnew as <-. discriminate. }
  assert (Hk : rd_kind d <> RDataset) by (destruct HRd as (Hkd & _); rewrite Hkd; discriminate).
  pose proof (WT.rdflib_triples_stream_frames_is_model k d gs s HRd Hok HR Hc) as H. rewrite Hrun in H.
  destruct (rdf_triples_stream_frames d s) as [s' evs] eqn:Em. destruct H as (_ & _ & -> & Hends).
  pose proof (rdf_triples_stream_valid o s s' d evs Hnew Hcfg Hnd Hfresh Hk H11 Em (ends_val _ Hends)) as Hv.
  pose proof (rdf_triples_rows_rdf11 o s s' d evs Hnew Hnd Hfresh Hk (stmts_rdflib_lang _ Hrd) Em (ends_val _ Hends)) as Hrows.
  destruct (RT.C04_source_rdflib_flat_parser (emitted evs) _ dl Hv (rows_rdf11_frames _ Hrows)) as (po & (sk & first & more & H1 & H2) & H3).
  exists po. split; [exists (emitted evs), sk, first, more; split; [reflexivity | split; assumption]|].
  intros Hty. rewrite (H3 Hty). rewrite (pobjs_view _ (fixed_of_map _ (eview_triples _ Hrd))). reflexivity.
Qed.

(* a Dataset's quads() through a QuadStream, read back by the flat parser (quad_inv: the default graph's IRI stands for the default
   graph in what the stream denotes; the reader hands it out as rdflib's DATASET_DEFAULT_GRAPH_ID again -- pobj_of_term TDefault) *)
Theorem C02_end_to_end_rdflib_dataset_quads :
  forall (o : soptions) (s : stream) (gs gs' : WT.RStream) (k k' : W.Dataset SN) (d : rdata) (ys : list (pbval str)) (dl : bool),
    stream_new QuadStream Rdflib o = Ok s -> cfg_ok o (st_logical s) -> p_nd (so_params o) = false -> fl_rows (st_flow s) = [] ->
    WT.rRs gs s -> WT.RDs k d -> WT.stmts_ok (rd_stmts d) -> forallb spo_rdf11 (rd_stmts d) = true -> stmts_rdflib (rd_stmts d) = true ->
    W.quads_stream_frames SN gs k = (Val tt, gs', k', ys) ->
    exists po, (exists fs sk first more, ys = map (frame_msg (rmsg gput)) fs /\ skip_empty fs = (sk, first :: more) /\ Decoder.options_from_frame first dl = Ok po) /\
      (RP.types_named (ParserOptions_stream_types (popts_obj po)) ->
       R.parse_jelly_flat SN ys (popts_obj po) false = (Val tt, ys, pobjs (flat_map event_of_quad (map quad_inv (rd_stmts d))))).
Proof.
  intros o s gs gs' k k' d ys dl Hnew Hcfg Hnd Hfresh HR HRd Hok H11 Hrd Hrun.
  assert (Hc : st_class s = QuadStream).
  { unfold stream_new in Hnew. destruct (negb _); [discriminate|]. destruct (match so_flow o with Some f => Ok f | None => infer_flow QuadStream o end); [|discriminate].
    cbn [bind] in Hnew. destruct (negb _); [discriminate|]. injection Hnew as <-. reflexivity. }
  pose proof (WT.rdflib_quads_stream_frames_is_model k d gs s HRd Hok HR Hc) as H. rewrite Hrun in H.
  destruct (rdf_quads_stream_frames d s) as [s' evs] eqn:Em. destruct H as (_ & _ & -> & Hends).
  pose proof (rdf_quads_stream_valid o s s' d evs Hnew Hcfg Hnd Hfresh H11 Em (ends_val _ Hends)) as Hv.
  pose proof (rdf_quads_rows_rdf11 o s s' d evs Hnew Hnd Hfresh (stmts_rdflib_lang _ Hrd) Em (ends_val _ Hends)) as Hrows.
  destruct (RT.C04_source_rdflib_flat_parser (emitted evs) _ dl Hv (rows_rdf11_frames _ Hrows)) as (po & (sk & first & more & H1 & H2) & H3).
  exists po. split; [exists (emitted evs), sk, first, more; split; [reflexivity | split; assumption]|].
  intros Hty. rewrite (H3 Hty). rewrite (pobjs_view _ (fixed_of_map _ (eview_quads _ Hrd))). reflexivity.
Qed.

Print Assumptions C02_end_to_end_rdflib_graph.
Print Assumptions C02_end_to_end_rdflib_dataset_quads.
