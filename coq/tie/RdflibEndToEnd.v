(* RdflibEndToEnd.v -- C02 end to end on translated source, for the rdflib integration: the frames the translated WRITER driver
   yields (generated/RdflibSerializeGen.v: triples_stream_frames over a Graph, quads_stream_frames over a Dataset -- the
   containers as the unit's stub module specifies them), handed to the translated READER (generated/RdflibParseGen.v:
   parse_jelly_flat(frames=.., options=..) with the rdflib adapters over the unit's specification of rdflib's constructors), give back
   exactly the Triple / Quad objects of the statements that went in (xsd:string read as plain; rdflib's default-graph IRI as it is),
   in the order the container handed them out, and no exception.

   The statements are ones an rdflib Graph can hold (stmts_rdflib: rdflib's Literal constructor leaves their lexical form alone and
   accepts their language tag -- true of every term that constructor built) with language tags in lower case (rd_ok: where rdflib's
   == is the model's equality, RdflibSerializeTie.v).  Composition of: RdflibDriversTie (driver = model driver), the model's
   rdf_*_stream_valid (what the model driver emits is a valid stream denoting the statements), and RdflibRoundTrip
   (the translated reader on any valid RDF 1.1 stream).  No model term remains in the conclusion except as the index of the objects. *)
From Coq Require Import Lia ZifyBool.
From PJ.Model Require Import Base Terms Encoder Streams Decoder Spec Api.
From PJ.Proofs Require Import DecoderProofs DecoderSound AgreeProofs EncStream EncGraphs EncRdflib EncRdflibQuads EncRdflibNs RdflibBytes.
From PJ.Tie Require Import PyPrims StrN OptionsTie EncodeTie EncodeStmtTie FlowsTie StreamsTie DecodeTie DecoderBase DecoderTie StmtLayout.
From PJ.Tie Require RdflibSerializeTie RdflibDriversTie RdflibParseTie RdflibRoundTrip.
From PJ.Gen Require RdflibSerializeGen RdflibParseGen.
From PJ.Gen Require Import OptionsGen DecodeGen.
Local Open Scope Z_scope.

Module W := RdflibSerializeGen.
Module R := RdflibParseGen.
Module WT := RdflibDriversTie.
Module RT := RdflibRoundTrip.
Module RP := RdflibParseTie.

Notation pobjs evs := (map (fun e => Some (RP.pobj_of_event e)) evs).

Lemma ends_val evs : WT.ends (Val tt) evs -> raised evs = None.
Proof. unfold WT.ends. destruct (raised evs); [contradiction | reflexivity]. Qed.

Lemma rows_rdf11_frames fs : rows_rdf11 (flat_map f_rows fs) -> forallb (fun f => forallb row_rdf11 (f_rows f)) fs = true.
Proof. exact (frames_rdf11_of_rows fs). Qed.

Lemma pobjs_view evs : Forall (fun e => eview e = e) evs -> map (fun e => Some (RP.pobj_of_event (eview e))) evs = pobjs evs.
Proof. induction 1 as [|e evs He _ IH]; cbn [map]; [reflexivity|]. rewrite He, IH. reflexivity. Qed.

Lemma fixed_of_map evs : map eview evs = evs -> Forall (fun e => eview e = e) evs.
Proof.
  induction evs as [|e evs IH]; cbn [map]; intros H; constructor; injection H as H1 H2; [exact H1 | exact (IH H2)].
Qed.

(* a Graph through a TripleStream, read back by the flat parser *)
Theorem C02_end_to_end_rdflib_graph :
  forall (o : soptions) (s : stream) (gs gs' : WT.RStream) (k k' : W.Graph SN) (d : rdata) (ys : list (pbval str)) (dl : bool),
    stream_new TripleStream Rdflib o = Ok s -> cfg_ok o (st_logical s) -> p_nd (so_params o) = false -> fl_rows (st_flow s) = [] ->
    WT.rRs gs s -> WT.RGr k d -> WT.stmts_ok (rd_stmts d) -> stmts_rdf11 (rd_stmts d) = true -> stmts_rdflib (rd_stmts d) = true ->
    W.triples_stream_frames SN gs k = (Val tt, gs', k', ys) ->
    exists po, (exists fs sk first more, ys = map (frame_msg (rmsg gput)) fs /\ skip_empty fs = (sk, first :: more) /\ Decoder.options_from_frame first dl = Ok po) /\
      (RP.types_named (ParserOptions_stream_types (popts_obj po)) ->
       R.parse_jelly_flat SN ys (popts_obj po) false = (Val tt, ys, pobjs (flat_map event_of_triple (rd_stmts d)))).
Proof.
  intros o s gs gs' k k' d ys dl Hnew Hcfg Hnd Hfresh HR HRd Hok H11 Hrd Hrun.
  assert (Hc : st_class s <> QuadStream).
  { unfold stream_new in Hnew. destruct (negb _); [discriminate|]. destruct (match so_flow o with Some f => Ok f | None => infer_flow TripleStream o end); [|discriminate].
    cbn [bind] in Hnew. destruct (negb _); [discriminate|]. injection Hnew as <-. discriminate. }
  assert (Hk : rd_kind d <> RDataset) by (destruct HRd as (Hkd & _); rewrite Hkd; discriminate).
  pose proof (WT.rdflib_triples_stream_frames_is_model k d gs s HRd Hok HR Hc) as H. rewrite Hrun in H.
  destruct (rdf_triples_stream_frames d s) as [s' evs] eqn:Em. destruct H as (_ & _ & -> & Hends).
  pose proof (rdf_triples_stream_valid o s s' d evs Hnew Hcfg Hnd Hfresh Hk H11 Em (ends_val _ Hends)) as Hv.
  pose proof (rdf_triples_rows_rdf11 o s s' d evs Hnew Hnd Hfresh Hk (stmts_rdflib_lang _ Hrd) Em (ends_val _ Hends)) as Hrows.
  destruct (RT.C04_source_rdflib_flat_parser (emitted evs) _ dl Hv (rows_rdf11_frames _ Hrows)) as (po & (sk & first & more & H1 & H2) & H3).
  exists po. split; [exists (emitted evs), sk, first, more; split; [reflexivity | split; assumption]|].
  intros Hty. rewrite (H3 Hty). rewrite (pobjs_view _ (fixed_of_map _ (eview_triples _ Hrd))). reflexivity.
Qed.

(* a Dataset's quads() through a QuadStream, read back by the flat parser (quad_inv: the default graph's IRI stands for the default
   graph in what the stream denotes; the reader hands it out as rdflib's DATASET_DEFAULT_GRAPH_ID again -- pobj_of_term TDefault) *)
Theorem C02_end_to_end_rdflib_dataset_quads :
  forall (o : soptions) (s : stream) (gs gs' : WT.RStream) (k k' : W.Dataset SN) (d : rdata) (ys : list (pbval str)) (dl : bool),
    stream_new QuadStream Rdflib o = Ok s -> cfg_ok o (st_logical s) -> p_nd (so_params o) = false -> fl_rows (st_flow s) = [] ->
    WT.rRs gs s -> WT.RDs k d -> WT.stmts_ok (rd_stmts d) -> forallb spo_rdf11 (rd_stmts d) = true -> stmts_rdflib (rd_stmts d) = true ->
    W.quads_stream_frames SN gs k = (Val tt, gs', k', ys) ->
    exists po, (exists fs sk first more, ys = map (frame_msg (rmsg gput)) fs /\ skip_empty fs = (sk, first :: more) /\ Decoder.options_from_frame first dl = Ok po) /\
      (RP.types_named (ParserOptions_stream_types (popts_obj po)) ->
       R.parse_jelly_flat SN ys (popts_obj po) false = (Val tt, ys, pobjs (flat_map event_of_quad (map quad_inv (rd_stmts d))))).
Proof.
  intros o s gs gs' k k' d ys dl Hnew Hcfg Hnd Hfresh HR HRd Hok H11 Hrd Hrun.
  assert (Hc : st_class s = QuadStream).
  { unfold stream_new in Hnew. destruct (negb _); [discriminate|]. destruct (match so_flow o with Some f => Ok f | None => infer_flow QuadStream o end); [|discriminate].
    cbn [bind] in Hnew. destruct (negb _); [discriminate|]. injection Hnew as <-. reflexivity. }
  pose proof (WT.rdflib_quads_stream_frames_is_model k d gs s HRd Hok HR Hc) as H. rewrite Hrun in H.
  destruct (rdf_quads_stream_frames d s) as [s' evs] eqn:Em. destruct H as (_ & _ & -> & Hends).
  pose proof (rdf_quads_stream_valid o s s' d evs Hnew Hcfg Hnd Hfresh H11 Em (ends_val _ Hends)) as Hv.
  pose proof (rdf_quads_rows_rdf11 o s s' d evs Hnew Hnd Hfresh (stmts_rdflib_lang _ Hrd) Em (ends_val _ Hends)) as Hrows.
  destruct (RT.C04_source_rdflib_flat_parser (emitted evs) _ dl Hv (rows_rdf11_frames _ Hrows)) as (po & (sk & first & more & H1 & H2) & H3).
  exists po. split; [exists (emitted evs), sk, first, more; split; [reflexivity | split; assumption]|].
  intros Hty. rewrite (H3 Hty). rewrite (pobjs_view _ (fixed_of_map _ (eview_quads _ Hrd))). reflexivity.
Qed.

(* a Dataset's graphs() through a GraphStream (GraphStream.graph per graph), read back by the flat parser as quads: the triples of each
   graph under its name (graphs_inv: rdflib's default-graph IRI read as the default graph), graph by graph *)
Theorem C02_end_to_end_rdflib_dataset_graphs :
  forall (o : soptions) (s : stream) (gs gs' : WT.RStream) (k k' : W.Dataset SN) (d : rdata) (ys : list (pbval str)) (dl : bool),
    stream_new GraphStream Rdflib o = Ok s -> cfg_ok o (st_logical s) -> p_nd (so_params o) = false -> fl_rows (st_flow s) = [] ->
    WT.rRs gs s -> WT.RDs k d -> Forall WT.stmts_ok (map snd (rd_graphs d)) ->
    graphs_rdf11 (rd_graphs d) = true -> graphs_rdflib (rd_graphs d) = true -> forallb (fun gts => rdf_graph_ok (fst gts)) (rd_graphs d) = true ->
    W.graphs_stream_frames SN gs k = (Val tt, gs', k', ys) ->
    exists po, (exists fs sk first more, ys = map (frame_msg (rmsg gput)) fs /\ skip_empty fs = (sk, first :: more) /\ Decoder.options_from_frame first dl = Ok po) /\
      (RP.types_named (ParserOptions_stream_types (popts_obj po)) ->
       R.parse_jelly_flat SN ys (popts_obj po) false = (Val tt, ys, pobjs (flat_map run_events (graphs_inv (rd_graphs d))))).
Proof.
  intros o s gs gs' k k' d ys dl Hnew Hcfg Hnd Hfresh HR HRd Hok H11 Hrd Hgn Hrun.
  assert (Hc : st_class s = GraphStream).
  { unfold stream_new in Hnew. destruct (negb _); [discriminate|]. destruct (match so_flow o with Some f => Ok f | None => infer_flow GraphStream o end); [|discriminate].
    cbn [bind] in Hnew. destruct (negb _); [discriminate|]. injection Hnew as <-. reflexivity. }
  pose proof (WT.rdflib_graphs_stream_frames_is_model k d gs s HRd Hok HR Hc) as H. rewrite Hrun in H.
  destruct (rdf_graphs_stream_frames d s) as [s' evs] eqn:Em. destruct H as (_ & _ & -> & Hends).
  pose proof (rdf_graphs_stream_valid o s s' d evs Hnew Hcfg Hnd Hfresh H11 Em (ends_val _ Hends)) as Hv.
  pose proof (rdf_graphs_rows_rdf11 o s s' d evs Hnew Hcfg Hnd Hfresh (graphs_rdflib_lang _ H11 Hrd Hgn) Em (ends_val _ Hends)) as Hrows.
  destruct (RT.C04_source_rdflib_flat_parser (emitted evs) _ dl Hv (rows_rdf11_frames _ Hrows)) as (po & (sk & first & more & H1 & H2) & H3).
  exists po. split; [exists (emitted evs), sk, first, more; split; [reflexivity | split; assumption]|].
  intros Hty. rewrite (H3 Hty). rewrite (pobjs_view _ (fixed_of_map _ (eview_graphs _ Hrd))). reflexivity.
Qed.

(* C14 / C02 with namespace declarations, whatever the option says: a Graph (its bindings as namespaces() hands them out, its triples)
   through a TripleStream and back through the flat parser: the Prefix objects of the bindings when declarations are enabled (none
   otherwise), in binding order, then exactly the Triple objects of the statements *)
Lemma eview_prefixes o d : map eview (rdf_ns_events o d) = rdf_ns_events o d.
Proof.
  unfold rdf_ns_events. destruct (p_nd _); [|reflexivity]. destruct (rd_kind d); try reflexivity;
    induction (rd_namespaces d) as [|[n i] l IH]; cbn [map]; try reflexivity; rewrite IH; reflexivity.
Qed.

Theorem C14_end_to_end_rdflib_graph :
  forall (o : soptions) (s : stream) (gs gs' : WT.RStream) (k k' : W.Graph SN) (d : rdata) (ys : list (pbval str)) (dl : bool),
    stream_new TripleStream Rdflib o = Ok s -> cfg_ok o (st_logical s) -> fl_rows (st_flow s) = [] ->
    WT.rRs gs s -> WT.RGr k d -> WT.stmts_ok (rd_stmts d) -> stmts_rdf11 (rd_stmts d) = true -> stmts_rdflib (rd_stmts d) = true ->
    W.triples_stream_frames SN gs k = (Val tt, gs', k', ys) ->
    exists po, (exists fs sk first more, ys = map (frame_msg (rmsg gput)) fs /\ skip_empty fs = (sk, first :: more) /\ Decoder.options_from_frame first dl = Ok po) /\
      (RP.types_named (ParserOptions_stream_types (popts_obj po)) ->
       R.parse_jelly_flat SN ys (popts_obj po) false = (Val tt, ys, pobjs (rdf_ns_events o d ++ flat_map event_of_triple (rd_stmts d)))).
Proof.
  intros o s gs gs' k k' d ys dl Hnew Hcfg Hfresh HR HRd Hok H11 Hrd Hrun.
  assert (Hc : st_class s <> QuadStream).
  { unfold stream_new in Hnew. destruct (negb _); [discriminate|]. destruct (match so_flow o with Some f => Ok f | None => infer_flow TripleStream o end); [|discriminate].
    cbn [bind] in Hnew. destruct (negb _); [discriminate|]. injection Hnew as <-. discriminate. }
  assert (Hk : rd_kind d <> RDataset) by (destruct HRd as (Hkd & _); rewrite Hkd; discriminate).
  pose proof (WT.rdflib_triples_stream_frames_is_model k d gs s HRd Hok HR Hc) as H. rewrite Hrun in H.
  destruct (rdf_triples_stream_frames d s) as [s' evs] eqn:Em. destruct H as (_ & _ & -> & Hends).
  pose proof (rdf_triples_stream_valid_ns o s s' d evs Hnew Hcfg Hfresh Hk H11 Em (ends_val _ Hends)) as Hv.
  pose proof (rdf_triples_rows_rdf11_ns o s s' d evs Hnew Hfresh Hk (stmts_rdflib_lang _ Hrd) Em (ends_val _ Hends)) as Hrows.
  destruct (RT.C04_source_rdflib_flat_parser (emitted evs) _ dl Hv (rows_rdf11_frames _ Hrows)) as (po & (sk & first & more & H1 & H2) & H3).
  exists po. split; [exists (emitted evs), sk, first, more; split; [reflexivity | split; assumption]|].
  intros Hty. rewrite (H3 Hty). rewrite (pobjs_view _ (fixed_of_map _ ltac:(rewrite map_app, eview_prefixes, (eview_triples _ Hrd); reflexivity))). reflexivity.
Qed.

(* C03 for the rdflib integration on translated source: what the translated rdflib drivers yield, when they end normally, is the list
   of message objects of a stream the referee accepts, denoting the declarations (if enabled) and the statements *)
Theorem C03_source_rdflib_triples_driver_writes_valid_streams :
  forall (o : soptions) (s : stream) (gs gs' : WT.RStream) (k k' : W.Graph SN) (d : rdata) (ys : list (pbval str)),
    stream_new TripleStream Rdflib o = Ok s -> cfg_ok o (st_logical s) -> fl_rows (st_flow s) = [] ->
    WT.rRs gs s -> WT.RGr k d -> WT.stmts_ok (rd_stmts d) -> stmts_rdf11 (rd_stmts d) = true ->
    W.triples_stream_frames SN gs k = (Val tt, gs', k', ys) ->
    exists fs, ys = map (frame_msg (rmsg gput)) fs /\ run_frames fs = Valid (rdf_ns_events o d ++ flat_map event_of_triple (rd_stmts d)).
Proof.
  intros o s gs gs' k k' d ys Hnew Hcfg Hfresh HR HRd Hok H11 Hrun.
  assert (Hc : st_class s <> QuadStream).
  { unfold stream_new in Hnew. destruct (negb _); [discriminate|]. destruct (match so_flow o with Some f => Ok f | None => infer_flow TripleStream o end); [|discriminate].
    cbn [bind] in Hnew. destruct (negb _); [discriminate|]. injection Hnew as <-. discriminate. }
  assert (Hk : rd_kind d <> RDataset) by (destruct HRd as (Hkd & _); rewrite Hkd; discriminate).
  pose proof (WT.rdflib_triples_stream_frames_is_model k d gs s HRd Hok HR Hc) as H. rewrite Hrun in H.
  destruct (rdf_triples_stream_frames d s) as [s' evs] eqn:Em. destruct H as (_ & _ & -> & Hends).
  exists (emitted evs). split; [reflexivity|].
  exact (rdf_triples_stream_valid_ns o s s' d evs Hnew Hcfg Hfresh Hk H11 Em (ends_val _ Hends)).
Qed.

Theorem C03_source_rdflib_quads_driver_writes_valid_streams :
  forall (o : soptions) (s : stream) (gs gs' : WT.RStream) (k k' : W.Dataset SN) (d : rdata) (ys : list (pbval str)),
    stream_new QuadStream Rdflib o = Ok s -> cfg_ok o (st_logical s) -> p_nd (so_params o) = false -> fl_rows (st_flow s) = [] ->
    WT.rRs gs s -> WT.RDs k d -> WT.stmts_ok (rd_stmts d) -> forallb spo_rdf11 (rd_stmts d) = true ->
    W.quads_stream_frames SN gs k = (Val tt, gs', k', ys) ->
    exists fs, ys = map (frame_msg (rmsg gput)) fs /\ run_frames fs = Valid (flat_map event_of_quad (map quad_inv (rd_stmts d))).
Proof.
  intros o s gs gs' k k' d ys Hnew Hcfg Hnd Hfresh HR HRd Hok H11 Hrun.
  assert (Hc : st_class s = QuadStream).
  { unfold stream_new in Hnew. destruct (negb _); [discriminate|]. destruct (match so_flow o with Some f => Ok f | None => infer_flow QuadStream o end); [|discriminate].
    cbn [bind] in Hnew. destruct (negb _); [discriminate|]. injection Hnew as <-. reflexivity. }
  pose proof (WT.rdflib_quads_stream_frames_is_model k d gs s HRd Hok HR Hc) as H. rewrite Hrun in H.
  destruct (rdf_quads_stream_frames d s) as [s' evs] eqn:Em. destruct H as (_ & _ & -> & Hends).
  exists (emitted evs). split; [reflexivity|].
  exact (rdf_quads_stream_valid o s s' d evs Hnew Hcfg Hnd Hfresh H11 Em (ends_val _ Hends)).
Qed.

Theorem C03_source_rdflib_graphs_driver_writes_valid_streams :
  forall (o : soptions) (s : stream) (gs gs' : WT.RStream) (k k' : W.Dataset SN) (d : rdata) (ys : list (pbval str)),
    stream_new GraphStream Rdflib o = Ok s -> cfg_ok o (st_logical s) -> p_nd (so_params o) = false -> fl_rows (st_flow s) = [] ->
    WT.rRs gs s -> WT.RDs k d -> Forall WT.stmts_ok (map snd (rd_graphs d)) -> graphs_rdf11 (rd_graphs d) = true ->
    W.graphs_stream_frames SN gs k = (Val tt, gs', k', ys) ->
    exists fs, ys = map (frame_msg (rmsg gput)) fs /\ run_frames fs = Valid (flat_map run_events (graphs_inv (rd_graphs d))).
Proof.
  intros o s gs gs' k k' d ys Hnew Hcfg Hnd Hfresh HR HRd Hok H11 Hrun.
  assert (Hc : st_class s = GraphStream).
  { unfold stream_new in Hnew. destruct (negb _); [discriminate|]. destruct (match so_flow o with Some f => Ok f | None => infer_flow GraphStream o end); [|discriminate].
    cbn [bind] in Hnew. destruct (negb _); [discriminate|]. injection Hnew as <-. reflexivity. }
  pose proof (WT.rdflib_graphs_stream_frames_is_model k d gs s HRd Hok HR Hc) as H. rewrite Hrun in H.
  destruct (rdf_graphs_stream_frames d s) as [s' evs] eqn:Em. destruct H as (_ & _ & -> & Hends).
  exists (emitted evs). split; [reflexivity|].
  exact (rdf_graphs_stream_valid o s s' d evs Hnew Hcfg Hnd Hfresh H11 Em (ends_val _ Hends)).
Qed.

(* C06 for the rdflib integration on translated source: when a translated rdflib driver ends without raising, the flow of the stream
   it leaves holds no row -- nothing that was accepted is left unwritten *)
From PJ.Proofs Require Import RdflibFlush.
From PJ.Gen Require Import FlowsGen StreamsGen.

Lemma flow_empty_of_rRs (g : WT.RStream) (m : stream) : WT.rRs g m -> fl_rows (st_flow m) = [] -> FrameFlow_data (Stream_flow SN g) = [].
Proof. intros (_ & _ & _ & _ & (_ & Hd & _) & _) He. rewrite Hd, He. reflexivity. Qed.

Theorem C06_source_rdflib_nothing_left_behind_dataset :
  forall (s : stream) (gs gs' : WT.RStream) (k k' : W.Dataset SN) (d : rdata) (ys : list (pbval str)),
    WT.rRs gs s -> WT.RDs k d -> WT.stmts_ok (rd_stmts d) -> Forall WT.stmts_ok (map snd (rd_graphs d)) ->
    W.stream_frames SN gs k = (Val tt, gs', k', ys) ->
    FrameFlow_data (Stream_flow SN gs') = [].
Proof.
  intros s gs gs' k k' d ys HR HRd Hok Hoks Hrun.
  pose proof (WT.rdflib_stream_frames_is_model k d gs s HRd Hok Hoks HR) as H. rewrite Hrun in H.
  destruct (rdf_stream_frames d s) as [s' evs] eqn:Em. destruct H as (HR' & _ & _ & Hends).
  apply (flow_empty_of_rRs gs' s' HR'). exact (rdf_stream_frames_flushes d s s' evs Em (ends_val _ Hends)).
Qed.

Theorem C06_source_rdflib_nothing_left_behind_graph :
  forall (s : stream) (gs gs' : WT.RStream) (k k' : W.Graph SN) (d : rdata) (ys : list (pbval str)),
    WT.rRs gs s -> WT.RGr k d -> WT.stmts_ok (rd_stmts d) -> st_class s = TripleStream ->
    W.triples_stream_frames SN gs k = (Val tt, gs', k', ys) ->
    FrameFlow_data (Stream_flow SN gs') = [].
Proof.
  intros s gs gs' k k' d ys HR HRd Hok Hc Hrun.
  pose proof (WT.rdflib_triples_stream_frames_is_model k d gs s HRd Hok HR ltac:(rewrite Hc; discriminate)) as H. rewrite Hrun in H.
  destruct (rdf_triples_stream_frames d s) as [s' evs] eqn:Em. destruct H as (HR' & _ & _ & Hends).
  apply (flow_empty_of_rRs gs' s' HR'). apply (rdf_stream_frames_flushes d s s' evs); [unfold rdf_stream_frames; rewrite Hc; exact Em | exact (ends_val _ Hends)].
Qed.

(* C19 for the rdflib integration on translated source: the frames a translated rdflib driver yields pass the audit (nothing redundant,
   no missed elision, no zero form) -- for statements in normal form (AudStream.stmts_nrm) *)
From PJ.Model Require Import Audit.
From PJ.Proofs Require Import AuditBase AudStmt AudStream RdflibAudit.

Theorem C19_source_rdflib_triples_driver_audit_clean :
  forall (o : soptions) (s : stream) (gs gs' : WT.RStream) (k k' : W.Graph SN) (d : rdata) (ys : list (pbval str)),
    stream_new TripleStream Rdflib o = Ok s -> cfg_ok o (st_logical s) -> fl_rows (st_flow s) = [] ->
    WT.rRs gs s -> WT.RGr k d -> WT.stmts_ok (rd_stmts d) -> stmts_rdf11 (rd_stmts d) = true -> stmts_nrm (rd_stmts d) ->
    W.triples_stream_frames SN gs k = (Val tt, gs', k', ys) ->
    exists fs cnt, ys = map (frame_msg (rmsg gput)) fs /\ audit (flat_map f_rows fs) = Some cnt /\ clean cnt.
Proof.
  intros o s gs gs' k k' d ys Hnew Hcfg Hfresh HR HRd Hok H11 Hnrm Hrun.
  assert (Hc : st_class s <> QuadStream).
  { unfold stream_new in Hnew. destruct (negb _); [discriminate|]. destruct (match so_flow o with Some f => Ok f | None => infer_flow TripleStream o end); [|discriminate].
    cbn [bind] in Hnew. destruct (negb _); [discriminate|]. injection Hnew as <-. discriminate. }
  assert (Hk : rd_kind d <> RDataset) by (destruct HRd as (Hkd & _); rewrite Hkd; discriminate).
  pose proof (WT.rdflib_triples_stream_frames_is_model k d gs s HRd Hok HR Hc) as H. rewrite Hrun in H.
  destruct (rdf_triples_stream_frames d s) as [s' evs] eqn:Em. destruct H as (_ & _ & -> & Hends).
  destruct (rdf_triples_stream_clean o s s' d evs Hnew Hcfg Hfresh Hk H11 Hnrm Em (ends_val _ Hends)) as (cnt & Ha & Hcl).
  exists (emitted evs), cnt. split; [reflexivity|]. split; assumption.
Qed.

Theorem C19_source_rdflib_quads_driver_audit_clean :
  forall (o : soptions) (s : stream) (gs gs' : WT.RStream) (k k' : W.Dataset SN) (d : rdata) (ys : list (pbval str)),
    stream_new QuadStream Rdflib o = Ok s -> cfg_ok o (st_logical s) -> fl_rows (st_flow s) = [] ->
    WT.rRs gs s -> WT.RDs k d -> WT.stmts_ok (rd_stmts d) -> forallb spo_rdf11 (rd_stmts d) = true -> stmts_nrm (rd_stmts d) ->
    W.quads_stream_frames SN gs k = (Val tt, gs', k', ys) ->
    exists fs cnt, ys = map (frame_msg (rmsg gput)) fs /\ audit (flat_map f_rows fs) = Some cnt /\ clean cnt.
Proof.
  intros o s gs gs' k k' d ys Hnew Hcfg Hfresh HR HRd Hok H11 Hnrm Hrun.
  assert (Hc : st_class s = QuadStream).
  { unfold stream_new in Hnew. destruct (negb _); [discriminate|]. destruct (match so_flow o with Some f => Ok f | None => infer_flow QuadStream o end); [|discriminate].
    cbn [bind] in Hnew. destruct (negb _); [discriminate|]. injection Hnew as <-. reflexivity. }
  pose proof (WT.rdflib_quads_stream_frames_is_model k d gs s HRd Hok HR Hc) as H. rewrite Hrun in H.
  destruct (rdf_quads_stream_frames d s) as [s' evs] eqn:Em. destruct H as (_ & _ & -> & Hends).
  destruct (rdf_quads_stream_clean o s s' d evs Hnew Hcfg Hfresh H11 Hnrm Em (ends_val _ Hends)) as (cnt & Ha & Hcl).
  exists (emitted evs), cnt. split; [reflexivity|]. split; assumption.
Qed.

Print Assumptions C02_end_to_end_rdflib_graph.
Print Assumptions C02_end_to_end_rdflib_dataset_quads.
Print Assumptions C02_end_to_end_rdflib_dataset_graphs.
Print Assumptions C14_end_to_end_rdflib_graph.
Print Assumptions C03_source_rdflib_triples_driver_writes_valid_streams.
Print Assumptions C03_source_rdflib_quads_driver_writes_valid_streams.
Print Assumptions C03_source_rdflib_graphs_driver_writes_valid_streams.
Print Assumptions C06_source_rdflib_nothing_left_behind_dataset.
Print Assumptions C06_source_rdflib_nothing_left_behind_graph.
Print Assumptions C19_source_rdflib_triples_driver_audit_clean.
Print Assumptions C19_source_rdflib_quads_driver_audit_clean.
