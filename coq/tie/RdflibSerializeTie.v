(* RdflibSerializeTie.v -- source tie for the term encoder of the rdflib integration
   (pyjelly/integrations/rdflib/serialize.py: RDFLibTermEncoder.encode_spo / encode_graph, generated/RdflibSerializeGen.v, translated
   on every run, over rdflib's term objects as the translation unit SPECIFIES them -- URIRef / BNode / Literal: what str(x),
   x.language, x.datatype give, rdflib's `==`, DATASET_DEFAULT_GRAPH_ID; that specification is trusted like PyPrims.v and compared
   with the real rdflib by harness/primcheck.py).

   The premises sim_spo / sim_graph of EncodeStmtTie.v and StreamsTie.v are PROVED for these dispatchers (same layout gput of a
   term in a statement message as the generic integration: both go through the base-class helpers).  rdflib's Literal.__eq__
   ignores the case of the language tag, and the writer's repeated-term test is that `==`: the statement-level and Stream theorems
   therefore hold for the terms on which rdflib's equality is the model's exact one (rd_ok: language tags in lower case -- the
   value space of RDF 1.1 -- and no quoted triple / generic default-graph object, which are not rdflib terms). *)
From Coq Require Import Lia ZifyBool.
From PJ.Model Require Import Base Terms.
From PJ.Model Require Lookup Encoder.
From PJ.Model Require Streams.
From PJ.Tie Require Import PyPrims StrN LookupEncTie EncodeTie EncodeStmtTie FlowsTie StreamsTie DecoderBase StmtLayout.
From PJ.Gen Require Import LookupEncGen OptionsGen EncodeGen FlowsGen StreamsGen RdflibSerializeGen.
Local Open Scope Z_scope.

Notation robj := (obj SN).

(* a model term as the rdflib object the harness builds for it; what is not an rdflib term: some other object (None) *)
Definition robj_of_term (t : term) : robj :=
  match t with
  | TIri s => @O_URIRef SN s
  | TBnode l => @O_BNode SN l
  | TLit lex lang dt => @O_Literal SN lex lang dt
  | _ => @O_None SN
  end.

Definition lower_ok (lang : option str) : Prop := match lang with Some l => s_lower SN l = l | None => True end.

Definition rd_ok (t : term) : Prop :=
  match t with
  | TIri _ | TBnode _ | TOther => True
  | TLit _ lang _ => lower_ok lang
  | TTriple _ _ _ | TDefault => False
  end.

Definition rs_spo := RDFLibTermEncoder_encode_spo SN.
Definition rs_graph := RDFLibTermEncoder_encode_graph SN.

(* on those terms rdflib's == is the model's equality of terms *)
Theorem rdflib_term_eq_is_model (a b : term) : rd_ok a -> rd_ok b -> obj_eqb SN (robj_of_term a) (robj_of_term b) = term_eqb a b.
Proof.
  destruct a as [x|x|l1 g1 d1|s1 p1 o1| |]; destruct b as [y|y|l2 g2 d2|s2 p2 o2| |]; cbn [rd_ok robj_of_term obj_eqb term_eqb];
    try reflexivity; try contradiction.
  intros H1 H2. destruct g1 as [a1|], g2 as [a2|]; cbn [lower_ok opt_eqb] in *; try rewrite H1; try rewrite H2;
    destruct d1, d2; reflexivity.
Qed.

Theorem rdflib_sim_spo : sim_spo E.Rdflib robj_of_term rs_spo gput.
Proof.
  intros tm i stmt g m HR Hi Hb. unfold rs_spo, RDFLibTermEncoder_encode_spo.
  destruct tm as [iri|l|lex lang dt|s p o| |]; cbn [robj_of_term is_O_URIRef is_O_Literal is_O_BNode obj_str E.encode_spo_term]; cbv beta iota zeta.
  - (* URIRef *)
    assert (Hiri : forall f G, In f G -> G = grp i -> (pre i ++ "_iri")%string = f ->
              match (match TermEncoder_encode_iri SN iri (msg_sub f "RdfIri" stmt) g with
                     | (Val x, self, m13) => (Val x, self, msg_set G f m13 stmt)
                     | (Exn e, self, _) => (Exn e, self, stmt)
                     end), (do (t', rows0, p2, n) <- E.encode_iri iri m; Ok (t', rows0, WIri p2 n)) with
              | (Val rows, g', stmt'), Ok (m', mrows, w) => rows = map grmsg mrows /\ Rt g' m' /\ stmt' = gput i w stmt
              | (Exn _, _, _), Err _ => True
              | _, _ => False
              end).
    { intros f G Hin -> Hf0. rewrite (fresh_sub i stmt f "RdfIri" ltac:(lia) Hb Hin).
      pose proof (source_encode_iri_is_model iri g m HR) as H. change (carrier SN) with str in *.
      match goal with |- context [TermEncoder_encode_iri SN iri ?x g] => destruct (TermEncoder_encode_iri SN iri x g) as [[[rows|e] g'] msg] end;
        destruct (E.encode_iri iri m) as [[[[m' mrows] mp] mn]|e'] eqn:Ei; try contradiction; cbn [bind]; [|exact I].
      destruct H as (-> & -> & HR'). split; [apply entry_rows_grmsg; exact (encode_iri_entries _ _ _ _ _ _ Ei)|]. split; [exact HR'|].
      unfold gput. cbn [suffix wmsg]. rewrite Hf0. reflexivity. }
    slot_cases i Hi.
    + exact (Hiri "s_iri"%string (grp 0) ltac:(left; reflexivity) eq_refl eq_refl).
    + exact (Hiri "p_iri"%string (grp 1) ltac:(left; reflexivity) eq_refl eq_refl).
    + exact (Hiri "o_iri"%string (grp 2) ltac:(left; reflexivity) eq_refl eq_refl).
  - (* BNode *)
    unfold TermEncoder_set_bnode_field. slot_cases i Hi; (split; [reflexivity|]; split; [exact HR | reflexivity]).
  - (* Literal *)
    assert (Hlit : forall f G, In f G -> G = grp i -> (pre i ++ "_literal")%string = f ->
              match (match TermEncoder_encode_literal SN lex lang dt (msg_sub f "RdfLiteral" stmt) g with
                     | (Val x, self, m13) => (Val x, self, msg_set G f m13 stmt)
                     | (Exn e, self, _) => (Exn e, self, stmt)
                     end), E.encode_literal lex lang dt m with
              | (Val rows, g', stmt'), Ok (m', mrows, w) => rows = map grmsg mrows /\ Rt g' m' /\ stmt' = gput i w stmt
              | (Exn _, _, _), Err _ => True
              | _, _ => False
              end).
    { intros f G Hin -> Hf0. rewrite (fresh_sub i stmt f "RdfLiteral" ltac:(lia) Hb Hin).
      pose proof (source_encode_literal_is_model lex lang dt g m HR) as H. change (carrier SN) with str in *.
      match goal with |- context [TermEncoder_encode_literal SN lex lang dt ?x g] => destruct (TermEncoder_encode_literal SN lex lang dt x g) as [[[rows|e] g'] msg] end;
        destruct (E.encode_literal lex lang dt m) as [[[m' mrows] w]|e'] eqn:El; try contradiction; [|exact H].
      destruct w as [| |lex' k| |]; try contradiction.
      destruct H as (-> & -> & HR'). split; [apply entry_rows_grmsg; exact (encode_literal_entries _ _ _ _ _ _ _ El)|]. split; [exact HR'|].
      unfold gput. cbn [suffix wmsg]. rewrite Hf0. reflexivity. }
    slot_cases i Hi.
    + exact (Hlit "s_literal"%string (grp 0) ltac:(right; right; left; reflexivity) eq_refl eq_refl).
    + exact (Hlit "p_literal"%string (grp 1) ltac:(right; right; left; reflexivity) eq_refl eq_refl).
    + exact (Hlit "o_literal"%string (grp 2) ltac:(right; right; left; reflexivity) eq_refl eq_refl).
  - exact I.
  - exact I.
  - exact I.
Qed.

Lemma default_graph_lit : s_lit SN [117; 114; 110; 58; 120; 45; 114; 100; 102; 108; 105; 98; 58; 100; 101; 102; 97; 117; 108; 116] = rdflib_default_graph.
Proof. reflexivity. Qed.

Theorem rdflib_sim_graph : sim_graph E.Rdflib robj_of_term rs_graph gput.
Proof.
  intros tm stmt g m HR Hb. unfold rs_graph, RDFLibTermEncoder_encode_graph, E.encode_graph_term.
  destruct tm as [iri|l|lex lang dt|s p o| |]; cbn [robj_of_term any_eqb obj_eqb is_O_URIRef is_O_Literal is_O_BNode obj_str];
    cbv beta iota zeta; change (carrier SN) with str in *; try exact I.
  - (* URIRef: the default graph's id, or an IRI *)
    unfold any_eqb. cbn [obj_eqb]. change (s_eqb SN) with str_eqb. rewrite default_graph_lit.
    destruct (str_eqb iri rdflib_default_graph).
    + rewrite (fresh_sub 3 stmt "g_default_graph" "RdfDefaultGraph" ltac:(lia) Hb ltac:(right; right; left; reflexivity)).
      unfold TermEncoder_encode_default_graph. cbn. split; [reflexivity|]. split; [exact HR | reflexivity].
    + cbn [is_O_URIRef obj_str]. rewrite (fresh_sub 3 stmt "g_iri" "RdfIri" ltac:(lia) Hb ltac:(left; reflexivity)).
      pose proof (source_encode_iri_is_model iri g m HR) as H. change (carrier SN) with str in *.
      match goal with |- context [TermEncoder_encode_iri SN iri ?x g] => destruct (TermEncoder_encode_iri SN iri x g) as [[[rows|e] g'] msg] end;
        destruct (E.encode_iri iri m) as [[[[m' mrows] mp] mn]|e'] eqn:Ei; try contradiction; cbn [bind]; [|exact I].
      destruct H as (-> & -> & HR'). split; [apply entry_rows_grmsg; exact (encode_iri_entries _ _ _ _ _ _ Ei)|]. split; [exact HR' | reflexivity].
  - (* BNode *)
    unfold any_eqb. cbn [obj_eqb is_O_URIRef is_O_BNode obj_str]. split; [reflexivity|]. split; [exact HR | reflexivity].
Qed.

Print Assumptions rdflib_term_eq_is_model.
Print Assumptions rdflib_sim_spo.
Print Assumptions rdflib_sim_graph.

(* ------------------------------------------------------------------ hence, for the rdflib integration, with nothing assumed about its
   dispatchers: the statement level of encode.py and the Stream classes, at rdflib's term objects and rdflib's `==` *)
Definition rdflib_encode_triple_is_model :=
  source_encode_triple_is_model E.Rdflib robj_of_term (obj_eqb SN) rd_ok rdflib_term_eq_is_model rs_spo gput rdflib_sim_spo.
Definition rdflib_encode_quad_is_model :=
  source_encode_quad_is_model E.Rdflib robj_of_term (obj_eqb SN) rd_ok rdflib_term_eq_is_model rs_spo rs_graph gput rdflib_sim_spo rdflib_sim_graph.
Definition rdflib_stream_new_is_model := source_stream_new_is_model E.Rdflib robj_of_term rd_ok gput.
Definition rdflib_enroll_is_model := source_enroll_is_model E.Rdflib robj_of_term rd_ok gput.
Definition rdflib_namespace_declaration_is_model := source_namespace_declaration_is_model E.Rdflib robj_of_term rd_ok gput.
Definition rdflib_stream_triple_is_model :=
  source_stream_triple_is_model E.Rdflib robj_of_term (obj_eqb SN) rd_ok rdflib_term_eq_is_model rs_spo gput rdflib_sim_spo.
Definition rdflib_stream_quad_is_model :=
  source_stream_quad_is_model E.Rdflib robj_of_term (obj_eqb SN) rd_ok rdflib_term_eq_is_model rs_spo rs_graph gput rdflib_sim_spo rdflib_sim_graph.
Definition rdflib_stream_graph_is_model :=
  source_stream_graph_is_model E.Rdflib robj_of_term (obj_eqb SN) rd_ok rdflib_term_eq_is_model rs_spo rs_graph gput rdflib_sim_spo rdflib_sim_graph.

Print Assumptions rdflib_encode_triple_is_model.
Print Assumptions rdflib_encode_quad_is_model.
Print Assumptions rdflib_stream_triple_is_model.
Print Assumptions rdflib_stream_quad_is_model.
Print Assumptions rdflib_stream_graph_is_model.
