(* StreamsSource.v -- clauses of C20 and C13 that live in the Stream classes, stated and proved directly about the
   translated source (no model in the statement).
   C20: property C20 (a rejected statement never poisons the stream), the part that lives in the Stream
   classes, stated and proved directly about the translated source (no model in the statement), for ANY
   dispatchers: whatever makes triple() / quad() / namespace_declaration() raise -- an unsupported term, a
   table too small, a short tuple -- the stream is marked failed with its flow (the rows already accepted)
   untouched, and from then on every such call is refused with JellyAssertionError and changes nothing. *)
From Coq Require Import Lia ZifyBool.
From PJ.Tie Require Import PyPrims.
From PJ.Gen Require Import LookupEncGen OptionsGen EncodeGen FlowsGen StreamsGen.
Local Open Scope Z_scope.

Section C20.
Context (S : strops) {T : Type} (any_eqb : T -> T -> bool).
Context (enc_spo : T -> Z -> pbval (carrier S) -> TermEncoder S -> outcome (list (pbval (carrier S))) * TermEncoder S * pbval (carrier S)).
Context (enc_graph : T -> pbval (carrier S) -> TermEncoder S -> outcome (list (pbval (carrier S))) * TermEncoder S * pbval (carrier S)).

Notation triple := (Stream_triple S any_eqb enc_spo).
Notation quad := (Stream_quad S any_eqb enc_spo enc_graph).

Definition has_triple (g : @Stream S T) : Prop := Stream_cls_tag S g = K_TripleStream \/ Stream_cls_tag S g = K_GraphStream.
Definition has_quad (g : @Stream S T) : Prop := Stream_cls_tag S g = K_QuadStream.

(* cutting a frame never raises *)
Lemma bounds_never_raises (f : FrameFlow S) : exists fr f', FrameFlow_frame_from_bounds S f = (Val fr, f').
Proof.
  unfold FrameFlow_frame_from_bounds, FrameFlow_to_stream_frame.
  destruct (FrameFlow_cls_tag f); try (eexists; eexists; reflexivity);
    (destruct (seq_len (FrameFlow_data f) >=? FrameFlow_frame_size f); [|eexists; eexists; reflexivity];
     destruct (negb (negb (seq_len (FrameFlow_data f) =? 0))); eexists; eexists; reflexivity).
Qed.

Definition untouched (g g' : @Stream S T) : Prop :=
  Stream_flow S g' = Stream_flow S g /\ Stream_enrolled S g' = Stream_enrolled S g /\ Stream_options S g' = Stream_options S g /\
  Stream_cls_tag S g' = Stream_cls_tag S g.

(* a refusal marks the stream and leaves the flow (the rows already accepted) alone; an accepted statement does not mark it *)
Theorem C20_source_refusal_marks_triple (terms : list T) (g : @Stream S T) : has_triple g -> Stream_failed S g = false ->
  match triple terms g with
  | (Exn _, g', _) => Stream_failed S g' = true /\ untouched g g'
  | (Val _, g', _) => Stream_failed S g' = false
  end.
Proof.
  intros Hc Ef. unfold Stream_triple, Stream_ensure_usable. rewrite Ef.
  destruct Hc as [Hc | Hc]; rewrite Hc;
    (destruct (encode_triple S any_eqb enc_spo terms (Stream_encoder S g) (Stream_repeated_terms S g)) as [[[[rows|e] t'] ge'] rl'];
     [ match goal with |- context [FrameFlow_frame_from_bounds S ?f] => destruct (bounds_never_raises f) as (fr & f' & ->) end; exact Ef
     | split; [reflexivity|]; repeat split ]).
Qed.

Theorem C20_source_refusal_marks_quad (terms : list T) (g : @Stream S T) : has_quad g -> Stream_failed S g = false ->
  match quad terms g with
  | (Exn _, g', _) => Stream_failed S g' = true /\ untouched g g'
  | (Val _, g', _) => Stream_failed S g' = false
  end.
Proof.
  intros Hc Ef. unfold Stream_quad, Stream_ensure_usable. rewrite Ef, Hc.
  destruct (encode_quad S any_eqb enc_spo enc_graph terms (Stream_encoder S g) (Stream_repeated_terms S g)) as [[[[rows|e] t'] ge'] rl'].
  - match goal with |- context [FrameFlow_frame_from_bounds S ?f] => destruct (bounds_never_raises f) as (fr & f' & ->) end. exact Ef.
  - split; [reflexivity|]. repeat split.
Qed.

Theorem C20_source_refusal_marks_namespace (name iri : carrier S) (g : @Stream S T) : Stream_failed S g = false ->
  match Stream_namespace_declaration S name iri g with
  | (Exn _, g') => Stream_failed S g' = true /\ untouched g g'
  | (Val _, g') => Stream_failed S g' = false
  end.
Proof.
  intros Ef. unfold Stream_namespace_declaration, Stream_ensure_usable. rewrite Ef.
  destruct (encode_namespace_declaration S name iri (Stream_encoder S g)) as [[rows|e] ge'].
  - exact Ef.
  - split; [reflexivity|]. repeat split.
Qed.

(* a marked stream refuses every further statement and changes nothing *)
Theorem C20_source_failed_stream_is_closed (g : @Stream S T) : Stream_failed S g = true ->
  (forall terms, has_triple g -> triple terms g = (Exn JellyAssertionError, g, terms)) /\
  (forall terms, has_quad g -> quad terms g = (Exn JellyAssertionError, g, terms)) /\
  (forall name iri, Stream_namespace_declaration S name iri g = (Exn JellyAssertionError, g)).
Proof.
  intros Ef. split; [|split].
  - intros terms [Hc | Hc]; unfold Stream_triple, Stream_ensure_usable; rewrite Hc, Ef; reflexivity.
  - intros terms Hc. unfold Stream_quad, Stream_ensure_usable. rewrite Hc, Ef. reflexivity.
  - intros name iri. unfold Stream_namespace_declaration, Stream_ensure_usable. rewrite Ef. reflexivity.
Qed.

(* C13: the header a stream writes says what the stream was built with.  The first enroll() appends exactly one row
   -- options = RdfStreamOptions with the stream name, flags, table sizes and version of the stream's options object and
   the physical / logical type of its StreamTypes -- and later calls append nothing. *)
Theorem C13_source_header_says_the_options (g : @Stream S T) :
  let o := Stream_options S g in let p := SerializerOptions_params o in let lp := SerializerOptions_lookup_preset o in
  let st := Stream_stream_types S g in
  let row := PMsg "RdfStreamRow" [("options"%string, PMsg "RdfStreamOptions" [
      ("stream_name"%string, PStr (StreamParameters_stream_name p)); ("physical_type"%string, PInt (StreamTypes_physical_type st));
      ("generalized_statements"%string, PBool (StreamParameters_generalized_statements p)); ("rdf_star"%string, PBool (StreamParameters_rdf_star p));
      ("max_name_table_size"%string, PInt (LookupPreset_max_names lp)); ("max_prefix_table_size"%string, PInt (LookupPreset_max_prefixes lp));
      ("max_datatype_table_size"%string, PInt (LookupPreset_max_datatypes lp)); ("logical_type"%string, PInt (StreamTypes_logical_type st));
      ("version"%string, PInt (StreamParameters_version p))])] in
  exists g', Stream_enroll S g = (Val tt, g') /\ Stream_enrolled S g' = true /\
             FrameFlow_data (Stream_flow S g') = FrameFlow_data (Stream_flow S g) ++ (if Stream_enrolled S g then [] else [row]) /\
             Stream_options S g' = Stream_options S g.
Proof.
  cbv zeta. unfold Stream_enroll, Stream_stream_options, encode_options.
  destruct (Stream_enrolled S g) eqn:Een; cbn [negb].
  - exists g. split; [reflexivity|]. split; [exact Een|]. split; [rewrite app_nil_r; reflexivity | reflexivity].
  - eexists. split; [reflexivity|]. split; [reflexivity|]. split; reflexivity.
Qed.

End C20.

Print Assumptions C20_source_refusal_marks_triple.
Print Assumptions C20_source_refusal_marks_quad.
Print Assumptions C20_source_refusal_marks_namespace.
Print Assumptions C20_source_failed_stream_is_closed.
Print Assumptions C13_source_header_says_the_options.
