(* TxRunRdflib.v -- the translation cross-check for the rdflib integration's term encoder (harness/txcheck.py): the same
   configurations and statements of rdflib terms go through the real code (RDFLibTermEncoder under TripleStream / QuadStream) and
   through the generated Gallina, rdflib's objects being what generated/RdflibSerializeGen.v specifies; and the specification
   itself (==, str, isinstance) is compared with the real rdflib objects. *)
From PJ.Model Require Import Base.
From PJ.Tie Require Import PyPrims StrN TxRun.
From PJ.Gen Require Import LookupEncGen OptionsGen EncodeGen FlowsGen StreamsGen RdflibSerializeGen.
Local Open Scope Z_scope.

Notation robj := (obj SN).
Notation rs_spo := (RDFLibTermEncoder_encode_spo SN).
Notation rs_graph := (RDFLibTermEncoder_encode_graph SN).
Notation RStream := (@Stream SN robj).

Fixpoint txr_statements (quads : bool) (stmts : list (list robj)) (s : RStream) : list (pbval str) * option exn * RStream :=
  match stmts with
  | [] => ([], None, s)
  | st :: rest =>
    let '(r, s', _) := if quads then Stream_quad SN (obj_eqb SN) rs_spo rs_graph st s else Stream_triple SN (obj_eqb SN) rs_spo st s in
    match r with
    | Exn e => ([], Some e, s')
    | Val fr =>
      let '(frs, e, s'') := txr_statements quads rest s' in
      ((match fr with Some f => [f] | None => [] end) ++ frs, e, s'')
    end
  end.

Definition txr_writer (oneofs : list (string * string)) (quads : bool) (maxn maxp maxd : Z) (gen star : bool) (version : Z) (delimited nd : bool) (name : str)
                      (frame_size logical : Z) (ns : list (str * str)) (stmts : list (list robj)) : list (pbval str) * option exn :=
  match LookupPreset___init__ maxn maxp maxd with
  | Exn e => ([], Some e)
  | Val preset =>
  match StreamParameters___init__ SN gen star version delimited nd name with
  | Exn e => ([], Some e)
  | Val params =>
  match SerializerOptions___init__ SN None frame_size logical params preset with
  | Exn e => ([], Some e)
  | Val opts =>
  match TermEncoder___init__ SN (Some preset) with
  | Exn e => ([], Some e)
  | Val enc =>
  match (if quads then QuadStream___init__ SN enc (Some opts) else TripleStream___init__ SN enc (Some opts)) with
  | Exn e => ([], Some e)
  | Val s0 =>
    let '(r, s1) := Stream_enroll SN s0 in
    match r with
    | Exn e => ([], Some e)
    | Val _ =>
      let '(rn, s2) := fold_left (fun acc (pn : str * str) => let '(r0, s) := acc in
                                  match r0 with Exn e => (Exn e, s) | Val _ => Stream_namespace_declaration SN (fst pn) (snd pn) s end) ns (Val tt, s1) in
      match rn with
      | Exn e => ([], Some e)
      | Val _ =>
        let '(frs, e, s3) := txr_statements quads stmts s2 in
        match e with
        | Some e' => (map (pb_canon oneofs) frs, Some e')
        | None =>
          let '(rl, _) := FrameFlow_to_stream_frame SN (Stream_flow SN s3) in
          match rl with
          | Exn e' => (map (pb_canon oneofs) frs, Some e')
          | Val last => (map (pb_canon oneofs) (frs ++ match last with Some f => [f] | None => [] end), None)
          end
        end
      end
    end
  end end end end end.

(* the specification of rdflib's objects, observed: (isinstance URIRef, BNode, Literal), str(x), x == y *)
Definition txr_obs (a b : robj) : (bool * bool * bool) * option str * bool :=
  ((is_O_URIRef SN a, is_O_BNode SN a, is_O_Literal SN a), obj_str SN a, obj_eqb SN a b).

(* ------------------------------------------------------------------ the rdflib drivers over the stand-ins of rdflib's containers
   (translate/stubs/rdflib_containers.py): a Graph / Dataset is what the real one handed out when the harness iterated it *)
Definition txr_graph (identifier : robj) (triples : list (list robj)) (ns : list (str * robj)) : Graph SN :=
  mk_Graph identifier triples ns.

Definition txr_stream (phys : Z) (maxn maxp maxd : Z) (gen star : bool) (version : Z) (delimited nd : bool) (name : str) (frame_size logical : Z) : outcome RStream :=
  match LookupPreset___init__ maxn maxp maxd with
  | Exn e => Exn e
  | Val preset =>
  match StreamParameters___init__ SN gen star version delimited nd name with
  | Exn e => Exn e
  | Val params =>
  match SerializerOptions___init__ SN None frame_size logical params preset with
  | Exn e => Exn e
  | Val opts =>
  match TermEncoder___init__ SN (Some preset) with
  | Exn e => Exn e
  | Val enc =>
    if phys =? 1 then TripleStream___init__ SN enc (Some opts) else if phys =? 2 then QuadStream___init__ SN enc (Some opts) else GraphStream___init__ SN enc (Some opts)
  end end end end.

(* which driver on which kind of data: 1 triples / Graph, 2 triples / Dataset, 3 quads / Dataset, 4 graphs / Dataset, 5 stream_frames / Dataset,
   6 triples / generator, 7 quads / generator *)
Definition txr_driver (oneofs : list (string * string)) (which phys : Z) (maxn maxp maxd : Z) (gen star : bool) (version : Z) (delimited nd : bool) (name : str)
                      (frame_size logical : Z) (g : Graph SN) (graphs : list (Graph SN)) (quads : list (list robj)) (ns : list (str * robj)) (stmts : list (list robj))
  : list (pbval str) * option exn :=
  match txr_stream phys maxn maxp maxd gen star version delimited nd name frame_size logical with
  | Exn e => ([], Some e)
  | Val s0 =>
    let ds := mk_Dataset graphs quads ns in
    let '(r, ys) :=
      if which =? 1 then let '(r, _, _, ys) := triples_stream_frames SN s0 g in (r, ys)
      else if which =? 2 then let '(r, _, _, ys) := triples_stream_frames_ds SN s0 ds in (r, ys)
      else if which =? 3 then let '(r, _, _, ys) := quads_stream_frames SN s0 ds in (r, ys)
      else if which =? 4 then let '(r, _, _, ys) := graphs_stream_frames SN s0 ds in (r, ys)
      else if which =? 5 then let '(r, _, _, ys) := stream_frames SN s0 ds in (r, ys)
      else if which =? 6 then let '(r, _, _, ys) := triples_stream_frames_gen SN s0 stmts in (r, ys)
      else let '(r, _, _, ys) := quads_stream_frames_gen SN s0 stmts in (r, ys) in
    (map (pb_canon oneofs) ys, match r with Exn e => Some e | Val _ => None end)
  end.
