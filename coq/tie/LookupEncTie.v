(* LookupEncTie.v -- the source tie for the writer's lookup tables.

   generated/LookupEncGen.v is written from pyjelly/serialize/lookup.py by
   /verif/translate/py2v.py on every run.  This file proves that the translated source and the
   hand-written model (model/Lookup.v) -- the one every property theorem is about -- are in lock step:
   related states stay related under every method, with equal results, for every history of calls.
   A change to either source file that changes what a method does breaks one of these proofs. *)
From Coq Require Import Lia ZifyBool.
From PJ.Model Require Import Base.
From PJ.Model Require Lookup.
From PJ.Tie Require Import PyPrims.
From PJ.Gen Require Import LookupEncGen.
Module M := PJ.Model.Lookup.
Local Open Scope Z_scope.

Section Tie.
Context (S : strops).
Notation K := (carrier S).
Notation eqb := (s_eqb S).
Notation is_empty := (s_is_empty S).
Notation empty_str := (s_empty S).

(* ------------------------------------------------------------------ writer side *)
Definition zd (d : list (K * N)) : @od K := map (fun p => (fst p, Z.of_N (snd p))) d.

Lemma zd_app a b : zd (a ++ b) = zd a ++ zd b.
Proof. unfold zd. apply map_app. Qed.

Lemma zd_length d : length (zd d) = length d.
Proof. unfold zd. apply map_length. Qed.

Lemma find_zd k d : od_find eqb k (zd d) = option_map Z.of_N (M.find eqb k d).
Proof.
  unfold zd. induction d as [|[k' i] d IH]; cbn; [reflexivity|].
  destruct (eqb k k'); [reflexivity | exact IH].
Qed.

Lemma remove_zd k d : od_remove eqb k (zd d) = zd (M.remove eqb k d).
Proof.
  unfold zd. induction d as [|[k' i] d IH]; cbn; [reflexivity|].
  destruct (eqb k k'); [reflexivity | cbn; now rewrite IH].
Qed.

Definition Rl (g : Lookup S) (m : @M.lookup K) : Prop :=
  Lookup_data g = zd (M.l_data m) /\ Lookup_max_size g = Z.of_N (M.l_max m) /\ Lookup__evicting g = M.l_evicting m.

Lemma tie_init_lookup size :
  exists g, Lookup___init__ S (Z.of_N size) = Val g /\
            Rl g {| M.l_data := []; M.l_max := size; M.l_evicting := false |}.
Proof. eexists; split; [reflexivity|]. repeat split. Qed.

(* Lookup.make_last_to_evict = OrderedDict.move_to_end; a miss is a KeyError and changes nothing *)
Lemma tie_make_last_to_evict key g m : Rl g m ->
  match Lookup_make_last_to_evict S key g, M.move_to_end eqb key m with
  | (Val _, g'), Some m' => Rl g' m'
  | (Exn KeyError, g'), None => g' = g
  | _, _ => False
  end.
Proof.
  intros (Hd & Hm & He).
  unfold Lookup_make_last_to_evict, M.move_to_end, od_move_to_end.
  rewrite Hd, find_zd. destruct (M.find eqb key (M.l_data m)) as [i|]; cbn.
  - repeat split; cbn; try assumption.
    rewrite remove_zd, zd_app. reflexivity.
  - reflexivity.
Qed.

(* Lookup.insert, for a key that is not in the table (the only way pyjelly calls it) *)
Lemma tie_insert key g m : Rl g m -> M.find eqb key (M.l_data m) = None ->
  match Lookup_insert S key g, M.insert key m with
  | (Val i, g'), Some (m', j) => i = Z.of_N j /\ Rl g' m'
  | (Exn _, _), None => True
  | _, _ => False
  end.
Proof.
  intros (Hd & Hm & He) Hk.
  unfold Lookup_insert, M.insert.
  rewrite Hm, He.
  assert (Hc : od_contains eqb key (Lookup_data g) = false).
  { unfold od_contains. rewrite Hd, find_zd, Hk. reflexivity. }
  destruct (M.l_max m =? 0)%N eqn:E0.
  - replace (Z.of_N (M.l_max m) =? 0) with true by lia. cbn. exact I.
  - replace (Z.of_N (M.l_max m) =? 0) with false by lia. cbn [negb].
    rewrite Hc. cbn [negb].
    destruct (M.l_evicting m).
    + rewrite Hd. destruct (M.l_data m) as [|[k0 i0] d']; [cbn; exact I|].
      assert (Hc' : od_contains eqb key (zd d') = false).
      { unfold od_contains. rewrite find_zd. cbn in Hk. destruct (eqb key k0); [discriminate|]. rewrite Hk. reflexivity. }
      change (zd ((k0, i0) :: d')) with ((k0, Z.of_N i0) :: zd d').
      cbn [od_popitem_first set_Lookup_data Lookup_data Lookup_max_size Lookup__evicting].
      unfold od_set. rewrite Hc'.
      split; [reflexivity|]. repeat split; cbn [Lookup_data Lookup_max_size Lookup__evicting M.l_data M.l_max M.l_evicting]; try assumption.
      rewrite zd_app. reflexivity.
    + cbn. unfold od_len. rewrite Hd, zd_length.
      split; [lia|]. repeat split; cbn.
      * unfold od_set. rewrite Hd in Hc. rewrite Hc, zd_app. cbn. repeat f_equal. lia.
      * exact Hm.
      * rewrite Hm. lia.
Qed.

Definition Re (g : LookupEncoder S) (m : @M.lenc K) : Prop :=
  Rl (LookupEncoder_lookup g) (M.e_lookup m) /\
  LookupEncoder_last_assigned_index g = Z.of_N (M.e_last_assigned m) /\
  LookupEncoder_last_reused_index g = Z.of_N (M.e_last_reused m).

Lemma tie_init_encoder size :
  exists g, LookupEncoder___init__ S (Z.of_N size) = Val g /\ Re g (M.lenc_init size).
Proof. eexists; split; [reflexivity|]. repeat split. Qed.

Definition zo (r : option N) : option Z := option_map Z.of_N r.

Lemma find_move_to_end_none key m : M.move_to_end eqb key m = None -> M.find eqb key (M.l_data m) = None.
Proof. unfold M.move_to_end. destruct (M.find eqb key (M.l_data m)); [discriminate | reflexivity]. Qed.

Lemma tie_encode_entry_index key g m : Re g m ->
  match LookupEncoder_encode_entry_index S key g, M.encode_entry_index eqb key m with
  | (Val r, g'), Some (m', r') => r = zo r' /\ Re g' m'
  | (Exn _, _), None => True
  | _, _ => False
  end.
Proof.
  intros (Hl & Ha & Hr).
  unfold LookupEncoder_encode_entry_index, M.encode_entry_index.
  pose proof (tie_make_last_to_evict key _ _ Hl) as Hmv.
  destruct (Lookup_make_last_to_evict S key (LookupEncoder_lookup g)) as [r o] eqn:Eg.
  destruct (M.move_to_end eqb key (M.e_lookup m)) as [l'|] eqn:Em.
  - destruct r as [u|e]; [|destruct e; contradiction].
    cbn. split; [reflexivity|]. repeat split; cbn; try assumption; apply Hmv.
  - destruct r as [u|e]; [contradiction|].
    destruct e; try contradiction. subst o. cbn [is_exn].
    assert (Hself : set_LookupEncoder_lookup S (LookupEncoder_lookup g) g = g) by (destruct g; reflexivity).
    rewrite Hself.
    pose proof (tie_insert key _ _ Hl (find_move_to_end_none _ _ Em)) as Hin.
    destruct (Lookup_insert S key (LookupEncoder_lookup g)) as [ri oi] eqn:Egi.
    destruct (M.insert key (M.e_lookup m)) as [[m' j]|] eqn:Emi.
    + destruct ri as [i|e]; [|contradiction]. destruct Hin as [-> HR].
      cbn. rewrite Ha.
      destruct (j =? M.e_last_assigned m + 1)%N eqn:Ej.
      * replace (Z.of_N j =? Z.of_N (M.e_last_assigned m) + 1) with true by lia.
        split; [reflexivity|]. repeat split; cbn; try assumption; apply HR.
      * replace (Z.of_N j =? Z.of_N (M.e_last_assigned m) + 1) with false by lia.
        split; [reflexivity|]. repeat split; cbn; try assumption; apply HR.
    + destruct ri as [i|e]; [contradiction|]. exact I.
Qed.

Lemma tie_encode_term_index key g m : Re g m ->
  match LookupEncoder_encode_term_index S key g, M.encode_term_index eqb key m with
  | (Val r, g'), Some (m', r') => r = Z.of_N r' /\ Re g' m'
  | (Exn _, _), None => True
  | _, _ => False
  end.
Proof.
  intros (Hl & Ha & Hr).
  unfold LookupEncoder_encode_term_index, M.encode_term_index.
  pose proof (tie_make_last_to_evict key _ _ Hl) as Hmv.
  destruct (Lookup_make_last_to_evict S key (LookupEncoder_lookup g)) as [r o] eqn:Eg.
  destruct (M.move_to_end eqb key (M.e_lookup m)) as [l'|] eqn:Em.
  - destruct r as [u|e]; [|destruct e; contradiction].
    cbn [LookupEncoder_lookup set_LookupEncoder_lookup].
    unfold od_get. destruct Hmv as (Hd' & Hm' & He'). rewrite Hd', find_zd.
    destruct (M.find eqb key (M.l_data l')) as [i|]; cbn; [|exact I].
    split; [reflexivity|]. repeat split; cbn; assumption.
  - destruct r as [u|e]; [contradiction|]. exact I.
Qed.

Lemma tie_encode_name_term_index key g m : Re g m ->
  match LookupEncoder_encode_name_term_index S key g, M.encode_name_term_index eqb key m with
  | (Val r, g'), Some (m', r') => r = Z.of_N r' /\ Re g' m'
  | (Exn _, _), None => True
  | _, _ => False
  end.
Proof.
  intros HR. pose proof HR as (Hl & Ha & Hr).
  unfold LookupEncoder_encode_name_term_index, M.encode_name_term_index.
  pose proof (tie_encode_term_index key _ _ HR) as Ht.
  destruct (LookupEncoder_encode_term_index S key g) as [r g'] eqn:Eg.
  destruct (M.encode_term_index eqb key m) as [[m' c]|] eqn:Em.
  - destruct r as [v|e]; [|contradiction]. destruct Ht as [-> HR'].
    rewrite Hr.
    destruct (c =? M.e_last_reused m + 1)%N eqn:Ec.
    + replace (Z.of_N c =? Z.of_N (M.e_last_reused m) + 1) with true by lia. split; [reflexivity | exact HR'].
    + replace (Z.of_N c =? Z.of_N (M.e_last_reused m) + 1) with false by lia. split; [reflexivity | exact HR'].
  - destruct r as [v|e]; [contradiction | exact I].
Qed.

Lemma tie_encode_datatype_term_index key g m : Re g m ->
  match LookupEncoder_encode_datatype_term_index S key g, M.encode_datatype_term_index eqb key m with
  | (Val r, g'), Some (m', r') => r = Z.of_N r' /\ Re g' m'
  | (Exn _, _), None => True
  | _, _ => False
  end.
Proof.
  intros HR. pose proof HR as (Hl & Ha & Hr). pose proof Hl as (Hd & Hm & He).
  unfold LookupEncoder_encode_datatype_term_index, M.encode_datatype_term_index.
  rewrite Hm.
  destruct (M.l_max (M.e_lookup m) =? 0)%N eqn:E0.
  - replace (Z.of_N (M.l_max (M.e_lookup m)) =? 0) with true by lia. split; [reflexivity | exact HR].
  - replace (Z.of_N (M.l_max (M.e_lookup m)) =? 0) with false by lia.
    pose proof (tie_encode_term_index key _ _ HR) as Ht.
    destruct (LookupEncoder_encode_term_index S key g) as [r g'] eqn:Eg.
    destruct (M.encode_term_index eqb key m) as [[m' c]|] eqn:Em.
    + destruct r as [v|e]; [|contradiction]. exact Ht.
    + destruct r as [v|e]; [contradiction | exact I].
Qed.

Lemma tie_encode_prefix_term_index key g m : Re g m ->
  match LookupEncoder_encode_prefix_term_index S key g,
        M.encode_prefix_term_index eqb (is_empty key) key m with
  | (Val r, g'), Some (m', r') => r = Z.of_N r' /\ Re g' m'
  | (Exn _, _), None => True
  | _, _ => False
  end.
Proof.
  intros HR. pose proof HR as (Hl & Ha & Hr). pose proof Hl as (Hd & Hm & He).
  unfold LookupEncoder_encode_prefix_term_index, M.encode_prefix_term_index.
  rewrite Hm, Hr.
  destruct (M.l_max (M.e_lookup m) =? 0)%N eqn:E0.
  - replace (Z.of_N (M.l_max (M.e_lookup m)) =? 0) with true by lia. split; [reflexivity | exact HR].
  - replace (Z.of_N (M.l_max (M.e_lookup m)) =? 0) with false by lia.
    rewrite Bool.negb_involutive.
    destruct (M.e_last_reused m =? 0)%N eqn:Ep.
    + replace (Z.of_N (M.e_last_reused m) =? 0) with true by lia.
      destruct (is_empty key); cbn [andb].
      * split; [reflexivity | exact HR].
      * pose proof (tie_encode_term_index key _ _ HR) as Ht.
        destruct (LookupEncoder_encode_term_index S key g) as [r g'] eqn:Eg.
        destruct (M.encode_term_index eqb key m) as [[m' c]|] eqn:Em.
        -- destruct r as [v|e]; [|contradiction]. exact Ht.
        -- destruct r as [v|e]; [contradiction | exact I].
    + replace (Z.of_N (M.e_last_reused m) =? 0) with false by lia.
      rewrite Bool.andb_false_r.
      pose proof (tie_encode_term_index key _ _ HR) as Ht.
      destruct (LookupEncoder_encode_term_index S key g) as [r g'] eqn:Eg.
      destruct (M.encode_term_index eqb key m) as [[m' c]|] eqn:Em.
      * destruct r as [v|e]; [|contradiction]. destruct Ht as [-> HR'].
        destruct (c =? M.e_last_reused m)%N eqn:Ec.
        -- replace (Z.of_N c =? Z.of_N (M.e_last_reused m)) with true by lia. split; [reflexivity | exact HR'].
        -- replace (Z.of_N c =? Z.of_N (M.e_last_reused m)) with false by lia. split; [reflexivity | exact HR'].
      * destruct r as [v|e]; [contradiction | exact I].
Qed.

(* ------------------------------------------------------------------ whole histories *)
Inductive wop := WEntry (k : K) | WName (k : K) | WPrefix (k : K) | WDatatype (k : K).

Definition lift {A S} (x : outcome A * S) : outcome (option A) * S :=
  (match fst x with Val v => Val (Some v) | Exn e => Exn e end, snd x).

Definition gstep (o : wop) (g : LookupEncoder S) : outcome (option Z) * LookupEncoder S :=
  match o with
  | WEntry k => LookupEncoder_encode_entry_index S k g
  | WName k => lift (LookupEncoder_encode_name_term_index S k g)
  | WPrefix k => lift (LookupEncoder_encode_prefix_term_index S k g)
  | WDatatype k => lift (LookupEncoder_encode_datatype_term_index S k g)
  end.

Definition mlift {A S} (x : option (S * A)) : option (S * option A) :=
  match x with Some (s, a) => Some (s, Some a) | None => None end.

Definition mstep (o : wop) (m : @M.lenc K) : option (M.lenc * option N) :=
  match o with
  | WEntry k => M.encode_entry_index eqb k m
  | WName k => mlift (M.encode_name_term_index eqb k m)
  | WPrefix k => mlift (M.encode_prefix_term_index eqb (is_empty k) k m)
  | WDatatype k => mlift (M.encode_datatype_term_index eqb k m)
  end.

(* results up to the first exception, and whether one was raised *)
Fixpoint grun (ops : list wop) (g : LookupEncoder S) : list (option Z) * bool :=
  match ops with
  | [] => ([], false)
  | o :: os =>
    match gstep o g with
    | (Val r, g') => let '(rs, b) := grun os g' in (r :: rs, b)
    | (Exn _, _) => ([], true)
    end
  end.

Fixpoint mrun (ops : list wop) (m : @M.lenc K) : list (option N) * bool :=
  match ops with
  | [] => ([], false)
  | o :: os =>
    match mstep o m with
    | Some (m', r) => let '(rs, b) := mrun os m' in (r :: rs, b)
    | None => ([], true)
    end
  end.

Lemma tie_gstep o g m : Re g m ->
  match gstep o g, mstep o m with
  | (Val r, g'), Some (m', r') => r = zo r' /\ Re g' m'
  | (Exn _, _), None => True
  | _, _ => False
  end.
Proof.
  intros HR. destruct o as [k|k|k|k]; cbn [gstep mstep].
  - exact (tie_encode_entry_index k g m HR).
  - pose proof (tie_encode_name_term_index k g m HR) as H. unfold lift, mlift.
    destruct (LookupEncoder_encode_name_term_index S k g) as [[v|e] g'];
      destruct (M.encode_name_term_index eqb k m) as [[m' c]|]; cbn; try exact H.
    destruct H as [-> H]. split; [reflexivity | exact H].
  - pose proof (tie_encode_prefix_term_index k g m HR) as H. unfold lift, mlift.
    destruct (LookupEncoder_encode_prefix_term_index S k g) as [[v|e] g'];
      destruct (M.encode_prefix_term_index eqb (is_empty k) k m) as [[m' c]|]; cbn; try exact H.
    destruct H as [-> H]. split; [reflexivity | exact H].
  - pose proof (tie_encode_datatype_term_index k g m HR) as H. unfold lift, mlift.
    destruct (LookupEncoder_encode_datatype_term_index S k g) as [[v|e] g'];
      destruct (M.encode_datatype_term_index eqb k m) as [[m' c]|]; cbn; try exact H.
    destruct H as [-> H]. split; [reflexivity | exact H].
Qed.

Theorem writer_lock_step ops : forall g m, Re g m ->
  grun ops g = (map zo (fst (mrun ops m)), snd (mrun ops m)).
Proof.
  induction ops as [|o os IH]; intros g m HR; cbn [grun mrun]; [reflexivity|].
  pose proof (tie_gstep o g m HR) as H.
  destruct (gstep o g) as [[r|e] g']; destruct (mstep o m) as [[m' r']|]; try contradiction.
  - destruct H as [-> HR']. rewrite (IH g' m' HR').
    destruct (mrun os m') as [rs b]. reflexivity.
  - reflexivity.
Qed.

(* from construction on: every history of calls on a fresh LookupEncoder / LookupDecoder of the source
   returns what the model returns, and raises exactly when the model has no result *)
Theorem source_writer_is_model size ops :
  exists g0, LookupEncoder___init__ S (Z.of_N size) = Val g0 /\
             grun ops g0 = (map zo (fst (mrun ops (M.lenc_init size))), snd (mrun ops (M.lenc_init size))).
Proof.
  destruct (tie_init_encoder size) as (g0 & Hi & HR).
  exists g0. split; [exact Hi | exact (writer_lock_step ops g0 _ HR)].
Qed.

End Tie.

Print Assumptions source_writer_is_model.
