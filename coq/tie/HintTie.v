(* HintTie.v -- source tie for delimited_jelly_hint (pyjelly/parse/ioutils.py): the translated source
   (generated/HintGen.v, written by translate/py2v.py on every run) returns, on every byte string,
   what model/Decoder.v's `hint` returns, and never raises (every subscript is guarded by the length
   test through Python's short-circuit `and`/`or`, which the translation keeps). *)
From Coq Require Import Lia ZifyBool.
From PJ.Model Require Import Base Decoder.
From PJ.Tie Require Import PyPrims.
From PJ.Gen Require Import HintGen.
Local Open Scope Z_scope.

Definition zb (h : list N) : list Z := map Z.of_N h.

Theorem source_hint_is_model (h : list N) : delimited_jelly_hint (zb h) = Val (hint h).
Proof.
  unfold delimited_jelly_hint, hint, zb.
  destruct h as [|b0 [|b1 [|b2 t]]]; try reflexivity.
  cbn [map]. unfold seq_len. cbn [length].
  replace (Z.of_nat (S (S (S (length (map Z.of_N t))))) >=? 3) with true by lia.
  unfold seq_get, py_index, seq_len. cbn [length].
  replace ((0 <=? 0) && (0 <? Z.of_nat (S (S (S (length (map Z.of_N t))))))) with true by lia.
  replace ((0 <=? 1) && (1 <? Z.of_nat (S (S (S (length (map Z.of_N t))))))) with true by lia.
  replace ((0 <=? 2) && (2 <? Z.of_nat (S (S (S (length (map Z.of_N t))))))) with true by lia.
  cbn [Z.to_nat]. change (Pos.to_nat 1) with 1%nat. change (Pos.to_nat 2) with 2%nat. cbn [nth_error].
  destruct (b0 =? 10)%N eqn:E0.
  - replace (Z.of_N b0 =? 10) with true by lia. cbn [negb orb].
    destruct (b1 =? 10)%N eqn:E1.
    + replace (Z.of_N b1 =? 10) with true by lia. cbn [andb].
      destruct (b2 =? 10)%N eqn:E2.
      * replace (Z.of_N b2 =? 10) with true by lia. reflexivity.
      * replace (Z.of_N b2 =? 10) with false by lia. reflexivity.
    + replace (Z.of_N b1 =? 10) with false by lia. reflexivity.
  - replace (Z.of_N b0 =? 10) with false by lia. reflexivity.
Qed.

Print Assumptions source_hint_is_model.
