(* DecodeTie.v -- source tie for pyjelly/parse/decode.py, translated on every run (generated/DecodeGen.v), against
   model/Decoder.v.  First part: options_from_frame -- what a reader is told about a stream from its first row. *)
From Coq Require Import Lia ZifyBool.
From PJ.Model Require Import Base Terms Streams Decoder.
From PJ.Tie Require Import PyPrims StrN OptionsTie EncodeTie.
From PJ.Gen Require Import LookupDecGen OptionsGen DecodeGen.
Local Open Scope Z_scope.

(* what reading the RdfStreamOptions message m gives: the fields of o *)
Definition reads_options (m : pbval str) (o : woptions) : Prop :=
  msg_int "physical_type" m = Z.of_N (o_phys o) /\ msg_int "logical_type" m = Z.of_N (o_logical o) /\
  msg_int "max_name_table_size" m = Z.of_N (o_maxn o) /\ msg_int "max_prefix_table_size" m = Z.of_N (o_maxp o) /\
  msg_int "max_datatype_table_size" m = Z.of_N (o_maxd o) /\ msg_int "version" m = Z.of_N (o_version o) /\
  msg_bool "generalized_statements" m = o_gen o /\ msg_bool "rdf_star" m = o_star o /\
  msg_str (K := str) [] "stream_name" m = o_name o.

(* the first row as the message object the wire parser hands over: an options row carries an RdfStreamOptions that reads
   as the model's options; any other kind of row has no `options` field set (reading it gives the all-defaults message) *)
Definition first_row_rel (m : pbval str) (r : row) : Prop :=
  match r with
  | ROptions o => reads_options (msg_sub "options" "RdfStreamOptions" m) o
  | _ => msg_get "options" (msg_fields m) = None
  end.

Definition popts_obj (po : poptions) : ParserOptions SN :=
  mk_ParserOptions (mk_StreamTypes (Z.of_N (po_phys po)) (Z.of_N (po_logical po)))
                   (mk_LookupPreset (Z.of_N (po_maxn po)) (Z.of_N (po_maxp po)) (Z.of_N (po_maxd po)))
                   (mk_StreamParameters (po_gen po) (po_star po) (Z.of_N (po_version po)) (po_delimited po) (po_nd po) (po_name po : carrier SN)).

(* the options row the writer builds (EncodeTie.options_msg) reads as what was written *)
Lemma options_msg_reads (o : woptions) : first_row_rel (options_msg o) (ROptions o).
Proof. repeat split. Qed.

Theorem source_options_from_frame_is_model (ms : list (pbval str)) (f : frame) (delimited : bool) :
  length ms = length (f_rows f) ->
  (forall m r, hd_error ms = Some m -> hd_error (f_rows f) = Some r -> first_row_rel m r) ->
  match options_from_frame SN (PMsg "RdfStreamFrame" [("rows"%string, PRep ms)]) delimited, Decoder.options_from_frame f delimited with
  | Val po, Ok mpo => po = popts_obj mpo
  | Exn _, Err _ => True
  | _, _ => False
  end.
Proof.
  intros Hlen Hhd. unfold options_from_frame, Decoder.options_from_frame, first_options.
  change (msg_rep "rows" (PMsg "RdfStreamFrame" [("rows"%string, PRep ms)])) with ms.
  destruct ms as [|m ms]; destruct (f_rows f) as [|r rows]; try discriminate; [exact I|].
  change (seq_get (m :: ms) 0) with (@Val (pbval str) m). cbv beta iota.
  specialize (Hhd m r eq_refl eq_refl).
  assert (Hopt : exists o, (match r with ROptions o0 => Ok o0 | _ => Ok default_woptions end) = Ok o /\
                           reads_options (msg_sub "options" "RdfStreamOptions" m) o).
  { destruct r; try (exists default_woptions; split; [reflexivity|]; unfold first_row_rel in Hhd;
                     unfold reads_options, msg_sub, msg_int, msg_bool, msg_str; rewrite Hhd; cbn; repeat split).
    exists o. split; [reflexivity | exact Hhd]. }
  destruct Hopt as (o & Ho & H1 & H2 & H3 & H4 & H5 & H6 & H7 & H8 & H9).
  match goal with |- context [bind ?x _] => replace x with (@Ok woptions o) by (symmetry; destruct r; exact Ho) end.
  cbn [bind]. cbv zeta.
  norm. change (s_empty SN) with (@nil N). rewrite H1, H2, H3, H4, H5, H6, H7, H8, H9.
  pose proof (source_stream_types_is_model (o_phys o) (o_logical o)) as Hst.
  destruct (StreamTypes___init__ (Z.of_N (o_phys o)) (Z.of_N (o_logical o))) as [st|e].
  - destruct Hst as (Hc & -> & _). rewrite Hc. cbn [negb].
    rewrite (source_preset_is_model (o_maxn o) (o_maxp o) (o_maxd o)).
    destruct (preset_ok (o_maxn o) (o_maxp o) (o_maxd o)); cbn [negb]; [|exact I].
    rewrite (source_params_version_is_model SN). unfold ParserOptions___init__, popts_obj, MAX_VERSION. cbn [orb].
    cbn [po_phys po_logical po_maxn po_maxp po_maxd po_name po_gen po_star po_version po_delimited po_nd].
    destruct (2 <=? o_version o)%N eqn:Ev.
    + replace (Z.of_N (o_version o) >=? 2) with true by lia. reflexivity.
    + replace (Z.of_N (o_version o) >=? 2) with false by lia. reflexivity.
  - rewrite Hst. exact I.
Qed.

Print Assumptions source_options_from_frame_is_model.
