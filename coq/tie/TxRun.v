(* TxRun.v -- running the TRANSLATED source (generated/*.v) on concrete message objects, for the translation cross-check
   (harness/txcheck.py): the same frames go through the real pyjelly code under CPython and through the generated Gallina
   under vm_compute, and every yielded object and the class of the exception that ended a frame must be equal.  This
   validates the translator and PyPrims.v themselves (the trusted part of the source ties) against CPython + protobuf.

   tx_reader: options_from_frame on the first frame, then parse_jelly_flat (the adapter class for the physical type,
   Decoder(adapter), iter_rows per frame, the yields flattened).  Everything it calls is generated code. *)
From PJ.Model Require Import Base.
From PJ.Tie Require Import PyPrims StrN.
From PJ.Gen Require Import LookupDecGen OptionsGen DecodeGen GenericSinkGen GenericParseGen.
Local Open Scope Z_scope.

Notation gobj := (obj SN).
Notation GDec := (@Decoder SN gobj (Adapter SN)).
Notation gd_iter := (Decoder_iter_rows SN Adapter_options (Adapter_iri SN) (Adapter_default_graph SN) (Adapter_bnode SN) (Adapter_literal SN)
                      (Adapter_triple SN) (Adapter_quad SN) (Adapter_graph_start SN) (Adapter_graph_end SN) (Adapter_namespace_declaration SN) (Adapter_quoted_triple SN)).

(* options_from_frame on the first frame (as get_options_and_frames does after reading it), then the flat parser
   parse_jelly_flat(frames=.., options=..): all generated code.  The result: everything yielded, and the class of the exception
   that ended the run *)
Definition tx_reader (fms : list (pbval str)) : list (option gobj) * option exn :=
  match fms with
  | [] => ([], None)
  | f0 :: _ =>
    match options_from_frame SN f0 true with
    | Exn e => ([], Some e)
    | Val po =>
      let '(r, _, ys) := parse_jelly_flat SN fms po false in
      (ys, match r with Exn e => Some e | Val _ => None end)
    end
  end.

(* the grouped parser and parse_jelly_to_graph on the same frames (options from the first frame): per sink its statements and its
   bindings; None when the run raises (the translated grouped parser refuses those: OutsideModel) *)
Definition sink_obs (k : GenericStatementSink SN) : list gobj * list (str * gobj) :=
  (GenericStatementSink__store k, GenericStatementSink__namespaces k).

Definition tx_grouped (fms : list (pbval str)) : option (list (list gobj * list (str * gobj))) :=
  match fms with
  | [] => None
  | f0 :: _ =>
    match options_from_frame SN f0 true with
    | Exn _ => None
    | Val po =>
      let '(r, _, sinks) := parse_jelly_grouped SN false po fms in
      match r with Exn _ => None | Val _ => Some (map sink_obs sinks) end
    end
  end.

Definition tx_to_graph (fms : list (pbval str)) : option (list gobj * list (str * gobj)) :=
  match fms with
  | [] => None
  | f0 :: _ =>
    match options_from_frame SN f0 true with
    | Exn _ => None
    | Val po =>
      let '(r, _) := parse_jelly_to_graph SN po fms in
      match r with Exn _ => None | Val k => Some (sink_obs k) end
    end
  end.

(* ------------------------------------------------------------------ the writer chain *)
From PJ.Gen Require Import LookupEncGen EncodeGen FlowsGen StreamsGen GenericSerializeGen.

(* message objects up to what protobuf can tell apart: fields by name; a scalar field outside a oneof that holds its default
   value is not distinguishable from an absent one (proto3), an empty repeated field neither *)
Fixpoint insert_field (f : string * pbval str) (l : list (string * pbval str)) : list (string * pbval str) :=
  match l with
  | [] => [f]
  | g :: l' => match String.compare (fst f) (fst g) with Gt => g :: insert_field f l' | _ => f :: l end
  end.

Definition is_default (v : pbval str) : bool :=
  match v with PInt 0 => true | PBool false => true | PStr [] => true | PRep [] => true | _ => false end.

(* oneofs: the (message, field) pairs that are members of a oneof (presence is tracked for those) *)
Fixpoint pb_canon (oneofs : list (string * string)) (m : pbval str) : pbval str :=
  match m with
  | PMsg n fs =>
    PMsg n ((fix go (l : list (string * pbval str)) : list (string * pbval str) :=
               match l with
               | [] => []
               | (f, v) :: l' =>
                 let v' := pb_canon oneofs v in
                 if is_default v' && negb (existsb (fun mf => String.eqb (fst mf) n && String.eqb (snd mf) f) oneofs) then go l' else insert_field (f, v') (go l')
               end) fs)
  | PRep l => PRep (map (pb_canon oneofs) l)
  | _ => m
  end.

Notation gs_spo := (GenericSinkTermEncoder_encode_spo SN).
Notation gs_graph := (GenericSinkTermEncoder_encode_graph SN).
Notation GStream := (@Stream SN gobj).

Fixpoint tx_statements (quads : bool) (stmts : list (list gobj)) (s : GStream) : list (pbval str) * option exn * GStream :=
  match stmts with
  | [] => ([], None, s)
  | st :: rest =>
    let '(r, s', _) := if quads then Stream_quad SN (obj_eqb SN) gs_spo gs_graph st s else Stream_triple SN (obj_eqb SN) gs_spo st s in
    match r with
    | Exn e => ([], Some e, s')
    | Val fr =>
      let '(frs, e, s'') := tx_statements quads rest s' in
      ((match fr with Some f => [f] | None => [] end) ++ frs, e, s'')
    end
  end.

(* SerializerOptions(..), GenericSinkTermEncoder(lookup_preset), TripleStream / QuadStream(encoder, options), enroll(), the
   declarations, triple() / quad() per statement, then what the flow still holds -- all generated code; the result: the frames
   handed out, canonical, and the class of the exception that ended the run *)
Definition tx_writer (oneofs : list (string * string)) (quads : bool) (maxn maxp maxd : Z) (gen star : bool) (version : Z) (delimited nd : bool) (name : str)
                     (frame_size logical : Z) (ns : list (str * str)) (stmts : list (list gobj)) : list (pbval str) * option exn :=
  match LookupPreset___init__ maxn maxp maxd with
  | Exn e => ([], Some e)
  | Val preset =>
  match StreamParameters___init__ SN gen star version delimited nd name with
  | Exn e => ([], Some e)
  | Val params =>
  match SerializerOptions___init__ SN None frame_size logical params preset with
  | Exn e => ([], Some e)
  | Val opts =>
  match TermEncoder___init__ SN (Some preset) with
  | Exn e => ([], Some e)
  | Val enc =>
  match (if quads then QuadStream___init__ SN enc (Some opts) else TripleStream___init__ SN enc (Some opts)) with
  | Exn e => ([], Some e)
  | Val s0 =>
    let '(r, s1) := Stream_enroll SN s0 in
    match r with
    | Exn e => ([], Some e)
    | Val _ =>
      let '(rn, s2) := fold_left (fun acc (pn : str * str) => let '(r0, s) := acc in
                                  match r0 with Exn e => (Exn e, s) | Val _ => Stream_namespace_declaration SN (fst pn) (snd pn) s end) ns (Val tt, s1) in
      match rn with
      | Exn e => ([], Some e)
      | Val _ =>
        let '(frs, e, s3) := tx_statements quads stmts s2 in
        match e with
        | Some e' => (map (pb_canon oneofs) frs, Some e')
        | None =>
          let '(rl, _) := FrameFlow_to_stream_frame SN (Stream_flow SN s3) in
          match rl with
          | Exn e' => (map (pb_canon oneofs) frs, Some e')
          | Val last => (map (pb_canon oneofs) (frs ++ match last with Some f => [f] | None => [] end), None)
          end
        end
      end
    end
  end end end end end.

(* ------------------------------------------------------------------ the writer drivers *)
(* GenericStatementSink() with the bindings and the statements put in (bind / add), the stream built as above, then the
   translated driver for the physical type: triples_stream_frames / quads_stream_frames / graphs_stream_frames(stream, sink).
   The frames yielded (canonical) and the class of the exception that ended the generator *)
Definition tx_sink (ns : list (str * str)) (stmts : list gobj) : outcome (GenericStatementSink SN) :=
  match GenericStatementSink___init__ SN (@O__DefaultGraph SN) with
  | Exn e => Exn e
  | Val k0 =>
    let '(r1, k1) := fold_left (fun acc (pn : str * str) => let '(r0, k) := acc in
                                match r0 with Exn e => (Exn e, k) | Val _ => GenericStatementSink_bind SN (fst pn) (@O_IRI SN (snd pn)) k end) ns (Val tt, k0) in
    match r1 with
    | Exn e => Exn e
    | Val _ =>
      let '(r2, k2) := fold_left (fun acc (st : gobj) => let '(r0, k) := acc in
                                  match r0 with Exn e => (Exn e, k) | Val _ => GenericStatementSink_add SN st k end) stmts (Val tt, k1) in
      match r2 with Exn e => Exn e | Val _ => Val k2 end
    end
  end.

Definition tx_driver (oneofs : list (string * string)) (phys : Z) (maxn maxp maxd : Z) (gen star : bool) (version : Z) (delimited nd : bool) (name : str)
                     (frame_size logical : Z) (ns : list (str * str)) (stmts : list gobj) : list (pbval str) * option exn :=
  match LookupPreset___init__ maxn maxp maxd with
  | Exn e => ([], Some e)
  | Val preset =>
  match StreamParameters___init__ SN gen star version delimited nd name with
  | Exn e => ([], Some e)
  | Val params =>
  match SerializerOptions___init__ SN None frame_size logical params preset with
  | Exn e => ([], Some e)
  | Val opts =>
  match TermEncoder___init__ SN (Some preset) with
  | Exn e => ([], Some e)
  | Val enc =>
  match (if phys =? 1 then TripleStream___init__ SN enc (Some opts) else if phys =? 2 then QuadStream___init__ SN enc (Some opts)
         else GraphStream___init__ SN enc (Some opts)) with
  | Exn e => ([], Some e)
  | Val s0 =>
  match tx_sink ns stmts with
  | Exn e => ([], Some e)
  | Val k =>
    let '(r, _, _, ys) := (if phys =? 1 then triples_stream_frames SN s0 k else if phys =? 2 then quads_stream_frames SN s0 k
                           else graphs_stream_frames SN s0 k) in
    (map (pb_canon oneofs) ys, match r with Exn e => Some e | Val _ => None end)
  end end end end end end.

(* ------------------------------------------------------------------ grouped_stream_to_frames(sinks, options) with guess_options / guess_stream
   and the singledispatch stream_frames: sinks built as above, options given (built from the configuration) or None *)
Fixpoint tx_sinks (groups : list (list (str * str) * list gobj)) : outcome (list (GenericStatementSink SN)) :=
  match groups with
  | [] => Val []
  | (ns, stmts) :: rest =>
    match tx_sink ns stmts with
    | Exn e => Exn e
    | Val k => match tx_sinks rest with Exn e => Exn e | Val ks => Val (k :: ks) end
    end
  end.

Definition tx_grouped_writer (oneofs : list (string * string)) (given : bool) (maxn maxp maxd : Z) (gen star : bool) (version : Z) (delimited nd : bool) (name : str)
                             (frame_size logical : Z) (groups : list (list (str * str) * list gobj)) : list (pbval str) * option exn :=
  match tx_sinks groups with
  | Exn e => ([], Some e)
  | Val ks =>
    let opts :=
      if given then
        match LookupPreset___init__ maxn maxp maxd with
        | Exn e => Exn e
        | Val preset =>
          match StreamParameters___init__ SN gen star version delimited nd name with
          | Exn e => Exn e
          | Val params => match SerializerOptions___init__ SN None frame_size logical params preset with Exn e => Exn e | Val o => Val (Some o) end
          end
        end
      else Val None in
    match opts with
    | Exn e => ([], Some e)
    | Val o =>
      let '(r, _, ys) := grouped_stream_to_frames SN ks o in
      (map (pb_canon oneofs) ys, match r with Exn e => Some e | Val _ => None end)
    end
  end.

(* flat_stream_to_frames(statements, options): a generator of statements (here: the list), options given or guessed from the first *)
Definition tx_flat_writer (oneofs : list (string * string)) (given : bool) (maxn maxp maxd : Z) (gen star : bool) (version : Z) (delimited nd : bool) (name : str)
                          (frame_size logical : Z) (stmts : list gobj) : list (pbval str) * option exn :=
  let opts :=
    if given then
      match LookupPreset___init__ maxn maxp maxd with
      | Exn e => Exn e
      | Val preset =>
        match StreamParameters___init__ SN gen star version delimited nd name with
        | Exn e => Exn e
        | Val params => match SerializerOptions___init__ SN None frame_size logical params preset with Exn e => Exn e | Val o => Val (Some o) end
        end
      end
    else Val None in
  match opts with
  | Exn e => ([], Some e)
  | Val o =>
    let '(r, _, ys) := flat_stream_to_frames SN stmts o in
    (map (pb_canon oneofs) ys, match r with Exn e => Some e | Val _ => None end)
  end.
