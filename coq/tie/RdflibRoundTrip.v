(* RdflibRoundTrip.v -- the reader of the rdflib integration, translated (generated/RdflibParseGen.v: the adapters, Decoder over
   them, parse_triples_stream / parse_quads_stream / parse_jelly_flat), against the model and the referee.

   rdflib_reads_frames: the translated Decoder over the translated rdflib adapters, run over the message objects of any
   well-formed frames, is the model's decode_frames at ig = Rdflib, frame by frame (same yields as objects, same class of exception).
   C04_source_rdflib_reads_valid_streams: ANY RDF 1.1 stream the referee accepts is read to the rdflib objects of the VIEW of the
   events it denotes (AgreeProofs.eview: rdflib's Literal constructor applied to each literal -- the known finding
   rdflib-whitespace-facet is exactly the difference between the view and the events), in order, and no exception.
   C04_source_rdflib_flat_parser: the same about the translated parse_jelly_flat(frames=.., options=..) itself.
   C04_source_rdflib_exact: ... and the events themselves wherever their terms are ones rdflib can hold. *)
From Coq Require Import Lia ZifyBool.
From PJ.Model Require Import Base Terms Encoder Streams Decoder Spec Api.
From PJ.Proofs Require Import DecoderProofs DecoderSound AgreeProofs WireRT SpecWf BytesE2E RdflibBytes.
From PJ.Tie Require Import PyPrims StrN OptionsTie EncodeTie EncodeStmtTie FlowsTie DecodeTie DecoderBase DecoderTie StmtLayout GenericRoundTrip RdflibParseTie.
From PJ.Gen Require Import LookupDecGen OptionsGen DecodeGen RdflibParseGen.
From PJ.Gen Require GenericParseGen.
From PJ.Tie Require GenericParseTie GenericTerms.
Local Open Scope Z_scope.

(* ------------------------------------------------------------------ the reader over a list of frames *)
Notation rd_iter := (Decoder_iter_rows SN Adapter_options (Adapter_iri SN) (Adapter_default_graph SN) (Adapter_bnode SN) (Adapter_literal SN)
                      (Adapter_triple SN) (Adapter_quad SN) (Adapter_graph_start SN) (Adapter_graph_end SN) (Adapter_namespace_declaration SN) (Adapter_quoted_triple SN)).
Notation RDec := (@Decoder SN pobj (Adapter SN)).

(* `for frame in frames: yield decoder.iter_rows(frame)`, consumed in order *)
Fixpoint rd_frames (fms : list (pbval str)) (d : RDec) : list (list (option pobj) * option PyPrims.exn) :=
  match fms with
  | [] => []
  | fm :: rest =>
    let '(r, d', ys) := rd_iter fm d in
    match r with
    | Val _ => (ys, None) :: rd_frames rest d'
    | Exn e => [(ys, Some e)]
    end
  end.

Definition rframe_rel (g : list (option pobj) * option PyPrims.exn) (m : frame_result) : Prop :=
  fst g = map (fun e => Some (pobj_of_event e)) (snd (fst m)) /\
  match snd g, snd m with
  | None, None => True
  | Some e, Some me => err_ok_gen e me
  | _, _ => False
  end.

Theorem rdflib_reads_frames ak po (fs : list frame) : forall (d : RDec) st,
  GRdec Rdflib ak po d st -> Forall wf_frame fs ->
  Forall2 rframe_rel (rd_frames (map (frame_msg (rmsg gput)) fs) d) (decode_frames Rdflib ak po fs st).
Proof.
  induction fs as [|f fs IH]; intros d st HR Hwf; cbn [map rd_frames decode_frames]; [constructor|].
  inversion Hwf as [|? ? Hf Hfs]; subst.
  rewrite frame_msg_owner.
  pose proof (rdflib_iter_rows_on_built_frame ak po (f_rows f) d st HR
                ltac:(apply forallb_forall; intros r Hr; apply wf_row_struct; exact (proj1 (Forall_forall _ _) Hf r Hr))) as H.
  destruct (rd_iter _ d) as [[r d'] ys]. destruct (decode_rows Rdflib ak po (f_rows f) st) as [[st' evs] err].
  destruct H as [-> H]. destruct r as [u|e]; destruct err as [me|]; try contradiction.
  - constructor; [split; [reflexivity | exact I] | apply IH; assumption].
  - constructor; [split; [reflexivity | exact H] | constructor].
Qed.

(* flattened, as a flat parse sees it *)
Definition r_flat (res : list (list (option pobj) * option PyPrims.exn)) : list (option pobj) * bool :=
  (flat_map fst res, forallb (fun x => match snd x with None => true | Some _ => false end) res).

Lemma rflat_rel res frs : Forall2 rframe_rel res frs -> forall evs, flat_obs frs = (evs, None) ->
  r_flat res = (map (fun e => Some (pobj_of_event e)) evs, true).
Proof.
  unfold flat_obs, r_flat. induction 1 as [|g m res frs [Hy He] _ IH]; intros evs; cbn [flat_map forallb last_err].
  - intros [= <-]. reflexivity.
  - destruct m as [[meta out] err]. cbn [fst snd] in *. destruct err as [me|]; [discriminate|].
    intros Heq. injection Heq as <- Herr.
    specialize (IH _ ltac:(rewrite Herr; reflexivity)). injection IH as IH1 IH2.
    destruct (snd g); [contradiction|]. rewrite Hy, IH1, IH2, map_app. reflexivity.
Qed.

(* the model's rdflib reader, from a new decoder, observed flat: the view of the generic reader's observation *)
Lemma flat_obs_view frs : flat_obs (map fview frs) = (map eview (fst (flat_obs frs)), snd (flat_obs frs)).
Proof.
  unfold flat_obs. cbn [fst snd]. rewrite last_err_view. f_equal.
  induction frs as [|[[md evs] err] frs IH]; cbn [map flat_map fview fst snd]; [reflexivity|]. rewrite map_app, IH. reflexivity.
Qed.

(* C04 for the rdflib integration, translated reader: ANY RDF 1.1 stream the referee accepts, given as the message objects with exactly
   its fields set, is read by the translated Decoder over the translated rdflib adapters to the rdflib objects of the view of the
   events the referee says it denotes, in order, and no exception *)
Theorem C04_source_rdflib_reads_valid_streams :
  forall (fs : list frame) (evs : list event) (dl : bool),
    run_frames fs = Valid evs -> forallb (fun f => forallb row_rdf11 (f_rows f)) fs = true ->
    exists po ak st0 sk first more,
      skip_empty fs = (sk, first :: more) /\ Decoder.options_from_frame first dl = Ok po /\
      route (po_phys po) = Ok ak /\ decoder_new po = Ok st0 /\
      (types_named (ParserOptions_stream_types (popts_obj po)) ->
       exists a rd, adapter_ctor ak (popts_obj po) = Val a /\ Decoder___init__ SN Adapter_options a = Val rd /\
         r_flat (rd_frames (map (frame_msg (rmsg gput)) fs) rd) = (map (fun e => Some (pobj_of_event (eview e))) evs, true)).
Proof.
  intros fs evs dl Hv H11.
  destruct (DecoderSound.decoder_sound_frames fs evs dl Hv) as (po & ak & st0 & sk & first & more & H1 & H2 & H3 & H4 & H5).
  exists po, ak, st0, sk, first, more. repeat (split; [assumption|]).
  intros Hty.
  destruct (rdflib_decoder_init_is_model ak po Hty) as (a & Ha & Hinit). rewrite H4 in Hinit.
  destruct (Decoder___init__ SN Adapter_options a) as [rd|e] eqn:Ed; [|contradiction].
  exists a, rd. split; [exact Ha|]. split; [exact Ed|].
  rewrite <- (map_map eview (fun e => Some (pobj_of_event e))).
  apply (rflat_rel _ (decode_frames Rdflib ak po fs st0)).
  - apply rdflib_reads_frames; [exact Hinit|]. exact (wf_of_valid _ _ Hv).
  - rewrite <- (decoder_new_fresh _ _ H4) at 1. rewrite (decode_frames_view ak po fs st0 H11), flat_obs_view, H5. reflexivity.
Qed.

(* ... and exactly the events where their terms are ones rdflib can hold *)
Corollary C04_source_rdflib_exact :
  forall (fs : list frame) (evs : list event) (dl : bool),
    run_frames fs = Valid evs -> forallb (fun f => forallb row_rdf11 (f_rows f)) fs = true -> Forall (fun e => eview e = e) evs ->
    exists po ak st0 sk first more,
      skip_empty fs = (sk, first :: more) /\ Decoder.options_from_frame first dl = Ok po /\
      route (po_phys po) = Ok ak /\ decoder_new po = Ok st0 /\
      (types_named (ParserOptions_stream_types (popts_obj po)) ->
       exists a rd, adapter_ctor ak (popts_obj po) = Val a /\ Decoder___init__ SN Adapter_options a = Val rd /\
         r_flat (rd_frames (map (frame_msg (rmsg gput)) fs) rd) = (map (fun e => Some (pobj_of_event e)) evs, true)).
Proof.
  intros fs evs dl Hv H11 Hfix.
  destruct (C04_source_rdflib_reads_valid_streams fs evs dl Hv H11) as (po & ak & st0 & sk & first & more & H1 & H2 & H3 & H4 & H5).
  exists po, ak, st0, sk, first, more. repeat (split; [assumption|]).
  intros Hty. destruct (H5 Hty) as (a & rd & Ha & Hd & Hf). exists a, rd. split; [exact Ha|]. split; [exact Hd|].
  rewrite Hf. f_equal. clear -Hfix. induction Hfix as [|e evs He _ IH]; cbn [map]; [reflexivity|]. rewrite He, IH. reflexivity.
Qed.

(* ------------------------------------------------------------------ the flat parser itself (translated) *)
Definition rfirst_err (res : list (list (option pobj) * option PyPrims.exn)) : option PyPrims.exn :=
  fold_right (fun x acc => match snd x with Some e => Some e | None => acc end) None res.

Lemma rfirst_err_cons x res : rfirst_err (x :: res) = match snd x with Some e => Some e | None => rfirst_err res end.
Proof. reflexivity. Qed.

Lemma rstream_loop_is (loop : list (pbval str) -> list (pbval str) * list (list (option pobj)) * RDec -> loopres unit (list (pbval str) * list (list (option pobj)) * RDec)) :
  (forall xs st, loop xs st = match xs with
                             | [] => LContinue st
                             | frame :: xs' =>
                               let '(frames, ys, decoder) := st in
                               let '(r, decoder', ys1) := rd_iter frame decoder in
                               match r with
                               | Exn e => LRaise e (frames, ys ++ [ys1], decoder')
                               | Val _ => loop xs' (frames, ys ++ [ys1], decoder')
                               end
                             end) ->
  forall xs frames ys d,
    match loop xs (frames, ys, d), rfirst_err (rd_frames xs d) with
    | LContinue (fr', ys', _), None => fr' = frames /\ ys' = ys ++ map fst (rd_frames xs d)
    | LRaise e (fr', ys', _), Some e' => e = e' /\ fr' = frames /\ ys' = ys ++ map fst (rd_frames xs d)
    | _, _ => False
    end.
Proof.
  intros Hl. induction xs as [|x xs IH]; intros frames ys d; rewrite Hl.
  - cbn. rewrite app_nil_r. split; reflexivity.
  - cbn [rd_frames]. destruct (rd_iter x d) as [[r d'] ys1]. destruct r as [u|e]; rewrite rfirst_err_cons; cbn [snd map fst].
    + specialize (IH frames (ys ++ [ys1]) d').
      destruct (loop xs (frames, ys ++ [ys1], d')) as [[[fr' ys'] d2]|rv [[fr' ys'] d2]|e [[fr' ys'] d2]];
        destruct (rfirst_err (rd_frames xs d')) as [e'|]; try contradiction.
      * destruct IH as (-> & ->). split; [reflexivity|]. rewrite <- app_assoc. reflexivity.
      * destruct IH as (-> & -> & ->). repeat split. rewrite <- app_assoc. reflexivity.
    + repeat split.
Qed.

Lemma rparse_triples_stream_is fms opts a (d : RDec) :
  RDFLibTriplesAdapter___init__ SN opts = Val a -> Decoder___init__ SN Adapter_options a = Val d ->
  parse_triples_stream SN fms opts =
  (match rfirst_err (rd_frames fms d) with Some e => Exn (gen_exn e) | None => Val tt end, fms, map fst (rd_frames fms d)).
Proof.
  intros Ha Hd. unfold parse_triples_stream. cbv zeta. rewrite Ha, Hd.
  match goal with |- context [?f fms (fms, @nil (list (option pobj)), d)] => set (loop := f) end.
  pose proof (rstream_loop_is loop ltac:(intros [|x xs] [[fr ys] dd]; reflexivity) fms fms [] d) as H. change (carrier SN) with str in *.
  destruct (loop fms (fms, [], d)) as [[[fr' ys'] d2]|rv [[fr' ys'] d2]|e [[fr' ys'] d2]];
    destruct (rfirst_err (rd_frames fms d)) as [e'|]; try contradiction.
  - destruct H as (-> & ->). reflexivity.
  - destruct H as (-> & -> & ->). reflexivity.
Qed.

Lemma rparse_quads_stream_is fms opts a (d : RDec) :
  (if StreamTypes_physical_type (ParserOptions_stream_types opts) =? 2 then RDFLibQuadsAdapter___init__ SN opts else RDFLibGraphsAdapter___init__ SN opts) = Val a ->
  Decoder___init__ SN Adapter_options a = Val d ->
  parse_quads_stream SN fms opts =
  (match rfirst_err (rd_frames fms d) with Some e => Exn (gen_exn e) | None => Val tt end, fms, map fst (rd_frames fms d)).
Proof.
  intros Ha Hd. unfold parse_quads_stream. cbv zeta.
  destruct (StreamTypes_physical_type (ParserOptions_stream_types opts) =? 2); cbv beta iota; rewrite Ha, Hd;
    (match goal with |- context [?f fms (fms, @nil (list (option pobj)), d)] => set (loop := f) end;
     pose proof (rstream_loop_is loop ltac:(intros [|x xs] [[fr ys] dd]; reflexivity) fms fms [] d) as H; change (carrier SN) with str in *;
     destruct (loop fms (fms, [], d)) as [[[fr' ys'] d2]|rv [[fr' ys'] d2]|e [[fr' ys'] d2]];
       destruct (rfirst_err (rd_frames fms d)) as [e'|]; try contradiction;
     [destruct H as (-> & ->); reflexivity | destruct H as (-> & -> & ->); reflexivity]).
Qed.

Lemma rno_err_forallb res : snd (r_flat res) = true -> rfirst_err res = None.
Proof.
  unfold r_flat. cbn [snd]. induction res as [|[ys [e|]] res IH]; cbn; try discriminate; [reflexivity | exact IH].
Qed.

(* C04 with the translated flat parser of the rdflib integration: any RDF 1.1 stream the referee accepts, as message objects, through
   parse_jelly_flat(frames, options) gives the rdflib objects of the view of the events it denotes, and ends normally *)
Theorem C04_source_rdflib_flat_parser :
  forall (fs : list frame) (evs : list event) (dl : bool),
    run_frames fs = Valid evs -> forallb (fun f => forallb row_rdf11 (f_rows f)) fs = true ->
    exists po, (exists sk first more, skip_empty fs = (sk, first :: more) /\ Decoder.options_from_frame first dl = Ok po) /\
      (types_named (ParserOptions_stream_types (popts_obj po)) ->
       let fms := map (frame_msg (rmsg gput)) fs in
       parse_jelly_flat SN fms (popts_obj po) false = (Val tt, fms, map (fun e => Some (pobj_of_event (eview e))) evs)).
Proof.
  intros fs evs dl Hv H11.
  destruct (C04_source_rdflib_reads_valid_streams fs evs dl Hv H11) as (po & ak & st0 & sk & first & more & H1 & H2 & H3 & H4 & H5).
  exists po. split; [exists sk, first, more; split; assumption|].
  intros Hty fms. destruct (H5 Hty) as (a & gd & Ha & Hd & Hflat). fold fms in Hflat.
  pose proof (rno_err_forallb _ ltac:(rewrite Hflat; reflexivity)) as Hne.
  assert (Hys : concat (map fst (rd_frames fms gd)) = map (fun e => Some (pobj_of_event (eview e))) evs).
  { rewrite <- flat_map_concat. pose proof (f_equal fst Hflat) as Hf. exact Hf. }
  unfold parse_jelly_flat. cbv zeta. unfold StreamTypes_flat. cbv beta iota zeta. cbn [andb].
  unfold route in H3.
  change (StreamTypes_physical_type (ParserOptions_stream_types (popts_obj po))) with (Z.of_N (po_phys po)).
  destruct (po_phys po =? 1)%N eqn:E1.
  - apply N.eqb_eq in E1. rewrite E1. injection H3 as <-. cbn [adapter_ctor] in Ha. cbn [Z.of_N Z.eqb Pos.eqb].
    rewrite (rparse_triples_stream_is fms (popts_obj po) a gd Ha Hd), Hne. cbv beta iota.
    match goal with |- context [?f (map fst (rd_frames fms gd)) (fms, @nil (option pobj))] => set (loop := f) end.
    rewrite (flatten_loop_is loop ltac:(intros [|x xs] [fr ys]; reflexivity)). cbn [app]. rewrite Hys. reflexivity.
  - destruct (po_phys po =? 2)%N eqn:E2.
    + apply N.eqb_eq in E2. rewrite E2. injection H3 as <-. cbn [adapter_ctor] in Ha. cbn [Z.of_N Z.eqb Pos.eqb orb].
      rewrite (rparse_quads_stream_is fms (popts_obj po) a gd
                 ltac:(change (StreamTypes_physical_type (ParserOptions_stream_types (popts_obj po))) with (Z.of_N (po_phys po)); rewrite E2; exact Ha) Hd), Hne.
      cbv beta iota.
      match goal with |- context [?f (map fst (rd_frames fms gd)) (fms, @nil (option pobj))] => set (loop := f) end.
      rewrite (flatten_loop_is loop ltac:(intros [|x xs] [fr ys]; reflexivity)). cbn [app]. rewrite Hys. reflexivity.
    + destruct (po_phys po =? 3)%N eqn:E3; [|discriminate].
      apply N.eqb_eq in E3. rewrite E3. injection H3 as <-. cbn [adapter_ctor] in Ha. cbn [Z.of_N Z.eqb Pos.eqb orb].
      rewrite (rparse_quads_stream_is fms (popts_obj po) a gd
                 ltac:(change (StreamTypes_physical_type (ParserOptions_stream_types (popts_obj po))) with (Z.of_N (po_phys po)); rewrite E3; exact Ha) Hd), Hne.
      cbv beta iota.
      match goal with |- context [?f (map fst (rd_frames fms gd)) (fms, @nil (option pobj))] => set (loop := f) end.
      rewrite (flatten_loop_is loop ltac:(intros [|x xs] [fr ys]; reflexivity)). cbn [app]. rewrite Hys. reflexivity.
Qed.

(* C15 on translated source, both integrations over the same message objects: for any RDF 1.1 stream the referee accepts, the translated
   flat parser of the generic integration returns the generic objects of the events it denotes and the translated flat parser of the
   rdflib integration the rdflib objects of their view -- term for term the same strings (IRIs, labels, lexical forms, tags, datatypes,
   graph names) wherever the view is the identity, i.e. on terms rdflib can hold *)
Theorem C15_source_flat_parsers_correspond :
  forall (fs : list frame) (evs : list event) (dl : bool),
    run_frames fs = Valid evs -> forallb (fun f => forallb row_rdf11 (f_rows f)) fs = true ->
    exists po, (exists sk first more, skip_empty fs = (sk, first :: more) /\ Decoder.options_from_frame first dl = Ok po) /\
      (GenericParseTie.types_named (ParserOptions_stream_types (popts_obj po)) -> types_named (ParserOptions_stream_types (popts_obj po)) ->
       let fms := map (frame_msg (rmsg gput)) fs in
       GenericParseGen.parse_jelly_flat SN fms (popts_obj po) false = (Val tt, fms, map (fun e => Some (GenericTerms.obj_of_event e)) evs) /\
       parse_jelly_flat SN fms (popts_obj po) false = (Val tt, fms, map (fun e => Some (pobj_of_event (eview e))) evs)).
Proof.
  intros fs evs dl Hv H11.
  destruct (C04_source_generic_flat_parser fs evs dl Hv) as (po & (sk & first & more & H1 & H2) & Hg).
  destruct (C04_source_rdflib_flat_parser fs evs dl Hv H11) as (po' & (sk' & first' & more' & H1' & H2') & Hr).
  rewrite H1 in H1'. injection H1' as <- <- <-. rewrite H2 in H2'. injection H2' as <-.
  exists po. split; [exists sk, first, more; split; assumption|].
  intros Htg Htr fms. split; [exact (Hg Htg) | exact (Hr Htr)].
Qed.

Print Assumptions rdflib_reads_frames.
Print Assumptions C04_source_rdflib_reads_valid_streams.
Print Assumptions C04_source_rdflib_exact.
Print Assumptions C04_source_rdflib_flat_parser.
Print Assumptions C15_source_flat_parsers_correspond.
