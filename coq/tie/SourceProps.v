(* SourceProps.v -- statements of the given properties made DIRECTLY about the translated source (no model in the
   statement), for the parts of C08, C13 and C18 that live in translated code.  (C05 is in C05Source.v.) *)
From Coq Require Import Lia ZifyBool.
From PJ.Model Require Import Base.
From PJ.Tie Require Import PyPrims StrN.
From PJ.Gen Require Import HintGen OptionsGen LookupEncGen EncodeGen.
Local Open Scope Z_scope.

(* C08: the three-byte rule, for every byte string: with fewer than three bytes "not delimited"; otherwise
   delimited iff the first byte is not 0x0A, or the second is and the third is not.  Never raises. *)
Theorem C08_source_truth_table (h : list Z) :
  delimited_jelly_hint h =
  Val (match h with
       | b0 :: b1 :: b2 :: _ => negb (b0 =? 10) || ((b1 =? 10) && negb (b2 =? 10))
       | _ => false
       end).
Proof.
  unfold delimited_jelly_hint.
  destruct h as [|b0 [|b1 [|b2 t]]]; try reflexivity.
  unfold seq_len. cbn [length].
  replace (Z.of_nat (S (S (S (length t)))) >=? 3) with true by lia.
  unfold seq_get, py_index, seq_len. cbn [length].
  replace ((0 <=? 0) && (0 <? Z.of_nat (S (S (S (length t)))))) with true by lia.
  replace ((0 <=? 1) && (1 <? Z.of_nat (S (S (S (length t)))))) with true by lia.
  replace ((0 <=? 2) && (2 <? Z.of_nat (S (S (S (length t)))))) with true by lia.
  cbn [Z.to_nat]. change (Pos.to_nat 1) with 1%nat. change (Pos.to_nat 2) with 2%nat. cbn [nth_error].
  destruct (b0 =? 10); cbn [negb orb]; [|reflexivity].
  destruct (b1 =? 10); cbn [andb]; reflexivity.
Qed.

(* C13: LookupPreset(max_names, max_prefixes, max_datatypes) exists exactly for 8 <= names <= 4096 and the other
   two <= 4096; anything else is a JellyConformanceError *)
Theorem C13_source_preset_bounds (n p d : Z) :
  match LookupPreset___init__ n p d with
  | Val lp => 8 <= n <= 4096 /\ p <= 4096 /\ d <= 4096 /\ lp = mk_LookupPreset n p d
  | Exn e => e = JellyConformanceError /\ ~ (8 <= n <= 4096 /\ p <= 4096 /\ d <= 4096)
  end.
Proof.
  unfold LookupPreset___init__, LookupPreset___post_init__.
  cbn [LookupPreset_max_names LookupPreset_max_prefixes LookupPreset_max_datatypes].
  destruct (n <? 8) eqn:E1; [split; [reflexivity | lia]|].
  destruct (Z.max (Z.max n p) d >? 4096) eqn:E2; [split; [reflexivity | lia]|].
  repeat split; lia.
Qed.

(* C13: the declared protocol version is 2 exactly when namespace declarations are on, 1 otherwise, whatever
   version the caller passed; construction never fails; no other field changes *)
Theorem C13_source_declared_version (S : strops) (g s d nd : bool) (v : Z) (name : carrier S) :
  StreamParameters___init__ S g s v d nd name = Val (mk_StreamParameters g s (if nd then 2 else 1) d nd name).
Proof.
  unfold StreamParameters___init__, StreamParameters___post_init__.
  cbn [StreamParameters_namespace_declarations]. destruct nd; reflexivity.
Qed.

(* C13: the physical / logical pairs that are refused: both specified, and "triples" on exactly one side
   (logical GRAPHS = 3, SUBJECT_GRAPHS = 13, FLAT_TRIPLES = 1 are the triples-only logical types) *)
Theorem C13_source_type_pairs (p l : Z) :
  match StreamTypes___init__ p l with
  | Val st => st = mk_StreamTypes p l /\
              (p = 0 \/ l = 0 \/ ((p =? 1) = ((l =? 3) || (l =? 13) || (l =? 1))))
  | Exn _ => p <> 0 /\ l <> 0 /\ (p =? 1) <> ((l =? 3) || (l =? 13) || (l =? 1))
  end.
Proof.
  unfold StreamTypes___init__, StreamTypes___post_init__, validate_type_compatibility.
  cbn [StreamTypes_physical_type StreamTypes_logical_type].
  destruct (p =? 0) eqn:Ep; [cbn [orb]; split; [reflexivity | left; lia]|].
  destruct (l =? 0) eqn:El; [cbn [orb]; split; [reflexivity | right; left; lia]|].
  cbn [orb]. cbv zeta.
  destruct (Bool.eqb (p =? 1) ((l =? 3) || (l =? 13) || (l =? 1))) eqn:Eb; cbn [negb].
  - split; [reflexivity|]. right; right. apply Bool.eqb_prop. exact Eb.
  - assert (Hne : (p =? 1) <> ((l =? 3) || (l =? 13) || (l =? 1))).
    { intros Heq. rewrite Heq in Eb. rewrite Bool.eqb_reflx in Eb. discriminate. }
    repeat match goal with |- context [if ?c then _ else _] => destruct c end; (split; [lia | split; [lia | exact Hne]]).
Qed.

(* C18: TermEncoder._entry_index is what bounds a statement: it returns only while the keys the statement has
   touched in this table (the new one included) fit the table, and raises JellyConformanceError -- having
   recorded the key, leaving the table untouched -- as soon as they do not *)
Theorem C18_source_statement_bound (S : strops) (table : LookupEncoder S) (keys : list (carrier S)) (key : carrier S) :
  let keys' := set_add (s_eqb S) key keys in
  match TermEncoder__entry_index S table keys key with
  | (Val _, _, k') => k' = keys' /\ Z.of_nat (length keys') <= Lookup_max_size (LookupEncoder_lookup table)
  | (Exn e, t', k') => k' = keys' /\
      (Z.of_nat (length keys') > Lookup_max_size (LookupEncoder_lookup table) -> e = JellyConformanceError /\ t' = table)
  end.
Proof.
  cbv zeta. unfold TermEncoder__entry_index. unfold seq_len.
  destruct (Z.of_nat (length (set_add (s_eqb S) key keys)) >? Lookup_max_size (LookupEncoder_lookup table)) eqn:E.
  - split; [reflexivity|]. intros _. split; reflexivity.
  - destruct (LookupEncoder_encode_entry_index S key table) as [[r|e] t']; (split; [reflexivity|]); lia.
Qed.

Print Assumptions C08_source_truth_table.
Print Assumptions C13_source_preset_bounds.
Print Assumptions C13_source_declared_version.
Print Assumptions C13_source_type_pairs.
Print Assumptions C18_source_statement_bound.
