(* StreamsTie.v -- source tie for pyjelly/serialize/streams.py: SerializerOptions and the Stream class family
   (Stream / TripleStream / QuadStream / GraphStream as one record with a class tag), translated on every run
   (generated/StreamsGen.v), against the stream functions of model/Streams.v: construction with flow inference,
   enroll / the options row, namespace declarations, triple() and quad() with the failed flag and frame cutting.
   (GraphStream.graph is a generator: not translated.)  Parametric in the integrations' dispatchers, like
   EncodeStmtTie.v. *)
From Coq Require Import Lia ZifyBool.
From PJ.Model Require Import Base Terms Streams.
From PJ.Model Require Lookup Encoder.
From PJ.Tie Require Import PyPrims StrN LookupEncTie OptionsTie EncodeTie EncodeStmtTie FlowsTie.
From PJ.Gen Require Import LookupEncGen OptionsGen EncodeGen FlowsGen StreamsGen.
Local Open Scope Z_scope.

Section Streams.
Context (ig : E.integ).
Context {T : Type} (inj : term -> T) (teqb : T -> T -> bool).
Context (ok : term -> Prop).
Context (H_teqb : forall a b, ok a -> ok b -> teqb (inj a) (inj b) = term_eqb a b).
Context (enc_spo : T -> Z -> pbval str -> TermEncoder SN -> outcome (list (pbval str)) * TermEncoder SN * pbval str).
Context (enc_graph : T -> pbval str -> TermEncoder SN -> outcome (list (pbval str)) * TermEncoder SN * pbval str).
Context (put : Z -> wterm -> pbval str -> pbval str).
Context (H_spo : sim_spo ig inj enc_spo put) (H_graph : sim_graph ig inj enc_graph put).

Notation rmsg := (rmsg put).
Notation Rf := (Rf rmsg).
Notation GStream := (@Stream SN T).
Notation rlist := (rlist inj).
Notation rep_ok := (rep_ok ok).

Definition tag_of_class (c : stream_class) : Stream_cls :=
  match c with TripleStream => K_TripleStream | QuadStream => K_QuadStream | GraphStream => K_GraphStream end.

Definition params_obj (p : sparams) : StreamParameters SN :=
  mk_StreamParameters (p_gen p) (p_star p) (Z.of_N (params_version p)) (p_delimited p) (p_nd p) (p_name p : carrier SN).

(* the options object the stream holds (its StreamParameters already normalised by __post_init__) *)
Definition Ro (go : SerializerOptions SN) (o : soptions) : Prop :=
  match SerializerOptions_flow go, so_flow o with
  | Some gf, Some mf => Rf gf mf
  | None, None => True
  | _, _ => False
  end /\
  SerializerOptions_frame_size go = Z.of_N (so_frame_size o) /\
  SerializerOptions_logical_type go = Z.of_N (so_logical o) /\
  SerializerOptions_params go = params_obj (so_params o) /\
  SerializerOptions_lookup_preset go = mk_LookupPreset (Z.of_N (so_maxn o)) (Z.of_N (so_maxp o)) (Z.of_N (so_maxd o)).

(* Once a statement was refused the stream refuses further use; what the half-updated encoder and repeated terms
   hold then is not observable any more (the model keeps the old ones), so they are related only while usable. *)
Definition Rs (g : GStream) (m : stream) : Prop :=
  Stream_cls_tag SN g = tag_of_class (st_class m) /\
  st_integ m = ig /\
  (st_failed m = false -> Rt (Stream_encoder SN g) (st_enc m) /\ Stream_repeated_terms SN g = rlist (st_rep m) /\ rep_ok (st_rep m)) /\
  Ro (Stream_options SN g) (st_opts m) /\
  Rf (Stream_flow SN g) (st_flow m) /\
  Stream_enrolled SN g = st_enrolled m /\
  Stream_failed SN g = st_failed m /\
  Stream_stream_types SN g = mk_StreamTypes (Z.of_N (physical_type (st_class m))) (Z.of_N (st_logical m)).

Ltac ssimpl := cbn [Stream_cls_tag Stream_encoder Stream_options Stream_flow Stream_repeated_terms Stream_enrolled Stream_failed
  Stream_stream_types set_Stream_encoder set_Stream_options set_Stream_flow set_Stream_repeated_terms set_Stream_enrolled
  set_Stream_failed set_Stream_stream_types st_class st_integ st_opts st_enc st_flow st_rep st_enrolled st_failed st_logical] in *.

(* Stream.ensure_usable *)
Lemma tie_ensure_usable g m : Rs g m ->
  Stream_ensure_usable SN g = (if st_failed m then Exn JellyAssertionError else Val tt, g).
Proof.
  intros (_ & _ & _ & _ & _ & _ & Hf & _). unfold Stream_ensure_usable. rewrite Hf. destruct (st_failed m); reflexivity.
Qed.

(* Stream.enroll: the options row, once *)
Theorem source_enroll_is_model g m : Rs g m ->
  match Stream_enroll SN g with
  | (Val _, g') => Rs g' (enroll m)
  | (Exn _, _) => False
  end.
Proof.
  intros HR. pose proof HR as (Ht & Hi & He & Ho & Hfl & Hen & Hf & Hst).
  unfold Stream_enroll, enroll. rewrite Hen.
  destruct (st_enrolled m) eqn:Een; cbn [negb]; [exact HR|].
  unfold Stream_stream_options.
  pose proof Ho as (Hof & Hofs & Hol & Hop & Hopr). rewrite Hopr, Hst, Hop.
  pose proof (source_encode_options_is_model
                {| o_name := p_name (so_params (st_opts m)); o_phys := physical_type (st_class m);
                   o_gen := p_gen (so_params (st_opts m)); o_star := p_star (so_params (st_opts m));
                   o_maxn := so_maxn (st_opts m); o_maxp := so_maxp (st_opts m); o_maxd := so_maxd (st_opts m);
                   o_logical := st_logical m; o_version := params_version (so_params (st_opts m)) |}
                (p_delimited (so_params (st_opts m))) (p_nd (so_params (st_opts m)))) as Hopt.
  cbn [o_name o_phys o_gen o_star o_maxn o_maxp o_maxd o_logical o_version] in Hopt.
  unfold params_obj. rewrite Hopt. unfold Rs. ssimpl.
  split; [exact Ht|]. split; [exact Hi|]. split; [exact He|]. split; [exact Ho|].
  split; [|split; [reflexivity|]; split; [exact Hf | exact Hst]].
  change [options_msg _] with (map rmsg [options_row m]). apply (Rf_extend rmsg). exact Hfl.
Qed.

Lemma iri_rows_are_entries iri t t' rows p n : E.encode_iri iri t = Ok (t', rows, p, n) -> map rmsg rows = map msg_of_row rows.
Proof.
  unfold E.encode_iri. destruct (E.split_iri iri) as [prefix name0].
  destruct (E.lmax (E.t_prefixes t) =? 0)%N.
  - cbn [bind]. destruct (E.entry_index (E.t_names t) (E.t_nkeys t) iri) as [[[nms nkeys] ne]|]; cbn [bind]; [|discriminate].
    destruct (E.lift KeyErr (Lookup.encode_prefix_term_index str_eqb (is_nil prefix) prefix (E.t_prefixes t))) as [[pfx2 pidx]|]; cbn [bind]; [|discriminate].
    destruct (E.lift KeyErr (Lookup.encode_name_term_index str_eqb iri nms)) as [[nms2 nidx]|]; cbn [bind]; [|discriminate].
    intros H. injection H as <- <- <- <-. destruct ne; reflexivity.
  - destruct (E.entry_index (E.t_prefixes t) (E.t_pkeys t) prefix) as [[[p' k'] oe]|]; cbn [bind]; [|discriminate].
    destruct (E.entry_index (E.t_names t) (E.t_nkeys t) name0) as [[[nms nkeys] ne]|]; cbn [bind]; [|discriminate].
    destruct (E.lift KeyErr (Lookup.encode_prefix_term_index str_eqb (is_nil prefix) prefix p')) as [[pfx2 pidx]|]; cbn [bind]; [|discriminate].
    destruct (E.lift KeyErr (Lookup.encode_name_term_index str_eqb name0 nms)) as [[nms2 nidx]|]; cbn [bind]; [|discriminate].
    intros H. injection H as <- <- <- <-. destruct oe; destruct ne; reflexivity.
Qed.

(* what a refusal leaves: the failed flag set, flow / options / class untouched *)
Lemma Rs_failed g m ge rl : Rs g m ->
  Rs (set_Stream_failed SN true (set_Stream_repeated_terms SN rl (set_Stream_encoder SN ge g))) (set_failed m).
Proof.
  intros (Ht & Hi & He & Ho & Hfl & Hen & Hf & Hst). unfold set_failed, Rs. ssimpl.
  split; [exact Ht|]. split; [exact Hi|]. split; [discriminate|]. split; [exact Ho|]. split; [exact Hfl|].
  split; [exact Hen|]. split; [reflexivity | exact Hst].
Qed.

(* Stream.namespace_declaration *)
Theorem source_namespace_declaration_is_model (name iri : str) g m : Rs g m ->
  match Stream_namespace_declaration SN name iri g, namespace_declaration name iri m with
  | (Val _, g'), (m', Ok _) => Rs g' m'
  | (Exn _, g'), (m', Err _) => Rs g' m'
  | _, _ => False
  end.
Proof.
  intros HR. pose proof HR as (Ht & Hi & He & Ho & Hfl & Hen & Hf & Hst).
  unfold Stream_namespace_declaration, namespace_declaration.
  rewrite (tie_ensure_usable g m HR).
  destruct (st_failed m) eqn:Ef; [exact HR|].
  destruct (He eq_refl) as [HRt Hrep].
  pose proof (source_encode_namespace_declaration_is_model name iri (Stream_encoder SN g) (st_enc m) HRt) as H.
  unfold E.encode_namespace_declaration in *.
  destruct (encode_namespace_declaration SN name iri (Stream_encoder SN g)) as [[rows|e] ge'];
    destruct (E.encode_iri iri (E.start_statement (st_enc m))) as [[[[t' mrows] p] n]|e'] eqn:Eiri; cbn [bind] in *; try contradiction.
  - destruct H as (entries & p0 & n0 & Heq & -> & HRt').
    apply app_inj_tail in Heq. destruct Heq as [<- Heq]. injection Heq as <- <-.
    unfold with_enc, Rs. ssimpl. split; [exact Ht|]. split; [exact Hi|]. split; [intros _; split; [exact HRt' | exact Hrep]|]. split; [exact Ho|].
    split; [|split; [exact Hen|]; split; [first [exact Hf | rewrite Hf; first [exact Ef | symmetry; exact Ef | reflexivity]] | exact Hst]].
    rewrite <- (iri_rows_are_entries _ _ _ _ _ _ Eiri).
    change (map rmsg mrows ++ [ns_msg name p n]) with (map rmsg mrows ++ map rmsg [RNamespace name p n]).
    rewrite <- map_app. apply (Rf_extend rmsg). exact Hfl.
  - (* refused: the stream is marked failed *)
    pose proof (Rs_failed g m ge' (Stream_repeated_terms SN g) HR) as HF.
    assert (Hsame : set_Stream_repeated_terms SN (Stream_repeated_terms SN g) (set_Stream_encoder SN ge' g) = set_Stream_encoder SN ge' g)
      by (destruct g; reflexivity).
    rewrite Hsame in HF. exact HF.
Qed.

Notation gen_triple := (Stream_triple SN teqb enc_spo).
Notation gen_quad := (Stream_quad SN teqb enc_spo enc_graph).

(* TripleStream.triple (GraphStream inherits it) *)
Theorem source_stream_triple_is_model (terms : list term) g m : Rs g m -> st_class m <> QuadStream -> Forall ok terms ->
  match gen_triple (map inj terms) g, stream_triple terms m with
  | (Val fr, g', _), (m', Ok mfr) => fr = option_map (frame_msg rmsg) mfr /\ Rs g' m'
  | (Exn _, g', _), (m', Err _) => Rs g' m'
  | _, _ => False
  end.
Proof.
  intros HR Hc Hok. pose proof HR as (Ht & Hi & He & Ho & Hfl & Hen & Hf & Hst).
  unfold Stream_triple, stream_triple. rewrite Ht.
  destruct (st_class m) eqn:Ec; [|contradiction|]; cbn [tag_of_class];
    (rewrite (tie_ensure_usable g m HR); unfold refuse;
     destruct (st_failed m) eqn:Ef; [exact HR|];
     destruct (He eq_refl) as (HRt & Hrep & Hrok); rewrite Hrep, Hi;
     pose proof (source_encode_triple_is_model ig inj teqb ok H_teqb enc_spo put H_spo terms (st_rep m) (Stream_encoder SN g) (st_enc m) HRt Hok Hrok) as H;
     destruct (encode_triple SN teqb enc_spo (map inj terms) (Stream_encoder SN g) (rlist (st_rep m))) as [[[[rows|e] terms'] ge'] rl'];
     destruct (E.encode_triple ig terms (st_enc m) (st_rep m)) as [[[t' rp'] mrows]|e']; try contradiction;
     [ destruct H as (-> & HRt' & -> & _ & Hrok'); ssimpl;
       pose proof (Rf_extend rmsg _ _ mrows Hfl) as Hext;
       pose proof (source_frame_from_bounds_is_model rmsg _ _ Hext) as Hb;
       destruct (FrameFlow_frame_from_bounds SN (set_FrameFlow_data SN (FrameFlow_data (Stream_flow SN g) ++ map rmsg mrows) (Stream_flow SN g))) as [[fr|eb] gf'];
       destruct (frame_from_bounds (flow_extend (st_flow m) mrows)) as [mf' mfr]; [|contradiction];
       destruct Hb as [-> Hfl']; split; [reflexivity|]; unfold with_enc, Rs; ssimpl;
       split; [rewrite Ht, Ec; reflexivity|]; split; [exact Hi|]; split; [intros _; split; [exact HRt' | split; [reflexivity | exact Hrok']]|]; split; [exact Ho|];
       split; [exact Hfl'|]; split; [exact Hen|]; split; [first [exact Hf | rewrite Hf; first [exact Ef | symmetry; exact Ef | reflexivity]] | first [exact Hst | rewrite Hst, Ec; reflexivity]]
     | ssimpl; apply Rs_failed; exact HR ]).
Qed.

(* QuadStream.quad *)
Theorem source_stream_quad_is_model (terms : list term) g m : Rs g m -> st_class m = QuadStream -> Forall ok terms ->
  match gen_quad (map inj terms) g, stream_quad terms m with
  | (Val fr, g', _), (m', Ok mfr) => fr = option_map (frame_msg rmsg) mfr /\ Rs g' m'
  | (Exn _, g', _), (m', Err _) => Rs g' m'
  | _, _ => False
  end.
Proof.
  intros HR Hc Hok. pose proof HR as (Ht & Hi & He & Ho & Hfl & Hen & Hf & Hst).
  unfold Stream_quad, stream_quad. rewrite Ht, Hc. cbn [tag_of_class].
  rewrite (tie_ensure_usable g m HR). unfold refuse.
  destruct (st_failed m) eqn:Ef; [exact HR|].
  destruct (He eq_refl) as (HRt & Hrep & Hrok). rewrite Hrep, Hi.
  pose proof (source_encode_quad_is_model ig inj teqb ok H_teqb enc_spo enc_graph put H_spo H_graph terms (st_rep m) (Stream_encoder SN g) (st_enc m) HRt Hok Hrok) as H.
  destruct (encode_quad SN teqb enc_spo enc_graph (map inj terms) (Stream_encoder SN g) (rlist (st_rep m))) as [[[[rows|e] terms'] ge'] rl'];
    destruct (E.encode_quad ig terms (st_enc m) (st_rep m)) as [[[t' rp'] mrows]|e']; try contradiction.
  - destruct H as (-> & HRt' & -> & _ & Hrok'). ssimpl.
    pose proof (Rf_extend rmsg _ _ mrows Hfl) as Hext.
    pose proof (source_frame_from_bounds_is_model rmsg _ _ Hext) as Hb.
    destruct (FrameFlow_frame_from_bounds SN (set_FrameFlow_data SN (FrameFlow_data (Stream_flow SN g) ++ map rmsg mrows) (Stream_flow SN g))) as [[fr|eb] gf'];
      destruct (frame_from_bounds (flow_extend (st_flow m) mrows)) as [mf' mfr]; [|contradiction].
    destruct Hb as [-> Hfl']. split; [reflexivity|]. unfold with_enc, Rs. ssimpl.
    split; [rewrite Ht, Hc; reflexivity|]. split; [exact Hi|]. split; [intros _; split; [exact HRt' | split; [reflexivity | exact Hrok']]|]. split; [exact Ho|].
    split; [exact Hfl'|]. split; [exact Hen|]. split; [first [exact Hf | rewrite Hf; first [exact Ef | symmetry; exact Ef | reflexivity]] | first [exact Hst | rewrite Hst, Hc; reflexivity]].
  - ssimpl. apply Rs_failed. exact HR.
Qed.

(* ------------------------------------------------------------------ GraphStream.graph (a generator) *)
Fixpoint emitted (evs : list tev) : list frame :=
  match evs with
  | [] => []
  | Emit f :: rest => f :: emitted rest
  | _ :: rest => emitted rest
  end.

Lemma emitted_app a b : emitted (a ++ b) = emitted a ++ emitted b.
Proof. induction a as [|[|f|e] a IH]; cbn; [reflexivity | exact IH | now rewrite IH | exact IH]. Qed.

Lemma emitted_emit_opt o : map (frame_msg rmsg) (emitted (emit_opt o)) = match option_map (frame_msg rmsg) o with Some f => [f] | None => [] end.
Proof. destruct o; reflexivity. Qed.

Notation gen_graph := (Stream_graph SN teqb enc_spo enc_graph).

(* the frames it yields are the model's Emit events, in order; it ends normally exactly when the model does; the stream
   it leaves is the model's *)
Theorem source_stream_graph_is_model (gid : term) (triples : list (list term)) g m : Rs g m -> st_class m = GraphStream ->
  Forall (Forall ok) triples ->
  match gen_graph (inj gid) (map (map inj) triples) g, stream_graph gid triples m with
  | (r, g', _, ys), (m', evs, ok) =>
      Rs g' m' /\ ys = map (frame_msg rmsg) (emitted evs) /\ (match r with Val _ => ok = true | Exn _ => ok = false end)
  end.
Proof.
  intros HR Hc Hoks. pose proof HR as (Ht & Hi & He & Ho & Hfl & Hen & Hf & Hst).
  unfold Stream_graph, stream_graph. rewrite Ht, Hc. cbn [tag_of_class]. cbv zeta.
  rewrite (tie_ensure_usable g m HR).
  destruct (st_failed m) eqn:Ef; [split; [exact HR|]; split; reflexivity|].
  destruct (He eq_refl) as (HRt & Hrep & Hrok).
  pose proof (source_start_statement_is_model (Stream_encoder SN g) (st_enc m) HRt) as H0.
  destruct (TermEncoder_start_statement SN (Stream_encoder SN g)) as [[u|e0] ge0]; [|contradiction].
  unfold E.encode_graph_start. rewrite Hi.
  pose proof (H_graph gid (PMsg "RdfGraphStart" []) ge0 (E.start_statement (st_enc m)) H0
                ltac:(exists "RdfGraphStart"%string, (@None wterm), (@None wterm), (@None wterm); split; [right; right; left; reflexivity | reflexivity])) as Hg.
  cbn [Stream_encoder set_Stream_encoder]. norm.
  destruct (enc_graph (inj gid) (PMsg "RdfGraphStart" []) ge0) as [[[grows|eg] ge1] gstart];
    destruct (E.encode_graph_term ig gid (E.start_statement (st_enc m))) as [[[t1 mrows] w]|e'] eqn:Egt; try contradiction; cbn [bind]; cbv beta iota zeta.
  2:{ (* the graph name is refused *)
      split; [|split; reflexivity].
      pose proof (Rs_failed g m ge1 (Stream_repeated_terms SN g) HR) as HF.
      assert (Hsame : set_Stream_repeated_terms SN (Stream_repeated_terms SN g) (set_Stream_encoder SN ge1 g) = set_Stream_encoder SN ge1 g)
        by (destruct g; reflexivity).
      rewrite Hsame in HF. exact HF. }
  destruct Hg as (-> & HRt1 & ->).
  (* the stream once the graph start is in the flow *)
  set (g1 := set_Stream_flow SN _ _).
  set (m1 := with_enc m t1 (st_rep m) (flow_extend (st_flow m) (mrows ++ [RGraphStart (Some w)]))).
  assert (HR1 : Rs g1 m1).
  { unfold g1, m1, with_enc, Rs. ssimpl.
    split; [exact Ht|]. split; [exact Hi|]. split; [intros _; split; [exact HRt1 | split; [exact Hrep | exact Hrok]]|]. split; [exact Ho|].
    split; [|split; [exact Hen|]; split; [rewrite Hf; symmetry; exact Ef | exact Hst]].
    replace (map rmsg mrows ++ [PMsg "RdfStreamRow" [("graph_start"%string, put 3 w (PMsg "RdfGraphStart" []))]])
      with (map rmsg (mrows ++ [RGraphStart (Some w)])) by (rewrite map_app; reflexivity).
    apply (Rf_extend rmsg). exact Hfl. }
  assert (Hc1 : st_class m1 = GraphStream) by exact Hc.
  (* the loop over the triples *)
  match goal with |- context [?f (map (map inj) triples) (g1, map (map inj) triples, @nil (pbval str))] => set (loop := f) end.
  assert (Hloop : forall (xs : list (list term)) (gx : GStream) (mx : stream) (gr : list (list T)) (ys : list (pbval str)),
             Rs gx mx -> st_class mx = GraphStream -> Forall (Forall ok) xs ->
             match loop (map (map inj) xs) (gx, gr, ys), graph_triples xs mx with
             | LContinue (g', _, ys'), (m', evs, true) => Rs g' m' /\ ys' = ys ++ map (frame_msg rmsg) (emitted evs) /\ st_class m' = GraphStream
             | LRaise _ (g', _, ys'), (m', evs, false) => Rs g' m' /\ ys' = ys ++ map (frame_msg rmsg) (emitted evs)
             | _, _ => False
             end).
  { induction xs as [|tr xs IH]; intros gx mx gr ys HRx Hcx Hxs.
    - cbn. split; [exact HRx|]. split; [rewrite app_nil_r; reflexivity | exact Hcx].
    - cbn [graph_triples map]. unfold loop at 1. fold loop. cbv beta iota.
      pose proof (source_stream_triple_is_model tr gx mx HRx ltac:(rewrite Hcx; discriminate) (Forall_inv Hxs)) as Hstep.
      destruct (gen_triple (map inj tr) gx) as [[[fr|e] gx'] tr'];
        destruct (stream_triple tr mx) as [mx' [mfr|e']] eqn:Est; try contradiction.
      + destruct Hstep as [-> HRx'].
        assert (Hcx' : st_class mx' = GraphStream).
        { unfold stream_triple in Est. destruct (st_failed mx); [injection Est as <- _; exact Hcx|].
          destruct (E.encode_triple (st_integ mx) tr (st_enc mx) (st_rep mx)) as [[[t' rp'] rws]|]; [|discriminate].
          destruct (frame_from_bounds (flow_extend (st_flow mx) rws)) as [fl fr0]. injection Est as <- _. exact Hcx. }
        destruct mfr as [f|]; cbn [option_map].
        * specialize (IH gx' mx' gr (ys ++ [frame_msg rmsg f]) HRx' Hcx' (Forall_inv_tail Hxs)).
          destruct (loop (map (map inj) xs) (gx', gr, ys ++ [frame_msg rmsg f])) as [[[g' gr'] ys']|rv [[g' gr'] ys']|e [[g' gr'] ys']];
            destruct (graph_triples xs mx') as [[m' evs] okb]; destruct okb; try contradiction.
          -- destruct IH as (HR' & -> & Hc'). split; [exact HR'|]. split; [|exact Hc'].
             cbn [emit_opt app emitted map]. rewrite <- app_assoc. reflexivity.
          -- destruct IH as (HR' & ->). split; [exact HR'|]. cbn [emit_opt app emitted map]. rewrite <- app_assoc. reflexivity.
        * specialize (IH gx' mx' gr ys HRx' Hcx' (Forall_inv_tail Hxs)).
          destruct (loop (map (map inj) xs) (gx', gr, ys)) as [[[g' gr'] ys']|rv [[g' gr'] ys']|e [[g' gr'] ys']];
            destruct (graph_triples xs mx') as [[m' evs] okb]; destruct okb; try contradiction; exact IH.
      + cbn. split; [exact Hstep | rewrite app_nil_r; reflexivity]. }
  specialize (Hloop triples g1 m1 (map (map inj) triples) [] HR1 Hc1 Hoks).
  destruct (loop (map (map inj) triples) (g1, map (map inj) triples, [])) as [[[g2 gr2] ys2]|rv [[g2 gr2] ys2]|e [[g2 gr2] ys2]];
    destruct (graph_triples triples m1) as [[m2 evs] okb]; destruct okb; try contradiction.
  - (* all triples accepted: the graph end, then a frame if the flow is full *)
    destruct Hloop as (HR2 & -> & Hc2). cbn [app].
    pose proof HR2 as (Ht2 & Hi2 & He2 & Ho2 & Hfl2 & Hen2 & Hf2 & Hst2).
    pose proof (Rf_extend rmsg _ _ [RGraphEnd] Hfl2) as Hext. cbn [map EncodeStmtTie.rmsg] in Hext.
    pose proof (source_frame_from_bounds_is_model rmsg _ _ Hext) as Hb.
    cbn [Stream_flow set_Stream_flow].
    norm.
    match goal with |- context [FrameFlow_frame_from_bounds SN ?f] => destruct (FrameFlow_frame_from_bounds SN f) as [[fr|eb] gf'] end;
      destruct (frame_from_bounds (flow_extend (st_flow m2) [RGraphEnd])) as [mf' mfr]; [|contradiction].
    destruct Hb as [-> Hfl'].
    assert (HR3 : Rs (set_Stream_flow SN gf' (set_Stream_flow SN (set_FrameFlow_data SN (FrameFlow_data (Stream_flow SN g2) ++ [PMsg "RdfStreamRow" [("graph_end"%string, PMsg "RdfGraphEnd" [])]]) (Stream_flow SN g2)) g2))
                     (with_flow m2 mf')).
    { unfold with_flow, Rs. ssimpl. split; [exact Ht2|]. split; [exact Hi2|]. split; [exact He2|]. split; [exact Ho2|].
      split; [exact Hfl'|]. split; [exact Hen2|]. split; [exact Hf2 | exact Hst2]. }
    destruct mfr as [f|]; cbn [option_map]; (split; [exact HR3|]; split; [|reflexivity]);
      rewrite emitted_app, map_app; cbn [emit_opt emitted map]; rewrite ?app_nil_r; reflexivity.
  - (* a triple was refused *)
    destruct Hloop as (HR2 & ->). split; [exact HR2|]. split; reflexivity.
Qed.

(* ------------------------------------------------------------------ construction *)
Definition ctor (c : stream_class) :=
  match c with
  | TripleStream => @TripleStream___init__ SN T
  | QuadStream => @QuadStream___init__ SN T
  | GraphStream => @GraphStream___init__ SN T
  end.

Lemma finish_ok (c : stream_class) genc gopts gflow (o : soptions) (fl : flow) :
  Rt genc (E.tenc_init (so_maxn o) (so_maxp o) (so_maxd o)) -> Ro gopts o -> Rf gflow fl ->
  match (match StreamTypes___init__ (Z.of_N (physical_type c)) (FrameFlow_logical_type gflow) with
         | Exn e => Exn e
         | Val st => Val (mk_Stream SN (tag_of_class c) genc gopts gflow (tuple_repeat (None : option T) 4) false false st)
         end),
        (if negb (type_compat (physical_type c) (fl_logical fl)) then Err JAssertion else
         Ok {| st_class := c; st_integ := ig; st_opts := o;
               st_enc := E.tenc_init (so_maxn o) (so_maxp o) (so_maxd o);
               st_flow := fl; st_rep := E.repeated_init;
               st_enrolled := false; st_failed := false; st_logical := fl_logical fl |}) with
  | Val g, Ok m => Rs g m
  | Exn _, Err _ => True
  | _, _ => False
  end.
Proof.
  intros HRt HRo HRf. pose proof HRf as (_ & _ & Hlog & _). rewrite Hlog.
  pose proof (OptionsTie.source_stream_types_is_model (physical_type c) (fl_logical fl)) as Hst.
  destruct (StreamTypes___init__ (Z.of_N (physical_type c)) (Z.of_N (fl_logical fl))) as [st|e].
  - destruct Hst as (Hc & -> & _). rewrite Hc. cbn [negb].
    unfold Rs. ssimpl. split; [reflexivity|]. split; [reflexivity|]. split; [intros _; split; [exact HRt | split; [reflexivity | repeat split]]|].
    split; [exact HRo|]. split; [exact HRf|]. split; [reflexivity|]. split; reflexivity.
  - rewrite Hst. exact I.
Qed.

Lemma bounded_tags (k : flow_kind) :
  (FrameFlow_cls_eqb (tag_of k) K_BoundedFrameFlow || FrameFlow_cls_eqb (tag_of k) K_FlatTriplesFrameFlow
   || FrameFlow_cls_eqb (tag_of k) K_FlatQuadsFrameFlow)%bool = is_bounded k.
Proof. destruct k; reflexivity. Qed.

Theorem source_stream_new_is_model (c : stream_class) (o : soptions) genc gopts :
  preset_ok (so_maxn o) (so_maxp o) (so_maxd o) = true ->
  Rt genc (E.tenc_init (so_maxn o) (so_maxp o) (so_maxd o)) -> Ro gopts o ->
  match ctor c genc (Some gopts), stream_new c ig o with
  | Val g, Ok m => Rs g m
  | Exn _, Err _ => True
  | _, _ => False
  end.
Proof.
  intros Hpre HRt HRo. pose proof HRo as (Hof & Hofs & Hol & Hop & Hopr).
  unfold stream_new. rewrite Hpre. cbn [negb bind].
  assert (Hdel : StreamParameters_delimited (SerializerOptions_params gopts) = p_delimited (so_params o)) by (rewrite Hop; reflexivity).
  destruct (so_flow o) as [mf|] eqn:Emf; destruct (SerializerOptions_flow gopts) as [gf|] eqn:Egf; try contradiction.
  - (* the flow was given *)
    cbn [bind]. destruct c; unfold ctor, TripleStream___init__, QuadStream___init__, GraphStream___init__; rewrite Egf;
      cbv beta iota zeta; first [apply (finish_ok TripleStream genc gopts gf o mf HRt HRo Hof) | apply (finish_ok QuadStream genc gopts gf o mf HRt HRo Hof) | apply (finish_ok GraphStream genc gopts gf o mf HRt HRo Hof)].
  - (* the flow is inferred *)
    unfold infer_flow.
    assert (Hinfer : forall (k : flow_kind) (fs : option N),
      exists gf, (match k with
                  | FManual => ManualFrameFlow___init__ SN None (Some (SerializerOptions_logical_type gopts))
                  | FBounded => BoundedFrameFlow___init__ SN None (Some (SerializerOptions_logical_type gopts)) (oz fs)
                  | FFlatTriples => FlatTriplesFrameFlow___init__ SN None (Some (SerializerOptions_logical_type gopts)) (oz fs)
                  | FFlatQuads => FlatQuadsFrameFlow___init__ SN None (Some (SerializerOptions_logical_type gopts)) (oz fs)
                  | FGraphs => GraphsFrameFlow___init__ SN None (Some (SerializerOptions_logical_type gopts))
                  | FDatasets => DatasetsFrameFlow___init__ SN None (Some (SerializerOptions_logical_type gopts))
                  end) = Val gf /\ Rf gf (flow_new k (so_logical o) (match fs with Some s => s | None => 0%N end))).
    { intros k fs. rewrite Hol. exact (source_flow_new_is_model rmsg k (Some (so_logical o)) fs). }
    destruct c; unfold ctor, TripleStream___init__, QuadStream___init__, GraphStream___init__; rewrite Egf, Hdel, Hol, Hofs;
      cbv beta iota zeta;
      (destruct (p_delimited (so_params o));
       [ destruct (so_logical o =? 0)%N eqn:El;
         [ replace (Z.of_N (so_logical o) =? 0) with true by lia; cbn [negb bind default_flow_class is_bounded];
           match goal with
           | |- context [FlatTriplesFrameFlow___init__] => destruct (Hinfer FFlatTriples (Some (so_frame_size o))) as (gf & Hgf & HRf)
           | |- context [FlatQuadsFrameFlow___init__] => destruct (Hinfer FFlatQuads (Some (so_frame_size o))) as (gf & Hgf & HRf)
           end;
           cbn [oz option_map] in Hgf; rewrite Hol in Hgf; rewrite Hgf; cbv beta iota zeta;
           first [apply (finish_ok TripleStream genc gopts gf o _ HRt HRo HRf) | apply (finish_ok QuadStream genc gopts gf o _ HRt HRo HRf) | apply (finish_ok GraphStream genc gopts gf o _ HRt HRo HRf)]
         | replace (Z.of_N (so_logical o) =? 0) with false by lia; cbn [negb];
           pose proof (source_flow_for_type_is_model (so_logical o)) as Hft;
           destruct (FlowsGen.flow_for_type (Z.of_N (so_logical o))) as [tg|e];
           destruct (Streams.flow_for_type (so_logical o)) as [k|e']; try contradiction; cbn [bind]; [|exact I];
           subst tg; cbv beta iota zeta; rewrite bounded_tags;
           destruct (is_bounded k) eqn:Eb;
           [ destruct (Hinfer k (Some (so_frame_size o))) as (gf & Hgf & HRf)
           | destruct (Hinfer k None) as (gf & Hgf & HRf) ];
           cbn [oz option_map] in Hgf; rewrite Hol in Hgf;
           (destruct k; try discriminate; cbn [tag_of]; rewrite Hgf; cbv beta iota zeta; cbn [bind];
            first [apply (finish_ok TripleStream genc gopts gf o _ HRt HRo HRf) | apply (finish_ok QuadStream genc gopts gf o _ HRt HRo HRf) | apply (finish_ok GraphStream genc gopts gf o _ HRt HRo HRf)]) ]
       | cbn [bind]; destruct (Hinfer FManual None) as (gf & Hgf & HRf); rewrite Hol in Hgf; rewrite Hgf; cbv beta iota zeta;
         first [apply (finish_ok TripleStream genc gopts gf o _ HRt HRo HRf) | apply (finish_ok QuadStream genc gopts gf o _ HRt HRo HRf) | apply (finish_ok GraphStream genc gopts gf o _ HRt HRo HRf)] ]).
Qed.

End Streams.

Print Assumptions source_stream_new_is_model.
Print Assumptions source_enroll_is_model.
Print Assumptions source_namespace_declaration_is_model.
Print Assumptions source_stream_triple_is_model.
Print Assumptions source_stream_quad_is_model.
Print Assumptions source_stream_graph_is_model.
