(* RdflibDriversTie.v -- source tie for the writer drivers of the rdflib integration (pyjelly/integrations/rdflib/serialize.py:
   namespace_declarations, triples_stream_frames, quads_stream_frames, graphs_stream_frames, the singledispatch stream_frames),
   translated on every run once per kind of `data` -- an rdflib Graph, an rdflib Dataset (the stand-ins of
   translate/stubs/rdflib_containers.py: a container is the sequences the real one hands out, in the order it hands them out),
   or a generator -- against the rdflib drivers of model/Streams.v (rdf_*; `rdata` holds the same sequences).

   Statements of terms on which rdflib's == is the model's equality (rd_ok, RdflibSerializeTie.v). *)
From Coq Require Import Lia ZifyBool.
From PJ.Model Require Import Base Terms Encoder Streams.
From PJ.Model Require Lookup.
From PJ.Tie Require Import PyPrims StrN LookupEncTie OptionsTie EncodeTie EncodeStmtTie FlowsTie StreamsTie DecoderBase StmtLayout RdflibSerializeTie.
From PJ.Gen Require Import LookupEncGen OptionsGen EncodeGen FlowsGen StreamsGen RdflibSerializeGen.
Local Open Scope Z_scope.

Notation robj := (obj SN).
Notation RStream := (@Stream SN robj).
Notation rRs := (Rs E.Rdflib robj_of_term rd_ok gput).
Notation fmsg := (frame_msg (rmsg gput)).
Notation rterms := (map robj_of_term).

Definition stmts_ok (l : list (list term)) : Prop := Forall (Forall rd_ok) l.

(* ------------------------------------------------------------------ small facts (as in GenericDriversTie.v, at the rdflib instance) *)
Lemma raised_app a b : raised (a ++ b) = match raised a with Some e => Some e | None => raised b end.
Proof. induction a as [|[|f|e] a IH]; cbn; try exact IH; reflexivity. Qed.
Lemma raised_emit_opt o : raised (emit_opt o) = None.
Proof. destruct o; reflexivity. Qed.
Definition ends (r : outcome unit) (evs : list tev) : Prop :=
  match r, raised evs with Val _, None => True | Exn _, Some _ => True | _, _ => False end.

Lemma rRs_with_flow g m gf mf : rRs g m -> Rf (rmsg gput) gf mf -> rRs (set_Stream_flow SN gf g) (with_flow m mf).
Proof.
  intros (Ht & Hi & He & Ho & Hfl & Hen & Hf & Hst) HRf. unfold with_flow, Rs.
  cbn [Stream_cls_tag Stream_encoder Stream_options Stream_flow Stream_repeated_terms Stream_enrolled Stream_failed
       Stream_stream_types set_Stream_flow st_class st_integ st_opts st_enc st_flow st_rep st_enrolled st_failed st_logical].
  split; [exact Ht|]. split; [exact Hi|]. split; [exact He|]. split; [exact Ho|]. split; [exact HRf|]. split; [exact Hen|]. split; [exact Hf | exact Hst].
Qed.

Lemma nd_of_rRs g m : rRs g m -> StreamParameters_namespace_declarations (SerializerOptions_params (Stream_options SN g)) = p_nd (so_params (st_opts m)).
Proof. intros (_ & _ & _ & (_ & _ & _ & Hp & _) & _). rewrite Hp. reflexivity. Qed.

Lemma enroll_class m : st_class (enroll m) = st_class m.
Proof. unfold enroll. destruct (st_enrolled m); reflexivity. Qed.

Lemma stream_triple_class terms m m' r : stream_triple terms m = (m', r) -> st_class m' = st_class m.
Proof.
  unfold stream_triple, refuse. destruct (st_failed m); [intros [= <- _]; reflexivity|].
  destruct (E.encode_triple (st_integ m) terms (st_enc m) (st_rep m)) as [[[t' rp'] rws]|]; [|intros [= <- _]; reflexivity].
  destruct (frame_from_bounds (flow_extend (st_flow m) rws)) as [fl fr0]. intros [= <- _]. reflexivity.
Qed.

Lemma stream_quad_class terms m m' r : stream_quad terms m = (m', r) -> st_class m' = st_class m.
Proof.
  unfold stream_quad, refuse. destruct (st_failed m); [intros [= <- _]; reflexivity|].
  destruct (E.encode_quad (st_integ m) terms (st_enc m) (st_rep m)) as [[[t' rp'] rws]|]; [|intros [= <- _]; reflexivity].
  destruct (frame_from_bounds (flow_extend (st_flow m) rws)) as [fl fr0]. intros [= <- _]. reflexivity.
Qed.

Lemma namespace_declaration_class n i m m' r : namespace_declaration n i m = (m', r) -> st_class m' = st_class m.
Proof.
  unfold namespace_declaration, refuse. destruct (st_failed m); [intros [= <- _]; reflexivity|].
  destruct (E.encode_namespace_declaration n i (st_enc m)) as [[t' rws]|]; intros [= <- _]; reflexivity.
Qed.

Lemma declare_all_class ns : forall m m' r, declare_all ns m = (m', r) -> st_class m' = st_class m.
Proof.
  induction ns as [|[n i] ns IH]; intros m m' r; cbn [declare_all]; [intros [= <- _]; reflexivity|].
  destruct (namespace_declaration n i m) as [m1 [u|e]] eqn:E; pose proof (namespace_declaration_class _ _ _ _ _ E) as H1.
  - intros H. rewrite (IH _ _ _ H). exact H1.
  - intros [= <- _]. exact H1.
Qed.

(* ------------------------------------------------------------------ the loop over the statements of one graph / of the generator *)
Section InnerLoop.
Context {D : Type}.
Context (li : list (list robj) -> RStream * D * list (pbval str) -> loopres unit (RStream * D * list (pbval str))).
Context (gen_step : list robj -> RStream -> outcome (option (pbval str)) * RStream * list robj).
Context (step : list term -> stream -> step_result).
Context (P : stream -> Prop).
Context (H_nil : forall st, li [] st = LContinue st).
Context (H_cons : forall s xs gx (k : D) ys,
  li (s :: xs) (gx, k, ys) =
  match gen_step s gx with
  | (Val (Some frame), stream0, _) => li xs (stream0, k, ys ++ [frame])
  | (Val None, stream0, _) => li xs (stream0, k, ys)
  | (Exn e, stream0, _) => LRaise e (stream0, k, ys)
  end).
Context (H_step : forall st gx mx, rRs gx mx -> P mx -> Forall rd_ok st ->
  match gen_step (rterms st) gx, step st mx with
  | (Val fr, g', _), (m', Ok mfr) => fr = option_map fmsg mfr /\ rRs g' m'
  | (Exn _, g', _), (m', Err _) => rRs g' m'
  | _, _ => False
  end).
Context (H_P : forall st mx mx' r, step st mx = (mx', r) -> P mx -> P mx').

Lemma inner_loop_is_feed : forall xs, stmts_ok xs -> forall gx mx ys (k : D), rRs gx mx -> P mx ->
  match li (map rterms xs) (gx, k, ys), feed step xs mx with
  | LContinue (g', k', ys'), (m', evs, true) =>
      rRs g' m' /\ k' = k /\ ys' = ys ++ map fmsg (emitted evs) /\ P m' /\ raised evs = None
  | LRaise _ (g', k', ys'), (m', evs, false) =>
      rRs g' m' /\ k' = k /\ ys' = ys ++ map fmsg (emitted evs) /\ raised evs <> None
  | _, _ => False
  end.
Proof.
  induction 1 as [|st xs Hst _ IH]; intros gx mx ys k HRx HPx.
  - cbn [map feed]. rewrite H_nil. split; [exact HRx|]. split; [reflexivity|]. split; [cbn; rewrite app_nil_r; reflexivity|]. split; [exact HPx | reflexivity].
  - cbn [map feed]. rewrite H_cons.
    pose proof (H_step st gx mx HRx HPx Hst) as Hstep.
    destruct (gen_step (rterms st) gx) as [[[fr|e] gx'] tr']; destruct (step st mx) as [mx' [mfr|e']] eqn:Est; try contradiction.
    + destruct Hstep as [-> HRx']. pose proof (H_P _ _ _ _ Est HPx) as HPx'.
      destruct mfr as [f|]; cbn [option_map].
      * specialize (IH gx' mx' (ys ++ [fmsg f]) k HRx' HPx').
        destruct (li (map rterms xs) (gx', k, ys ++ [fmsg f])) as [[[g' k'] ys']|rv [[g' k'] ys']|e [[g' k'] ys']];
          destruct (feed step xs mx') as [[m' evs] okb]; destruct okb; try contradiction.
        -- destruct IH as (HR' & -> & -> & HP' & Hr). split; [exact HR'|]. split; [reflexivity|].
           split; [cbn [emit_opt app emitted map]; rewrite <- app_assoc; reflexivity|]. split; [exact HP' | exact Hr].
        -- destruct IH as (HR' & -> & -> & Hr). split; [exact HR'|]. split; [reflexivity|].
           split; [cbn [emit_opt app emitted map]; rewrite <- app_assoc; reflexivity | exact Hr].
      * specialize (IH gx' mx' ys k HRx' HPx').
        destruct (li (map rterms xs) (gx', k, ys)) as [[[g' k'] ys']|rv [[g' k'] ys']|e [[g' k'] ys']];
          destruct (feed step xs mx') as [[m' evs] okb]; destruct okb; try contradiction.
        -- destruct IH as (HR' & -> & -> & HP' & Hr). split; [exact HR'|]. split; [reflexivity|]. split; [reflexivity|]. split; [exact HP' | exact Hr].
        -- destruct IH as (HR' & -> & -> & Hr). split; [exact HR'|]. split; [reflexivity|]. split; [reflexivity | exact Hr].
    + split; [exact Hstep|]. split; [reflexivity|]. split; [cbn; rewrite app_nil_r; reflexivity | cbn; discriminate].
Qed.
End InnerLoop.

(* ------------------------------------------------------------------ the containers *)
Definition ns_objs (ns : list (str * str)) : list (str * robj) := map (fun ni : str * str => (fst ni, @O_URIRef SN (snd ni))) ns.
Definition graph_of (gt : term * list (list term)) (ns : list (str * robj)) : Graph SN :=
  mk_Graph (robj_of_term (fst gt)) (map rterms (snd gt)) ns.

(* a Graph: what iterating it gives, and its bindings *)
Definition RGr (k : Graph SN) (d : rdata) : Prop :=
  rd_kind d = RGraph /\ Graph__triples k = map rterms (rd_stmts d) /\ Graph__namespaces k = ns_objs (rd_namespaces d).
(* a Dataset: its graphs() (identifier and triples of each), its quads(), its bindings *)
Definition RDs (k : Dataset SN) (d : rdata) : Prop :=
  rd_kind d = RDataset /\ Dataset__quads k = map rterms (rd_stmts d) /\ Dataset__namespaces k = ns_objs (rd_namespaces d) /\
  Forall2 (fun gk gt => Graph_identifier gk = robj_of_term (fst gt) /\ Graph__triples gk = map rterms (snd gt)) (Dataset__graphs k) (rd_graphs d).
(* a generator *)
Definition RGn (data : list (list robj)) (d : rdata) : Prop := rd_kind d = RGen /\ data = map rterms (rd_stmts d).

(* ------------------------------------------------------------------ namespace_declarations(store, stream): over the bindings *)
Lemma ns_loop_is_declare_all {ST : Type} (lp : list (str * robj) -> ST * RStream -> loopres unit (ST * RStream)) :
  (forall st, lp [] st = LContinue st) ->
  (forall n i rest k g, lp ((n, @O_URIRef SN i) :: rest) (k, g) =
     let '(r, g') := Stream_namespace_declaration SN n i g in
     match r with Exn e => LRaise e (k, g') | Val _ => lp rest (k, g') end) ->
  forall ns k g m, rRs g m ->
  match lp (ns_objs ns) (k, g), declare_all ns m with
  | LContinue (k', g'), (m', Ok _) => k' = k /\ rRs g' m'
  | LRaise _ (k', g'), (m', Err _) => k' = k /\ rRs g' m'
  | _, _ => False
  end.
Proof.
  intros Hnil Hcons. induction ns as [|[n i] ns IH]; intros k g m HR; cbn [ns_objs map declare_all fst snd].
  - rewrite Hnil. split; [reflexivity | exact HR].
  - rewrite Hcons. pose proof (source_namespace_declaration_is_model E.Rdflib robj_of_term rd_ok gput n i g m HR) as Hstep.
    destruct (Stream_namespace_declaration SN n i g) as [[u|e] g1]; destruct (namespace_declaration n i m) as [m1 [u'|e']]; try contradiction.
    + exact (IH k g1 m1 Hstep).
    + split; [reflexivity | exact Hstep].
Qed.

Theorem rdflib_namespace_declarations_is_model (k : Graph SN) (ns : list (str * str)) : Graph__namespaces k = ns_objs ns -> forall g m, rRs g m ->
  match namespace_declarations SN k g, declare_all ns m with
  | (Val _, k', g'), (m', Ok _) => k' = k /\ rRs g' m'
  | (Exn _, k', g'), (m', Err _) => k' = k /\ rRs g' m'
  | _, _ => False
  end.
Proof.
  intros Hns g m HR. unfold namespace_declarations, Graph_namespaces. cbv zeta. cbn [app]. rewrite Hns.
  match goal with |- context [?f (ns_objs ns) (k, g)] => set (lp := f) end.
  pose proof (ns_loop_is_declare_all lp (fun st => eq_refl)
                ltac:(intros n i rest k0 g0; unfold lp at 1; fold lp; cbv beta iota; cbn [obj_str];
                      destruct (Stream_namespace_declaration SN n i g0) as [[u|e] g1]; reflexivity) ns k g m HR) as H.
  destruct (lp (ns_objs ns) (k, g)) as [[k' g']|rv [k' g']|e [k' g']]; destruct (declare_all ns m) as [m' [u|e']]; try contradiction; exact H.
Qed.

Theorem rdflib_namespace_declarations_ds_is_model (k : Dataset SN) (ns : list (str * str)) : Dataset__namespaces k = ns_objs ns -> forall g m, rRs g m ->
  match namespace_declarations_ds SN k g, declare_all ns m with
  | (Val _, k', g'), (m', Ok _) => k' = k /\ rRs g' m'
  | (Exn _, k', g'), (m', Err _) => k' = k /\ rRs g' m'
  | _, _ => False
  end.
Proof.
  intros Hns g m HR. unfold namespace_declarations_ds, Dataset_namespaces. cbv zeta. cbn [app]. rewrite Hns.
  match goal with |- context [?f (ns_objs ns) (k, g)] => set (lp := f) end.
  pose proof (ns_loop_is_declare_all lp (fun st => eq_refl)
                ltac:(intros n i rest k0 g0; unfold lp at 1; fold lp; cbv beta iota; cbn [obj_str];
                      destruct (Stream_namespace_declaration SN n i g0) as [[u|e] g1]; reflexivity) ns k g m HR) as H.
  destruct (lp (ns_objs ns) (k, g)) as [[k' g']|rv [k' g']|e [k' g']]; destruct (declare_all ns m) as [m' [u|e']]; try contradiction; exact H.
Qed.

(* ------------------------------------------------------------------ end of a run: frame_from_dataset, then to_stream_frame *)
Definition finish_gen {D : Type} (graph_flush : bool) (g : RStream) (k : D) (ys : list (pbval str)) : outcome unit * RStream * D * list (pbval str) :=
  let '(r1, f1) := (if graph_flush then FrameFlow_frame_from_graph SN else FrameFlow_frame_from_dataset SN) (Stream_flow SN g) in
  let g1 := set_Stream_flow SN f1 g in
  match r1 with
  | Exn e => (Exn e, g1, k, ys)
  | Val fr1 =>
    let ys1 := match fr1 with Some f => ys ++ [f] | None => ys end in
    let '(r2, f2) := FrameFlow_to_stream_frame SN (Stream_flow SN g1) in
    let g2 := set_Stream_flow SN f2 g1 in
    match r2 with
    | Exn e => (Exn e, g2, k, ys1)
    | Val fr2 => (Val tt, g2, k, match fr2 with Some f => ys1 ++ [f] | None => ys1 end)
    end
  end.

Lemma finish_tie {D : Type} (graph_flush : bool) (g : RStream) (m : stream) (k : D) (ys : list (pbval str)) : rRs g m ->
  match finish_gen graph_flush g k ys, finish graph_flush m with
  | (r, g', k', ys'), (m', fin) => rRs g' m' /\ k' = k /\ ys' = ys ++ map fmsg (emitted fin) /\ r = Val tt /\ raised fin = None
  end.
Proof.
  intros HR. pose proof HR as (_ & _ & _ & _ & Hfl & _). unfold finish, finish_gen.
  assert (H1 : match (if graph_flush then FrameFlow_frame_from_graph SN else FrameFlow_frame_from_dataset SN) (Stream_flow SN g),
                     (if graph_flush then frame_from_graph (st_flow m) else frame_from_dataset (st_flow m)) with
               | (Val fr, g'), (m', mfr) => fr = option_map fmsg mfr /\ Rf (rmsg gput) g' m'
               | (Exn _, _), _ => False
               end).
  { destruct graph_flush; [exact (source_frame_from_graph_is_model (rmsg gput) _ _ Hfl) | exact (source_frame_from_dataset_is_model (rmsg gput) _ _ Hfl)]. }
  destruct ((if graph_flush then FrameFlow_frame_from_graph SN else FrameFlow_frame_from_dataset SN) (Stream_flow SN g)) as [[fr1|e1] f1];
    destruct (if graph_flush then frame_from_graph (st_flow m) else frame_from_dataset (st_flow m)) as [fl1 mfr1]; [|contradiction].
  destruct H1 as [-> HRf1]. cbv zeta. cbn [Stream_flow set_Stream_flow].
  pose proof (source_to_stream_frame_is_model (rmsg gput) _ _ HRf1) as H2.
  destruct (FrameFlow_to_stream_frame SN f1) as [[fr2|e2] f2]; destruct (to_stream_frame fl1) as [fl2 mfr2]; [|contradiction].
  destruct H2 as [-> HRf2].
  split; [|split; [reflexivity|]; split; [|split; [reflexivity|]]].
  - exact (rRs_with_flow _ _ f2 fl2 (rRs_with_flow _ _ f1 fl1 HR HRf1) HRf2).
  - rewrite emitted_app, map_app. destruct mfr1, mfr2; cbn; rewrite ?app_nil_r, <- ?app_assoc; reflexivity.
  - rewrite raised_app, !raised_emit_opt. reflexivity.
Qed.

Ltac after_finish Hf :=
  cbv zeta in Hf; cbn [Stream_flow set_Stream_flow] in Hf |- *; change (carrier SN) with str in *;
  repeat (match goal with
          | |- context [FrameFlow_frame_from_graph SN ?x] => destruct (FrameFlow_frame_from_graph SN x) as [[[?|]|?] ?]
          | |- context [FrameFlow_frame_from_dataset SN ?x] => destruct (FrameFlow_frame_from_dataset SN x) as [[[?|]|?] ?]
          | |- context [FrameFlow_to_stream_frame SN ?x] => destruct (FrameFlow_to_stream_frame SN x) as [[[?|]|?] ?]
          end; cbv zeta in Hf; cbn [Stream_flow set_Stream_flow] in Hf |- *).

(* ------------------------------------------------------------------ quads_stream_frames *)
(* what follows the declarations: the quads, then the end of the run *)
Lemma quads_main {D : Type} (li : list (list robj) -> RStream * D * list (pbval str) -> loopres unit (RStream * D * list (pbval str))) :
  (forall st, li [] st = LContinue st) ->
  (forall s xs gx (k : D) ys,
     li (s :: xs) (gx, k, ys) =
     match Stream_quad SN (obj_eqb SN) rs_spo rs_graph s gx with
     | (Val (Some frame), stream0, _) => li xs (stream0, k, ys ++ [frame])
     | (Val None, stream0, _) => li xs (stream0, k, ys)
     | (Exn e, stream0, _) => LRaise e (stream0, k, ys)
     end) ->
  forall stmts (k : D) g1 m1, stmts_ok stmts -> rRs g1 m1 -> st_class m1 = QuadStream ->
  match (match li (map rterms stmts) (g1, k, []) with
         | LContinue (g2, k2, ys2) => finish_gen false g2 k2 ys2
         | LReturn rv (g2, k2, ys2) => (Val rv, g2, k2, ys2)
         | LRaise e (g2, k2, ys2) => (Exn (gen_exn e), g2, k2, ys2)
         end),
        (let '(s2, evs, ok) := feed stream_quad stmts m1 in if ok then let '(s3, fin) := finish false s2 in (s3, evs ++ fin) else (s2, evs)) with
  | (r, g', k', ys), (m', evs) => rRs g' m' /\ k' = k /\ ys = map fmsg (emitted evs) /\ ends r evs
  end.
Proof.
  intros Hnil Hcons stmts k g1 m1 Hok HR1 Hc1.
  pose proof (inner_loop_is_feed li _ stream_quad (fun mx => st_class mx = QuadStream) Hnil Hcons
                (fun st gx mx HRx HPx Hst => rdflib_stream_quad_is_model st gx mx HRx HPx Hst)
                (fun st mx mx' r E HP => eq_trans (stream_quad_class _ _ _ _ E) HP)
                stmts Hok g1 m1 [] k HR1 Hc1) as H.
  destruct (li (map rterms stmts) (g1, k, [])) as [[[g2 k2] ys2]|rv [[g2 k2] ys2]|e [[g2 k2] ys2]];
    destruct (feed stream_quad stmts m1) as [[m2 evs] okb]; destruct okb; try contradiction.
  - destruct H as (HR2 & -> & -> & _ & Hr). cbn [app].
    pose proof (finish_tie false g2 m2 k (map fmsg (emitted evs)) HR2) as Hf.
    destruct (finish_gen false g2 k (map fmsg (emitted evs))) as [[[r g3] k3] ys3]. destruct (finish false m2) as [m3 fin].
    destruct Hf as (H1 & H2 & H3 & H4 & H5). split; [exact H1|]. split; [exact H2|]. split; [rewrite emitted_app, map_app; exact H3|].
    unfold ends. rewrite H4, raised_app, Hr, H5. exact I.
  - destruct H as (HR2 & -> & -> & Hr). split; [exact HR2|]. split; [reflexivity|]. split; [reflexivity|].
    unfold ends. destruct (raised evs); [exact I | contradiction].
Qed.

Theorem rdflib_quads_stream_frames_is_model (k : Dataset SN) (d : rdata) (g : RStream) (m : stream) :
  RDs k d -> stmts_ok (rd_stmts d) -> rRs g m -> st_class m = QuadStream ->
  match quads_stream_frames SN g k, rdf_quads_stream_frames d m with
  | (r, g', k', ys), (m', evs) => rRs g' m' /\ k' = k /\ ys = map fmsg (emitted evs) /\ ends r evs
  end.
Proof.
  intros (Hk & Hq & Hns & _) Hok HR Hc.
  unfold quads_stream_frames, rdf_quads_stream_frames. cbv zeta.
  pose proof (source_enroll_is_model E.Rdflib robj_of_term rd_ok gput g m HR) as H0.
  destruct (Stream_enroll SN g) as [[u|e] g0]; [|contradiction].
  assert (Hc0 : st_class (enroll m) = QuadStream) by (rewrite enroll_class; exact Hc).
  unfold rdf_ns_phase. rewrite Hk, (nd_of_rRs g0 (enroll m) H0).
  destruct (p_nd (so_params (st_opts (enroll m)))).
  - pose proof (rdflib_namespace_declarations_ds_is_model k (rd_namespaces d) Hns g0 (enroll m) H0) as Hd.
    destruct (namespace_declarations_ds SN k g0) as [[[u1|e1] k1] g1]; destruct (declare_all (rd_namespaces d) (enroll m)) as [m1 [u1'|e1']] eqn:Ed;
      try contradiction; destruct Hd as [-> HR1].
    2:{ split; [exact HR1|]. split; [reflexivity|]. split; reflexivity. }
    assert (Hc1 : st_class m1 = QuadStream) by (rewrite (declare_all_class _ _ _ _ Ed); exact Hc0).
    unfold Dataset_quads. cbv zeta. cbn [app]. rewrite Hq.
    match goal with |- context [?f (map rterms (rd_stmts d)) (g1, k, ?n)] => set (li := f) end.
    pose proof (quads_main li (fun st => eq_refl) ltac:(intros s xs gx k0 ys; unfold li at 1; fold li; cbv beta iota;
                  change (Stream_quad SN (obj_eqb SN) rs_spo rs_graph) with (Stream_quad SN (any_eqb SN) (TermEncoder_encode_spo SN) (TermEncoder_encode_graph SN));
                  match goal with |- context [Stream_quad ?a1 ?a2 ?a3 ?a4 s gx] => destruct (Stream_quad a1 a2 a3 a4 s gx) as [[[[fr|]|e0] gx'] tr'] end; reflexivity) (rd_stmts d) k g1 m1 Hok HR1 Hc1) as H.
    change (carrier SN) with str in *.
    destruct (li (map rterms (rd_stmts d)) (g1, k, [])) as [[[g2 k2] ys2]|rv [[g2 k2] ys2]|e2 [[g2 k2] ys2]].
    + unfold finish_gen in H. after_finish H; exact H.
    + exact H.
    + exact H.
  - unfold Dataset_quads. cbv zeta. cbn [app]. rewrite Hq.
    match goal with |- context [?f (map rterms (rd_stmts d)) (g0, k, ?n)] => set (li := f) end.
    pose proof (quads_main li (fun st => eq_refl) ltac:(intros s xs gx k0 ys; unfold li at 1; fold li; cbv beta iota;
                  change (Stream_quad SN (obj_eqb SN) rs_spo rs_graph) with (Stream_quad SN (any_eqb SN) (TermEncoder_encode_spo SN) (TermEncoder_encode_graph SN));
                  match goal with |- context [Stream_quad ?a1 ?a2 ?a3 ?a4 s gx] => destruct (Stream_quad a1 a2 a3 a4 s gx) as [[[[fr|]|e0] gx'] tr'] end; reflexivity) (rd_stmts d) k g0 (enroll m) Hok H0 Hc0) as H.
    change (carrier SN) with str in *.
    destruct (li (map rterms (rd_stmts d)) (g0, k, [])) as [[[g2 k2] ys2]|rv [[g2 k2] ys2]|e2 [[g2 k2] ys2]].
    + unfold finish_gen in H. after_finish H; exact H.
    + exact H.
    + exact H.
Qed.

Theorem rdflib_quads_stream_frames_gen_is_model (data : list (list robj)) (d : rdata) (g : RStream) (m : stream) :
  RGn data d -> stmts_ok (rd_stmts d) -> rRs g m -> st_class m = QuadStream ->
  match quads_stream_frames_gen SN g data, rdf_quads_stream_frames d m with
  | (r, g', data', ys), (m', evs) => rRs g' m' /\ data' = data /\ ys = map fmsg (emitted evs) /\ ends r evs
  end.
Proof.
  intros [Hk ->] Hok HR Hc.
  unfold quads_stream_frames_gen, rdf_quads_stream_frames. cbv zeta.
  pose proof (source_enroll_is_model E.Rdflib robj_of_term rd_ok gput g m HR) as H0.
  destruct (Stream_enroll SN g) as [[u|e] g0]; [|contradiction].
  assert (Hc0 : st_class (enroll m) = QuadStream) by (rewrite enroll_class; exact Hc).
  unfold rdf_ns_phase. rewrite Hk, (nd_of_rRs g0 (enroll m) H0).
  destruct (p_nd (so_params (st_opts (enroll m)))).
  - split; [exact H0|]. split; [reflexivity|]. split; reflexivity.
  - match goal with |- context [?f (map rterms (rd_stmts d)) (g0, ?k, ?n)] => set (li := f) end.
    pose proof (quads_main li (fun st => eq_refl) ltac:(intros s xs gx k0 ys; unfold li at 1; fold li; cbv beta iota;
                  change (Stream_quad SN (obj_eqb SN) rs_spo rs_graph) with (Stream_quad SN (any_eqb SN) (TermEncoder_encode_spo SN) (TermEncoder_encode_graph SN));
                  match goal with |- context [Stream_quad ?a1 ?a2 ?a3 ?a4 s gx] => destruct (Stream_quad a1 a2 a3 a4 s gx) as [[[[fr|]|e0] gx'] tr'] end; reflexivity)
                  (rd_stmts d) (map rterms (rd_stmts d)) g0 (enroll m) Hok H0 Hc0) as H.
    change (carrier SN) with str in *.
    destruct (li (map rterms (rd_stmts d)) (g0, map rterms (rd_stmts d), [])) as [[[g2 k2] ys2]|rv [[g2 k2] ys2]|e2 [[g2 k2] ys2]].
    + unfold finish_gen in H. after_finish H; exact H.
    + exact H.
    + exact H.
Qed.

(* ------------------------------------------------------------------ triples_stream_frames: for graph in graphs: the triples of the graph, then
   frame_from_graph; at the end to_stream_frame *)
Section TripleGraphs.
Context {G D : Type} (items : G -> list (list robj)).
Context (lo : list G -> RStream * D * list (pbval str) -> loopres unit (RStream * D * list (pbval str))).
Context (H_lo_nil : forall st, lo [] st = LContinue st).
(* one turn of the loop: some inner loop function (the translated local fixpoint) over the triples of the graph, then frame_from_graph *)
Context (H_lo_cons : forall gr gs gx (k : D) ys,
  exists li : list (list robj) -> RStream * D * list (pbval str) -> loopres unit (RStream * D * list (pbval str)),
    (forall st, li [] st = LContinue st) /\
    (forall s xs gx0 (k0 : D) ys0,
       li (s :: xs) (gx0, k0, ys0) =
       match Stream_triple SN (obj_eqb SN) rs_spo s gx0 with
       | (Val (Some frame), stream0, _) => li xs (stream0, k0, ys0 ++ [frame])
       | (Val None, stream0, _) => li xs (stream0, k0, ys0)
       | (Exn e, stream0, _) => LRaise e (stream0, k0, ys0)
       end) /\
    lo (gr :: gs) (gx, k, ys) =
    match li (items gr) (gx, k, ys) with
    | LContinue (g1, k1, ys1) =>
      match FrameFlow_frame_from_graph SN (Stream_flow SN g1) with
      | (Val (Some fr), f1) => lo gs (set_Stream_flow SN f1 g1, k1, ys1 ++ [fr])
      | (Val None, f1) => lo gs (set_Stream_flow SN f1 g1, k1, ys1)
      | (Exn e, f1) => LRaise e (set_Stream_flow SN f1 g1, k1, ys1)
      end
    | LReturn rv st => LReturn rv st
    | LRaise e st => LRaise e st
    end).

Lemma triple_graphs_loop : forall (grs : list G) (graphs : list (list (list term))),
  map items grs = map (map rterms) graphs -> Forall stmts_ok graphs ->
  forall gx mx ys (k : D), rRs gx mx -> st_class mx <> QuadStream ->
  match lo grs (gx, k, ys), rdf_feed_triple_graphs graphs mx with
  | LContinue (g', k', ys'), (m', evs, true) => rRs g' m' /\ k' = k /\ ys' = ys ++ map fmsg (emitted evs) /\ raised evs = None
  | LRaise _ (g', k', ys'), (m', evs, false) => rRs g' m' /\ k' = k /\ ys' = ys ++ map fmsg (emitted evs) /\ raised evs <> None
  | _, _ => False
  end.
Proof.
  induction grs as [|gr grs IH]; intros graphs Hmap Hok gx mx ys k HRx Hcx; destruct graphs as [|stmts graphs]; try discriminate Hmap.
  - rewrite H_lo_nil. cbn. split; [exact HRx|]. split; [reflexivity|]. split; [rewrite app_nil_r; reflexivity | reflexivity].
  - cbn [map] in Hmap. injection Hmap as Hi Hmap. destruct (H_lo_cons gr grs gx k ys) as (li & H_li_nil & H_li_cons & Heq). rewrite Heq, Hi. clear Heq. cbn [rdf_feed_triple_graphs].
    pose proof (inner_loop_is_feed li _ stream_triple (fun m0 => st_class m0 <> QuadStream) H_li_nil H_li_cons
                  (fun st g0 m0 HR0 HP0 Hst => rdflib_stream_triple_is_model st g0 m0 HR0 HP0 Hst)
                  (fun st m0 m0' r E HP => eq_ind_r (fun c => c <> QuadStream) HP (stream_triple_class _ _ _ _ E))
                  stmts (Forall_inv Hok) gx mx ys k HRx Hcx) as H.
    destruct (li (map rterms stmts) (gx, k, ys)) as [[[g1 k1] ys1]|rv [[g1 k1] ys1]|e [[g1 k1] ys1]];
      destruct (feed stream_triple stmts mx) as [[m1 evs1] okb]; destruct okb; try contradiction.
    + destruct H as (HR1 & -> & -> & Hc1 & Hr1). cbv beta in Hc1.
      pose proof HR1 as (_ & _ & _ & _ & Hfl & _).
      pose proof (source_frame_from_graph_is_model (rmsg gput) _ _ Hfl) as Hg.
      destruct (FrameFlow_frame_from_graph SN (Stream_flow SN g1)) as [[fr|e] f1]; destruct (frame_from_graph (st_flow m1)) as [fl1 mfr]; [|contradiction].
      destruct Hg as [-> HRf]. pose proof (rRs_with_flow _ _ f1 fl1 HR1 HRf) as HR2.
      destruct mfr as [f|]; cbn [option_map]; change (carrier SN) with str in *.
      * specialize (IH graphs Hmap (Forall_inv_tail Hok) (set_Stream_flow SN f1 g1) (with_flow m1 fl1) ((ys ++ map fmsg (emitted evs1)) ++ [fmsg f]) k HR2 Hc1).
        destruct (lo grs (set_Stream_flow SN f1 g1, k, (ys ++ map fmsg (emitted evs1)) ++ [fmsg f])) as [[[g' k'] ys']|rv [[g' k'] ys']|e [[g' k'] ys']];
          destruct (rdf_feed_triple_graphs graphs (with_flow m1 fl1)) as [[m' evs] okb]; destruct okb; try contradiction.
        -- destruct IH as (HR' & -> & -> & Hr). split; [exact HR'|]. split; [reflexivity|].
           split; [rewrite !emitted_app, !map_app; cbn [emit_opt emitted map]; rewrite <- !app_assoc; reflexivity|].
           rewrite !raised_app, Hr1. cbn [emit_opt raised]. exact Hr.
        -- destruct IH as (HR' & -> & -> & Hr). split; [exact HR'|]. split; [reflexivity|].
           split; [rewrite !emitted_app, !map_app; cbn [emit_opt emitted map]; rewrite <- !app_assoc; reflexivity|].
           rewrite !raised_app, Hr1. cbn [emit_opt raised]. exact Hr.
      * specialize (IH graphs Hmap (Forall_inv_tail Hok) (set_Stream_flow SN f1 g1) (with_flow m1 fl1) (ys ++ map fmsg (emitted evs1)) k HR2 Hc1).
        destruct (lo grs (set_Stream_flow SN f1 g1, k, ys ++ map fmsg (emitted evs1))) as [[[g' k'] ys']|rv [[g' k'] ys']|e [[g' k'] ys']];
          destruct (rdf_feed_triple_graphs graphs (with_flow m1 fl1)) as [[m' evs] okb]; destruct okb; try contradiction.
        -- destruct IH as (HR' & -> & -> & Hr). split; [exact HR'|]. split; [reflexivity|].
           split; [rewrite !emitted_app, !map_app; cbn [emit_opt emitted map app]; rewrite <- !app_assoc; reflexivity|].
           rewrite !raised_app, Hr1. cbn [emit_opt raised]. exact Hr.
        -- destruct IH as (HR' & -> & -> & Hr). split; [exact HR'|]. split; [reflexivity|].
           split; [rewrite !emitted_app, !map_app; cbn [emit_opt emitted map app]; rewrite <- !app_assoc; reflexivity|].
           rewrite !raised_app, Hr1. cbn [emit_opt raised]. exact Hr.
    + destruct H as (HR1 & -> & -> & Hr1). split; [exact HR1|]. split; [reflexivity|]. split; [reflexivity | exact Hr1].
Qed.
End TripleGraphs.

(* one graph (a Graph, or the generator): its statements, then frame_from_graph and to_stream_frame *)
Lemma rdf_single_graph_is stmts m1 :
  (let '(s2, evs, ok) := rdf_feed_triple_graphs [stmts] m1 in
   if ok then let '(fl, fr) := to_stream_frame (st_flow s2) in (with_flow s2 fl, evs ++ emit_opt fr) else (s2, evs)) =
  (let '(s2, evs, ok) := feed stream_triple stmts m1 in if ok then let '(s3, fin) := finish true s2 in (s3, evs ++ fin) else (s2, evs)).
Proof.
  cbn [rdf_feed_triple_graphs]. destruct (feed stream_triple stmts m1) as [[s1 evs] ok]. destruct ok; [|reflexivity].
  unfold finish. destruct (frame_from_graph (st_flow s1)) as [fl fr]. cbn [st_flow with_flow]. destruct (to_stream_frame fl) as [fl2 fr2].
  rewrite app_nil_r, <- app_assoc. reflexivity.
Qed.

Lemma triples_single_main {D : Type} (li : list (list robj) -> RStream * D * list (pbval str) -> loopres unit (RStream * D * list (pbval str))) :
  (forall st, li [] st = LContinue st) ->
  (forall s xs gx (k : D) ys,
     li (s :: xs) (gx, k, ys) =
     match Stream_triple SN (obj_eqb SN) rs_spo s gx with
     | (Val (Some frame), stream0, _) => li xs (stream0, k, ys ++ [frame])
     | (Val None, stream0, _) => li xs (stream0, k, ys)
     | (Exn e, stream0, _) => LRaise e (stream0, k, ys)
     end) ->
  forall stmts (k : D) g1 m1, stmts_ok stmts -> rRs g1 m1 -> st_class m1 <> QuadStream ->
  match (match li (map rterms stmts) (g1, k, []) with
         | LContinue (g2, k2, ys2) => finish_gen true g2 k2 ys2
         | LReturn rv (g2, k2, ys2) => (Val rv, g2, k2, ys2)
         | LRaise e (g2, k2, ys2) => (Exn (gen_exn e), g2, k2, ys2)
         end),
        (let '(s2, evs, ok) := rdf_feed_triple_graphs [stmts] m1 in
         if ok then let '(fl, fr) := to_stream_frame (st_flow s2) in (with_flow s2 fl, evs ++ emit_opt fr) else (s2, evs)) with
  | (r, g', k', ys), (m', evs) => rRs g' m' /\ k' = k /\ ys = map fmsg (emitted evs) /\ ends r evs
  end.
Proof.
  intros Hnil Hcons stmts k g1 m1 Hok HR1 Hc1. rewrite rdf_single_graph_is.
  pose proof (inner_loop_is_feed li _ stream_triple (fun mx => st_class mx <> QuadStream) Hnil Hcons
                (fun st gx mx HRx HPx Hst => rdflib_stream_triple_is_model st gx mx HRx HPx Hst)
                (fun st mx mx' r E HP => eq_ind_r (fun c => c <> QuadStream) HP (stream_triple_class _ _ _ _ E))
                stmts Hok g1 m1 [] k HR1 Hc1) as H.
  destruct (li (map rterms stmts) (g1, k, [])) as [[[g2 k2] ys2]|rv [[g2 k2] ys2]|e [[g2 k2] ys2]];
    destruct (feed stream_triple stmts m1) as [[m2 evs] okb]; destruct okb; try contradiction.
  - destruct H as (HR2 & -> & -> & _ & Hr). cbn [app].
    pose proof (finish_tie true g2 m2 k (map fmsg (emitted evs)) HR2) as Hf.
    destruct (finish_gen true g2 k (map fmsg (emitted evs))) as [[[r g3] k3] ys3]. destruct (finish true m2) as [m3 fin].
    destruct Hf as (H1 & H2 & H3 & H4 & H5). split; [exact H1|]. split; [exact H2|]. split; [rewrite emitted_app, map_app; exact H3|].
    unfold ends. rewrite H4, raised_app, Hr, H5. exact I.
  - destruct H as (HR2 & -> & -> & Hr). split; [exact HR2|]. split; [reflexivity|]. split; [reflexivity|].
    unfold ends. destruct (raised evs); [exact I | contradiction].
Qed.

Ltac triple_li_eq li :=
  let s0 := fresh "s" in let gx := fresh "gx" in
  intros s0 ? gx ? ?; unfold li at 1; fold li; cbv beta iota;
  change (Stream_triple SN (obj_eqb SN) rs_spo) with (Stream_triple SN (any_eqb SN) (TermEncoder_encode_spo SN));
  match goal with |- context [Stream_triple ?a1 ?a2 ?a3 s0 gx] => destruct (Stream_triple a1 a2 a3 s0 gx) as [[[[?|]|?] ?] ?] end; reflexivity.

Theorem rdflib_triples_stream_frames_is_model (k : Graph SN) (d : rdata) (g : RStream) (m : stream) :
  RGr k d -> stmts_ok (rd_stmts d) -> rRs g m -> st_class m <> QuadStream ->
  match triples_stream_frames SN g k, rdf_triples_stream_frames d m with
  | (r, g', k', ys), (m', evs) => rRs g' m' /\ k' = k /\ ys = map fmsg (emitted evs) /\ ends r evs
  end.
Proof.
  intros (Hk & Ht & Hns) Hok HR Hc.
  unfold triples_stream_frames, rdf_triples_stream_frames. cbv zeta.
  pose proof (source_enroll_is_model E.Rdflib robj_of_term rd_ok gput g m HR) as H0.
  destruct (Stream_enroll SN g) as [[u|e] g0]; [|contradiction].
  assert (Hc0 : st_class (enroll m) <> QuadStream) by (rewrite enroll_class; exact Hc).
  unfold rdf_ns_phase. rewrite Hk, (nd_of_rRs g0 (enroll m) H0). cbn [andb].
  destruct (p_nd (so_params (st_opts (enroll m)))).
  - pose proof (rdflib_namespace_declarations_is_model k (rd_namespaces d) Hns g0 (enroll m) H0) as Hd.
    destruct (namespace_declarations SN k g0) as [[[u1|e1] k1] g1]; destruct (declare_all (rd_namespaces d) (enroll m)) as [m1 [u1'|e1']] eqn:Ed;
      try contradiction; destruct Hd as [-> HR1].
    2:{ split; [exact HR1|]. split; [reflexivity|]. split; reflexivity. }
    assert (Hc1 : st_class m1 <> QuadStream) by (rewrite (declare_all_class _ _ _ _ Ed); exact Hc0).
    unfold Graph___iter__. cbv zeta. cbn [app]. rewrite Ht.
    match goal with |- context [?f (map rterms (rd_stmts d)) (g1, k, ?n)] => set (li := f) end.
    pose proof (triples_single_main li (fun st => eq_refl) ltac:(triple_li_eq li) (rd_stmts d) k g1 m1 Hok HR1 Hc1) as H.
    change (carrier SN) with str in *.
    destruct (li (map rterms (rd_stmts d)) (g1, k, [])) as [[[g2 k2] ys2]|rv [[g2 k2] ys2]|e2 [[g2 k2] ys2]].
    + unfold finish_gen in H. after_finish H; exact H.
    + exact H.
    + exact H.
  - unfold Graph___iter__. cbv zeta. cbn [app]. rewrite Ht.
    match goal with |- context [?f (map rterms (rd_stmts d)) (g0, k, ?n)] => set (li := f) end.
    pose proof (triples_single_main li (fun st => eq_refl) ltac:(triple_li_eq li) (rd_stmts d) k g0 (enroll m) Hok H0 Hc0) as H.
    change (carrier SN) with str in *.
    destruct (li (map rterms (rd_stmts d)) (g0, k, [])) as [[[g2 k2] ys2]|rv [[g2 k2] ys2]|e2 [[g2 k2] ys2]].
    + unfold finish_gen in H. after_finish H; exact H.
    + exact H.
    + exact H.
Qed.

Theorem rdflib_triples_stream_frames_gen_is_model (data : list (list robj)) (d : rdata) (g : RStream) (m : stream) :
  RGn data d -> stmts_ok (rd_stmts d) -> rRs g m -> st_class m <> QuadStream ->
  match triples_stream_frames_gen SN g data, rdf_triples_stream_frames d m with
  | (r, g', data', ys), (m', evs) => rRs g' m' /\ data' = data /\ ys = map fmsg (emitted evs) /\ ends r evs
  end.
Proof.
  intros [Hk ->] Hok HR Hc.
  unfold triples_stream_frames_gen, rdf_triples_stream_frames. cbv zeta.
  pose proof (source_enroll_is_model E.Rdflib robj_of_term rd_ok gput g m HR) as H0.
  destruct (Stream_enroll SN g) as [[u|e] g0]; [|contradiction].
  assert (Hc0 : st_class (enroll m) <> QuadStream) by (rewrite enroll_class; exact Hc).
  assert (Hphase : rdf_ns_phase true d (enroll m) = (enroll m, Ok tt)) by (unfold rdf_ns_phase; rewrite Hk; destruct (p_nd _); reflexivity).
  rewrite Hphase, Hk. clear Hphase.
  match goal with |- context [?f (map rterms (rd_stmts d)) (g0, ?k, ?n)] => set (li := f) end.
  pose proof (triples_single_main li (fun st => eq_refl) ltac:(triple_li_eq li) (rd_stmts d) (map rterms (rd_stmts d)) g0 (enroll m) Hok H0 Hc0) as H.
  change (carrier SN) with str in *.
  destruct (li (map rterms (rd_stmts d)) (g0, map rterms (rd_stmts d), [])) as [[[g2 k2] ys2]|rv [[g2 k2] ys2]|e2 [[g2 k2] ys2]].
  + unfold finish_gen in H. after_finish H; exact H.
  + exact H.
  + exact H.
Qed.

(* ------------------------------------------------------------------ triples_stream_frames on a Dataset: its graphs in turn *)
Lemma graphs_triples_map (gks : list (Graph SN)) (gts : list (term * list (list term))) :
  Forall2 (fun gk gt => Graph_identifier gk = robj_of_term (fst gt) /\ Graph__triples gk = map rterms (snd gt)) gks gts ->
  map (@Graph__triples SN) gks = map (map rterms) (map snd gts).
Proof. induction 1 as [|gk gt gks gts [_ Ht] _ IH]; [reflexivity|]. cbn [map]. rewrite Ht, IH. reflexivity. Qed.

Theorem rdflib_triples_stream_frames_ds_is_model (k : Dataset SN) (d : rdata) (g : RStream) (m : stream) :
  RDs k d -> Forall stmts_ok (map snd (rd_graphs d)) -> rRs g m -> st_class m <> QuadStream ->
  match triples_stream_frames_ds SN g k, rdf_triples_stream_frames d m with
  | (r, g', k', ys), (m', evs) => rRs g' m' /\ k' = k /\ ys = map fmsg (emitted evs) /\ ends r evs
  end.
Proof.
  intros (Hk & _ & Hns & Hgr) Hoks HR Hc. pose proof (graphs_triples_map _ _ Hgr) as Hmap.
  unfold triples_stream_frames_ds, rdf_triples_stream_frames. cbv zeta.
  pose proof (source_enroll_is_model E.Rdflib robj_of_term rd_ok gput g m HR) as H0.
  destruct (Stream_enroll SN g) as [[u|e] g0]; [|contradiction].
  assert (Hc0 : st_class (enroll m) <> QuadStream) by (rewrite enroll_class; exact Hc).
  unfold rdf_ns_phase. rewrite Hk, (nd_of_rRs g0 (enroll m) H0). cbn [andb].
  destruct (p_nd (so_params (st_opts (enroll m)))).
  - pose proof (rdflib_namespace_declarations_ds_is_model k (rd_namespaces d) Hns g0 (enroll m) H0) as Hd.
    destruct (namespace_declarations_ds SN k g0) as [[[u1|e1] k1] g1]; destruct (declare_all (rd_namespaces d) (enroll m)) as [m1 [u1'|e1']] eqn:Ed;
      try contradiction; destruct Hd as [-> HR1].
    2:{ split; [exact HR1|]. split; [reflexivity|]. split; reflexivity. }
    assert (Hc1 : st_class m1 <> QuadStream) by (rewrite (declare_all_class _ _ _ _ Ed); exact Hc0).
    unfold Dataset_graphs. cbv zeta. cbn [app].
    match goal with |- context [?f (Dataset__graphs k) (g1, k, ?n)] => set (lo := f) end.
    assert (Hlo : forall gr gs gx (k0 : Dataset SN) ys,
              exists li : list (list robj) -> RStream * Dataset SN * list (pbval str) -> loopres unit (RStream * Dataset SN * list (pbval str)),
                (forall st, li [] st = LContinue st) /\
                (forall s xs gx0 (k1 : Dataset SN) ys0,
                   li (s :: xs) (gx0, k1, ys0) =
                   match Stream_triple SN (obj_eqb SN) rs_spo s gx0 with
                   | (Val (Some frame), stream0, _) => li xs (stream0, k1, ys0 ++ [frame])
                   | (Val None, stream0, _) => li xs (stream0, k1, ys0)
                   | (Exn e, stream0, _) => LRaise e (stream0, k1, ys0)
                   end) /\
                lo (gr :: gs) (gx, k0, ys) =
                match li (Graph__triples gr) (gx, k0, ys) with
                | LContinue (g1', k1, ys1) =>
                  match FrameFlow_frame_from_graph SN (Stream_flow SN g1') with
                  | (Val (Some fr), f1) => lo gs (set_Stream_flow SN f1 g1', k1, ys1 ++ [fr])
                  | (Val None, f1) => lo gs (set_Stream_flow SN f1 g1', k1, ys1)
                  | (Exn e, f1) => LRaise e (set_Stream_flow SN f1 g1', k1, ys1)
                  end
                | LReturn rv st => LReturn rv st
                | LRaise e st => LRaise e st
                end).
    { intros gr gs gx k0 ys. unfold lo at 1. fold lo. unfold Graph___iter__. cbv beta iota zeta. cbn [app].
      match goal with |- context [?f (Graph__triples gr) (gx, k0, ys)] => set (li0 := f) end.
      exists li0. split; [intros st; reflexivity|]. split.
      - intros s0 xs gx0 k1 ys0. unfold li0 at 1. fold li0. cbv beta iota.
        change (Stream_triple SN (obj_eqb SN) rs_spo) with (Stream_triple SN (any_eqb SN) (TermEncoder_encode_spo SN)).
        match goal with |- context [Stream_triple ?a1 ?a2 ?a3 s0 gx0] => destruct (Stream_triple a1 a2 a3 s0 gx0) as [[[[fr|]|e0] gx'] tr'] end; reflexivity.
      - destruct (li0 (Graph__triples gr) (gx, k0, ys)) as [[[g1' k1] ys1]|rv [[g1' k1] ys1]|e1 [[g1' k1] ys1]]; [|reflexivity|reflexivity].
        destruct (FrameFlow_frame_from_graph SN (Stream_flow SN g1')) as [[[fr|]|e1] f1]; reflexivity. }
    pose proof (triple_graphs_loop (@Graph__triples SN) lo (fun st => eq_refl) Hlo (Dataset__graphs k) (map snd (rd_graphs d)) Hmap Hoks g1 m1 [] k HR1 Hc1) as H.
    change (carrier SN) with str in *.
    destruct (lo (Dataset__graphs k) (g1, k, [])) as [[[g2 k2] ys2]|rv [[g2 k2] ys2]|e2 [[g2 k2] ys2]];
      destruct (rdf_feed_triple_graphs (map snd (rd_graphs d)) m1) as [[m2 evs] okb]; destruct okb; try contradiction.
    + destruct H as (HR2 & -> & -> & Hr). cbn [app].
      pose proof HR2 as (_ & _ & _ & _ & Hfl2 & _).
      pose proof (source_to_stream_frame_is_model (rmsg gput) _ _ Hfl2) as He.
      destruct (FrameFlow_to_stream_frame SN (Stream_flow SN g2)) as [[x|e] f2]; destruct (to_stream_frame (st_flow m2)) as [fl fr]; [|contradiction].
      destruct He as [-> HRf]. pose proof (rRs_with_flow _ _ f2 fl HR2 HRf) as HR3.
      destruct fr as [f|]; cbn [option_map];
        (split; [exact HR3|]; split; [reflexivity|]; split; [rewrite emitted_app, map_app; cbn [emit_opt emitted map]; rewrite ?app_nil_r; reflexivity|];
         unfold ends; rewrite raised_app, Hr, raised_emit_opt; exact I).
    + destruct H as (HR2 & -> & -> & Hr). split; [exact HR2|]. split; [reflexivity|]. split; [reflexivity|].
      unfold ends. destruct (raised evs); [exact I | contradiction].
  - unfold Dataset_graphs. cbv zeta. cbn [app].
    match goal with |- context [?f (Dataset__graphs k) (g0, k, ?n)] => set (lo := f) end.
    assert (Hlo : forall gr gs gx (k0 : Dataset SN) ys,
              exists li : list (list robj) -> RStream * Dataset SN * list (pbval str) -> loopres unit (RStream * Dataset SN * list (pbval str)),
                (forall st, li [] st = LContinue st) /\
                (forall s xs gx0 (k1 : Dataset SN) ys0,
                   li (s :: xs) (gx0, k1, ys0) =
                   match Stream_triple SN (obj_eqb SN) rs_spo s gx0 with
                   | (Val (Some frame), stream0, _) => li xs (stream0, k1, ys0 ++ [frame])
                   | (Val None, stream0, _) => li xs (stream0, k1, ys0)
                   | (Exn e, stream0, _) => LRaise e (stream0, k1, ys0)
                   end) /\
                lo (gr :: gs) (gx, k0, ys) =
                match li (Graph__triples gr) (gx, k0, ys) with
                | LContinue (g1', k1, ys1) =>
                  match FrameFlow_frame_from_graph SN (Stream_flow SN g1') with
                  | (Val (Some fr), f1) => lo gs (set_Stream_flow SN f1 g1', k1, ys1 ++ [fr])
                  | (Val None, f1) => lo gs (set_Stream_flow SN f1 g1', k1, ys1)
                  | (Exn e, f1) => LRaise e (set_Stream_flow SN f1 g1', k1, ys1)
                  end
                | LReturn rv st => LReturn rv st
                | LRaise e st => LRaise e st
                end).
    { intros gr gs gx k0 ys. unfold lo at 1. fold lo. unfold Graph___iter__. cbv beta iota zeta. cbn [app].
      match goal with |- context [?f (Graph__triples gr) (gx, k0, ys)] => set (li0 := f) end.
      exists li0. split; [intros st; reflexivity|]. split.
      - intros s0 xs gx0 k1 ys0. unfold li0 at 1. fold li0. cbv beta iota.
        change (Stream_triple SN (obj_eqb SN) rs_spo) with (Stream_triple SN (any_eqb SN) (TermEncoder_encode_spo SN)).
        match goal with |- context [Stream_triple ?a1 ?a2 ?a3 s0 gx0] => destruct (Stream_triple a1 a2 a3 s0 gx0) as [[[[fr|]|e0] gx'] tr'] end; reflexivity.
      - destruct (li0 (Graph__triples gr) (gx, k0, ys)) as [[[g1' k1] ys1]|rv [[g1' k1] ys1]|e1 [[g1' k1] ys1]]; [|reflexivity|reflexivity].
        destruct (FrameFlow_frame_from_graph SN (Stream_flow SN g1')) as [[[fr|]|e1] f1]; reflexivity. }
    pose proof (triple_graphs_loop (@Graph__triples SN) lo (fun st => eq_refl) Hlo (Dataset__graphs k) (map snd (rd_graphs d)) Hmap Hoks g0 (enroll m) [] k H0 Hc0) as H.
    change (carrier SN) with str in *.
    destruct (lo (Dataset__graphs k) (g0, k, [])) as [[[g2 k2] ys2]|rv [[g2 k2] ys2]|e2 [[g2 k2] ys2]];
      destruct (rdf_feed_triple_graphs (map snd (rd_graphs d)) (enroll m)) as [[m2 evs] okb]; destruct okb; try contradiction.
    + destruct H as (HR2 & -> & -> & Hr). cbn [app].
      pose proof HR2 as (_ & _ & _ & _ & Hfl2 & _).
      pose proof (source_to_stream_frame_is_model (rmsg gput) _ _ Hfl2) as He.
      destruct (FrameFlow_to_stream_frame SN (Stream_flow SN g2)) as [[x|e] f2]; destruct (to_stream_frame (st_flow m2)) as [fl fr]; [|contradiction].
      destruct He as [-> HRf]. pose proof (rRs_with_flow _ _ f2 fl HR2 HRf) as HR3.
      destruct fr as [f|]; cbn [option_map];
        (split; [exact HR3|]; split; [reflexivity|]; split; [rewrite emitted_app, map_app; cbn [emit_opt emitted map]; rewrite ?app_nil_r; reflexivity|];
         unfold ends; rewrite raised_app, Hr, raised_emit_opt; exact I).
    + destruct H as (HR2 & -> & -> & Hr). split; [exact HR2|]. split; [reflexivity|]. split; [reflexivity|].
      unfold ends. destruct (raised evs); [exact I | contradiction].
Qed.

(* ------------------------------------------------------------------ graphs_stream_frames on a Dataset: GraphStream.graph per graph of graphs() *)
Lemma graph_triples_ends ts : forall m m' evs ok, graph_triples ts m = (m', evs, ok) ->
  st_class m' = st_class m /\ (if ok then raised evs = None else raised evs <> None).
Proof.
  induction ts as [|tr ts IH]; intros m m' evs ok; cbn [graph_triples].
  - intros [= <- <- <-]. split; reflexivity.
  - destruct (stream_triple tr m) as [m1 [fr|e]] eqn:Est; pose proof (stream_triple_class _ _ _ _ Est) as Hc1.
    + destruct (graph_triples ts m1) as [[m2 evs2] ok2] eqn:Eg. intros [= <- <- <-].
      destruct (IH _ _ _ _ Eg) as [Hc2 Hr]. split; [congruence|].
      destruct ok2; rewrite raised_app, raised_emit_opt; exact Hr.
    + intros [= <- <- <-]. split; [exact Hc1 | cbn; discriminate].
Qed.

Lemma stream_graph_ends gid ts m m' evs ok : stream_graph gid ts m = (m', evs, ok) ->
  st_class m' = st_class m /\ (if ok then raised evs = None else raised evs <> None).
Proof.
  unfold stream_graph. destruct (st_failed m); [intros [= <- <- <-]; split; [reflexivity | cbn; discriminate]|].
  destruct (E.encode_graph_start (st_integ m) gid (st_enc m)) as [[t' rows]|e]; [|intros [= <- <- <-]; split; [reflexivity | cbn; discriminate]].
  destruct (graph_triples ts _) as [[m2 evs2] ok2] eqn:Eg. destruct (graph_triples_ends _ _ _ _ _ Eg) as [Hc2 Hr].
  destruct ok2.
  - destruct (frame_from_bounds _) as [fl fr]. intros [= <- <- <-]. split; [exact Hc2|]. rewrite raised_app, raised_emit_opt, Hr. reflexivity.
  - intros [= <- <- <-]. split; [exact Hc2 | exact Hr].
Qed.

Section GraphLoop.
Context {D : Type}.
Context (lg : list (Graph SN) -> RStream * D * list (pbval str) -> loopres unit (RStream * D * list (pbval str))).
Context (H_nil : forall st, lg [] st = LContinue st).
Context (H_cons : forall gk gs gx (k : D) ys,
  lg (gk :: gs) (gx, k, ys) =
  let '(res, gx', _, ys1) := Stream_graph SN (obj_eqb SN) rs_spo rs_graph (Graph_identifier gk) (Graph__triples gk) gx in
  match res with
  | Exn e => LRaise e (gx', k, ys ++ ys1)
  | Val _ => lg gs (gx', k, ys ++ ys1)
  end).

Lemma graph_loop_is_feed : forall gks gts,
  Forall2 (fun gk gt => Graph_identifier gk = robj_of_term (fst gt) /\ Graph__triples gk = map rterms (snd gt)) gks gts ->
  Forall stmts_ok (map snd gts) ->
  forall gx mx ys (k : D), rRs gx mx -> st_class mx = GraphStream ->
  match lg gks (gx, k, ys), feed_graphs gts mx with
  | LContinue (g', k', ys'), (m', evs, true) => rRs g' m' /\ k' = k /\ ys' = ys ++ map fmsg (emitted evs) /\ raised evs = None
  | LRaise _ (g', k', ys'), (m', evs, false) => rRs g' m' /\ k' = k /\ ys' = ys ++ map fmsg (emitted evs) /\ raised evs <> None
  | _, _ => False
  end.
Proof.
  induction 1 as [|gk [gid ts] gks gts [Hid Htr] _ IH]; intros Hoks gx mx ys k HRx Hcx.
  - cbn [feed_graphs]. rewrite H_nil. split; [exact HRx|]. split; [reflexivity|]. split; [cbn; rewrite app_nil_r; reflexivity | reflexivity].
  - cbn [feed_graphs map fst snd] in *. rewrite H_cons, Hid, Htr.
    pose proof (rdflib_stream_graph_is_model gid ts gx mx HRx Hcx (Forall_inv Hoks)) as Hstep.
    destruct (Stream_graph SN (obj_eqb SN) rs_spo rs_graph (robj_of_term gid) (map rterms ts) gx) as [[[res gx'] rest] ys1].
    destruct (stream_graph gid ts mx) as [[mx' evs1] ok1] eqn:Eg. destruct Hstep as (HRx' & -> & Hres).
    destruct (stream_graph_ends _ _ _ _ _ _ Eg) as [Hcx' Hr1].
    destruct res as [u|e]; subst ok1.
    + specialize (IH (Forall_inv_tail Hoks) gx' mx' (ys ++ map fmsg (emitted evs1)) k HRx' ltac:(rewrite Hcx'; exact Hcx)).
      destruct (lg gks (gx', k, ys ++ map fmsg (emitted evs1))) as [[[g' k'] ys']|rv [[g' k'] ys']|e [[g' k'] ys']];
        destruct (feed_graphs gts mx') as [[m' evs] okb]; destruct okb; try contradiction.
      * destruct IH as (HR' & -> & -> & Hr2). split; [exact HR'|]. split; [reflexivity|].
        split; [rewrite emitted_app, map_app, app_assoc; reflexivity|]. rewrite raised_app, Hr1. exact Hr2.
      * destruct IH as (HR' & -> & -> & Hr2). split; [exact HR'|]. split; [reflexivity|].
        split; [rewrite emitted_app, map_app, app_assoc; reflexivity|]. rewrite raised_app, Hr1. exact Hr2.
    + split; [exact HRx'|]. split; [reflexivity|]. split; [reflexivity | exact Hr1].
Qed.
End GraphLoop.

Theorem rdflib_graphs_stream_frames_is_model (k : Dataset SN) (d : rdata) (g : RStream) (m : stream) :
  RDs k d -> Forall stmts_ok (map snd (rd_graphs d)) -> rRs g m -> st_class m = GraphStream ->
  match graphs_stream_frames SN g k, rdf_graphs_stream_frames d m with
  | (r, g', k', ys), (m', evs) => rRs g' m' /\ k' = k /\ ys = map fmsg (emitted evs) /\ ends r evs
  end.
Proof.
  intros (Hk & _ & Hns & Hgr) Hoks HR Hc.
  unfold graphs_stream_frames, rdf_graphs_stream_frames. cbv zeta.
  pose proof (source_enroll_is_model E.Rdflib robj_of_term rd_ok gput g m HR) as H0.
  destruct (Stream_enroll SN g) as [[u|e] g0]; [|contradiction].
  assert (Hc0 : st_class (enroll m) = GraphStream) by (rewrite enroll_class; exact Hc).
  unfold rdf_ns_phase. rewrite Hk, (nd_of_rRs g0 (enroll m) H0). cbn [app].
  destruct (p_nd (so_params (st_opts (enroll m)))).
  - pose proof (rdflib_namespace_declarations_ds_is_model k (rd_namespaces d) Hns g0 (enroll m) H0) as Hd.
    destruct (namespace_declarations_ds SN k g0) as [[[u1|e1] k1] g1]; destruct (declare_all (rd_namespaces d) (enroll m)) as [m1 [u1'|e1']] eqn:Ed;
      try contradiction; destruct Hd as [-> HR1].
    2:{ split; [exact HR1|]. split; [reflexivity|]. split; reflexivity. }
    assert (Hc1 : st_class m1 = GraphStream) by (rewrite (declare_all_class _ _ _ _ Ed); exact Hc0).
    unfold Dataset_graphs. cbv zeta. cbn [app].
    match goal with |- context [?f (Dataset__graphs k) (g1, k, ?n)] => set (lg := f) end.
    pose proof (graph_loop_is_feed lg (fun st => eq_refl)
                  ltac:(intros gk gs gx k0 ys; unfold lg at 1; fold lg; unfold Graph___iter__; cbv beta iota zeta; cbn [app];
                        change (Stream_graph SN (any_eqb SN) (TermEncoder_encode_spo SN) (TermEncoder_encode_graph SN)) with (Stream_graph SN (obj_eqb SN) rs_spo rs_graph);
                        destruct (Stream_graph SN (obj_eqb SN) rs_spo rs_graph (Graph_identifier gk) (Graph__triples gk) gx) as [[[[u2|e2] gx'] rest] ys1]; reflexivity)
                  (Dataset__graphs k) (rd_graphs d) Hgr Hoks g1 m1 [] k HR1 Hc1) as H.
    change (carrier SN) with str in *.
    destruct (lg (Dataset__graphs k) (g1, k, [])) as [[[g2 k2] ys2]|rv [[g2 k2] ys2]|e2 [[g2 k2] ys2]];
      destruct (feed_graphs (rd_graphs d) m1) as [[m2 evs] okb]; destruct okb; try contradiction.
    + destruct H as (HR2 & -> & -> & Hr). cbn [app].
      pose proof (finish_tie false g2 m2 k (map fmsg (emitted evs)) HR2) as Hf. unfold finish_gen in Hf.
      after_finish Hf; destruct (finish false m2) as [m3 fin]; destruct Hf as (H1 & H2 & H3 & H4 & H5); try discriminate H4;
        (split; [exact H1|]; split; [exact H2|]; split; [rewrite emitted_app, map_app; exact H3|]; unfold ends; rewrite raised_app, Hr, H5; exact I).
    + destruct H as (HR2 & -> & -> & Hr). split; [exact HR2|]. split; [reflexivity|]. split; [reflexivity|].
      unfold ends. destruct (raised evs); [exact I | contradiction].
  - unfold Dataset_graphs. cbv zeta. cbn [app].
    match goal with |- context [?f (Dataset__graphs k) (g0, k, ?n)] => set (lg := f) end.
    pose proof (graph_loop_is_feed lg (fun st => eq_refl)
                  ltac:(intros gk gs gx k0 ys; unfold lg at 1; fold lg; unfold Graph___iter__; cbv beta iota zeta; cbn [app];
                        change (Stream_graph SN (any_eqb SN) (TermEncoder_encode_spo SN) (TermEncoder_encode_graph SN)) with (Stream_graph SN (obj_eqb SN) rs_spo rs_graph);
                        destruct (Stream_graph SN (obj_eqb SN) rs_spo rs_graph (Graph_identifier gk) (Graph__triples gk) gx) as [[[[u2|e2] gx'] rest] ys1]; reflexivity)
                  (Dataset__graphs k) (rd_graphs d) Hgr Hoks g0 (enroll m) [] k H0 Hc0) as H.
    change (carrier SN) with str in *.
    destruct (lg (Dataset__graphs k) (g0, k, [])) as [[[g2 k2] ys2]|rv [[g2 k2] ys2]|e2 [[g2 k2] ys2]];
      destruct (feed_graphs (rd_graphs d) (enroll m)) as [[m2 evs] okb]; destruct okb; try contradiction.
    + destruct H as (HR2 & -> & -> & Hr). cbn [app].
      pose proof (finish_tie false g2 m2 k (map fmsg (emitted evs)) HR2) as Hf. unfold finish_gen in Hf.
      after_finish Hf; destruct (finish false m2) as [m3 fin]; destruct Hf as (H1 & H2 & H3 & H4 & H5); try discriminate H4;
        (split; [exact H1|]; split; [exact H2|]; split; [rewrite emitted_app, map_app; exact H3|]; unfold ends; rewrite raised_app, Hr, H5; exact I).
    + destruct H as (HR2 & -> & -> & Hr). split; [exact HR2|]. split; [reflexivity|]. split; [reflexivity|].
      unfold ends. destruct (raised evs); [exact I | contradiction].
Qed.

(* ------------------------------------------------------------------ stream_frames(stream, dataset): the implementation registered for the class *)
Theorem rdflib_stream_frames_is_model (k : Dataset SN) (d : rdata) (g : RStream) (m : stream) :
  RDs k d -> stmts_ok (rd_stmts d) -> Forall stmts_ok (map snd (rd_graphs d)) -> rRs g m ->
  match stream_frames SN g k, rdf_stream_frames d m with
  | (r, g', k', ys), (m', evs) => rRs g' m' /\ k' = k /\ ys = map fmsg (emitted evs) /\ ends r evs
  end.
Proof.
  intros HRd Hok Hoks HR. pose proof HR as (Ht & _). unfold stream_frames, rdf_stream_frames. cbv zeta. rewrite Ht.
  destruct (st_class m) eqn:Ec; cbn [tag_of_class Stream_cls_eqb orb] in *.
  - pose proof (rdflib_triples_stream_frames_ds_is_model k d g m HRd Hoks HR ltac:(rewrite Ec; discriminate)) as H.
    destruct (triples_stream_frames_ds SN g k) as [[[r g'] k'] ys]. destruct (rdf_triples_stream_frames d m) as [m' evs].
    destruct H as (H1 & H2 & H3 & H4). cbn [app]. destruct r; (split; [exact H1|]; split; [exact H2|]; split; [exact H3 | exact H4]).
  - pose proof (rdflib_quads_stream_frames_is_model k d g m HRd Hok HR Ec) as H.
    destruct (quads_stream_frames SN g k) as [[[r g'] k'] ys]. destruct (rdf_quads_stream_frames d m) as [m' evs].
    destruct H as (H1 & H2 & H3 & H4). cbn [app]. destruct r; (split; [exact H1|]; split; [exact H2|]; split; [exact H3 | exact H4]).
  - pose proof (rdflib_graphs_stream_frames_is_model k d g m HRd Hoks HR Ec) as H.
    destruct (graphs_stream_frames SN g k) as [[[r g'] k'] ys]. destruct (rdf_graphs_stream_frames d m) as [m' evs].
    destruct H as (H1 & H2 & H3 & H4). cbn [app]. destruct r; (split; [exact H1|]; split; [exact H2|]; split; [exact H3 | exact H4]).
Qed.

Print Assumptions rdflib_namespace_declarations_is_model.
Print Assumptions rdflib_quads_stream_frames_is_model.
Print Assumptions rdflib_quads_stream_frames_gen_is_model.
Print Assumptions rdflib_triples_stream_frames_is_model.
Print Assumptions rdflib_triples_stream_frames_gen_is_model.
Print Assumptions rdflib_triples_stream_frames_ds_is_model.
Print Assumptions rdflib_graphs_stream_frames_is_model.
Print Assumptions rdflib_namespace_declarations_ds_is_model.
Print Assumptions rdflib_stream_frames_is_model.
