(* RdflibEntryTie.v -- guess_options(sink) of the rdflib integration (generated/RdflibSerializeGen.v, once per kind of sink: a Graph, a
   Dataset -- the isinstance test decided per variant) against the model's guess_options Rdflib: FLAT_TRIPLES for a Graph, FLAT_QUADS for a
   Dataset, generalized statements and RDF-star off, the default preset and frame size. *)
From Coq Require Import Lia ZifyBool.
From PJ.Model Require Import Base Terms Encoder Streams Api.
From PJ.Tie Require Import PyPrims StrN LookupEncTie OptionsTie EncodeTie EncodeStmtTie FlowsTie StreamsTie StmtLayout.
From PJ.Gen Require Import LookupEncGen OptionsGen EncodeGen FlowsGen StreamsGen RdflibSerializeGen.
Local Open Scope Z_scope.

Lemma guess_options_shape (quads : bool) :
  exists go, (match StreamParameters___init__ SN false false 2 true false (s_empty SN) with
              | Exn e => Exn e
              | Val params =>
                match LookupPreset___init__ 4000 150 32 with
                | Exn e => Exn e
                | Val pr => SerializerOptions___init__ SN None 250 (if quads then 2 else 1) params pr
                end
              end) = Val go /\ Ro gput go (Streams.guess_options Rdflib quads).
Proof.
  rewrite source_params_version_is_model.
  change (LookupPreset___init__ 4000 150 32) with (LookupPreset___init__ (Z.of_N 4000) (Z.of_N 150) (Z.of_N 32)).
  rewrite source_preset_is_model. cbn [preset_ok]. unfold SerializerOptions___init__.
  eexists. split; [reflexivity|].
  unfold Ro, Streams.guess_options, default_params, params_obj, params_version.
  cbn [SerializerOptions_flow SerializerOptions_frame_size SerializerOptions_logical_type SerializerOptions_params SerializerOptions_lookup_preset
       so_flow so_frame_size so_logical so_params so_maxn so_maxp so_maxd p_gen p_star p_delimited p_nd p_name].
  split; [exact I|]. split; [reflexivity|]. split; [destruct quads; reflexivity|]. split; reflexivity.
Qed.

Theorem rdflib_guess_options_is_model (k : Graph SN) :
  exists go, guess_options SN k = (Val go, k) /\ Ro gput go (Streams.guess_options Rdflib false).
Proof.
  destruct (guess_options_shape false) as (go & H & HR). exists go. split; [|exact HR].
  unfold guess_options. cbv zeta. revert H.
  destruct (StreamParameters___init__ SN false false 2 true false (s_empty SN)) as [params|e]; [|discriminate].
  destruct (LookupPreset___init__ 4000 150 32) as [pr|e]; [|discriminate]. cbn [app]. intros ->. reflexivity.
Qed.

Theorem rdflib_guess_options_ds_is_model (k : Dataset SN) :
  exists go, guess_options_ds SN k = (Val go, k) /\ Ro gput go (Streams.guess_options Rdflib true).
Proof.
  destruct (guess_options_shape true) as (go & H & HR). exists go. split; [|exact HR].
  unfold guess_options_ds. cbv zeta. revert H.
  destruct (StreamParameters___init__ SN false false 2 true false (s_empty SN)) as [params|e]; [|discriminate].
  destruct (LookupPreset___init__ 4000 150 32) as [pr|e]; [|discriminate]. cbn [app]. intros ->. reflexivity.
Qed.

Print Assumptions rdflib_guess_options_is_model.
Print Assumptions rdflib_guess_options_ds_is_model.
