(* OptionsTie.v -- source tie for pyjelly/options.py: LookupPreset.__post_init__,
   StreamParameters.__post_init__, StreamTypes / validate_type_compatibility, translated from the source
   on every run (generated/OptionsGen.v), against the model's preset_ok, params_version, type_compat,
   logical_flat (model/Streams.v).  The enum numbers come from the descriptor in rdf_pb2.py. *)
From Coq Require Import Lia ZifyBool.
From PJ.Model Require Import Base Streams.
From PJ.Tie Require Import PyPrims.
From PJ.Gen Require Import OptionsGen.
Local Open Scope Z_scope.

(* LookupPreset(...) is built exactly when the model's preset_ok holds, refused with a
   JellyConformanceError otherwise, and holds the sizes it was given *)
Theorem source_preset_is_model (n p d : N) :
  LookupPreset___init__ (Z.of_N n) (Z.of_N p) (Z.of_N d) =
  if preset_ok n p d then Val (mk_LookupPreset (Z.of_N n) (Z.of_N p) (Z.of_N d)) else Exn JellyConformanceError.
Proof.
  unfold LookupPreset___init__, LookupPreset___post_init__, preset_ok, MIN_NAME_LOOKUP_SIZE, MAX_LOOKUP_SIZE.
  cbn [LookupPreset_max_names LookupPreset_max_prefixes LookupPreset_max_datatypes].
  destruct (n <? 8)%N eqn:E1.
  - replace (Z.of_N n <? 8) with true by lia. reflexivity.
  - replace (Z.of_N n <? 8) with false by lia. cbn [negb andb].
    destruct ((n <=? 4096) && (p <=? 4096) && (d <=? 4096))%N eqn:E2.
    + replace (Z.max (Z.max (Z.of_N n) (Z.of_N p)) (Z.of_N d) >? 4096) with false by lia. reflexivity.
    + replace (Z.max (Z.max (Z.of_N n) (Z.of_N p)) (Z.of_N d) >? 4096) with true by lia. reflexivity.
Qed.

(* validate_type_compatibility returns exactly on the pairs the model's type_compat accepts and raises
   on the others (a JellyAssertionError, or the ValueError of Enum.Name for a number outside the enum) *)
Theorem source_type_compat_is_model (p l : N) :
  match validate_type_compatibility (Z.of_N p) (Z.of_N l) with
  | Val _ => type_compat p l = true
  | Exn e => type_compat p l = false /\ (e = JellyAssertionError \/ e = ValueError)
  end.
Proof.
  unfold validate_type_compatibility, type_compat, triples_only_logical.
  destruct ((p =? 0) || (l =? 0))%N eqn:E0.
  - replace ((Z.of_N p =? 0) || (Z.of_N l =? 0))%bool with true by lia. reflexivity.
  - replace ((Z.of_N p =? 0) || (Z.of_N l =? 0))%bool with false by lia.
    cbv zeta.
    replace (Z.of_N p =? 1) with (p =? 1)%N by lia.
    replace ((Z.of_N l =? 3) || (Z.of_N l =? 13) || (Z.of_N l =? 1))%bool with ((l =? 3) || (l =? 13) || (l =? 1))%N%bool by lia.
    destruct (Bool.eqb (p =? 1)%N ((l =? 3) || (l =? 13) || (l =? 1))%N%bool); cbn [negb]; [reflexivity|].
    repeat match goal with |- context [if ?c then _ else _] => destruct c end; split; auto.
Qed.

Theorem source_stream_types_is_model (p l : N) :
  match StreamTypes___init__ (Z.of_N p) (Z.of_N l) with
  | Val st => type_compat p l = true /\ st = mk_StreamTypes (Z.of_N p) (Z.of_N l) /\
              fst (StreamTypes_flat st) = Val (logical_flat l)
  | Exn _ => type_compat p l = false
  end.
Proof.
  unfold StreamTypes___init__, StreamTypes___post_init__.
  cbn [StreamTypes_physical_type StreamTypes_logical_type].
  pose proof (source_type_compat_is_model p l) as H.
  destruct (validate_type_compatibility (Z.of_N p) (Z.of_N l)) as [u|e].
  - split; [exact H|]. split; [reflexivity|].
    unfold StreamTypes_flat, logical_flat. cbn [fst StreamTypes_logical_type].
    f_equal. lia.
  - apply H.
Qed.

(* StreamParameters: the declared version is 2 exactly when namespace declarations are on, whatever version
   the caller asked for; construction never fails and no other field changes *)
Section Params.
Context (S : strops).
Theorem source_params_version_is_model (g s d nd : bool) (v : Z) (name : carrier S) :
  StreamParameters___init__ S g s v d nd name =
  Val (mk_StreamParameters g s (if nd then 2 else 1) d nd name).
Proof.
  unfold StreamParameters___init__, StreamParameters___post_init__.
  cbn [StreamParameters_namespace_declarations].
  destruct nd; reflexivity.
Qed.

End Params.

Print Assumptions source_preset_is_model.
Print Assumptions source_type_compat_is_model.
Print Assumptions source_stream_types_is_model.
Print Assumptions source_params_version_is_model.
