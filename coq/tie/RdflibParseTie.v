(* RdflibParseTie.v -- source tie for the adapters of the rdflib integration (pyjelly/integrations/rdflib/parse.py with the
   Adapter base class of pyjelly/parse/decode.py; generated/RdflibParseGen.v, translated on every run) over rdflib's term
   objects as the unit SPECIFIES them (URIRef / BNode: the string given; Literal: the specified constructor rdflib_Literal --
   translate/dyn.py -- with its language-tag check and its whiteSpace-facet rewriting) and the tuple classes Triple / Quad /
   Prefix of the file itself.

   1. The translated adapter classes (RDFLibTriplesAdapter / RDFLibQuadsAdapter / RDFLibGraphsAdapter) simulate the adapters as
      model/Decoder.v has them (DecoderBase.madapter with ig = Rdflib; literal() = mk_literal Rdflib): the premises of
      DecoderTie.v's Section Adapters, PROVED -- nothing is assumed of the rdflib adapters any more.
   2. Hence the translated Decoder class over the translated rdflib adapters is in lock step with the model's decode_row /
      decode_rows at ig = Rdflib: rdflib_decode_row_is_model, rdflib_iter_rows_is_model, rdflib_iter_rows_on_built_frame,
      rdflib_decoder_init_is_model.
   What is yielded is spelled out: a Triple / Quad / Prefix object whose items are the rdflib objects of the model's terms
   (pobj_of_event; the default graph is rdflib's DATASET_DEFAULT_GRAPH_ID). *)
From Coq Require Import Lia ZifyBool.
From PJ.Model Require Import Base Terms Encoder Streams Decoder.
From PJ.Tie Require Import PyPrims StrN OptionsTie DecodeTie DecoderBase DecoderTie.
From PJ.Gen Require Import LookupDecGen OptionsGen DecodeGen RdflibParseGen.
Local Open Scope Z_scope.


Notation pobj := (obj SN).

(* ------------------------------------------------------------------ values: the rdflib object of a term, of an event *)
Definition default_graph_id : str := s_lit SN [117; 114; 110; 58; 120; 45; 114; 100; 102; 108; 105; 98; 58; 100; 101; 102; 97; 117; 108; 116].
Definition pobj_of_term (t : term) : pobj :=
  match t with
  | TIri s => (@O_URIRef SN) s
  | TBnode l => (@O_BNode SN) l
  | TLit lex lang dt => (@O_Literal SN) lex lang dt
  | TDefault => (@O_URIRef SN) default_graph_id          (* rdflib.graph.DATASET_DEFAULT_GRAPH_ID *)
  | TTriple _ _ _ | TOther => (@O_None SN)               (* (not rdflib terms: never built by these adapters) *)
  end.
Definition pobj_of_event (e : event) : pobj :=
  match e with
  | ETriple s p o => (@O_Triple SN) (pobj_of_term s) (pobj_of_term p) (pobj_of_term o)
  | EQuad s p o g => (@O_Quad SN) (pobj_of_term s) (pobj_of_term p) (pobj_of_term o) (pobj_of_term g)
  | EPrefix name iri => (@O_Prefix SN) name ((@O_URIRef SN) iri)
  end.

Notation GA := (Adapter SN).

Definition RTg (v : pobj) (mv : aval) : Prop :=
  match mv with
  | ATerm t => v = pobj_of_term t
  | AEv e => v = pobj_of_event e
  | AUnit => v = (@O_None SN)
  end.

(* ------------------------------------------------------------------ states *)
(* the stream types are values of their enums (options_from_frame built them through StreamTypes(..), which checks
   nothing of the sort; a stream saying otherwise makes _adapter_missing itself fail with ValueError) *)
Definition types_named (st : StreamTypes) : Prop :=
  forall feature, _adapter_missing SN feature st = Exn NotImplementedError.

Definition tag_kind (c : Adapter_cls) : option adapter_kind :=
  match c with
  | K_RDFLibTriplesAdapter => Some ATriples
  | K_RDFLibQuadsAdapter => Some AQuads
  | K_RDFLibGraphsAdapter => Some AGraphs
  | _ => None
  end.

Definition RAg (a : GA) (ma : madapter) : Prop :=
  ma_ig ma = Rdflib /\ Adapter_options a = ma_opts ma /\ types_named (ParserOptions_stream_types (ma_opts ma)) /\
  tag_kind (Adapter_cls_tag a) = Some (ma_kind ma) /\
  (ma_kind ma = AGraphs -> Adapter__graph_id a = option_map pobj_of_term (ma_graph ma)).

Notation gsim := (sim (A := GA) (T := pobj) RAg RTg).

Lemma Forall2_terms (ts : list pobj) (tms : list term) : Forall2 RTg ts (map ATerm tms) -> ts = map pobj_of_term tms.
Proof.
  revert ts. induction tms as [|t tms IH]; intros ts H; inversion H; subst; cbn [map]; [reflexivity|].
  f_equal; [assumption | apply IH; assumption].
Qed.

(* ------------------------------------------------------------------ the eleven operations *)
Lemma G_options a ma : RAg a ma -> Adapter_options a = ma_opts ma.
Proof. intros (_ & H & _). exact H. Qed.

Ltac tags a ma H :=
  destruct a as [tag opts gid]; destruct H as (Hig & Hopts & Hty & Htag & Hg); cbn [Adapter_cls_tag Adapter_options Adapter__graph_id] in *;
  destruct tag; cbn [tag_kind] in Htag; try discriminate.

Lemma G_iri k a ma : RAg a ma -> gsim (Adapter_iri SN k a) (a_iri k ma).
Proof. intros H. pose proof H as H0. tags a ma H; cbn; (split; [reflexivity | exact H0]). Qed.

Lemma G_default a ma : RAg a ma -> gsim (Adapter_default_graph SN a) (a_default_graph ma).
Proof. intros H. pose proof H as H0. tags a ma H; cbn; (split; [reflexivity | exact H0]). Qed.

Lemma G_bnode k a ma : RAg a ma -> gsim (Adapter_bnode SN k a) (a_bnode k ma).
Proof. intros H. pose proof H as H0. tags a ma H; cbn; (split; [reflexivity | exact H0]). Qed.

(* the specified constructor (translate/dyn.py, rdflib_Literal) is the model's account of it (model/Decoder.v, mk_literal Rdflib) *)
Lemma rdflib_Literal_is_model lex lang dt :
  rdflib_Literal SN lex lang dt = match mk_literal Rdflib lex lang dt with Ok t => Val (pobj_of_term t) | Err e => Exn (exn_of e) end.
Proof.
  unfold rdflib_Literal, mk_literal. cbn [s_is_empty s_langtag_ok s_rdflib_lex SN].
  destruct lang as [[|c l]|]; cbn [is_nil]; destruct dt as [d|]; try reflexivity.
  destruct (valid_langtag (c :: l)); reflexivity.
Qed.

Lemma G_literal lex lang dt a ma : RAg a ma -> gsim (Adapter_literal SN lex lang dt a) (a_literal lex lang dt ma).
Proof.
  intros H. pose proof H as H0. unfold a_literal. tags a ma H; rewrite Hig; unfold Adapter_literal; cbn [Adapter_cls_tag];
    rewrite rdflib_Literal_is_model; destruct (mk_literal Rdflib lex lang dt) as [t|e]; cbn [sim]; try reflexivity; (split; [reflexivity | exact H0]).
Qed.

Lemma missing a ma feature : RAg a ma -> _adapter_missing SN feature (ParserOptions_stream_types (Adapter_options a)) = Exn NotImplementedError.
Proof. intros (_ & Ho & Hty & _). rewrite Ho. apply Hty. Qed.

(* quoted triples: the rdflib adapters do not implement them *)
Lemma G_quoted ts tms a ma : RAg a ma -> Forall2 RTg ts (map ATerm tms) -> gsim (Adapter_quoted_triple SN ts a) (a_quoted (map ATerm tms) ma).
Proof.
  intros H HF. pose proof H as H0. unfold a_quoted.
  pose proof (fun f => missing a ma f H0) as Hm.
  tags a ma H; rewrite Hig; unfold Adapter_quoted_triple; cbn [Adapter_cls_tag Adapter_options] in *; rewrite Hm; reflexivity.
Qed.

Lemma G_triple ts tms a ma : RAg a ma -> Forall2 RTg ts (map ATerm tms) -> gsim (Adapter_triple SN ts a) (a_triple (map ATerm tms) ma).
Proof.
  intros H HF. pose proof H as H0. apply Forall2_terms in HF. subst ts. unfold a_triple.
  pose proof (fun f => missing a ma f H0) as Hm.
  tags a ma H; injection Htag as Hk; rewrite <- Hk; unfold Adapter_triple; cbn [Adapter_cls_tag Adapter_options] in *.
  - destruct tms as [|t1 [|t2 [|t3 [|t4 tms]]]]; cbn; try reflexivity. split; [reflexivity | exact H0].
  - rewrite Hm. reflexivity.
  - unfold Adapter_graph. cbn [Adapter_cls_tag Adapter__graph_id]. pose proof (Hg (eq_sym Hk)) as Eg. subst gid.
    destruct (ma_graph ma) as [g|] eqn:Eg2; cbn [option_map]; [|reflexivity].
    destruct tms as [|t1 [|t2 [|t3 [|t4 tms]]]]; cbn; try reflexivity; [|destruct tms; reflexivity].
    split; [reflexivity | exact H0].
Qed.

Lemma G_quad ts tms a ma : RAg a ma -> Forall2 RTg ts (map ATerm tms) -> gsim (Adapter_quad SN ts a) (a_quad (map ATerm tms) ma).
Proof.
  intros H HF. pose proof H as H0. apply Forall2_terms in HF. subst ts. unfold a_quad.
  pose proof (fun f => missing a ma f H0) as Hm.
  tags a ma H; injection Htag as Hk; rewrite <- Hk; unfold Adapter_quad; cbn [Adapter_cls_tag Adapter_options] in *; try (rewrite Hm; reflexivity).
  destruct tms as [|t1 [|t2 [|t3 [|t4 [|t5 tms]]]]]; cbn; try reflexivity. split; [reflexivity | exact H0].
Qed.

Lemma G_graph_start g t a ma : RAg a ma -> RTg g (ATerm t) -> gsim (Adapter_graph_start SN g a) (a_graph_start (ATerm t) ma).
Proof.
  intros H Hv. pose proof H as H0. cbn [RTg] in Hv. subst g. unfold a_graph_start.
  pose proof (fun f => missing a ma f H0) as Hm.
  tags a ma H; injection Htag as Hk; rewrite <- Hk; unfold Adapter_graph_start; cbn [Adapter_cls_tag Adapter_options] in *; try (rewrite Hm; reflexivity).
  cbn. split; [reflexivity|]. split; [exact Hig|]. split; [exact Hopts|]. split; [exact Hty|].
  split; [cbn; rewrite <- Hk; reflexivity | intros _; reflexivity].
Qed.

Lemma G_graph_end a ma : RAg a ma -> gsim (Adapter_graph_end SN a) (a_graph_end ma).
Proof.
  intros H. pose proof H as H0. unfold a_graph_end.
  pose proof (fun f => missing a ma f H0) as Hm.
  tags a ma H; injection Htag as Hk; rewrite <- Hk; unfold Adapter_graph_end; cbn [Adapter_cls_tag Adapter_options] in *; try (rewrite Hm; reflexivity).
  cbn. split; [reflexivity|]. split; [exact Hig|]. split; [exact Hopts|]. split; [exact Hty|].
  split; [cbn; rewrite <- Hk; reflexivity | intros _; reflexivity].
Qed.

Lemma G_namespace name v iri a ma : RAg a ma -> RTg v (ATerm (TIri iri)) -> gsim (Adapter_namespace_declaration SN name v a) (a_namespace name (ATerm (TIri iri)) ma).
Proof.
  intros H Hv. pose proof H as H0. cbn [RTg pobj_of_term] in Hv. subst v.
  tags a ma H; cbn; (split; [reflexivity | exact H0]).
Qed.

(* ------------------------------------------------------------------ the Decoder over the translated adapters *)
Notation GDec := (@Decoder SN pobj GA).
Notation gd_row := (Decoder_decode_row SN Adapter_options (Adapter_iri SN) (Adapter_default_graph SN) (Adapter_bnode SN) (Adapter_literal SN)
                      (Adapter_triple SN) (Adapter_quad SN) (Adapter_graph_start SN) (Adapter_graph_end SN) (Adapter_namespace_declaration SN) (Adapter_quoted_triple SN)).
Notation gd_iter_rows := (Decoder_iter_rows SN Adapter_options (Adapter_iri SN) (Adapter_default_graph SN) (Adapter_bnode SN) (Adapter_literal SN)
                      (Adapter_triple SN) (Adapter_quad SN) (Adapter_graph_start SN) (Adapter_graph_end SN) (Adapter_namespace_declaration SN) (Adapter_quoted_triple SN)).
Definition GRdec := Rdec (A := GA) (T := pobj) RAg RTg.

(* what is yielded, spelled out: the objects of the model's events, in order *)
Lemma gyields_map ys evs : yields (T := pobj) RTg ys evs -> ys = map (fun e => Some (pobj_of_event e)) evs.
Proof. induction 1 as [|y ev ys evs (x & -> & Hx) _ IH]; cbn in *; [reflexivity | rewrite IH, Hx; reflexivity]. Qed.

Theorem rdflib_decode_row_is_model ak po r m (d : GDec) st :
  GRdec Rdflib ak po d st -> reads_row r m ->
  match gd_row m d, decode_row Rdflib ak po r st with
  | (Val v, d'), Ok (st', evs) => GRdec Rdflib ak po d' st' /\ row_out (T := pobj) RTg r v evs
  | (Exn e, _), Err me => err_ok e me
  | _, _ => False
  end.
Proof.
  exact (decode_row_tie Adapter_options (Adapter_iri SN) (Adapter_default_graph SN) (Adapter_bnode SN) (Adapter_literal SN)
           (Adapter_triple SN) (Adapter_quad SN) (Adapter_graph_start SN) (Adapter_graph_end SN) (Adapter_namespace_declaration SN) (Adapter_quoted_triple SN)
           RAg RTg G_options G_iri G_default G_bnode G_literal G_triple G_quad G_graph_start G_graph_end G_namespace G_quoted Rdflib ak po r m d st).
Qed.

Theorem rdflib_iter_rows_is_model ak po (rows : list row) (owners : list (pbval str)) (fm : pbval str) (d : GDec) st :
  GRdec Rdflib ak po d st -> msg_rep "rows" fm = owners -> Forall2 reads_owner rows owners ->
  match gd_iter_rows fm d, decode_rows Rdflib ak po rows st with
  | (r, d', ys), (st', evs, err) =>
    ys = map (fun e => Some (pobj_of_event e)) evs /\
    match r, err with
    | Val _, None => GRdec Rdflib ak po d' st'
    | Exn e, Some me => err_ok_gen e me
    | _, _ => False
    end
  end.
Proof.
  intros HR Hrep Hall.
  pose proof (iter_rows_tie Adapter_options (Adapter_iri SN) (Adapter_default_graph SN) (Adapter_bnode SN) (Adapter_literal SN)
           (Adapter_triple SN) (Adapter_quad SN) (Adapter_graph_start SN) (Adapter_graph_end SN) (Adapter_namespace_declaration SN) (Adapter_quoted_triple SN)
           RAg RTg G_options G_iri G_default G_bnode G_literal G_triple G_quad G_graph_start G_graph_end G_namespace G_quoted Rdflib ak po rows owners fm d st HR Hrep Hall) as H.
  destruct (gd_iter_rows fm d) as [[r d'] ys]. destruct (decode_rows Rdflib ak po rows st) as [[st' evs] err].
  destruct H as [Hy H]. split; [apply gyields_map; exact Hy | exact H].
Qed.

Theorem rdflib_iter_rows_on_built_frame ak po (rows : list row) (d : GDec) st :
  GRdec Rdflib ak po d st -> forallb wf_row rows = true ->
  match gd_iter_rows (PMsg "RdfStreamFrame" [("rows"%string, PRep (map owner_msg rows))]) d, decode_rows Rdflib ak po rows st with
  | (r, d', ys), (st', evs, err) =>
    ys = map (fun e => Some (pobj_of_event e)) evs /\
    match r, err with
    | Val _, None => GRdec Rdflib ak po d' st'
    | Exn e, Some me => err_ok_gen e me
    | _, _ => False
    end
  end.
Proof.
  intros HR Hwf. apply (rdflib_iter_rows_is_model ak po rows (map owner_msg rows)); [exact HR | reflexivity|].
  induction rows as [|r rows IH]; cbn [map]; [constructor|].
  cbn [forallb] in Hwf. apply andb_true_iff in Hwf as [Hr Hwf].
  constructor; [apply owner_msg_reads; exact Hr | apply IH; exact Hwf].
Qed.

(* construction: the adapter class the parser picks for the physical type, then Decoder(adapter) *)
Definition adapter_ctor (ak : adapter_kind) : ParserOptions SN -> outcome GA :=
  match ak with
  | ATriples => RDFLibTriplesAdapter___init__ SN
  | AQuads => RDFLibQuadsAdapter___init__ SN
  | AGraphs => RDFLibGraphsAdapter___init__ SN
  end.

Theorem rdflib_decoder_init_is_model ak po :
  types_named (ParserOptions_stream_types (popts_obj po)) ->
  exists a, adapter_ctor ak (popts_obj po) = Val a /\
  match Decoder___init__ SN Adapter_options a, decoder_new po with
  | Val d, Ok st => GRdec Rdflib ak po d st
  | Exn e, Err me => e = exn_of me
  | _, _ => False
  end.
Proof.
  intros Hty. destruct ak; cbn [adapter_ctor]; (eexists; split; [reflexivity|]);
    apply (decoder_init_tie Adapter_options RAg RTg G_options Rdflib _ po); repeat split; try assumption; cbn; try reflexivity; discriminate.
Qed.

(* the premise on the stream types is met exactly by the values the enums name *)
Lemma types_named_iff_r po :
  types_named (ParserOptions_stream_types (popts_obj po)) <->
  (po_phys po <= 3)%N /\ In (po_logical po) [0; 1; 2; 3; 4; 13; 14; 114]%N.
Proof.
  unfold types_named, _adapter_missing, popts_obj. cbn [ParserOptions_stream_types StreamTypes_physical_type StreamTypes_logical_type].
  split.
  - intros H. specialize (H []).
    destruct ((Z.of_N (po_phys po) =? 0) || (Z.of_N (po_phys po) =? 1) || (Z.of_N (po_phys po) =? 2) || (Z.of_N (po_phys po) =? 3)) eqn:E1; [|discriminate].
    destruct ((Z.of_N (po_logical po) =? 0) || (Z.of_N (po_logical po) =? 1) || (Z.of_N (po_logical po) =? 2) || (Z.of_N (po_logical po) =? 3) ||
              (Z.of_N (po_logical po) =? 4) || (Z.of_N (po_logical po) =? 13) || (Z.of_N (po_logical po) =? 14) || (Z.of_N (po_logical po) =? 114)) eqn:E2; [|discriminate].
    split; [lia|]. cbn [In]. lia.
  - intros [H1 H2] feature. cbn [In] in H2.
    replace ((Z.of_N (po_phys po) =? 0) || (Z.of_N (po_phys po) =? 1) || (Z.of_N (po_phys po) =? 2) || (Z.of_N (po_phys po) =? 3)) with true by lia.
    replace ((Z.of_N (po_logical po) =? 0) || (Z.of_N (po_logical po) =? 1) || (Z.of_N (po_logical po) =? 2) || (Z.of_N (po_logical po) =? 3) ||
              (Z.of_N (po_logical po) =? 4) || (Z.of_N (po_logical po) =? 13) || (Z.of_N (po_logical po) =? 14) || (Z.of_N (po_logical po) =? 114)) with true by lia.
    reflexivity.
Qed.

Print Assumptions rdflib_decode_row_is_model.
Print Assumptions rdflib_iter_rows_is_model.
Print Assumptions rdflib_iter_rows_on_built_frame.
Print Assumptions rdflib_decoder_init_is_model.
Print Assumptions types_named_iff_r.
