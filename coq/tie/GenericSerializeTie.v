(* GenericSerializeTie.v -- source tie for the term encoder of the generic integration
   (pyjelly/integrations/generic/serialize.py: GenericSinkTermEncoder.encode_spo / encode_graph, generated/GenericSerializeGen.v,
   translated on every run; with the base-class helpers of pyjelly/serialize/encode.py it calls).

   EncodeStmtTie.v and StreamsTie.v hold for ANY dispatcher that simulates the model's encode_spo_term / encode_graph_term
   (premises sim_spo / sim_graph).  Here those premises are PROVED for the translated dispatchers of the generic
   integration, with the concrete layout of a term in a statement message (gput: the field of the slot that the kind of
   term selects, holding the message DecoderBase.wmsg gives the term -- the same message the reader's reads_term is
   stated on).  So the theorems of those two files apply to the generic integration with nothing assumed about its
   dispatchers. *)
From Coq Require Import Lia ZifyBool.
From PJ.Model Require Import Base Terms.
From PJ.Model Require Lookup Encoder.
From PJ.Model Require Streams.
From PJ.Tie Require Import PyPrims StrN LookupEncTie EncodeTie EncodeStmtTie FlowsTie StreamsTie DecoderBase GenericTerms.
From PJ.Tie Require Export StmtLayout.
From PJ.Gen Require Import LookupEncGen OptionsGen EncodeGen FlowsGen StreamsGen GenericSinkGen GenericSerializeGen.
Local Open Scope Z_scope.

(* ------------------------------------------------------------------ the translated dispatchers *)
Notation gs_spo_fuel := (GenericSinkTermEncoder_encode_spo_fuel SN).
(* the dispatchers exactly as the translated Stream methods of this integration are given them (the term objects are the
   translated classes of generic_sink.py, `obj`; the model's terms embed in them by obj_of_term) *)
Definition gs_spo := GenericSinkTermEncoder_encode_spo SN.
Definition gs_graph := GenericSinkTermEncoder_encode_graph SN.
Notation grmsg := (rmsg gput).
Notation gbuilding := (building gput).


Theorem gs_spo_fuel_tie (tm : term) : forall fuel i stmt g m, Rt g m -> (0 <= i <= 2) -> gbuilding i stmt -> (term_depth tm < fuel)%nat ->
  match gs_spo_fuel fuel (obj_of_term tm) i stmt g, E.encode_spo_term E.Generic tm m with
  | (Val rows, g', stmt'), Ok (m', mrows, w) => rows = map grmsg mrows /\ Rt g' m' /\ stmt' = gput i w stmt
  | (Exn _, _, _), Err _ => True
  | _, _ => False
  end.
Proof.
  induction tm as [iri|l|lex lang dt|s IHs p IHp o IHo| |]; intros fuel i stmt g m HR Hi Hb Hf;
    (destruct fuel as [|fuel]; [cbn in Hf; lia|]);
    cbn [GenericSinkTermEncoder_encode_spo_fuel obj_of_term E.encode_spo_term is_O_IRI is_O_Literal is_O_BlankNode is_O_Triple].
  - (* IRI *)
    assert (Hiri : forall f G, In f G -> G = grp i -> (pre i ++ "_iri")%string = f ->
              match (match TermEncoder_encode_iri SN iri (msg_sub f "RdfIri" stmt) g with
                     | (Val x, self, m13) => (Val x, self, msg_set G f m13 stmt)
                     | (Exn e, self, _) => (Exn e, self, stmt)
                     end), (do (t', rows0, p2, n) <- E.encode_iri iri m; Ok (t', rows0, WIri p2 n)) with
              | (Val rows, g', stmt'), Ok (m', mrows, w) => rows = map grmsg mrows /\ Rt g' m' /\ stmt' = gput i w stmt
              | (Exn _, _, _), Err _ => True
              | _, _ => False
              end).
    { intros f G Hin -> Hf0. rewrite (fresh_sub i stmt f "RdfIri" ltac:(lia) Hb Hin).
      pose proof (source_encode_iri_is_model iri g m HR) as H. change (carrier SN) with str in *.
      match goal with |- context [TermEncoder_encode_iri SN iri ?x g] => destruct (TermEncoder_encode_iri SN iri x g) as [[[rows|e] g'] msg] end;
        destruct (E.encode_iri iri m) as [[[[m' mrows] mp] mn]|e'] eqn:Ei; try contradiction; cbn [bind]; [|exact I].
      destruct H as (-> & -> & HR'). split; [apply entry_rows_grmsg; exact (encode_iri_entries _ _ _ _ _ _ Ei)|]. split; [exact HR'|].
      unfold gput. cbn [suffix wmsg]. rewrite Hf0. reflexivity. }
    slot_cases i Hi.
    + exact (Hiri "s_iri"%string (grp 0) ltac:(left; reflexivity) eq_refl eq_refl).
    + exact (Hiri "p_iri"%string (grp 1) ltac:(left; reflexivity) eq_refl eq_refl).
    + exact (Hiri "o_iri"%string (grp 2) ltac:(left; reflexivity) eq_refl eq_refl).
  - (* blank node *)
    unfold TermEncoder_set_bnode_field. slot_cases i Hi; (split; [reflexivity|]; split; [exact HR | reflexivity]).
  - (* literal *)
    assert (Hlit : forall f G, In f G -> G = grp i -> (pre i ++ "_literal")%string = f ->
              match (match TermEncoder_encode_literal SN lex lang dt (msg_sub f "RdfLiteral" stmt) g with
                     | (Val x, self, m13) => (Val x, self, msg_set G f m13 stmt)
                     | (Exn e, self, _) => (Exn e, self, stmt)
                     end), E.encode_literal lex lang dt m with
              | (Val rows, g', stmt'), Ok (m', mrows, w) => rows = map grmsg mrows /\ Rt g' m' /\ stmt' = gput i w stmt
              | (Exn _, _, _), Err _ => True
              | _, _ => False
              end).
    { intros f G Hin -> Hf0. rewrite (fresh_sub i stmt f "RdfLiteral" ltac:(lia) Hb Hin).
      pose proof (source_encode_literal_is_model lex lang dt g m HR) as H. change (carrier SN) with str in *.
      match goal with |- context [TermEncoder_encode_literal SN lex lang dt ?x g] => destruct (TermEncoder_encode_literal SN lex lang dt x g) as [[[rows|e] g'] msg] end;
        destruct (E.encode_literal lex lang dt m) as [[[m' mrows] w]|e'] eqn:El; try contradiction; [|exact H].
      destruct w as [| |lex' k| |]; try contradiction.
      destruct H as (-> & -> & HR'). split; [apply entry_rows_grmsg; exact (encode_literal_entries _ _ _ _ _ _ _ El)|]. split; [exact HR'|].
      unfold gput. cbn [suffix wmsg]. rewrite Hf0. reflexivity. }
    slot_cases i Hi.
    + exact (Hlit "s_literal"%string (grp 0) ltac:(right; right; left; reflexivity) eq_refl eq_refl).
    + exact (Hlit "p_literal"%string (grp 1) ltac:(right; right; left; reflexivity) eq_refl eq_refl).
    + exact (Hlit "o_literal"%string (grp 2) ltac:(right; right; left; reflexivity) eq_refl eq_refl).
  - (* quoted triple *)
    cbn [term_depth] in Hf.
    assert (Hq : match TermEncoder_encode_quoted_triple SN (gs_spo_fuel fuel) [obj_of_term s; obj_of_term p; obj_of_term o] (PMsg "RdfTriple" []) g,
                       (do (t1, r1, ws) <- E.encode_spo_term E.Generic s m;
                        do (t2, r2, wp) <- E.encode_spo_term E.Generic p t1;
                        do (t3, r3, wo) <- E.encode_spo_term E.Generic o t2;
                        Ok (t3, r1 ++ r2 ++ r3, WTriple (Some ws) (Some wp) (Some wo))) with
                 | (Val rows, g', _, q'), Ok (m', mrows, w) => rows = map grmsg mrows /\ Rt g' m' /\ q' = wmsg w
                 | (Exn _, _, _, _), Err _ => True
                 | _, _ => False
                 end).
    { unfold TermEncoder_encode_quoted_triple. cbv zeta.
      pose proof (IHs fuel 0 (PMsg "RdfTriple" []) g m HR ltac:(lia)
                    ltac:(exists "RdfTriple"%string, (@None wterm), (@None wterm), (@None wterm); split; [left; reflexivity | reflexivity]) ltac:(lia)) as H1.
      change (carrier SN) with str in *.
      match goal with |- context [gs_spo_fuel fuel (obj_of_term s) 0 ?x g] => destruct (gs_spo_fuel fuel (obj_of_term s) 0 x g) as [[[r1|e1] g1] q1] end;
        destruct (E.encode_spo_term E.Generic s m) as [[[m1 mr1] ws]|me1]; try contradiction; cbn [bind]; [|exact I].
      destruct H1 as (-> & HR1 & ->).
      pose proof (IHp fuel 1 (gput 0 ws (PMsg "RdfTriple" [])) g1 m1 HR1 ltac:(lia)
                    ltac:(exists "RdfTriple"%string, (Some ws), (@None wterm), (@None wterm); split; [left; reflexivity | reflexivity]) ltac:(lia)) as H2.
      change (carrier SN) with str in *.
      match goal with |- context [gs_spo_fuel fuel (obj_of_term p) 1 ?x g1] => destruct (gs_spo_fuel fuel (obj_of_term p) 1 x g1) as [[[r2|e2] g2] q2] end;
        destruct (E.encode_spo_term E.Generic p m1) as [[[m2 mr2] wp]|me2]; try contradiction; cbn [bind]; [|exact I].
      destruct H2 as (-> & HR2 & ->).
      pose proof (IHo fuel 2 (gput 1 wp (gput 0 ws (PMsg "RdfTriple" []))) g2 m2 HR2 ltac:(lia)
                    ltac:(exists "RdfTriple"%string, (Some ws), (Some wp), (@None wterm); split; [left; reflexivity | reflexivity]) ltac:(lia)) as H3.
      change (carrier SN) with str in *.
      match goal with |- context [gs_spo_fuel fuel (obj_of_term o) 2 ?x g2] => destruct (gs_spo_fuel fuel (obj_of_term o) 2 x g2) as [[[r3|e3] g3] q3] end;
        destruct (E.encode_spo_term E.Generic o m2) as [[[m3 mr3] wo]|me3]; try contradiction; cbn [bind]; [|exact I].
      destruct H3 as (-> & HR3 & ->).
      split; [rewrite !map_app; cbn [app]; rewrite app_assoc; reflexivity|]. split; [exact HR3 | apply quoted_msg]. }
    assert (Hfin : forall f G, In f G -> G = grp i -> (pre i ++ "_triple_term")%string = f ->
              match (match TermEncoder_encode_quoted_triple SN (gs_spo_fuel fuel) [obj_of_term s; obj_of_term p; obj_of_term o] (msg_sub f "RdfTriple" stmt) g with
                     | (Val x, self, _, m85) => (Val x, self, msg_set G f m85 stmt)
                     | (Exn e, self, _, _) => (Exn e, self, stmt)
                     end),
                    (do (t1, r1, ws) <- E.encode_spo_term E.Generic s m;
                     do (t2, r2, wp) <- E.encode_spo_term E.Generic p t1;
                     do (t3, r3, wo) <- E.encode_spo_term E.Generic o t2;
                     Ok (t3, r1 ++ r2 ++ r3, WTriple (Some ws) (Some wp) (Some wo))) with
              | (Val rows, g', stmt'), Ok (m', mrows, w) => rows = map grmsg mrows /\ Rt g' m' /\ stmt' = gput i w stmt
              | (Exn _, _, _), Err _ => True
              | _, _ => False
              end).
    { intros f G Hin -> Hf0. rewrite (fresh_sub i stmt f "RdfTriple" ltac:(lia) Hb Hin). change (carrier SN) with str in *.
      match goal with |- context [TermEncoder_encode_quoted_triple SN ?r ?l ?x g] => destruct (TermEncoder_encode_quoted_triple SN r l x g) as [[[[rows|e] g'] tl] q'] end;
        match goal with |- context [bind ?x ?k] => destruct (bind x k) as [[[m' mrows] w]|me] eqn:Eb end; try contradiction; [|exact I].
      destruct Hq as (-> & HR' & ->). split; [reflexivity|]. split; [exact HR'|].
      (* the wire term is a quoted triple: its suffix is _triple_term *)
      assert (Hw : suffix w = "_triple_term"%string).
      { revert Eb. destruct (E.encode_spo_term E.Generic s m) as [[[? ?] ?]|]; cbn [bind]; [|discriminate].
        destruct (E.encode_spo_term E.Generic p _) as [[[? ?] ?]|]; cbn [bind]; [|discriminate].
        destruct (E.encode_spo_term E.Generic o _) as [[[? ?] ?]|]; cbn [bind]; [|discriminate].
        intros [= _ _ <-]. reflexivity. }
      unfold gput. rewrite Hw, Hf0. reflexivity. }
    slot_cases i Hi.
    + exact (Hfin "s_triple_term"%string (grp 0) ltac:(right; right; right; left; reflexivity) eq_refl eq_refl).
    + exact (Hfin "p_triple_term"%string (grp 1) ltac:(right; right; right; left; reflexivity) eq_refl eq_refl).
    + exact (Hfin "o_triple_term"%string (grp 2) ltac:(right; right; right; left; reflexivity) eq_refl eq_refl).
  - exact I.
  - exact I.
Qed.

Print Assumptions gs_spo_fuel_tie.

(* ------------------------------------------------------------------ the premises of EncodeStmtTie.v / StreamsTie.v, proved *)
Theorem generic_sim_spo : sim_spo E.Generic obj_of_term gs_spo gput.
Proof.
  intros tm i stmt g m HR Hi Hb. unfold gs_spo, GenericSinkTermEncoder_encode_spo.
  apply gs_spo_fuel_tie; try assumption. rewrite obj_depth_of_term. apply le_n.
Qed.

Theorem generic_sim_graph : sim_graph E.Generic obj_of_term gs_graph gput.
Proof.
  intros tm stmt g m HR Hb. unfold gs_graph, GenericSinkTermEncoder_encode_graph, E.encode_graph_term.
  destruct tm as [iri|l|lex lang dt|s p o| |]; cbn [obj_of_term is_O__DefaultGraph is_O_IRI is_O_Literal is_O_BlankNode is_O_Triple];
    cbv beta iota zeta; change (carrier SN) with str in *.
  - (* IRI *)
    rewrite (fresh_sub 3 stmt "g_iri" "RdfIri" ltac:(lia) Hb ltac:(left; reflexivity)).
    pose proof (source_encode_iri_is_model iri g m HR) as H. change (carrier SN) with str in *.
    match goal with |- context [TermEncoder_encode_iri SN iri ?x g] => destruct (TermEncoder_encode_iri SN iri x g) as [[[rows|e] g'] msg] end;
      destruct (E.encode_iri iri m) as [[[[m' mrows] mp] mn]|e'] eqn:Ei; try contradiction; cbn [bind]; [|exact I].
    destruct H as (-> & -> & HR'). split; [apply entry_rows_grmsg; exact (encode_iri_entries _ _ _ _ _ _ Ei)|]. split; [exact HR' | reflexivity].
  - (* blank node *)
    split; [reflexivity|]. split; [exact HR | reflexivity].
  - (* literal *)
    rewrite (fresh_sub 3 stmt "g_literal" "RdfLiteral" ltac:(lia) Hb ltac:(right; right; right; left; reflexivity)).
    pose proof (source_encode_literal_is_model lex lang dt g m HR) as H. change (carrier SN) with str in *.
    match goal with |- context [TermEncoder_encode_literal SN lex lang dt ?x g] => destruct (TermEncoder_encode_literal SN lex lang dt x g) as [[[rows|e] g'] msg] end;
      destruct (E.encode_literal lex lang dt m) as [[[m' mrows] w]|e'] eqn:El; try contradiction; [|exact H].
    destruct w as [| |lex' k| |]; try contradiction.
    destruct H as (-> & -> & HR'). split; [apply entry_rows_grmsg; exact (encode_literal_entries _ _ _ _ _ _ _ El)|]. split; [exact HR' | reflexivity].
  - exact I.
  - (* the default graph *)
    rewrite (fresh_sub 3 stmt "g_default_graph" "RdfDefaultGraph" ltac:(lia) Hb ltac:(right; right; left; reflexivity)).
    unfold TermEncoder_encode_default_graph. cbn. split; [reflexivity|]. split; [exact HR | reflexivity].
  - exact I.
Qed.

Print Assumptions generic_sim_spo.
Print Assumptions generic_sim_graph.

(* ------------------------------------------------------------------ hence, for the generic integration, with nothing assumed
   about its dispatchers: the statement level of encode.py and the Stream classes (the theorems of EncodeStmtTie.v and
   StreamsTie.v at the translated dispatchers) *)
(* the generic integration's equality is exact on every term: no restriction (ok := all_ok) *)
Definition all_ok : term -> Prop := fun _ => True.
Lemma all_ok_eq (a b : term) : all_ok a -> all_ok b -> obj_eqb SN (obj_of_term a) (obj_of_term b) = term_eqb a b.
Proof. intros _ _. apply source_term_eq_is_model. Qed.
Lemma Forall_all_ok (l : list term) : Forall all_ok l.
Proof. apply Forall_forall. intros x _. exact I. Qed.
Lemma Forall2_all_ok (l : list (list term)) : Forall (Forall all_ok) l.
Proof. apply Forall_forall. intros x _. apply Forall_all_ok. Qed.
Lemma rep_all_ok (rp : E.repeated) : rep_ok all_ok rp.
Proof. unfold rep_ok, ok_opt. repeat split; destruct (_ rp); exact I. Qed.

Definition generic_encode_triple_is_model terms rp g m HR :=
  source_encode_triple_is_model E.Generic obj_of_term (obj_eqb SN) all_ok all_ok_eq gs_spo gput generic_sim_spo terms rp g m HR (Forall_all_ok terms) (rep_all_ok rp).
Definition generic_encode_quad_is_model terms rp g m HR :=
  source_encode_quad_is_model E.Generic obj_of_term (obj_eqb SN) all_ok all_ok_eq gs_spo gs_graph gput generic_sim_spo generic_sim_graph terms rp g m HR (Forall_all_ok terms) (rep_all_ok rp).
Definition generic_stream_triple_is_model terms g m HR Hc :=
  source_stream_triple_is_model E.Generic obj_of_term (obj_eqb SN) all_ok all_ok_eq gs_spo gput generic_sim_spo terms g m HR Hc (Forall_all_ok terms).
Definition generic_stream_quad_is_model terms g m HR Hc :=
  source_stream_quad_is_model E.Generic obj_of_term (obj_eqb SN) all_ok all_ok_eq gs_spo gs_graph gput generic_sim_spo generic_sim_graph terms g m HR Hc (Forall_all_ok terms).
Definition generic_stream_graph_is_model gid triples g m HR Hc :=
  source_stream_graph_is_model E.Generic obj_of_term (obj_eqb SN) all_ok all_ok_eq gs_spo gs_graph gput generic_sim_spo generic_sim_graph gid triples g m HR Hc (Forall2_all_ok triples).

Print Assumptions generic_encode_triple_is_model.
Print Assumptions generic_encode_quad_is_model.
Print Assumptions generic_stream_triple_is_model.
Print Assumptions generic_stream_quad_is_model.
Print Assumptions generic_stream_graph_is_model.
