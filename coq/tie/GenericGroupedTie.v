(* GenericGroupedTie.v -- C07 for the generic integration on translated source, no model in the statement: the grouped parser
   (parse_jelly_grouped of integrations/generic/parse.py, once get_options_and_frames -- IO, not translated -- has produced the
   options and the frames; sink factory and metadata variable at their defaults) yields ONE sink per frame, holding exactly what
   the translated Decoder yields for that frame (statements in order in the store, Prefix items as bindings); and the statements
   of the sinks, concatenated, are the statements the flat parser (parse_jelly_flat) yields for the same frames.  Likewise
   parse_jelly_to_graph: one sink with everything the flat parser yields.

   For runs in which no frame raises (the translation of the grouped parser refuses the others: OutsideModel, see
   translate/py2v.py `outside_if_raises`). *)
From Coq Require Import Lia ZifyBool.
From PJ.Model Require Import Base Terms.
From PJ.Tie Require Import PyPrims StrN DecoderBase GenericTerms GenericParseTie GenericRoundTrip.
From PJ.Gen Require Import LookupDecGen OptionsGen DecodeGen GenericSinkGen GenericParseGen.
Local Open Scope Z_scope.

Notation gobj := (obj SN).
Notation GSink := (GenericStatementSink SN).
Notation GDec := (@Decoder SN gobj (Adapter SN)).

(* what the loops of the two functions do with one item *)
Definition sink_step (k : GSink) (x : gobj) : GSink :=
  match x with
  | O_Prefix p i => set_GenericStatementSink__namespaces SN (ad_set (s_eqb SN) p i (GenericStatementSink__namespaces k)) k
  | _ => set_GenericStatementSink__store SN (GenericStatementSink__store k ++ [x]) k
  end.

Definition empty_sink : GSink := mk_GenericStatementSink [] [] (@O__DefaultGraph SN).

Definition sink_of_items (ys : list (option gobj)) : GSink := fold_left sink_step (map (opt_obj SN) ys) empty_sink.

Definition is_stmt (x : gobj) : bool := negb (is_O_Prefix SN x).

Lemma store_fold xs : forall k, GenericStatementSink__store (fold_left sink_step xs k) = GenericStatementSink__store k ++ filter is_stmt xs.
Proof.
  induction xs as [|x xs IH]; intros k; cbn [fold_left filter]; [rewrite app_nil_r; reflexivity|].
  rewrite IH. destruct x; cbn [sink_step is_stmt is_O_Prefix negb GenericStatementSink__store set_GenericStatementSink__store set_GenericStatementSink__namespaces];
    try (rewrite <- app_assoc; reflexivity). reflexivity.
Qed.

Lemma store_of_items ys : GenericStatementSink__store (sink_of_items ys) = filter is_stmt (map (opt_obj SN) ys).
Proof. unfold sink_of_items. rewrite store_fold. reflexivity. Qed.

(* the loop that fills a sink from the items of one frame *)
Lemma fill_loop_is {F Y} (li : list gobj -> F * Y * GSink -> loopres unit (F * Y * GSink)) :
  (forall xs fr ys k, li xs (fr, ys, k) = match xs with [] => LContinue (fr, ys, k) | x :: xs' => li xs' (fr, ys, sink_step k x) end) ->
  forall xs fr ys k, li xs (fr, ys, k) = LContinue (fr, ys, fold_left sink_step xs k).
Proof. intros H. induction xs as [|x xs IH]; intros fr ys k; rewrite H; [reflexivity|]. apply IH. Qed.

(* the loop over the frames' items: one sink per frame *)
Lemma sinks_loop_is {F} (lo : list (list (option gobj)) -> F * list GSink -> loopres unit (F * list GSink)) :
  (forall gs fr ys, lo gs (fr, ys) = match gs with [] => LContinue (fr, ys) | g :: gs' => lo gs' (fr, ys ++ [sink_of_items g]) end) ->
  forall gs fr ys, lo gs (fr, ys) = LContinue (fr, ys ++ map sink_of_items gs).
Proof.
  intros H. induction gs as [|g gs IH]; intros fr ys; rewrite H; [rewrite app_nil_r; reflexivity|].
  rewrite IH. cbn [map]. rewrite <- app_assoc. reflexivity.
Qed.

Ltac fill_tac :=
  match goal with |- context [?f (map (opt_obj SN) ?g) (?fr, ?ys, ?k0)] =>
    let li := fresh "li" in
    set (li := f); rewrite (fill_loop_is li);
    [ reflexivity
    | let x := fresh "x" in let xs := fresh "xs" in
      intros [|x xs] ? ? ?; [reflexivity|]; unfold li at 1; fold li; destruct x; reflexivity ]
  end.

Ltac grouped_loops fms d :=
  match goal with |- context [?f (map fst (gd_frames fms d)) (fms, @nil GSink)] =>
    let lo := fresh "lo" in
    set (lo := f); rewrite (sinks_loop_is lo);
    [ reflexivity
    | let g := fresh "g" in let gs := fresh "gs" in
      intros [|g gs] ? ?; [reflexivity|];
      unfold lo at 1; fold lo; unfold GenericStatementSink___init__; cbv beta iota zeta; fill_tac ]
  end.

(* parse_jelly_grouped(options, frames): one sink per frame, holding what the Decoder yields for it *)
Theorem source_grouped_is_per_frame (fms : list (pbval str)) (opts : ParserOptions SN) (a : Adapter SN) (d : GDec) :
  (StreamTypes_physical_type (ParserOptions_stream_types opts) = 1 /\ GenericTriplesAdapter___init__ SN opts = Val a) \/
  ((StreamTypes_physical_type (ParserOptions_stream_types opts) = 2 \/ StreamTypes_physical_type (ParserOptions_stream_types opts) = 3) /\
   (if StreamTypes_physical_type (ParserOptions_stream_types opts) =? 2 then GenericQuadsAdapter___init__ SN opts else GenericGraphsAdapter___init__ SN opts) = Val a) ->
  Decoder___init__ SN Adapter_options a = Val d ->
  first_err (gd_frames fms d) = None ->
  parse_jelly_grouped SN false opts fms = (Val tt, fms, map sink_of_items (map fst (gd_frames fms d))).
Proof.
  intros Ha Hd Hne. unfold parse_jelly_grouped. cbv zeta. unfold StreamTypes_flat. cbv beta iota zeta. cbn [andb].
  destruct Ha as [[Hp Ha] | [Hp Ha]].
  - rewrite Hp. cbn [Z.eqb Pos.eqb]. rewrite (parse_triples_stream_is fms opts a d Ha Hd), Hne. cbv beta iota zeta.
    grouped_loops fms d.
  - assert (Hq : (StreamTypes_physical_type (ParserOptions_stream_types opts) =? 1) = false) by (destruct Hp as [-> | ->]; reflexivity).
    assert (Hq2 : ((StreamTypes_physical_type (ParserOptions_stream_types opts) =? 2) || (StreamTypes_physical_type (ParserOptions_stream_types opts) =? 3))%bool = true)
      by (destruct Hp as [-> | ->]; reflexivity).
    rewrite Hq, Hq2. rewrite (parse_quads_stream_is fms opts a d Ha Hd), Hne. cbv beta iota zeta.
    grouped_loops fms d.
Qed.

(* the flat parser on the same frames (from the lemmas behind C04_source_generic_flat_parser): everything the frames yield, in order *)
Lemma flat_is_concat (fms : list (pbval str)) (opts : ParserOptions SN) (a : Adapter SN) (d : GDec) :
  (StreamTypes_physical_type (ParserOptions_stream_types opts) = 1 /\ GenericTriplesAdapter___init__ SN opts = Val a) \/
  ((StreamTypes_physical_type (ParserOptions_stream_types opts) = 2 \/ StreamTypes_physical_type (ParserOptions_stream_types opts) = 3) /\
   (if StreamTypes_physical_type (ParserOptions_stream_types opts) =? 2 then GenericQuadsAdapter___init__ SN opts else GenericGraphsAdapter___init__ SN opts) = Val a) ->
  Decoder___init__ SN Adapter_options a = Val d ->
  first_err (gd_frames fms d) = None ->
  parse_jelly_flat SN fms opts false = (Val tt, fms, concat (map fst (gd_frames fms d))).
Proof.
  intros Ha Hd Hne. unfold parse_jelly_flat. cbv zeta. unfold StreamTypes_flat. cbv beta iota zeta. cbn [andb].
  destruct Ha as [[Hp Ha] | [Hp Ha]].
  - rewrite Hp. cbn [Z.eqb Pos.eqb]. rewrite (parse_triples_stream_is fms opts a d Ha Hd), Hne. cbv beta iota.
    match goal with |- context [?f (map fst (gd_frames fms d)) (fms, @nil (option gobj))] => set (loop := f) end.
    rewrite (flatten_loop_is loop ltac:(intros [|x xs] [fr ys]; reflexivity)). reflexivity.
  - assert (Hq : (StreamTypes_physical_type (ParserOptions_stream_types opts) =? 1) = false) by (destruct Hp as [-> | ->]; reflexivity).
    assert (Hq2 : ((StreamTypes_physical_type (ParserOptions_stream_types opts) =? 2) || (StreamTypes_physical_type (ParserOptions_stream_types opts) =? 3))%bool = true)
      by (destruct Hp as [-> | ->]; reflexivity).
    rewrite Hq, Hq2. rewrite (parse_quads_stream_is fms opts a d Ha Hd), Hne. cbv beta iota.
    match goal with |- context [?f (map fst (gd_frames fms d)) (fms, @nil (option gobj))] => set (loop := f) end.
    rewrite (flatten_loop_is loop ltac:(intros [|x xs] [fr ys]; reflexivity)). reflexivity.
Qed.

Lemma filter_concat {X} (f : X -> bool) (ls : list (list X)) : filter f (concat ls) = concat (map (filter f) ls).
Proof. induction ls as [|l ls IH]; [reflexivity|]. cbn [concat map]. rewrite filter_app, IH. reflexivity. Qed.

(* C07, grouped against flat, about the translated parsers themselves: the statements held by the sinks of the grouped parser,
   sink after sink, are exactly the statements the flat parser yields (the Prefix items it yields are the sinks' bindings) *)
Theorem C07_source_generic_grouped_is_flat (fms : list (pbval str)) (opts : ParserOptions SN) (a : Adapter SN) (d : GDec) :
  (StreamTypes_physical_type (ParserOptions_stream_types opts) = 1 /\ GenericTriplesAdapter___init__ SN opts = Val a) \/
  ((StreamTypes_physical_type (ParserOptions_stream_types opts) = 2 \/ StreamTypes_physical_type (ParserOptions_stream_types opts) = 3) /\
   (if StreamTypes_physical_type (ParserOptions_stream_types opts) =? 2 then GenericQuadsAdapter___init__ SN opts else GenericGraphsAdapter___init__ SN opts) = Val a) ->
  Decoder___init__ SN Adapter_options a = Val d ->
  first_err (gd_frames fms d) = None ->
  exists sinks flat,
    parse_jelly_grouped SN false opts fms = (Val tt, fms, sinks) /\
    parse_jelly_flat SN fms opts false = (Val tt, fms, flat) /\
    length sinks = length (gd_frames fms d) /\
    concat (map (@GenericStatementSink__store SN) sinks) = filter is_stmt (map (opt_obj SN) flat).
Proof.
  intros Ha Hd Hne.
  exists (map sink_of_items (map fst (gd_frames fms d))), (concat (map fst (gd_frames fms d))).
  split; [exact (source_grouped_is_per_frame fms opts a d Ha Hd Hne)|].
  split; [exact (flat_is_concat fms opts a d Ha Hd Hne)|].
  split; [rewrite !map_length; reflexivity|].
  set (L := map fst (gd_frames fms d)).
  rewrite (map_map sink_of_items), (concat_map (opt_obj SN)), filter_concat, (map_map (map (opt_obj SN))).
  f_equal. apply map_ext. intros ys. apply store_of_items.
Qed.

(* parse_jelly_to_graph(options, frames): ONE sink with everything the flat parser yields *)
Theorem source_to_graph_is_flat (fms : list (pbval str)) (opts : ParserOptions SN) (a : Adapter SN) (d : GDec) :
  (StreamTypes_physical_type (ParserOptions_stream_types opts) = 1 /\ GenericTriplesAdapter___init__ SN opts = Val a) \/
  ((StreamTypes_physical_type (ParserOptions_stream_types opts) = 2 \/ StreamTypes_physical_type (ParserOptions_stream_types opts) = 3) /\
   (if StreamTypes_physical_type (ParserOptions_stream_types opts) =? 2 then GenericQuadsAdapter___init__ SN opts else GenericGraphsAdapter___init__ SN opts) = Val a) ->
  Decoder___init__ SN Adapter_options a = Val d ->
  first_err (gd_frames fms d) = None ->
  parse_jelly_to_graph SN opts fms = (Val (sink_of_items (concat (map fst (gd_frames fms d)))), fms).
Proof.
  intros Ha Hd Hne. unfold parse_jelly_to_graph, GenericStatementSink___init__. cbv beta iota zeta.
  rewrite (flat_is_concat fms opts a d Ha Hd Hne). cbv beta iota zeta.
  match goal with |- context [?f (map (opt_obj SN) ?g) (fms, ?k0)] => set (li := f) end.
  assert (Hli : forall xs fr k, li xs (fr, k) = LContinue (fr, fold_left sink_step xs k)).
  { induction xs as [|x xs IH]; intros fr k; [reflexivity|]. unfold li at 1. fold li. cbn [fold_left]. rewrite <- IH. destruct x; reflexivity. }
  rewrite Hli. reflexivity.
Qed.

Print Assumptions source_grouped_is_per_frame.
Print Assumptions C07_source_generic_grouped_is_flat.
Print Assumptions source_to_graph_is_flat.

(* ------------------------------------------------------------------ ... and for every valid stream (with the model's referee only in
   the premise "valid"): the grouped parser on the message objects of ANY stream the referee accepts yields one sink per frame, and
   the sinks hold, in order, exactly the statements the stream denotes *)
From PJ.Model Require Import Encoder Streams Decoder Spec Api.
From PJ.Proofs Require Import DecoderProofs DecoderSound.
From PJ.Tie Require Import OptionsTie EncodeTie EncodeStmtTie FlowsTie DecodeTie DecoderTie GenericSerializeTie.

Lemma gd_frames_length fms : forall (d : GDec), first_err (gd_frames fms d) = None -> length (gd_frames fms d) = length fms.
Proof.
  induction fms as [|fm fms IH]; intros d; cbn [gd_frames]; [reflexivity|].
  destruct (Decoder_iter_rows SN Adapter_options (Adapter_iri SN) (Adapter_default_graph SN) (Adapter_bnode SN) (Adapter_literal SN)
              (Adapter_triple SN) (Adapter_quad SN) (Adapter_graph_start SN) (Adapter_graph_end SN) (Adapter_namespace_declaration SN) (Adapter_quoted_triple SN) fm d) as [[r d'] ys].
  destruct r as [u|e]; rewrite first_err_cons; cbn [snd length]; [|discriminate]. intros H. rewrite (IH d' H). reflexivity.
Qed.

Theorem C07_source_generic_valid_streams :
  forall (fs : list frame) (evs : list event) (dl : bool),
    run_frames fs = Valid evs ->
    exists po, (exists sk first more, skip_empty fs = (sk, first :: more) /\ Decoder.options_from_frame first dl = Ok po) /\
      (types_named (ParserOptions_stream_types (popts_obj po)) ->
       let fms := map (frame_msg (rmsg gput)) fs in
       exists sinks, parse_jelly_grouped SN false (popts_obj po) fms = (Val tt, fms, sinks) /\ length sinks = length fs /\
                     concat (map (@GenericStatementSink__store SN) sinks) = filter is_stmt (map obj_of_event evs)).
Proof.
  intros fs evs dl Hv.
  destruct (C04_source_generic_reads_valid_streams fs evs dl Hv) as (po & ak & st0 & sk & first & more & H1 & H2 & H3 & H4 & H5).
  exists po. split; [exists sk, first, more; split; assumption|].
  intros Hty fms. destruct (H5 Hty) as (a & gd & Ha & Hd & Hflat). fold fms in Hflat.
  pose proof (no_err_forallb _ ltac:(rewrite Hflat; reflexivity)) as Hne.
  assert (Hys : concat (map fst (gd_frames fms gd)) = map (fun e => Some (obj_of_event e)) evs).
  { rewrite <- flat_map_concat. pose proof (f_equal fst Hflat) as Hf. exact Hf. }
  assert (Hpre : (StreamTypes_physical_type (ParserOptions_stream_types (popts_obj po)) = 1 /\ GenericTriplesAdapter___init__ SN (popts_obj po) = Val a) \/
                 ((StreamTypes_physical_type (ParserOptions_stream_types (popts_obj po)) = 2 \/ StreamTypes_physical_type (ParserOptions_stream_types (popts_obj po)) = 3) /\
                  (if StreamTypes_physical_type (ParserOptions_stream_types (popts_obj po)) =? 2 then GenericQuadsAdapter___init__ SN (popts_obj po)
                   else GenericGraphsAdapter___init__ SN (popts_obj po)) = Val a)).
  { unfold route in H3. change (StreamTypes_physical_type (ParserOptions_stream_types (popts_obj po))) with (Z.of_N (po_phys po)).
    destruct (po_phys po =? 1)%N eqn:E1.
    - apply N.eqb_eq in E1. rewrite E1. injection H3 as <-. left. split; [reflexivity | exact Ha].
    - destruct (po_phys po =? 2)%N eqn:E2.
      + apply N.eqb_eq in E2. rewrite E2. injection H3 as <-. right. split; [left; reflexivity | exact Ha].
      + destruct (po_phys po =? 3)%N eqn:E3; [|discriminate]. apply N.eqb_eq in E3. rewrite E3. injection H3 as <-. right. split; [right; reflexivity | exact Ha]. }
  destruct (C07_source_generic_grouped_is_flat fms (popts_obj po) a gd Hpre Hd Hne) as (sinks & flat & Hg & Hf & Hl & Hs).
  exists sinks. split; [exact Hg|]. split; [rewrite Hl, (gd_frames_length fms gd Hne); unfold fms; apply map_length|].
  rewrite Hs. rewrite (flat_is_concat fms (popts_obj po) a gd Hpre Hd Hne) in Hf. injection Hf as <-. rewrite Hys, map_map. reflexivity.
Qed.

Print Assumptions C07_source_generic_valid_streams.
