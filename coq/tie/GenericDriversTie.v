(* GenericDriversTie.v -- source tie for the writer drivers of the generic integration
   (pyjelly/integrations/generic/serialize.py: namespace_declarations, triples_stream_frames, quads_stream_frames,
   split_to_graphs, graphs_stream_frames, translated on every run into generated/GenericSerializeGen.v together with the
   GenericStatementSink they read, generated/GenericSinkGen.v) against the drivers of model/Streams.v.

   The translated drivers run the translated Stream methods at the term objects of the integration (T := obj, `!=` :=
   the translated __eq__, the dispatchers := the translated GenericSinkTermEncoder methods): exactly the composition the
   Python code runs.  Stated on a sink holding the objects of the model's statements: the frames yielded are the message
   objects of the frames the model emits, in order; the run ends with an exception exactly when the model's does; the
   stream left behind is the model's; the sink is not changed. *)
From Coq Require Import Lia ZifyBool.
From PJ.Model Require Import Base Terms Streams.
From PJ.Model Require Lookup Encoder.
From PJ.Tie Require Import PyPrims StrN LookupEncTie OptionsTie EncodeTie EncodeStmtTie FlowsTie StreamsTie DecoderBase GenericTerms GenericSerializeTie.
From PJ.Gen Require Import LookupEncGen OptionsGen EncodeGen FlowsGen StreamsGen GenericSinkGen GenericSerializeGen.
Local Open Scope Z_scope.

Notation gobj := (obj SN).
Notation GSink := (GenericStatementSink SN).
Notation GStream := (@Stream SN gobj).
Notation grmsg := (rmsg gput).
Notation gRs := (Rs E.Generic obj_of_term all_ok gput).
Notation fmsg := (frame_msg grmsg).

(* ------------------------------------------------------------------ the sink *)
(* a statement as the NamedTuple the sink stores: Triple(s, p, o) / Quad(s, p, o, g) *)
Definition obj_of_stmt (st : list term) : gobj :=
  match st with
  | [s; p; o] => O_Triple (obj_of_term s) (obj_of_term p) (obj_of_term o)
  | [s; p; o; g] => O_Quad (obj_of_term s) (obj_of_term p) (obj_of_term o) (obj_of_term g)
  | _ => @O__DefaultGraph SN
  end.

Definition stmt_ok (st : list term) : Prop := length st = 3%nat \/ length st = 4%nat.

(* the sink holds the statements and the bindings of d (a sink: d_is_sink), under any identifier *)
Definition Rd (k : GSink) (d : sdata) : Prop :=
  d_is_sink d = true /\
  GenericStatementSink__store k = map obj_of_stmt (d_stmts d) /\
  GenericStatementSink__namespaces k = map (fun ni : str * str => (fst ni, @O_IRI SN (snd ni))) (d_namespaces d).

Lemma raised_app a b : raised (a ++ b) = match raised a with Some e => Some e | None => raised b end.
Proof. induction a as [|[|f|e] a IH]; cbn; try exact IH; reflexivity. Qed.

Lemma raised_emit_opt o : raised (emit_opt o) = None.
Proof. destruct o; reflexivity. Qed.

(* how a run ended *)
Definition ends (r : outcome unit) (evs : list tev) : Prop :=
  match r, raised evs with Val _, None => True | Exn _, Some _ => True | _, _ => False end.

Lemma stream_triple_class terms m m' r : stream_triple terms m = (m', r) -> st_class m' = st_class m.
Proof.
  unfold stream_triple, refuse. destruct (st_failed m); [intros [= <- _]; reflexivity|].
  destruct (E.encode_triple (st_integ m) terms (st_enc m) (st_rep m)) as [[[t' rp'] rws]|]; [|intros [= <- _]; reflexivity].
  destruct (frame_from_bounds (flow_extend (st_flow m) rws)) as [fl fr0]. intros [= <- _]. reflexivity.
Qed.

Lemma stream_quad_class terms m m' r : stream_quad terms m = (m', r) -> st_class m' = st_class m.
Proof.
  unfold stream_quad, refuse. destruct (st_failed m); [intros [= <- _]; reflexivity|].
  destruct (E.encode_quad (st_integ m) terms (st_enc m) (st_rep m)) as [[[t' rp'] rws]|]; [|intros [= <- _]; reflexivity].
  destruct (frame_from_bounds (flow_extend (st_flow m) rws)) as [fl fr0]. intros [= <- _]. reflexivity.
Qed.

Lemma namespace_declaration_class n i m m' r : namespace_declaration n i m = (m', r) -> st_class m' = st_class m /\ st_opts m' = st_opts m.
Proof.
  unfold namespace_declaration, refuse. destruct (st_failed m); [intros [= <- _]; split; reflexivity|].
  destruct (E.encode_namespace_declaration n i (st_enc m)) as [[t' rws]|]; intros [= <- _]; split; reflexivity.
Qed.

(* ------------------------------------------------------------------ namespace_declarations(store, stream) *)
Theorem source_namespace_declarations_is_model (k : GSink) (d : sdata) : Rd k d -> forall g m, gRs g m ->
  match namespace_declarations SN k g, declare_all (d_namespaces d) m with
  | (Val _, k', g'), (m', Ok _) => k' = k /\ gRs g' m'
  | (Exn _, k', g'), (m', Err _) => k' = k /\ gRs g' m'
  | _, _ => False
  end.
Proof.
  intros (_ & _ & Hns). unfold namespace_declarations, GenericStatementSink_namespaces. cbv zeta. cbn [app]. rewrite Hns. clear Hns.
  generalize (d_namespaces d) as ns. induction ns as [|[n i] ns IH]; intros g m HR.
  - cbn. split; [reflexivity | exact HR].
  - match goal with |- context [?f (map ?h ((n, i) :: ns)) (k, g)] => set (loop := f) in * end.
    cbn [map declare_all fst snd].
    pose proof (source_namespace_declaration_is_model E.Generic obj_of_term all_ok gput n i g m HR) as Hstep.
    unfold loop at 1. fold loop. cbv beta iota.
    destruct (Stream_namespace_declaration SN n i g) as [[u|e] g1]; destruct (namespace_declaration n i m) as [m1 [u'|e']]; try contradiction.
    + exact (IH g1 m1 Hstep).
    + split; [reflexivity | exact Hstep].
Qed.

(* ------------------------------------------------------------------ triples_stream_frames(stream, sink) *)
Lemma emitted_cons_pull evs : emitted (Pull :: evs) = emitted evs. Proof. reflexivity. Qed.

Lemma fmsg_emit_opt (o : option frame) (ys : list (pbval str)) :
  match option_map fmsg o with Some f => ys ++ [f] | None => ys end = ys ++ map fmsg (emitted (emit_opt o)).
Proof. destruct o; cbn; [reflexivity | rewrite app_nil_r; reflexivity]. Qed.

Lemma nd_of_Rs g m : gRs g m -> StreamParameters_namespace_declarations (SerializerOptions_params (Stream_options SN g)) = p_nd (so_params (st_opts m)).
Proof. intros (_ & _ & _ & (_ & _ & _ & Hp & _) & _). rewrite Hp. reflexivity. Qed.

Lemma enroll_class m : st_class (enroll m) = st_class m /\ st_opts (enroll m) = st_opts m.
Proof. unfold enroll. destruct (st_enrolled m); split; reflexivity. Qed.

Lemma declare_all_class ns : forall m m' r, declare_all ns m = (m', r) -> st_class m' = st_class m /\ st_opts m' = st_opts m.
Proof.
  induction ns as [|[n i] ns IH]; intros m m' r; cbn [declare_all]; [intros [= <- _]; split; reflexivity|].
  destruct (namespace_declaration n i m) as [m1 [u|e]] eqn:E; destruct (namespace_declaration_class _ _ _ _ _ E) as [H1 H2].
  - intros H. destruct (IH _ _ _ H) as [H3 H4]. split; congruence.
  - intros [= <- _]. split; assumption.
Qed.

Lemma Rs_with_flow g m gf mf : gRs g m -> Rf grmsg gf mf -> gRs (set_Stream_flow SN gf g) (with_flow m mf).
Proof.
  intros (Ht & Hi & He & Ho & Hfl & Hen & Hf & Hst) HRf. unfold with_flow, Rs.
  cbn [Stream_cls_tag Stream_encoder Stream_options Stream_flow Stream_repeated_terms Stream_enrolled Stream_failed
       Stream_stream_types set_Stream_flow st_class st_integ st_opts st_enc st_flow st_rep st_enrolled st_failed st_logical].
  split; [exact Ht|]. split; [exact Hi|]. split; [exact He|]. split; [exact Ho|]. split; [exact HRf|]. split; [exact Hen|]. split; [exact Hf | exact Hst].
Qed.

(* the inner loop of triples_stream_frames / quads_stream_frames over the sink's statements is the model's feed: for any
   loop function with the unfolding the translated loops have (li), over any statement method (gen_step) tied to the model's
   (step) on the streams of the classes that have it (P) *)
Section InnerLoop.
Context {D : Type}.  (* what the loop carries beside the stream and the yields: the sink, or the list the statements come from *)
Context (li : list gobj -> GStream * D * list (pbval str) -> loopres unit (GStream * D * list (pbval str))).
Context (gen_step : list gobj -> GStream -> outcome (option (pbval str)) * GStream * list gobj).
Context (step : list term -> stream -> step_result).
Context (P : stream -> Prop).
Context (H_nil : forall st, li [] st = LContinue st).
Context (H_cons : forall s xs gx k ys, stmt_ok s ->
  li (obj_of_stmt s :: xs) (gx, k, ys) =
  match gen_step (map obj_of_term s) gx with
  | (Val (Some frame), stream0, _) => li xs (stream0, k, ys ++ [frame])
  | (Val None, stream0, _) => li xs (stream0, k, ys)
  | (Exn e, stream0, _) => LRaise e (stream0, k, ys)
  end).
Context (H_step : forall st gx mx, gRs gx mx -> P mx ->
  match gen_step (map obj_of_term st) gx, step st mx with
  | (Val fr, g', _), (m', Ok mfr) => fr = option_map fmsg mfr /\ gRs g' m'
  | (Exn _, g', _), (m', Err _) => gRs g' m'
  | _, _ => False
  end).
Context (H_P : forall st mx mx' r, step st mx = (mx', r) -> P mx -> P mx').

Lemma inner_loop_is_feed : forall xs, Forall stmt_ok xs -> forall gx mx ys k, gRs gx mx -> P mx ->
  match li (map obj_of_stmt xs) (gx, k, ys), feed step xs mx with
  | LContinue (g', k', ys'), (m', evs, true) =>
      gRs g' m' /\ k' = k /\ ys' = ys ++ map fmsg (emitted evs) /\ P m' /\ raised evs = None
  | LRaise _ (g', k', ys'), (m', evs, false) =>
      gRs g' m' /\ k' = k /\ ys' = ys ++ map fmsg (emitted evs) /\ raised evs <> None
  | _, _ => False
  end.
Proof.
  induction 1 as [|st xs Hst _ IH]; intros gx mx ys k HRx HPx.
  - cbn [map feed]. rewrite H_nil. split; [exact HRx|]. split; [reflexivity|]. split; [cbn; rewrite app_nil_r; reflexivity|]. split; [exact HPx | reflexivity].
  - cbn [map feed]. rewrite (H_cons st _ gx k ys Hst).
    pose proof (H_step st gx mx HRx HPx) as Hstep.
    destruct (gen_step (map obj_of_term st) gx) as [[[fr|e] gx'] tr']; destruct (step st mx) as [mx' [mfr|e']] eqn:Est; try contradiction.
    + destruct Hstep as [-> HRx']. pose proof (H_P _ _ _ _ Est HPx) as HPx'.
      destruct mfr as [f|]; cbn [option_map].
      * specialize (IH gx' mx' (ys ++ [fmsg f]) k HRx' HPx').
        destruct (li (map obj_of_stmt xs) (gx', k, ys ++ [fmsg f])) as [[[g' k'] ys']|rv [[g' k'] ys']|e [[g' k'] ys']];
          destruct (feed step xs mx') as [[m' evs] ok]; destruct ok; try contradiction.
        -- destruct IH as (HR' & -> & -> & HP' & Hr). split; [exact HR'|]. split; [reflexivity|].
           split; [cbn [emit_opt app emitted map]; rewrite <- app_assoc; reflexivity|]. split; [exact HP' | exact Hr].
        -- destruct IH as (HR' & -> & -> & Hr). split; [exact HR'|]. split; [reflexivity|].
           split; [cbn [emit_opt app emitted map]; rewrite <- app_assoc; reflexivity | exact Hr].
      * specialize (IH gx' mx' ys k HRx' HPx').
        destruct (li (map obj_of_stmt xs) (gx', k, ys)) as [[[g' k'] ys']|rv [[g' k'] ys']|e [[g' k'] ys']];
          destruct (feed step xs mx') as [[m' evs] ok]; destruct ok; try contradiction.
        -- destruct IH as (HR' & -> & -> & HP' & Hr). split; [exact HR'|]. split; [reflexivity|]. split; [reflexivity|]. split; [exact HP' | exact Hr].
        -- destruct IH as (HR' & -> & -> & Hr). split; [exact HR'|]. split; [reflexivity|]. split; [reflexivity | exact Hr].
    + split; [exact Hstep|]. split; [reflexivity|]. split; [cbn; rewrite app_nil_r; reflexivity | cbn; discriminate].
Qed.
End InnerLoop.

Definition finish_gen {D : Type} (graph_flush : bool) (g : GStream) (k : D) (ys : list (pbval str)) : outcome unit * GStream * D * list (pbval str) :=
  let '(r1, f1) := (if graph_flush then FrameFlow_frame_from_graph SN else FrameFlow_frame_from_dataset SN) (Stream_flow SN g) in
  let g1 := set_Stream_flow SN f1 g in
  match r1 with
  | Exn e => (Exn e, g1, k, ys)
  | Val fr1 =>
    let ys1 := match fr1 with Some f => ys ++ [f] | None => ys end in
    let '(r2, f2) := FrameFlow_to_stream_frame SN (Stream_flow SN g1) in
    let g2 := set_Stream_flow SN f2 g1 in
    match r2 with
    | Exn e => (Exn e, g2, k, ys1)
    | Val fr2 => (Val tt, g2, k, match fr2 with Some f => ys1 ++ [f] | None => ys1 end)
    end
  end.

(* end of input: frame_from_graph / frame_from_dataset, then to_stream_frame, each yielding its frame if there is one *)
Lemma finish_tie {D : Type} (graph_flush : bool) (g : GStream) (m : stream) (k : D) (ys : list (pbval str)) : gRs g m ->
  match finish_gen graph_flush g k ys, finish graph_flush m with
  | (r, g', k', ys'), (m', fin) => gRs g' m' /\ k' = k /\ ys' = ys ++ map fmsg (emitted fin) /\ r = Val tt /\ raised fin = None
  end.
Proof.
  intros HR. pose proof HR as (_ & _ & _ & _ & Hfl & _). unfold finish, finish_gen.
  assert (H1 : match (if graph_flush then FrameFlow_frame_from_graph SN else FrameFlow_frame_from_dataset SN) (Stream_flow SN g),
                     (if graph_flush then frame_from_graph (st_flow m) else frame_from_dataset (st_flow m)) with
               | (Val fr, g'), (m', mfr) => fr = option_map fmsg mfr /\ Rf grmsg g' m'
               | (Exn _, _), _ => False
               end).
  { destruct graph_flush; [exact (source_frame_from_graph_is_model grmsg _ _ Hfl) | exact (source_frame_from_dataset_is_model grmsg _ _ Hfl)]. }
  destruct ((if graph_flush then FrameFlow_frame_from_graph SN else FrameFlow_frame_from_dataset SN) (Stream_flow SN g)) as [[fr1|e1] f1];
    destruct (if graph_flush then frame_from_graph (st_flow m) else frame_from_dataset (st_flow m)) as [fl1 mfr1]; [|contradiction].
  destruct H1 as [-> HRf1]. cbv zeta. cbn [Stream_flow set_Stream_flow].
  pose proof (source_to_stream_frame_is_model grmsg _ _ HRf1) as H2.
  destruct (FrameFlow_to_stream_frame SN f1) as [[fr2|e2] f2]; destruct (to_stream_frame fl1) as [fl2 mfr2]; [|contradiction].
  destruct H2 as [-> HRf2].
  split; [|split; [reflexivity|]; split; [|split; [reflexivity|]]].
  - pose proof (Rs_with_flow _ _ f2 fl2 (Rs_with_flow _ _ f1 fl1 HR HRf1) HRf2) as H. exact H.
  - rewrite emitted_app, map_app. destruct mfr1, mfr2; cbn; rewrite ?app_nil_r, <- ?app_assoc; reflexivity.
  - rewrite raised_app, !raised_emit_opt. reflexivity.
Qed.

(* ------------------------------------------------------------------ triples_stream_frames(stream, sink) *)
Ltac after_finish Hf :=
  cbv zeta in Hf; cbn [Stream_flow set_Stream_flow] in Hf |- *; change (carrier SN) with str in *;
  repeat (match goal with
          | |- context [FrameFlow_frame_from_graph SN ?x] => destruct (FrameFlow_frame_from_graph SN x) as [[[?|]|?] ?]
          | |- context [FrameFlow_frame_from_dataset SN ?x] => destruct (FrameFlow_frame_from_dataset SN x) as [[[?|]|?] ?]
          | |- context [FrameFlow_to_stream_frame SN ?x] => destruct (FrameFlow_to_stream_frame SN x) as [[[?|]|?] ?]
          end; cbv zeta in Hf; cbn [Stream_flow set_Stream_flow] in Hf |- *).

Theorem source_triples_stream_frames_is_model (k : GSink) (d : sdata) (g : GStream) (m : stream) :
  Rd k d -> Forall stmt_ok (d_stmts d) -> gRs g m -> st_class m <> QuadStream ->
  match GenericSerializeGen.triples_stream_frames SN g k, Streams.triples_stream_frames d m with
  | (r, g', k', ys), (m', evs) => gRs g' m' /\ k' = k /\ ys = map fmsg (emitted evs) /\ ends r evs
  end.
Proof.
  intros HRd Hok HR Hc. pose proof HRd as (Hsink & Hstore & Hns).
  unfold GenericSerializeGen.triples_stream_frames, Streams.triples_stream_frames. cbv zeta.
  pose proof (source_enroll_is_model E.Generic obj_of_term all_ok gput g m HR) as H0.
  destruct (Stream_enroll SN g) as [[u|e] g0]; [|contradiction].
  destruct (enroll_class m) as [Hc0 Ho0].
  unfold ns_phase. rewrite Hsink, (nd_of_Rs g0 (enroll m) H0). cbn [andb].
  assert (Hc0' : st_class (enroll m) <> QuadStream) by (rewrite Hc0; exact Hc).
  (* what follows the declarations, on any related streams *)
  assert (Hmain : forall g1 m1, gRs g1 m1 -> st_class m1 <> QuadStream ->
            forall li : list gobj -> GStream * GSink * list (pbval str) -> loopres unit (GStream * GSink * list (pbval str)),
            (forall st, li [] st = LContinue st) ->
            (forall s xs gx k ys, stmt_ok s ->
               li (obj_of_stmt s :: xs) (gx, k, ys) =
               match Stream_triple SN (obj_eqb SN) (GenericSinkTermEncoder_encode_spo SN) (map obj_of_term s) gx with
               | (Val (Some frame), stream0, _) => li xs (stream0, k, ys ++ [frame])
               | (Val None, stream0, _) => li xs (stream0, k, ys)
               | (Exn e, stream0, _) => LRaise e (stream0, k, ys)
               end) ->
            match li (map obj_of_stmt (d_stmts d)) (g1, k, []), feed stream_triple (d_stmts d) m1 with
            | LContinue (g', k', ys'), (m', evs, true) =>
                gRs g' m' /\ k' = k /\ ys' = map fmsg (emitted evs) /\ raised evs = None
            | LRaise _ (g', k', ys'), (m', evs, false) =>
                gRs g' m' /\ k' = k /\ ys' = map fmsg (emitted evs) /\ raised evs <> None
            | _, _ => False
            end).
  { intros g1 m1 HR1 Hc1 li Hnil Hcons.
    pose proof (inner_loop_is_feed li _ stream_triple (fun mx => st_class mx <> QuadStream) Hnil Hcons
                  (fun st gx mx HRx HPx => generic_stream_triple_is_model st gx mx HRx HPx)
                  (fun st mx mx' r E HP => eq_ind_r (fun c => c <> QuadStream) HP (stream_triple_class _ _ _ _ E))
                  (d_stmts d) Hok g1 m1 [] k HR1 Hc1) as H.
    destruct (li (map obj_of_stmt (d_stmts d)) (g1, k, [])) as [[[g' k'] ys']|rv [[g' k'] ys']|e [[g' k'] ys']];
      destruct (feed stream_triple (d_stmts d) m1) as [[m' evs] ok]; destruct ok; try contradiction.
    - destruct H as (H1 & H2 & H3 & _ & H5). split; [exact H1|]. split; [exact H2|]. split; [exact H3 | exact H5].
    - exact H. }
  assert (Hfin : forall (r : outcome unit) (g2 : GStream) (m2 : stream) (ys2 : list (pbval str)) (evs : list tev),
            gRs g2 m2 -> ys2 = map fmsg (emitted evs) -> raised evs = None ->
            match finish_gen true g2 k ys2, finish true m2 with
            | (r, g', k', ys'), (m', fin) => gRs g' m' /\ k' = k /\ ys' = map fmsg (emitted (evs ++ fin)) /\ ends r (evs ++ fin)
            end).
  { intros _ g2 m2 ys2 evs HR2 -> Hr. pose proof (finish_tie true g2 m2 k (map fmsg (emitted evs)) HR2) as Hf.
    destruct (finish_gen true g2 k (map fmsg (emitted evs))) as [[[r g'] k'] ys']; destruct (finish true m2) as [m' fin].
    destruct Hf as (H1 & H2 & H3 & H4 & H5). split; [exact H1|]. split; [exact H2|]. split; [rewrite emitted_app, map_app; exact H3|].
    unfold ends. rewrite H4, raised_app, Hr, H5. exact I. }
  destruct (p_nd (so_params (st_opts (enroll m)))) eqn:End.
  - pose proof (source_namespace_declarations_is_model k d HRd g0 (enroll m) H0) as Hd.
    destruct (namespace_declarations SN k g0) as [[[u1|e1] k1] g1]; destruct (declare_all (d_namespaces d) (enroll m)) as [m1 [u1'|e1']] eqn:Ed;
      try contradiction; destruct Hd as [-> HR1].
    2:{ split; [exact HR1|]. split; [reflexivity|]. split; reflexivity. }
    destruct (declare_all_class _ _ _ _ Ed) as [Hc1 _].
    assert (Hc1' : st_class m1 <> QuadStream) by (rewrite Hc1; exact Hc0').
    unfold GenericStatementSink___iter__. cbv zeta. cbn [app]. rewrite Hstore.
    match goal with |- context [?f (map obj_of_stmt (d_stmts d)) (g1, k, ?n)] => set (li := f) end.
    specialize (Hmain g1 m1 HR1 Hc1' li (fun st => eq_refl)
                  ltac:(intros s xs gx k0 ys [Hl|Hl]; destruct s as [|s1 [|s2 [|s3 [|s4 [|s5 s]]]]]; try discriminate Hl; reflexivity)).
    change (carrier SN) with str in *.
    destruct (li (map obj_of_stmt (d_stmts d)) (g1, k, [])) as [[[g2 k2] ys2]|rv [[g2 k2] ys2]|e [[g2 k2] ys2]];
      destruct (feed stream_triple (d_stmts d) m1) as [[m2 evs] ok]; destruct ok; try contradiction.
    + destruct Hmain as (HR2 & -> & Hys & Hr).
      specialize (Hfin (Val tt) g2 m2 ys2 evs HR2 Hys Hr). unfold finish_gen in Hfin. after_finish Hfin;
        destruct (finish true m2) as [m3 fin]; exact Hfin.
    + destruct Hmain as (HR2 & -> & -> & Hr). split; [exact HR2|]. split; [reflexivity|]. split; [reflexivity|].
      unfold ends. destruct (raised evs); [exact I | contradiction].
  - unfold GenericStatementSink___iter__. cbv zeta. cbn [app]. rewrite Hstore.
    match goal with |- context [?f (map obj_of_stmt (d_stmts d)) (g0, k, ?n)] => set (li := f) end.
    specialize (Hmain g0 (enroll m) H0 Hc0' li (fun st => eq_refl)
                  ltac:(intros s xs gx k0 ys [Hl|Hl]; destruct s as [|s1 [|s2 [|s3 [|s4 [|s5 s]]]]]; try discriminate Hl; reflexivity)).
    change (carrier SN) with str in *.
    destruct (li (map obj_of_stmt (d_stmts d)) (g0, k, [])) as [[[g2 k2] ys2]|rv [[g2 k2] ys2]|e [[g2 k2] ys2]];
      destruct (feed stream_triple (d_stmts d) (enroll m)) as [[m2 evs] ok]; destruct ok; try contradiction.
    + destruct Hmain as (HR2 & -> & Hys & Hr).
      specialize (Hfin (Val tt) g2 m2 ys2 evs HR2 Hys Hr). unfold finish_gen in Hfin. after_finish Hfin;
        destruct (finish true m2) as [m3 fin]; exact Hfin.
    + destruct Hmain as (HR2 & -> & -> & Hr). split; [exact HR2|]. split; [reflexivity|]. split; [reflexivity|].
      unfold ends. destruct (raised evs); [exact I | contradiction].
Qed.

(* ------------------------------------------------------------------ quads_stream_frames(stream, sink) *)
Theorem source_quads_stream_frames_is_model (k : GSink) (d : sdata) (g : GStream) (m : stream) :
  Rd k d -> Forall stmt_ok (d_stmts d) -> gRs g m -> st_class m = QuadStream ->
  match GenericSerializeGen.quads_stream_frames SN g k, Streams.quads_stream_frames d m with
  | (r, g', k', ys), (m', evs) => gRs g' m' /\ k' = k /\ ys = map fmsg (emitted evs) /\ ends r evs
  end.
Proof.
  intros HRd Hok HR Hc. pose proof HRd as (Hsink & Hstore & Hns).
  unfold GenericSerializeGen.quads_stream_frames, Streams.quads_stream_frames. cbv zeta.
  pose proof (source_enroll_is_model E.Generic obj_of_term all_ok gput g m HR) as H0.
  destruct (Stream_enroll SN g) as [[u|e] g0]; [|contradiction].
  destruct (enroll_class m) as [Hc0 Ho0].
  unfold ns_phase. rewrite Hsink, (nd_of_Rs g0 (enroll m) H0).
  assert (Hc0' : st_class (enroll m) = QuadStream) by (rewrite Hc0; exact Hc).
  (* what follows the declarations, on any related streams *)
  assert (Hmain : forall g1 m1, gRs g1 m1 -> st_class m1 = QuadStream ->
            forall li : list gobj -> GStream * GSink * list (pbval str) -> loopres unit (GStream * GSink * list (pbval str)),
            (forall st, li [] st = LContinue st) ->
            (forall s xs gx k ys, stmt_ok s ->
               li (obj_of_stmt s :: xs) (gx, k, ys) =
               match Stream_quad SN (obj_eqb SN) (GenericSinkTermEncoder_encode_spo SN) (GenericSinkTermEncoder_encode_graph SN) (map obj_of_term s) gx with
               | (Val (Some frame), stream0, _) => li xs (stream0, k, ys ++ [frame])
               | (Val None, stream0, _) => li xs (stream0, k, ys)
               | (Exn e, stream0, _) => LRaise e (stream0, k, ys)
               end) ->
            match li (map obj_of_stmt (d_stmts d)) (g1, k, []), feed stream_quad (d_stmts d) m1 with
            | LContinue (g', k', ys'), (m', evs, true) =>
                gRs g' m' /\ k' = k /\ ys' = map fmsg (emitted evs) /\ raised evs = None
            | LRaise _ (g', k', ys'), (m', evs, false) =>
                gRs g' m' /\ k' = k /\ ys' = map fmsg (emitted evs) /\ raised evs <> None
            | _, _ => False
            end).
  { intros g1 m1 HR1 Hc1 li Hnil Hcons.
    pose proof (inner_loop_is_feed li _ stream_quad (fun mx => st_class mx = QuadStream) Hnil Hcons
                  (fun st gx mx HRx HPx => generic_stream_quad_is_model st gx mx HRx HPx)
                  (fun st mx mx' r E HP => eq_trans (stream_quad_class _ _ _ _ E) HP)
                  (d_stmts d) Hok g1 m1 [] k HR1 Hc1) as H.
    destruct (li (map obj_of_stmt (d_stmts d)) (g1, k, [])) as [[[g' k'] ys']|rv [[g' k'] ys']|e [[g' k'] ys']];
      destruct (feed stream_quad (d_stmts d) m1) as [[m' evs] ok]; destruct ok; try contradiction.
    - destruct H as (H1 & H2 & H3 & _ & H5). split; [exact H1|]. split; [exact H2|]. split; [exact H3 | exact H5].
    - exact H. }
  assert (Hfin : forall (r : outcome unit) (g2 : GStream) (m2 : stream) (ys2 : list (pbval str)) (evs : list tev),
            gRs g2 m2 -> ys2 = map fmsg (emitted evs) -> raised evs = None ->
            match finish_gen false g2 k ys2, finish false m2 with
            | (r, g', k', ys'), (m', fin) => gRs g' m' /\ k' = k /\ ys' = map fmsg (emitted (evs ++ fin)) /\ ends r (evs ++ fin)
            end).
  { intros _ g2 m2 ys2 evs HR2 -> Hr. pose proof (finish_tie false g2 m2 k (map fmsg (emitted evs)) HR2) as Hf.
    destruct (finish_gen false g2 k (map fmsg (emitted evs))) as [[[r g'] k'] ys']; destruct (finish false m2) as [m' fin].
    destruct Hf as (H1 & H2 & H3 & H4 & H5). split; [exact H1|]. split; [exact H2|]. split; [rewrite emitted_app, map_app; exact H3|].
    unfold ends. rewrite H4, raised_app, Hr, H5. exact I. }
  destruct (p_nd (so_params (st_opts (enroll m)))) eqn:End.
  - pose proof (source_namespace_declarations_is_model k d HRd g0 (enroll m) H0) as Hd.
    destruct (namespace_declarations SN k g0) as [[[u1|e1] k1] g1]; destruct (declare_all (d_namespaces d) (enroll m)) as [m1 [u1'|e1']] eqn:Ed;
      try contradiction; destruct Hd as [-> HR1].
    2:{ split; [exact HR1|]. split; [reflexivity|]. split; reflexivity. }
    destruct (declare_all_class _ _ _ _ Ed) as [Hc1 _].
    assert (Hc1' : st_class m1 = QuadStream) by (rewrite Hc1; exact Hc0').
    unfold GenericStatementSink_store. cbv zeta. cbn [app]. rewrite Hstore.
    match goal with |- context [?f (map obj_of_stmt (d_stmts d)) (g1, k, ?n)] => set (li := f) end.
    specialize (Hmain g1 m1 HR1 Hc1' li (fun st => eq_refl)
                  ltac:(intros s xs gx k0 ys [Hl|Hl]; destruct s as [|s1 [|s2 [|s3 [|s4 [|s5 s]]]]]; try discriminate Hl; reflexivity)).
    change (carrier SN) with str in *.
    destruct (li (map obj_of_stmt (d_stmts d)) (g1, k, [])) as [[[g2 k2] ys2]|rv [[g2 k2] ys2]|e [[g2 k2] ys2]];
      destruct (feed stream_quad (d_stmts d) m1) as [[m2 evs] ok]; destruct ok; try contradiction.
    + destruct Hmain as (HR2 & -> & Hys & Hr).
      specialize (Hfin (Val tt) g2 m2 ys2 evs HR2 Hys Hr). unfold finish_gen in Hfin. after_finish Hfin;
        destruct (finish false m2) as [m3 fin]; exact Hfin.
    + destruct Hmain as (HR2 & -> & -> & Hr). split; [exact HR2|]. split; [reflexivity|]. split; [reflexivity|].
      unfold ends. destruct (raised evs); [exact I | contradiction].
  - unfold GenericStatementSink_store. cbv zeta. cbn [app]. rewrite Hstore.
    match goal with |- context [?f (map obj_of_stmt (d_stmts d)) (g0, k, ?n)] => set (li := f) end.
    specialize (Hmain g0 (enroll m) H0 Hc0' li (fun st => eq_refl)
                  ltac:(intros s xs gx k0 ys [Hl|Hl]; destruct s as [|s1 [|s2 [|s3 [|s4 [|s5 s]]]]]; try discriminate Hl; reflexivity)).
    change (carrier SN) with str in *.
    destruct (li (map obj_of_stmt (d_stmts d)) (g0, k, [])) as [[[g2 k2] ys2]|rv [[g2 k2] ys2]|e [[g2 k2] ys2]];
      destruct (feed stream_quad (d_stmts d) (enroll m)) as [[m2 evs] ok]; destruct ok; try contradiction.
    + destruct Hmain as (HR2 & -> & Hys & Hr).
      specialize (Hfin (Val tt) g2 m2 ys2 evs HR2 Hys Hr). unfold finish_gen in Hfin. after_finish Hfin;
        destruct (finish false m2) as [m3 fin]; exact Hfin.
    + destruct Hmain as (HR2 & -> & -> & Hr). split; [exact HR2|]. split; [reflexivity|]. split; [reflexivity|].
      unfold ends. destruct (raised evs); [exact I | contradiction].
Qed.

(* ------------------------------------------------------------------ split_to_graphs(statements) *)
Notation run := (term * list (list term))%type.

(* the sink split_to_graphs makes of a run of quads with the same graph term: that term as identifier, the triples *)
Definition sink_of_run (r : run) : GSink :=
  mk_GenericStatementSink (map obj_of_stmt (snd r)) [] (obj_of_term (fst r)).

(* split_runs with the runs already closed and the one still open apart (what the loop of split_to_graphs holds) *)
Fixpoint split_acc (stmts : list (list term)) (cur : option run) : list run * option run :=
  match stmts with
  | [] => ([], cur)
  | st :: rest =>
    let g := match graph_of st with Some g => g | None => TOther end in
    let tr := firstn 3 st in
    match cur with
    | Some (g0, ts) =>
      if term_eqb g0 g then split_acc rest (Some (g0, ts ++ [tr]))
      else let '(c, f) := split_acc rest (Some (g, [tr])) in ((g0, ts) :: c, f)
    | None => split_acc rest (Some (g, [tr]))
    end
  end.

Lemma split_runs_acc stmts : forall cur,
  split_runs stmts cur = fst (split_acc stmts cur) ++ match snd (split_acc stmts cur) with Some r => [r] | None => [] end.
Proof.
  induction stmts as [|st rest IH]; intros cur; cbn [split_runs split_acc].
  - destruct cur as [[g ts]|]; reflexivity.
  - destruct cur as [[g0 ts]|]; [|apply IH].
    destruct (term_eqb g0 _); [apply IH|]. rewrite IH. destruct (split_acc rest _) as [c f]. reflexivity.
Qed.

Definition quad_ok (st : list term) : Prop := length st = 4%nat.

Definition Rcur (cg : option gobj) (cs : option GSink) (cur : option run) : Prop :=
  match cur with
  | None => cg = None /\ cs = None
  | Some (g0, ts) => cg = Some (obj_of_term g0) /\ cs = Some (sink_of_run (g0, ts))
  end.

Theorem source_split_to_graphs_is_model (stmts : list (list term)) : Forall quad_ok stmts ->
  split_to_graphs SN (map obj_of_stmt stmts) = (Val tt, map obj_of_stmt stmts, map sink_of_run (split_runs stmts None)).
Proof.
  intros Hok. unfold split_to_graphs. cbv zeta.
  match goal with |- context [?f (map obj_of_stmt stmts) (map obj_of_stmt stmts, ?a, ?b, ?c)] => set (lp := f) end.
  assert (Hloop : forall xs, Forall quad_ok xs -> forall data ys cg cs cur, Rcur cg cs cur ->
            exists cg' cs', lp (map obj_of_stmt xs) (data, ys, cg, cs) = LContinue (data, ys ++ map sink_of_run (fst (split_acc xs cur)), cg', cs') /\
                            Rcur cg' cs' (snd (split_acc xs cur))).
  { induction 1 as [|st xs Hst _ IH]; intros data ys cg cs cur HRc.
    - exists cg, cs. cbn. rewrite app_nil_r. split; [reflexivity | exact HRc].
    - destruct st as [|s [|p [|o [|gg [|x st]]]]]; try discriminate Hst. clear Hst.
      cbn [map obj_of_stmt split_acc graph_of nth_error firstn].
      unfold lp at 1. fold lp. cbv beta iota.
      destruct cur as [[g0 ts]|]; cbn [Rcur] in HRc; destruct HRc as [-> ->].
      + change (any_eqb SN) with (obj_eqb SN). rewrite source_term_eq_is_model.
        destruct (term_eqb g0 gg) eqn:Eg; cbn [negb].
        * (* the same graph: the triple joins the open sink *)
          unfold GenericStatementSink_add. cbv beta iota zeta.
          destruct (IH data ys (Some (obj_of_term g0)) (Some (sink_of_run (g0, ts ++ [[s; p; o]]))) (Some (g0, ts ++ [[s; p; o]])) ltac:(split; reflexivity)) as (cg' & cs' & Hl & HR').
          exists cg', cs'. split; [|exact HR'].
          rewrite <- Hl. unfold sink_of_run. cbn [fst snd set_GenericStatementSink__store GenericStatementSink__store GenericStatementSink__namespaces GenericStatementSink__identifier].
          rewrite map_app. reflexivity.
        * (* another graph: the open sink is yielded, a new one started *)
          unfold GenericStatementSink___init__, GenericStatementSink_add. cbv beta iota zeta.
          destruct (IH data (ys ++ [sink_of_run (g0, ts)]) (Some (obj_of_term gg)) (Some (sink_of_run (gg, [[s; p; o]]))) (Some (gg, [[s; p; o]])) ltac:(split; reflexivity)) as (cg' & cs' & Hl & HR').
          exists cg', cs'. destruct (split_acc xs (Some (gg, [[s; p; o]]))) as [c f]. cbn [fst snd] in *. split; [|exact HR'].
          cbn [map]. change (ys ++ sink_of_run (g0, ts) :: map sink_of_run c) with (ys ++ [sink_of_run (g0, ts)] ++ map sink_of_run c).
          rewrite app_assoc. exact Hl.
      + (* the first statement *)
        cbn [negb]. unfold GenericStatementSink___init__, GenericStatementSink_add. cbv beta iota zeta.
        destruct (IH data ys (Some (obj_of_term gg)) (Some (sink_of_run (gg, [[s; p; o]]))) (Some (gg, [[s; p; o]])) ltac:(split; reflexivity)) as (cg' & cs' & Hl & HR').
        exists cg', cs'. split; [|exact HR']. rewrite <- Hl. reflexivity. }
  destruct (Hloop stmts Hok (map obj_of_stmt stmts) [] None None None ltac:(split; reflexivity)) as (cg' & cs' & Hl & HR').
  rewrite Hl, split_runs_acc. clear Hl. destruct (split_acc stmts None) as [c f]. cbn [fst snd] in *.
  destruct f as [[g0 ts]|]; cbn [Rcur] in HR'; destruct HR' as [-> ->].
  - cbn [negb app]. rewrite map_app. reflexivity.
  - cbn [negb app]. rewrite !app_nil_r. reflexivity.
Qed.

(* ------------------------------------------------------------------ graphs_stream_frames(stream, sink) *)
Lemma graph_triples_ends ts : forall m m' evs ok, graph_triples ts m = (m', evs, ok) ->
  st_class m' = st_class m /\ (if ok then raised evs = None else raised evs <> None).
Proof.
  induction ts as [|tr ts IH]; intros m m' evs ok; cbn [graph_triples].
  - intros [= <- <- <-]. split; reflexivity.
  - destruct (stream_triple tr m) as [m1 [fr|e]] eqn:Est; pose proof (stream_triple_class _ _ _ _ Est) as Hc1.
    + destruct (graph_triples ts m1) as [[m2 evs2] ok2] eqn:Eg. intros [= <- <- <-].
      destruct (IH _ _ _ _ Eg) as [Hc2 Hr]. split; [congruence|].
      destruct ok2; rewrite raised_app, raised_emit_opt; exact Hr.
    + intros [= <- <- <-]. split; [exact Hc1 | cbn; discriminate].
Qed.

Lemma stream_graph_ends gid ts m m' evs ok : stream_graph gid ts m = (m', evs, ok) ->
  st_class m' = st_class m /\ (if ok then raised evs = None else raised evs <> None).
Proof.
  unfold stream_graph. destruct (st_failed m); [intros [= <- <- <-]; split; [reflexivity | cbn; discriminate]|].
  destruct (E.encode_graph_start (st_integ m) gid (st_enc m)) as [[t' rows]|e]; [|intros [= <- <- <-]; split; [reflexivity | cbn; discriminate]].
  destruct (graph_triples ts _) as [[m2 evs2] ok2] eqn:Eg. destruct (graph_triples_ends _ _ _ _ _ Eg) as [Hc2 Hr].
  destruct ok2.
  - destruct (frame_from_bounds _) as [fl fr]. intros [= <- <- <-]. split; [exact Hc2|]. rewrite raised_app, raised_emit_opt, Hr. reflexivity.
  - intros [= <- <- <-]. split; [exact Hc2 | exact Hr].
Qed.

Lemma emitted_pulls n evs : emitted (pulls n ++ evs) = emitted evs.
Proof. induction n; [reflexivity | exact IHn]. Qed.

Lemma raised_pulls n evs : raised (pulls n ++ evs) = raised evs.
Proof. induction n; [reflexivity | exact IHn]. Qed.

Definition triple_ok (t : list term) : Prop := length t = 3%nat.
Definition run_ok (r : run) : Prop := Forall triple_ok (snd r).

Lemma split_runs_ok stmts : Forall quad_ok stmts -> forall cur, match cur with Some r => run_ok r | None => True end ->
  Forall run_ok (split_runs stmts cur).
Proof.
  induction 1 as [|st rest Hst _ IH]; intros cur Hcur; cbn [split_runs].
  - destruct cur as [[g ts]|]; [constructor; [exact Hcur | constructor] | constructor].
  - assert (H3 : triple_ok (firstn 3 st)) by (destruct st as [|s [|p [|o [|gg [|x st]]]]]; try discriminate Hst; reflexivity).
    destruct cur as [[g0 ts]|].
    + destruct (term_eqb g0 _).
      * apply IH. unfold run_ok in *. cbn [snd] in *. apply Forall_app. split; [exact Hcur | constructor; [exact H3 | constructor]].
      * constructor; [exact Hcur|]. apply IH. constructor; [exact H3 | constructor].
    + apply IH. constructor; [exact H3 | constructor].
Qed.

Lemma items_of_triples ts : Forall triple_ok ts -> obj_items_all SN (map obj_of_stmt ts) = Some (map (map obj_of_term) ts).
Proof.
  induction 1 as [|t ts Ht _ IH]; [reflexivity|]. cbn [map obj_items_all]. rewrite IH.
  destruct t as [|s [|p [|o [|x t]]]]; try discriminate Ht. reflexivity.
Qed.

(* the loop of graphs_stream_frames over the sinks of the runs is the model's feed_graphs_generic *)
Section GraphLoop.
Context {D : Type}.
Context (lg : list GSink -> GStream * D * list (pbval str) -> loopres unit (GStream * D * list (pbval str))).
Context (H_nil : forall st, lg [] st = LContinue st).
Context (H_cons : forall r xs gx k ys, run_ok r ->
  lg (sink_of_run r :: xs) (gx, k, ys) =
  let '(res, gx', _, ys1) := Stream_graph SN (obj_eqb SN) gs_spo gs_graph (obj_of_term (fst r)) (map (map obj_of_term) (snd r)) gx in
  match res with
  | Exn e => LRaise e (gx', k, ys ++ ys1)
  | Val _ => lg xs (gx', k, ys ++ ys1)
  end).

Lemma graph_loop_is_feed : forall runs, Forall run_ok runs -> forall first gx mx ys k, gRs gx mx -> st_class mx = GraphStream ->
  match lg (map sink_of_run runs) (gx, k, ys), feed_graphs_generic first runs mx with
  | LContinue (g', k', ys'), (m', evs, true) => gRs g' m' /\ k' = k /\ ys' = ys ++ map fmsg (emitted evs) /\ raised evs = None
  | LRaise _ (g', k', ys'), (m', evs, false) => gRs g' m' /\ k' = k /\ ys' = ys ++ map fmsg (emitted evs) /\ raised evs <> None
  | _, _ => False
  end.
Proof.
  induction 1 as [|[gid ts] runs Hr _ IH]; intros first gx mx ys k HRx Hcx.
  - cbn [map feed_graphs_generic]. rewrite H_nil. split; [exact HRx|]. split; [reflexivity|]. split; [cbn; rewrite app_nil_r; reflexivity | reflexivity].
  - cbn [map feed_graphs_generic]. rewrite (H_cons (gid, ts) _ gx k ys Hr). cbn [fst snd].
    pose proof (generic_stream_graph_is_model gid ts gx mx HRx Hcx) as Hstep.
    destruct (Stream_graph SN (obj_eqb SN) gs_spo gs_graph (obj_of_term gid) (map (map obj_of_term) ts) gx) as [[[res gx'] rest] ys1].
    destruct (stream_graph gid ts mx) as [[mx' evs1] ok1] eqn:Eg. destruct Hstep as (HRx' & -> & Hres).
    destruct (stream_graph_ends _ _ _ _ _ _ Eg) as [Hcx' Hr1].
    destruct res as [u|e]; subst ok1.
    + specialize (IH false gx' mx' (ys ++ map fmsg (emitted evs1)) k HRx' ltac:(rewrite Hcx'; exact Hcx)).
      destruct (lg (map sink_of_run runs) (gx', k, ys ++ map fmsg (emitted evs1))) as [[[g' k'] ys']|rv [[g' k'] ys']|e [[g' k'] ys']];
        destruct (feed_graphs_generic false runs mx') as [[m' evs] ok]; destruct ok; try contradiction.
      * destruct IH as (HR' & -> & -> & Hr2). split; [exact HR'|]. split; [reflexivity|].
        split; [rewrite emitted_pulls, emitted_app, map_app, app_assoc; reflexivity|]. rewrite raised_pulls, raised_app, Hr1. exact Hr2.
      * destruct IH as (HR' & -> & -> & Hr2). split; [exact HR'|]. split; [reflexivity|].
        split; [rewrite emitted_pulls, emitted_app, map_app, app_assoc; reflexivity|]. rewrite raised_pulls, raised_app, Hr1. exact Hr2.
    + split; [exact HRx'|]. split; [reflexivity|]. split; [rewrite emitted_pulls; reflexivity|]. rewrite raised_pulls. exact Hr1.
Qed.
End GraphLoop.

Theorem source_graphs_stream_frames_is_model (k : GSink) (d : sdata) (g : GStream) (m : stream) :
  Rd k d -> Forall quad_ok (d_stmts d) -> gRs g m -> st_class m = GraphStream ->
  match GenericSerializeGen.graphs_stream_frames SN g k, Streams.graphs_stream_frames_generic d m with
  | (r, g', k', ys), (m', evs) => gRs g' m' /\ k' = k /\ ys = map fmsg (emitted evs) /\ ends r evs
  end.
Proof.
  intros HRd Hok HR Hc. pose proof HRd as (Hsink & Hstore & Hns).
  unfold GenericSerializeGen.graphs_stream_frames, Streams.graphs_stream_frames_generic. cbv zeta.
  pose proof (source_enroll_is_model E.Generic obj_of_term all_ok gput g m HR) as H0.
  destruct (Stream_enroll SN g) as [[u|e] g0]; [|contradiction].
  destruct (enroll_class m) as [Hc0 Ho0].
  unfold ns_phase. rewrite Hsink, (nd_of_Rs g0 (enroll m) H0).
  assert (Hc0' : st_class (enroll m) = GraphStream) by (rewrite Hc0; exact Hc).
  pose proof (split_runs_ok (d_stmts d) Hok None I) as Hruns.
  (* the model's result, whether or not there are statements *)
  assert (Hmodel : forall m1, exists m' evs,
            match d_stmts d with
            | [] => let '(s3, fin) := finish false m1 in (s3, Pull :: fin)
            | _ => let '(s2, evs, ok) := feed_graphs_generic true (split_runs (d_stmts d) None) m1 in
                   if ok then let '(s3, fin) := finish false s2 in (s3, evs ++ fin) else (s2, evs)
            end = (m', evs) /\
            let '(s2, evs2, ok) := feed_graphs_generic true (split_runs (d_stmts d) None) m1 in
            if ok then let '(s3, fin) := finish false s2 in m' = s3 /\ emitted evs = emitted (evs2 ++ fin) /\ raised evs = raised (evs2 ++ fin)
            else m' = s2 /\ evs = evs2).
  { intros m1. destruct (d_stmts d) as [|st rest].
    - cbn [split_runs feed_graphs_generic]. destruct (finish false m1) as [s3 fin]. exists s3, (Pull :: fin).
      split; [reflexivity|]. split; [reflexivity|]. split; reflexivity.
    - destruct (feed_graphs_generic true (split_runs (st :: rest) None) m1) as [[s2 evs2] ok]. destruct ok.
      + destruct (finish false s2) as [s3 fin]. exists s3, (evs2 ++ fin). split; [reflexivity|]. split; [reflexivity|]. split; reflexivity.
      + exists s2, evs2. split; [reflexivity|]. split; reflexivity. }
  assert (Hmain : forall g1 m1, gRs g1 m1 -> st_class m1 = GraphStream ->
            forall lg : list GSink -> GStream * GSink * list (pbval str) -> loopres unit (GStream * GSink * list (pbval str)),
            (forall st, lg [] st = LContinue st) ->
            (forall r xs gx k ys, run_ok r ->
               lg (sink_of_run r :: xs) (gx, k, ys) =
               let '(res, gx', _, ys1) := Stream_graph SN (obj_eqb SN) gs_spo gs_graph (obj_of_term (fst r)) (map (map obj_of_term) (snd r)) gx in
               match res with
               | Exn e => LRaise e (gx', k, ys ++ ys1)
               | Val _ => lg xs (gx', k, ys ++ ys1)
               end) ->
            match (match lg (map sink_of_run (split_runs (d_stmts d) None)) (g1, k, []) with
                   | LContinue (g2, k2, ys2) => finish_gen false g2 k2 ys2
                   | LReturn rv (g2, k2, ys2) => (Val rv, g2, k2, ys2)
                   | LRaise e (g2, k2, ys2) => (Exn e, g2, k2, ys2)
                   end),
                  match d_stmts d with
                  | [] => let '(s3, fin) := finish false m1 in (s3, Pull :: fin)
                  | _ => let '(s2, evs, ok) := feed_graphs_generic true (split_runs (d_stmts d) None) m1 in
                         if ok then let '(s3, fin) := finish false s2 in (s3, evs ++ fin) else (s2, evs)
                  end with
            | (r, g', k', ys), (m', evs) => gRs g' m' /\ k' = k /\ ys = map fmsg (emitted evs) /\ ends r evs
            end).
  { intros g1 m1 HR1 Hc1 lg Hnil Hcons.
    destruct (Hmodel m1) as (m' & evs & -> & Hm).
    pose proof (graph_loop_is_feed lg Hnil Hcons _ Hruns true g1 m1 [] k HR1 Hc1) as H.
    destruct (lg (map sink_of_run (split_runs (d_stmts d) None)) (g1, k, [])) as [[[g2 k2] ys2]|rv [[g2 k2] ys2]|e [[g2 k2] ys2]];
      destruct (feed_graphs_generic true (split_runs (d_stmts d) None) m1) as [[m2 evs2] ok]; destruct ok; try contradiction.
    - destruct H as (HR2 & -> & -> & Hr2). cbn [app].
      pose proof (finish_tie false g2 m2 k (map fmsg (emitted evs2)) HR2) as Hf.
      destruct (finish_gen false g2 k (map fmsg (emitted evs2))) as [[[r g3] k3] ys3]. destruct (finish false m2) as [m3 fin].
      destruct Hm as (-> & He & Hr). destruct Hf as (H1 & H2 & H3 & H4 & H5).
      split; [exact H1|]. split; [exact H2|]. split; [rewrite He, emitted_app, map_app; exact H3|].
      unfold ends. rewrite H4, Hr, raised_app, Hr2, H5. exact I.
    - destruct H as (HR2 & -> & -> & Hr2). destruct Hm as [-> ->]. split; [exact HR2|]. split; [reflexivity|]. split; [reflexivity|].
      unfold ends. destruct (raised evs2); [exact I | contradiction]. }
  destruct (p_nd (so_params (st_opts (enroll m)))) eqn:End.
  - pose proof (source_namespace_declarations_is_model k d HRd g0 (enroll m) H0) as Hd.
    destruct (namespace_declarations SN k g0) as [[[u1|e1] k1] g1]; destruct (declare_all (d_namespaces d) (enroll m)) as [m1 [u1'|e1']] eqn:Ed;
      try contradiction; destruct Hd as [-> HR1].
    2:{ split; [exact HR1|]. split; [reflexivity|]. split; reflexivity. }
    destruct (declare_all_class _ _ _ _ Ed) as [Hc1 _].
    assert (Hc1' : st_class m1 = GraphStream) by (rewrite Hc1; exact Hc0').
    unfold GenericStatementSink_store. cbv zeta. cbn [app]. rewrite Hstore, (source_split_to_graphs_is_model (d_stmts d) Hok).
    match goal with |- context [?f (map sink_of_run (split_runs (d_stmts d) None)) (g1, k, ?n)] => set (lg := f) end.
    specialize (Hmain g1 m1 HR1 Hc1' lg (fun st => eq_refl)).
    assert (Hcons : forall r xs gx k ys, run_ok r ->
               lg (sink_of_run r :: xs) (gx, k, ys) =
               let '(res, gx', _, ys1) := Stream_graph SN (obj_eqb SN) gs_spo gs_graph (obj_of_term (fst r)) (map (map obj_of_term) (snd r)) gx in
               match res with
               | Exn e => LRaise e (gx', k, ys ++ ys1)
               | Val _ => lg xs (gx', k, ys ++ ys1)
               end).
    { intros [gid ts] xs gx k0 ys Hr. unfold lg at 1. fold lg. unfold sink_of_run at 1. cbv beta iota.
      unfold GenericStatementSink_identifier, GenericStatementSink___iter__. cbv beta iota zeta.
      cbn [fst snd GenericStatementSink__store GenericStatementSink__identifier app].
      rewrite (items_of_triples ts Hr).
      change (Stream_graph SN (any_eqb SN) (TermEncoder_encode_spo SN) (TermEncoder_encode_graph SN)) with (Stream_graph SN (obj_eqb SN) gs_spo gs_graph).
      destruct (Stream_graph SN (obj_eqb SN) gs_spo gs_graph (obj_of_term gid) (map (map obj_of_term) ts) gx) as [[[[u2|e2] gx'] rest] ys1]; reflexivity. }
    specialize (Hmain Hcons). clear Hcons.
    change (carrier SN) with str in *.
    destruct (lg (map sink_of_run (split_runs (d_stmts d) None)) (g1, k, [])) as [[[g2 k2] ys2]|rv [[g2 k2] ys2]|e2 [[g2 k2] ys2]].
    + unfold finish_gen in Hmain. after_finish Hmain; exact Hmain.
    + exact Hmain.
    + exact Hmain.
  - unfold GenericStatementSink_store. cbv zeta. cbn [app]. rewrite Hstore, (source_split_to_graphs_is_model (d_stmts d) Hok).
    match goal with |- context [?f (map sink_of_run (split_runs (d_stmts d) None)) (g0, k, ?n)] => set (lg := f) end.
    specialize (Hmain g0 (enroll m) H0 Hc0' lg (fun st => eq_refl)).
    assert (Hcons : forall r xs gx k ys, run_ok r ->
               lg (sink_of_run r :: xs) (gx, k, ys) =
               let '(res, gx', _, ys1) := Stream_graph SN (obj_eqb SN) gs_spo gs_graph (obj_of_term (fst r)) (map (map obj_of_term) (snd r)) gx in
               match res with
               | Exn e => LRaise e (gx', k, ys ++ ys1)
               | Val _ => lg xs (gx', k, ys ++ ys1)
               end).
    { intros [gid ts] xs gx k0 ys Hr. unfold lg at 1. fold lg. unfold sink_of_run at 1. cbv beta iota.
      unfold GenericStatementSink_identifier, GenericStatementSink___iter__. cbv beta iota zeta.
      cbn [fst snd GenericStatementSink__store GenericStatementSink__identifier app].
      rewrite (items_of_triples ts Hr).
      change (Stream_graph SN (any_eqb SN) (TermEncoder_encode_spo SN) (TermEncoder_encode_graph SN)) with (Stream_graph SN (obj_eqb SN) gs_spo gs_graph).
      destruct (Stream_graph SN (obj_eqb SN) gs_spo gs_graph (obj_of_term gid) (map (map obj_of_term) ts) gx) as [[[[u2|e2] gx'] rest] ys1]; reflexivity. }
    specialize (Hmain Hcons). clear Hcons.
    change (carrier SN) with str in *.
    destruct (lg (map sink_of_run (split_runs (d_stmts d) None)) (g0, k, [])) as [[[g2 k2] ys2]|rv [[g2 k2] ys2]|e2 [[g2 k2] ys2]].
    + unfold finish_gen in Hmain. after_finish Hmain; exact Hmain.
    + exact Hmain.
    + exact Hmain.
Qed.

Print Assumptions source_namespace_declarations_is_model.
Print Assumptions source_triples_stream_frames_is_model.
Print Assumptions source_quads_stream_frames_is_model.
Print Assumptions source_split_to_graphs_is_model.
Print Assumptions source_graphs_stream_frames_is_model.
