(* GenericEndToEnd.v -- C01 / C14 for the generic integration with translated source on BOTH sides and nothing of the model
   left in the conclusion: the frames the translated writer driver (triples_stream_frames / quads_stream_frames /
   graphs_stream_frames of integrations/generic/serialize.py, on a GenericStatementSink, through the translated Stream and
   GenericSinkTermEncoder methods) yields, handed as they are to the translated flat parser (parse_jelly_flat of
   integrations/generic/parse.py, through the translated Decoder and adapters), give back the objects of the namespace
   declarations (when enabled) and of the statements, in order, and the parser ends normally.

   Joined from: GenericDriversTie (the drivers are the model's), the model round trip (proofs/EncNamespace*.v: what the
   model's drivers emit is a valid stream denoting those events), GenericRoundTrip (the translated parser reads any valid
   stream to the objects of what it denotes).  The parser options are those the model reads off the first non-empty frame
   (Decoder.options_from_frame, tied to the translated options_from_frame by DecodeTie.v; get_options_and_frames itself
   reads bytes: not translated). *)
From Coq Require Import Lia ZifyBool.
From PJ.Model Require Import Base Terms Encoder Streams Decoder Spec Api.
From PJ.Proofs Require Import DecoderProofs DecoderSound EncStream RoundTrip EncNamespace EncNamespace2 EncGraphs WireRT SpecWf BytesE2E.
From PJ.Tie Require Import PyPrims StrN OptionsTie EncodeTie EncodeStmtTie FlowsTie StreamsTie DecodeTie DecoderBase DecoderTie GenericTerms GenericParseTie GenericSerializeTie GenericRoundTrip GenericDriversTie.
From PJ.Gen Require Import LookupEncGen LookupDecGen OptionsGen EncodeGen FlowsGen DecodeGen StreamsGen GenericSinkGen GenericParseGen.
From PJ.Gen Require GenericSerializeGen.
Local Open Scope Z_scope.

Notation GStream := (@Stream SN (obj SN)).
Notation gRs := (Rs E.Generic obj_of_term all_ok gput).
Notation objs := (map (fun e => Some (obj_of_event e))).

Lemma ends_val evs : ends (Val tt) evs -> raised evs = None.
Proof. unfold ends. destruct (raised evs); [contradiction | reflexivity]. Qed.

(* the premise "the translated stream object is the model's stream" (gRs) is what construction gives: GenericSinkTermEncoder(
   lookup_preset) -- the base-class __init__ -- then TripleStream / QuadStream / GraphStream(encoder, options), for any options
   object holding what the model's options say (Ro) *)
Theorem constructed_stream_is_related (c : stream_class) (o : soptions) (s : stream) (gopts : SerializerOptions SN) :
  stream_new c Generic o = Ok s -> Ro gput gopts o ->
  exists genc gs, TermEncoder___init__ SN (Some (SerializerOptions_lookup_preset gopts)) = Val genc /\
                  ctor (T := obj SN) c genc (Some gopts) = Val gs /\ gRs gs s.
Proof.
  intros Hnew HRo. pose proof HRo as (_ & _ & _ & _ & Hpr).
  assert (Hpre : preset_ok (so_maxn o) (so_maxp o) (so_maxd o) = true).
  { unfold stream_new in Hnew. destruct (preset_ok _ _ _); [reflexivity | discriminate]. }
  destruct (source_term_encoder_init_is_model (so_maxn o) (so_maxp o) (so_maxd o)) as (genc & Hg & HRt).
  exists genc. rewrite Hpr.
  pose proof (source_stream_new_is_model E.Generic obj_of_term all_ok gput c o genc gopts Hpre HRt HRo) as H.
  rewrite Hnew in H. destruct (ctor c genc (Some gopts)) as [gs|e]; [|contradiction].
  exists gs. split; [exact Hg|]. split; [reflexivity | exact H].
Qed.

Theorem C01_end_to_end_generic_triples :
  forall (o : soptions) (s : stream) (gs gs' : GStream) (k k' : GenericStatementSink SN) (d : sdata) (ys : list (pbval str)) (dl : bool),
    stream_new TripleStream Generic o = Ok s -> cfg_ok o (st_logical s) -> fl_rows (st_flow s) = [] ->
    gRs gs s -> Rd k d -> Forall stmt_ok (d_stmts d) ->
    GenericSerializeGen.triples_stream_frames SN gs k = (Val tt, gs', k', ys) ->
    exists po, (exists fs sk first more, ys = map (frame_msg (rmsg gput)) fs /\ skip_empty fs = (sk, first :: more) /\ Decoder.options_from_frame first dl = Ok po) /\
      (types_named (ParserOptions_stream_types (popts_obj po)) ->
       parse_jelly_flat SN ys (popts_obj po) false = (Val tt, ys, objs (ns_events o d ++ flat_map event_of_triple (d_stmts d)))).
Proof.
  intros o s gs gs' k k' d ys dl Hnew Hcfg Hfresh HR HRd Hok Hrun.
  assert (Hc : st_class s <> QuadStream).
  { unfold stream_new in Hnew. destruct (negb _); [discriminate|]. destruct (match so_flow o with Some f => Ok f | None => infer_flow TripleStream o end); [|discriminate].
    cbn [bind] in Hnew. destruct (negb _); [discriminate|]. injection Hnew as <-. discriminate. }
  pose proof (source_triples_stream_frames_is_model k d gs s HRd Hok HR Hc) as H. rewrite Hrun in H.
  destruct (Streams.triples_stream_frames d s) as [s' evs] eqn:Em. destruct H as (_ & _ & -> & Hends).
  pose proof (triples_stream_valid_ns o s s' d evs Hnew Hcfg Hfresh Em (ends_val _ Hends)) as Hv.
  destruct (C04_source_generic_flat_parser (emitted evs) _ dl Hv) as (po & (sk & first & more & H1 & H2) & H3).
  exists po. split; [exists (emitted evs), sk, first, more; split; [reflexivity | split; assumption] | exact H3].
Qed.

Theorem C01_end_to_end_generic_quads :
  forall (o : soptions) (s : stream) (gs gs' : GStream) (k k' : GenericStatementSink SN) (d : sdata) (ys : list (pbval str)) (dl : bool),
    stream_new QuadStream Generic o = Ok s -> cfg_ok o (st_logical s) -> fl_rows (st_flow s) = [] ->
    gRs gs s -> Rd k d -> Forall stmt_ok (d_stmts d) ->
    GenericSerializeGen.quads_stream_frames SN gs k = (Val tt, gs', k', ys) ->
    exists po, (exists fs sk first more, ys = map (frame_msg (rmsg gput)) fs /\ skip_empty fs = (sk, first :: more) /\ Decoder.options_from_frame first dl = Ok po) /\
      (types_named (ParserOptions_stream_types (popts_obj po)) ->
       parse_jelly_flat SN ys (popts_obj po) false = (Val tt, ys, objs (ns_events o d ++ flat_map event_of_quad (d_stmts d)))).
Proof.
  intros o s gs gs' k k' d ys dl Hnew Hcfg Hfresh HR HRd Hok Hrun.
  assert (Hc : st_class s = QuadStream).
  { unfold stream_new in Hnew. destruct (negb _); [discriminate|]. destruct (match so_flow o with Some f => Ok f | None => infer_flow QuadStream o end); [|discriminate].
    cbn [bind] in Hnew. destruct (negb _); [discriminate|]. injection Hnew as <-. reflexivity. }
  pose proof (source_quads_stream_frames_is_model k d gs s HRd Hok HR Hc) as H. rewrite Hrun in H.
  destruct (Streams.quads_stream_frames d s) as [s' evs] eqn:Em. destruct H as (_ & _ & -> & Hends).
  pose proof (quads_stream_valid_ns o s s' d evs Hnew Hcfg Hfresh Em (ends_val _ Hends)) as Hv.
  destruct (C04_source_generic_flat_parser (emitted evs) _ dl Hv) as (po & (sk & first & more & H1 & H2) & H3).
  exists po. split; [exists (emitted evs), sk, first, more; split; [reflexivity | split; assumption] | exact H3].
Qed.

Lemma quad_ok_wf (l : list (list term)) : Forall quad_ok l -> forallb wf_quad l = true.
Proof.
  induction 1 as [|st l Hst _ IH]; [reflexivity|]. cbn [forallb]. rewrite IH.
  destruct st as [|a [|b [|c [|e st]]]]; try discriminate Hst. reflexivity.
Qed.

Theorem C01_end_to_end_generic_graphs :
  forall (o : soptions) (s : stream) (gs gs' : GStream) (k k' : GenericStatementSink SN) (d : sdata) (ys : list (pbval str)) (dl : bool),
    stream_new GraphStream Generic o = Ok s -> cfg_ok o (st_logical s) -> fl_rows (st_flow s) = [] ->
    gRs gs s -> Rd k d -> Forall quad_ok (d_stmts d) ->
    GenericSerializeGen.graphs_stream_frames SN gs k = (Val tt, gs', k', ys) ->
    exists po, (exists fs sk first more, ys = map (frame_msg (rmsg gput)) fs /\ skip_empty fs = (sk, first :: more) /\ Decoder.options_from_frame first dl = Ok po) /\
      (types_named (ParserOptions_stream_types (popts_obj po)) ->
       parse_jelly_flat SN ys (popts_obj po) false = (Val tt, ys, objs (ns_events o d ++ flat_map event_of_quad (d_stmts d)))).
Proof.
  intros o s gs gs' k k' d ys dl Hnew Hcfg Hfresh HR HRd Hok Hrun.
  assert (Hc : st_class s = GraphStream).
  { unfold stream_new in Hnew. destruct (negb _); [discriminate|]. destruct (match so_flow o with Some f => Ok f | None => infer_flow GraphStream o end); [|discriminate].
    cbn [bind] in Hnew. destruct (negb _); [discriminate|]. injection Hnew as <-. reflexivity. }
  pose proof (source_graphs_stream_frames_is_model k d gs s HRd Hok HR Hc) as H. rewrite Hrun in H.
  destruct (Streams.graphs_stream_frames_generic d s) as [s' evs] eqn:Em. destruct H as (_ & _ & -> & Hends).
  pose proof (graphs_stream_valid_ns o s s' d evs Hnew Hcfg Hfresh (quad_ok_wf _ Hok) Em (ends_val _ Hends)) as Hv.
  destruct (C04_source_generic_flat_parser (emitted evs) _ dl Hv) as (po & (sk & first & more & H1 & H2) & H3).
  exists po. split; [exists (emitted evs), sk, first, more; split; [reflexivity | split; assumption] | exact H3].
Qed.

(* ------------------------------------------------------------------ C06 on translated source: when a translated driver ends without
   raising, the flow of the stream it leaves holds no row (nothing accepted is left unwritten) *)
From PJ.Proofs Require Import FlowProofs EncoderProofs.

Lemma flow_empty_of_Rs (g : GStream) (m : stream) : gRs g m -> fl_rows (st_flow m) = [] -> FrameFlow_data (Stream_flow SN g) = [].
Proof. intros (_ & _ & _ & _ & (_ & Hd & _) & _) He. rewrite Hd, He. reflexivity. Qed.

Theorem C06_source_generic_nothing_left_behind :
  forall (s : stream) (gs gs' : GStream) (k k' : GenericStatementSink SN) (d : sdata) (ys : list (pbval str)),
    gRs gs s -> Rd k d ->
    (st_class s = TripleStream /\ Forall stmt_ok (d_stmts d) /\ GenericSerializeGen.triples_stream_frames SN gs k = (Val tt, gs', k', ys)) \/
    (st_class s = QuadStream /\ Forall stmt_ok (d_stmts d) /\ GenericSerializeGen.quads_stream_frames SN gs k = (Val tt, gs', k', ys)) \/
    (st_class s = GraphStream /\ Forall quad_ok (d_stmts d) /\ GenericSerializeGen.graphs_stream_frames SN gs k = (Val tt, gs', k', ys)) ->
    FrameFlow_data (Stream_flow SN gs') = [].
Proof.
  intros s gs gs' k k' d ys HR HRd [(Hc & Hok & Hrun) | [(Hc & Hok & Hrun) | (Hc & Hok & Hrun)]].
  - pose proof (source_triples_stream_frames_is_model k d gs s HRd Hok HR ltac:(rewrite Hc; discriminate)) as H. rewrite Hrun in H.
    destruct (Streams.triples_stream_frames d s) as [s' evs] eqn:Em. destruct H as (HR' & _ & _ & Hends).
    apply (flow_empty_of_Rs gs' s' HR'). apply (stream_frames_flushes d s s' evs); [unfold stream_frames; rewrite Hc; exact Em | exact (ends_val _ Hends)].
  - pose proof (source_quads_stream_frames_is_model k d gs s HRd Hok HR Hc) as H. rewrite Hrun in H.
    destruct (Streams.quads_stream_frames d s) as [s' evs] eqn:Em. destruct H as (HR' & _ & _ & Hends).
    apply (flow_empty_of_Rs gs' s' HR'). apply (stream_frames_flushes d s s' evs); [unfold stream_frames; rewrite Hc; exact Em | exact (ends_val _ Hends)].
  - pose proof (source_graphs_stream_frames_is_model k d gs s HRd Hok HR Hc) as H. rewrite Hrun in H.
    destruct (Streams.graphs_stream_frames_generic d s) as [s' evs] eqn:Em. destruct H as (HR' & _ & _ & Hends).
    apply (flow_empty_of_Rs gs' s' HR'). apply (stream_frames_flushes d s s' evs); [unfold stream_frames; rewrite Hc; exact Em | exact (ends_val _ Hends)].
Qed.

Print Assumptions constructed_stream_is_related.
Print Assumptions C06_source_generic_nothing_left_behind.
(* ------------------------------------------------------------------ C03 / C19 on the frames a translated driver yields: they are the message
   objects of frames that the referee reads as exactly the declarations and statements (C03) and whose audit is clean (C19: nothing
   redundant, no missed elision, zero form or repeated graph start) -- for the three drivers at once *)
From PJ.Model Require Import Audit.
From PJ.Proofs Require Import AuditBase AudStmt AudStream.

Definition driver_run (c : stream_class) (gs gs' : GStream) (k k' : GenericStatementSink SN) (ys : list (pbval str)) : Prop :=
  match c with
  | TripleStream => GenericSerializeGen.triples_stream_frames SN gs k = (Val tt, gs', k', ys)
  | QuadStream => GenericSerializeGen.quads_stream_frames SN gs k = (Val tt, gs', k', ys)
  | GraphStream => GenericSerializeGen.graphs_stream_frames SN gs k = (Val tt, gs', k', ys)
  end.

Definition stmts_shape (c : stream_class) (d : sdata) : Prop :=
  match c with GraphStream => Forall quad_ok (d_stmts d) | _ => Forall stmt_ok (d_stmts d) end.

Definition events_of (c : stream_class) (d : sdata) : list event :=
  match c with TripleStream => flat_map event_of_triple (d_stmts d) | _ => flat_map event_of_quad (d_stmts d) end.

Lemma class_of_new c o s : stream_new c Generic o = Ok s -> st_class s = c.
Proof.
  unfold stream_new. destruct (negb _); [discriminate|]. destruct (match so_flow o with Some f => Ok f | None => infer_flow c o end); [|discriminate].
  cbn [bind]. destruct (negb _); [discriminate|]. intros [= <-]. reflexivity.
Qed.

(* the model run behind a run of a translated driver that ended normally *)
Lemma driver_is_model_run c o s gs gs' k k' d ys :
  stream_new c Generic o = Ok s -> gRs gs s -> Rd k d -> stmts_shape c d -> driver_run c gs gs' k k' ys ->
  exists s' evs, stream_frames d s = (s', evs) /\ raised evs = None /\ ys = map (frame_msg (rmsg gput)) (emitted evs) /\
    match c with
    | TripleStream => Streams.triples_stream_frames d s = (s', evs)
    | QuadStream => Streams.quads_stream_frames d s = (s', evs)
    | GraphStream => Streams.graphs_stream_frames_generic d s = (s', evs)
    end.
Proof.
  intros Hnew HR HRd Hok Hrun. pose proof (class_of_new c o s Hnew) as Hc. unfold stream_frames. rewrite Hc.
  destruct c; cbn [driver_run stmts_shape] in *.
  - pose proof (source_triples_stream_frames_is_model k d gs s HRd Hok HR ltac:(rewrite Hc; discriminate)) as H. rewrite Hrun in H.
    destruct (Streams.triples_stream_frames d s) as [s' evs]. destruct H as (_ & _ & -> & Hends).
    exists s', evs. split; [reflexivity|]. split; [exact (ends_val _ Hends)|]. split; reflexivity.
  - pose proof (source_quads_stream_frames_is_model k d gs s HRd Hok HR Hc) as H. rewrite Hrun in H.
    destruct (Streams.quads_stream_frames d s) as [s' evs]. destruct H as (_ & _ & -> & Hends).
    exists s', evs. split; [reflexivity|]. split; [exact (ends_val _ Hends)|]. split; reflexivity.
  - pose proof (source_graphs_stream_frames_is_model k d gs s HRd Hok HR Hc) as H. rewrite Hrun in H.
    destruct (Streams.graphs_stream_frames_generic d s) as [s' evs]. destruct H as (_ & _ & -> & Hends).
    exists s', evs. split; [reflexivity|]. split; [exact (ends_val _ Hends)|]. split; reflexivity.
Qed.

Theorem C03_source_generic_drivers_write_valid_streams :
  forall (c : stream_class) (o : soptions) (s : stream) (gs gs' : GStream) (k k' : GenericStatementSink SN) (d : sdata) (ys : list (pbval str)),
    stream_new c Generic o = Ok s -> cfg_ok o (st_logical s) -> fl_rows (st_flow s) = [] ->
    gRs gs s -> Rd k d -> stmts_shape c d -> driver_run c gs gs' k k' ys ->
    exists fs, ys = map (frame_msg (rmsg gput)) fs /\ run_frames fs = Valid (ns_events o d ++ events_of c d).
Proof.
  intros c o s gs gs' k k' d ys Hnew Hcfg Hfresh HR HRd Hok Hrun.
  destruct (driver_is_model_run c o s gs gs' k k' d ys Hnew HR HRd Hok Hrun) as (s' & evs & _ & Hr & -> & Hm).
  exists (emitted evs). split; [reflexivity|]. unfold run_frames. destruct c; cbn [events_of].
  - exact (triples_stream_valid_ns o s s' d evs Hnew Hcfg Hfresh Hm Hr).
  - exact (quads_stream_valid_ns o s s' d evs Hnew Hcfg Hfresh Hm Hr).
  - exact (graphs_stream_valid_ns o s s' d evs Hnew Hcfg Hfresh (quad_ok_wf _ Hok) Hm Hr).
Qed.

Theorem C19_source_generic_drivers_audit_clean :
  forall (c : stream_class) (o : soptions) (s : stream) (gs gs' : GStream) (k k' : GenericStatementSink SN) (d : sdata) (ys : list (pbval str)),
    stream_new c Generic o = Ok s -> cfg_ok o (st_logical s) -> fl_rows (st_flow s) = [] -> stmts_nrm (d_stmts d) ->
    gRs gs s -> Rd k d -> stmts_shape c d -> driver_run c gs gs' k k' ys ->
    exists fs cnt, ys = map (frame_msg (rmsg gput)) fs /\ audit (flat_map f_rows fs) = Some cnt /\ clean cnt.
Proof.
  intros c o s gs gs' k k' d ys Hnew Hcfg Hfresh Hnrm HR HRd Hok Hrun.
  destruct (driver_is_model_run c o s gs gs' k k' d ys Hnew HR HRd Hok Hrun) as (s' & evs & _ & Hr & -> & Hm).
  assert (Hc : exists cnt, audit (flat_map f_rows (emitted evs)) = Some cnt /\ clean cnt).
  { destruct c.
    - exact (triples_stream_clean o s s' d evs Hnew Hcfg Hfresh Hnrm Hm Hr).
    - exact (quads_stream_clean o s s' d evs Hnew Hcfg Hfresh Hnrm Hm Hr).
    - exact (graphs_stream_clean o s s' d evs Hnew Hcfg Hfresh Hnrm Hm Hr). }
  destruct Hc as (cnt & Ha & Hcl). exists (emitted evs), cnt. split; [reflexivity|]. split; assumption.
Qed.

Print Assumptions C03_source_generic_drivers_write_valid_streams.
Print Assumptions C19_source_generic_drivers_audit_clean.
Print Assumptions C01_end_to_end_generic_triples.
Print Assumptions C01_end_to_end_generic_quads.
Print Assumptions C01_end_to_end_generic_graphs.
