(* FlowsTie.v -- source tie for pyjelly/serialize/flows.py: the FrameFlow class family (one record with a class
   tag, methods dispatching on the tag as Python's method resolution does) and flow_for_type, translated on
   every run (generated/FlowsGen.v), against the flow functions of model/Streams.v.
   Rows are opaque here: the tie is parametric in how a model row is written as a message (rmsg). *)
From Coq Require Import Lia ZifyBool.
From PJ.Model Require Import Base Terms Streams.
From PJ.Tie Require Import PyPrims StrN.
From PJ.Gen Require Import FlowsGen.
Local Open Scope Z_scope.

Section Flows.
Context (rmsg : row -> pbval str).

Definition tag_of (k : flow_kind) : FrameFlow_cls :=
  match k with
  | FManual => K_ManualFrameFlow | FBounded => K_BoundedFrameFlow | FFlatTriples => K_FlatTriplesFrameFlow
  | FFlatQuads => K_FlatQuadsFrameFlow | FGraphs => K_GraphsFrameFlow | FDatasets => K_DatasetsFrameFlow
  end.

(* the frame_size field only exists on the bounded classes; the model keeps one (never read) on the others too *)
Definition Rf (g : FrameFlow SN) (m : flow) : Prop :=
  FrameFlow_cls_tag g = tag_of (fl_kind m) /\
  FrameFlow_data g = map rmsg (fl_rows m) /\
  FrameFlow_logical_type g = Z.of_N (fl_logical m) /\
  (is_bounded (fl_kind m) = true -> FrameFlow_frame_size g = Z.of_N (fl_frame_size m)).

Definition frame_msg (f : frame) : pbval str := PMsg "RdfStreamFrame" [("rows"%string, PRep (map rmsg (f_rows f)))].

Definition oz (o : option N) : option Z := option_map Z.of_N o.

(* constructors: every concrete class, with the optional arguments given or left out *)
Theorem source_flow_new_is_model (k : flow_kind) (logical : option N) (fsize : option N) :
  exists g,
    (match k with
     | FManual => ManualFrameFlow___init__ SN None (oz logical)
     | FBounded => BoundedFrameFlow___init__ SN None (oz logical) (oz fsize)
     | FFlatTriples => FlatTriplesFrameFlow___init__ SN None (oz logical) (oz fsize)
     | FFlatQuads => FlatQuadsFrameFlow___init__ SN None (oz logical) (oz fsize)
     | FGraphs => GraphsFrameFlow___init__ SN None (oz logical)
     | FDatasets => DatasetsFrameFlow___init__ SN None (oz logical)
     end) = Val g /\
    Rf g (flow_new k (match logical with Some l => l | None => 0%N end) (match fsize with Some s => s | None => 0%N end)).
Proof.
  destruct k; destruct logical as [l|]; destruct fsize as [s|]; cbn [oz option_map];
    (eexists; split; [reflexivity|]);
    unfold Rf, flow_new, class_logical, DEFAULT_FRAME_SIZE;
    cbn [FrameFlow_cls_tag FrameFlow_data FrameFlow_logical_type FrameFlow_frame_size fl_kind fl_rows fl_logical fl_frame_size tag_of is_bounded map];
    (split; [reflexivity|]); (split; [reflexivity|]);
    (split; [try reflexivity; try (destruct (l =? 0)%N eqn:E; [replace (Z.of_N l =? 0) with true by lia | replace (Z.of_N l =? 0) with false by lia]; reflexivity)
            | intros Hb; try discriminate; try reflexivity;
              try (destruct (s =? 0)%N eqn:E; [replace (Z.of_N s =? 0) with true by lia | replace (Z.of_N s =? 0) with false by lia]; reflexivity)]).
Qed.

Lemma Rf_set_rows g m rows : Rf g m -> Rf (set_FrameFlow_data SN (map rmsg rows) g) (flow_set_rows m rows).
Proof. intros (H1 & H2 & H3 & H4). repeat split; assumption. Qed.

(* obj.extend(rows) / obj.append(row) on a flow (UserList): the list grows at the end *)
Lemma Rf_extend g m rows : Rf g m -> Rf (set_FrameFlow_data SN (FrameFlow_data g ++ map rmsg rows) g) (flow_extend m rows).
Proof.
  intros (H1 & H2 & H3 & H4). unfold flow_extend. split; [exact H1|]. split; [|split; assumption].
  cbn. rewrite H2, map_app. reflexivity.
Qed.

Theorem source_to_stream_frame_is_model g m : Rf g m ->
  match FrameFlow_to_stream_frame SN g, to_stream_frame m with
  | (Val fr, g'), (m', mfr) => fr = option_map frame_msg mfr /\ Rf g' m'
  | (Exn _, _), _ => False
  end.
Proof.
  intros HR. pose proof HR as (H1 & H2 & H3 & H4).
  unfold FrameFlow_to_stream_frame, to_stream_frame. rewrite H2. unfold seq_len. rewrite map_length.
  destruct (fl_rows m) as [|r rows] eqn:E; cbn [length map].
  - cbn. split; [reflexivity | exact HR].
  - replace (Z.of_nat (S (length rows)) =? 0) with false by lia. cbn [negb].
    split; [reflexivity|]. change (@nil (pbval str)) with (map rmsg []). apply Rf_set_rows. exact HR.
Qed.

Ltac via_to_stream_frame HR :=
  let H := fresh "H" in
  pose proof (source_to_stream_frame_is_model _ _ HR) as H;
  match goal with |- context [FrameFlow_to_stream_frame SN ?g] => destruct (FrameFlow_to_stream_frame SN g) as [[fr|e] g'] end;
  [ match goal with |- context [to_stream_frame ?m] => destruct (to_stream_frame m) as [m' mfr] end; exact H | contradiction ].

Theorem source_frame_from_bounds_is_model g m : Rf g m ->
  match FrameFlow_frame_from_bounds SN g, frame_from_bounds m with
  | (Val fr, g'), (m', mfr) => fr = option_map frame_msg mfr /\ Rf g' m'
  | (Exn _, _), _ => False
  end.
Proof.
  intros HR. pose proof HR as (H1 & H2 & H3 & H4).
  unfold FrameFlow_frame_from_bounds, frame_from_bounds. rewrite H1.
  destruct (fl_kind m) eqn:Ek; cbn [tag_of is_bounded]; try (split; [reflexivity | exact HR]);
    (rewrite H4 by reflexivity; rewrite H2; unfold seq_len, nlen; rewrite map_length;
     destruct (fl_frame_size m <=? N.of_nat (length (fl_rows m)))%N eqn:Ec;
     [ replace (Z.of_nat (length (fl_rows m)) >=? Z.of_N (fl_frame_size m)) with true by lia; via_to_stream_frame HR
     | replace (Z.of_nat (length (fl_rows m)) >=? Z.of_N (fl_frame_size m)) with false by lia; split; [reflexivity | exact HR] ]).
Qed.

Theorem source_frame_from_graph_is_model g m : Rf g m ->
  match FrameFlow_frame_from_graph SN g, frame_from_graph m with
  | (Val fr, g'), (m', mfr) => fr = option_map frame_msg mfr /\ Rf g' m'
  | (Exn _, _), _ => False
  end.
Proof.
  intros HR. pose proof HR as (H1 & H2 & H3 & H4).
  unfold FrameFlow_frame_from_graph, frame_from_graph. rewrite H1.
  destruct (fl_kind m) eqn:Ek; cbn [tag_of]; try (split; [reflexivity | exact HR]). via_to_stream_frame HR.
Qed.

Theorem source_frame_from_dataset_is_model g m : Rf g m ->
  match FrameFlow_frame_from_dataset SN g, frame_from_dataset m with
  | (Val fr, g'), (m', mfr) => fr = option_map frame_msg mfr /\ Rf g' m'
  | (Exn _, _), _ => False
  end.
Proof.
  intros HR. pose proof HR as (H1 & H2 & H3 & H4).
  unfold FrameFlow_frame_from_dataset, frame_from_dataset. rewrite H1.
  destruct (fl_kind m) eqn:Ek; cbn [tag_of]; try (split; [reflexivity | exact HR]). via_to_stream_frame HR.
Qed.

End Flows.

(* flow_for_type: the class for a logical type (its base type, logical mod 10), or the same refusal *)
Theorem source_flow_for_type_is_model (l : N) :
  match FlowsGen.flow_for_type (Z.of_N l), Streams.flow_for_type l with
  | Val c, Ok k => c = tag_of k
  | Exn _, Err _ => True
  | _, _ => False
  end.
Proof.
  unfold FlowsGen.flow_for_type, Streams.flow_for_type.
  change (10 =? 0) with false. cbv beta iota zeta.
  assert (Hmod : Z.of_N l mod 10 = Z.of_N (l mod 10)) by (rewrite N2Z.inj_mod; reflexivity).
  rewrite Hmod.
  assert (Hlt : (l mod 10 < 10)%N) by (apply N.mod_lt; lia).
  destruct (l mod 10)%N as [|p] eqn:Em.
  - cbn. repeat match goal with |- context [if ?c then _ else _] => match type of c with bool => destruct c end end; exact I.
  - destruct p as [[[|[]|]|[[]|[]|]|]|[[|[]|]|[[]|[]|]|]|]; cbn in Hlt; try lia; cbn;
      repeat match goal with |- context [if ?c then _ else _] => match type of c with bool => destruct c end end; try exact I; try reflexivity.
Qed.

Print Assumptions source_flow_new_is_model.
Print Assumptions source_to_stream_frame_is_model.
Print Assumptions source_frame_from_bounds_is_model.
Print Assumptions source_frame_from_graph_is_model.
Print Assumptions source_frame_from_dataset_is_model.
Print Assumptions source_flow_for_type_is_model.
