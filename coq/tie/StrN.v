(* StrN.v -- the string structure of the model: a str is the list of its UTF-8 bytes (model/Base.v).
   The generated code is parametric in `S : strops`; the ties that need concrete strings use SN. *)
From PJ.Model Require Import Base Terms.
From PJ.Tie Require Import PyPrims.
Local Open Scope Z_scope.

(* the string structure of the model *)
Definition SN : strops := {|
  carrier := str;
  s_eqb := str_eqb;
  s_is_empty := @is_nil N;
  s_empty := [];
  s_add := @app N;
  s_rpartition := py_rpartition N.eqb;
  s_lit := map Z.to_N;
  s_lower := map (fun c => if ((65 <=? c) && (c <=? 90))%N then (c + 32)%N else c);
  s_langtag_ok := valid_langtag;
  s_rdflib_lex := rdflib_lex |}.

