(* GenericRoundTrip.v -- C01 / C04 for the generic integration, with the translated source on both sides of the message
   objects.

   Writer side (GenericSerializeTie.v, StreamsTie.v): the frames the translated Stream methods hand out, with the translated
   GenericSinkTermEncoder as dispatcher, are the message objects `frame_msg (rmsg gput) f` of the model's frames f.
   Reader side (GenericParseTie.v, DecoderTie.v): the translated Decoder over the translated generic adapters, on a message
   object that reads as a frame, does what the model's decode_rows does.
   Here the two are joined: the writer's message object for a row IS the object the reader's premise is proved satisfiable
   with (grmsg_owner), so the reader run on the writer's frames is the model's decode_frames on the model's frames
   (generic_reads_written_frames), and with the model's round-trip theorem the values the reader yields are the objects of
   the statements that went in (C01_source_generic_triples / _quads / _graphs).

   Not translated, so hand-modelled in these statements: the drivers around the methods (the *_stream_frames functions that
   call Stream.triple per statement: model/Streams.v; the parser's loop `for frame in frames: yield decoder.iter_rows(frame)`:
   gd_frames below), the bytes in between (model/Wire.v, tied by the correspondence check). *)
From Coq Require Import Lia ZifyBool.
From PJ.Model Require Import Base Terms Encoder Streams Decoder Spec Api.
From PJ.Proofs Require Import DecoderProofs DecoderSound EncStream RoundTrip EncNamespace EncNamespace2 EncGraphs WireRT SpecWf BytesE2E.
From PJ.Tie Require Import PyPrims StrN OptionsTie EncodeTie EncodeStmtTie FlowsTie DecodeTie DecoderBase DecoderTie GenericTerms GenericParseTie GenericSerializeTie.
From PJ.Gen Require Import LookupDecGen OptionsGen DecodeGen GenericSinkGen GenericParseGen.
Local Open Scope Z_scope.

(* ------------------------------------------------------------------ what the writer builds is what the reader reads *)
Lemma grmsg_owner (r : row) : rmsg gput r = owner_msg r.
Proof.
  destruct r as [o|i v|i v|i v|s p o|s p o g|g| |name p n|]; try reflexivity.
  - destruct s as [[]|], p as [[]|], o as [[]|]; reflexivity.
  - destruct s as [[]|], p as [[]|], o as [[]|], g as [[]|]; reflexivity.
  - destruct g as [[]|]; reflexivity.
Qed.

Lemma frame_msg_owner (f : frame) :
  frame_msg (rmsg gput) f = PMsg "RdfStreamFrame" [("rows"%string, PRep (map owner_msg (f_rows f)))].
Proof. unfold frame_msg. f_equal. f_equal. f_equal. f_equal. apply map_ext. exact grmsg_owner. Qed.

(* the structural part of wire well-formedness (proofs/WireRT.v) is what the reader's premise needs *)
Lemma wf_spo_term (w : wterm) : WireRT.wf_spo w -> DecoderBase.wf_term w = true /\ w <> WDefault.
Proof.
  induction w as [p n|l|lex k| |a b c IHa IHb IHc] using TermInd.wterm_ind'; cbn [WireRT.wf_spo DecoderBase.wf_term]; intros H;
    try (split; [reflexivity | discriminate]); try contradiction.
  destruct H as (Ha & Hb & Hc). split; [|discriminate].
  assert (Hs : forall x, TermInd.OP (fun w => WireRT.wf_spo w -> DecoderBase.wf_term w = true /\ w <> WDefault) x ->
                         match x with Some y => WireRT.wf_spo y | None => True end ->
                         match x with Some WDefault => false | Some s' => DecoderBase.wf_term s' | None => true end = true).
  { intros [y|] IH Hy; [|reflexivity]. cbn [TermInd.OP] in IH. destruct (IH Hy) as [H1 H2]. destruct y; try exact H1. contradiction. }
  rewrite (Hs a IHa Ha), (Hs b IHb Hb), (Hs c IHc Hc). reflexivity.
Qed.

Lemma wf_slot_spo (w : option wterm) : WireRT.wf_slot w -> DecoderBase.wf_spo w = true.
Proof. destruct w as [y|]; cbn; [|reflexivity]. intros H. destruct (wf_spo_term y H) as [H1 H2]. destruct y; try exact H1. contradiction. Qed.

Lemma wf_graph_g (w : option wterm) : WireRT.wf_graph w -> DecoderBase.wf_g w = true.
Proof. destruct w as [[]|]; cbn; try reflexivity. contradiction. Qed.

Lemma wf_row_struct (r : row) : WireRT.wf_row r -> DecoderBase.wf_row r = true.
Proof.
  destruct r; cbn [WireRT.wf_row DecoderBase.wf_row]; try reflexivity.
  - intros (A & B & C). rewrite (wf_slot_spo _ A), (wf_slot_spo _ B), (wf_slot_spo _ C). reflexivity.
  - intros (A & B & C & D). rewrite (wf_slot_spo _ A), (wf_slot_spo _ B), (wf_slot_spo _ C), (wf_graph_g _ D). reflexivity.
  - apply wf_graph_g.
Qed.

(* ------------------------------------------------------------------ the reader over a list of frames *)
Notation gd_iter := (Decoder_iter_rows SN Adapter_options (Adapter_iri SN) (Adapter_default_graph SN) (Adapter_bnode SN) (Adapter_literal SN)
                      (Adapter_triple SN) (Adapter_quad SN) (Adapter_graph_start SN) (Adapter_graph_end SN) (Adapter_namespace_declaration SN) (Adapter_quoted_triple SN)).
Notation GDec := (@Decoder SN gobj (Adapter SN)).

(* `for frame in frames: yield decoder.iter_rows(frame)`, consumed in order: per frame what was yielded and the exception
   that ended it; nothing after a frame that raised *)
Fixpoint gd_frames (fms : list (pbval str)) (d : GDec) : list (list (option gobj) * option PyPrims.exn) :=
  match fms with
  | [] => []
  | fm :: rest =>
    let '(r, d', ys) := gd_iter fm d in
    match r with
    | Val _ => (ys, None) :: gd_frames rest d'
    | Exn e => [(ys, Some e)]
    end
  end.

Definition frame_rel (g : list (option gobj) * option PyPrims.exn) (m : frame_result) : Prop :=
  fst g = map (fun e => Some (obj_of_event e)) (snd (fst m)) /\
  match snd g, snd m with
  | None, None => True
  | Some e, Some me => err_ok_gen e me
  | _, _ => False
  end.

Theorem generic_reads_written_frames ak po (fs : list frame) : forall (d : GDec) st,
  GRdec Generic ak po d st -> Forall wf_frame fs ->
  Forall2 frame_rel (gd_frames (map (frame_msg (rmsg gput)) fs) d) (decode_frames Generic ak po fs st).
Proof.
  induction fs as [|f fs IH]; intros d st HR Hwf; cbn [map gd_frames decode_frames]; [constructor|].
  inversion Hwf as [|? ? Hf Hfs]; subst.
  rewrite frame_msg_owner.
  pose proof (generic_iter_rows_on_built_frame ak po (f_rows f) d st HR
                ltac:(apply forallb_forall; intros r Hr; apply wf_row_struct; exact (proj1 (Forall_forall _ _) Hf r Hr))) as H.
  destruct (gd_iter _ d) as [[r d'] ys]. destruct (decode_rows Generic ak po (f_rows f) st) as [[st' evs] err].
  destruct H as [-> H]. destruct r as [u|e]; destruct err as [me|]; try contradiction.
  - constructor; [split; [reflexivity | exact I] | apply IH; assumption].
  - constructor; [split; [reflexivity | exact H] | constructor].
Qed.

(* flattened, as a flat parse sees it *)
Definition g_flat (res : list (list (option gobj) * option PyPrims.exn)) : list (option gobj) * bool :=
  (flat_map fst res, forallb (fun x => match snd x with None => true | Some _ => false end) res).

Lemma flat_rel res frs : Forall2 frame_rel res frs -> forall evs, flat_obs frs = (evs, None) ->
  g_flat res = (map (fun e => Some (obj_of_event e)) evs, true).
Proof.
  unfold flat_obs, g_flat. induction 1 as [|g m res frs [Hy He] _ IH]; intros evs; cbn [flat_map forallb last_err].
  - intros [= <-]. reflexivity.
  - destruct m as [[meta out] err]. cbn [fst snd] in *. destruct err as [me|]; [discriminate|].
    intros Heq. injection Heq as <- Herr.
    specialize (IH _ ltac:(rewrite Herr; reflexivity)). injection IH as IH1 IH2.
    destruct (snd g); [contradiction|]. rewrite Hy, IH1, IH2, map_app. reflexivity.
Qed.

(* ------------------------------------------------------------------ the round trip *)
(* from the model's round trip (any driver `run`, any events it should give back) to the translated reader on the
   translated writer's message objects *)
Lemma source_round_trip (frames : list frame) (stmts_events : list event) all_events po ak st0 :
  run (flat_map f_rows frames) = Valid all_events ->
  decoder_new po = Ok st0 ->
  flat_obs (decode_frames Generic ak po frames st0) = (stmts_events, None) ->
  types_named (ParserOptions_stream_types (popts_obj po)) ->
  exists a gd, adapter_ctor ak (popts_obj po) = Val a /\ Decoder___init__ SN Adapter_options a = Val gd /\
    g_flat (gd_frames (map (frame_msg (rmsg gput)) frames) gd) = (map (fun e => Some (obj_of_event e)) stmts_events, true).
Proof.
  intros Hvalid Hnew Hobs Hty.
  destruct (generic_decoder_init_is_model ak po Hty) as (a & Ha & Hinit). rewrite Hnew in Hinit.
  destruct (Decoder___init__ SN Adapter_options a) as [gd|e] eqn:Ed; [|contradiction].
  exists a, gd. split; [exact Ha|]. split; [exact Ed|].
  apply (flat_rel _ (decode_frames Generic ak po frames st0)); [|exact Hobs].
  apply generic_reads_written_frames; [exact Hinit|]. exact (wf_of_valid _ _ Hvalid).
Qed.

(* C01 for the generic integration, translated source on both sides of the message objects: the frames of a TripleStream
   (as the translated Stream methods build them, StreamsTie / GenericSerializeTie), read by the translated Decoder over
   the translated adapters, yield the Triple objects of the statements, in order, and no exception *)
Theorem C01_source_generic_triples :
  forall (o : soptions) (s s' : stream) (d : sdata) (evs : list tev) (delimited : bool),
    stream_new TripleStream Generic o = Ok s -> cfg_ok o (st_logical s) ->
    p_nd (so_params o) = false -> fl_rows (st_flow s) = [] ->
    triples_stream_frames d s = (s', evs) -> raised evs = None ->
    exists po ak st0 sk first more,
      skip_empty (emitted evs) = (sk, first :: more) /\ Decoder.options_from_frame first delimited = Ok po /\
      route (po_phys po) = Ok ak /\ decoder_new po = Ok st0 /\
      (types_named (ParserOptions_stream_types (popts_obj po)) ->
       exists a gd, adapter_ctor ak (popts_obj po) = Val a /\ Decoder___init__ SN Adapter_options a = Val gd /\
         g_flat (gd_frames (map (frame_msg (rmsg gput)) (emitted evs)) gd) =
         (map (fun e => Some (obj_of_event e)) (flat_map event_of_triple (d_stmts d)), true)).
Proof.
  intros o s s' d evs delimited Hnew Hcfg Hnd Hfresh Hrun Hraise.
  destruct (triples_round_trip o s s' d evs delimited Hnew Hcfg Hnd Hfresh Hrun Hraise) as (po & ak & st0 & sk & first & more & H1 & H2 & H3 & H4 & H5).
  exists po, ak, st0, sk, first, more. repeat (split; [assumption|]).
  intros Hty. exact (source_round_trip _ _ _ po ak st0 (triples_stream_valid_ns o s s' d evs Hnew Hcfg Hfresh Hrun Hraise) H4 H5 Hty).
Qed.

Theorem C01_source_generic_quads :
  forall (o : soptions) (s s' : stream) (d : sdata) (evs : list tev) (delimited : bool),
    stream_new QuadStream Generic o = Ok s -> cfg_ok o (st_logical s) ->
    p_nd (so_params o) = false -> fl_rows (st_flow s) = [] ->
    quads_stream_frames d s = (s', evs) -> raised evs = None ->
    exists po ak st0 sk first more,
      skip_empty (emitted evs) = (sk, first :: more) /\ Decoder.options_from_frame first delimited = Ok po /\
      route (po_phys po) = Ok ak /\ decoder_new po = Ok st0 /\
      (types_named (ParserOptions_stream_types (popts_obj po)) ->
       exists a gd, adapter_ctor ak (popts_obj po) = Val a /\ Decoder___init__ SN Adapter_options a = Val gd /\
         g_flat (gd_frames (map (frame_msg (rmsg gput)) (emitted evs)) gd) =
         (map (fun e => Some (obj_of_event e)) (flat_map event_of_quad (d_stmts d)), true)).
Proof.
  intros o s s' d evs delimited Hnew Hcfg Hnd Hfresh Hrun Hraise.
  destruct (quads_round_trip o s s' d evs delimited Hnew Hcfg Hnd Hfresh Hrun Hraise) as (po & ak & st0 & sk & first & more & H1 & H2 & H3 & H4 & H5).
  exists po, ak, st0, sk, first, more. repeat (split; [assumption|]).
  intros Hty. exact (source_round_trip _ _ _ po ak st0 (quads_stream_valid_ns o s s' d evs Hnew Hcfg Hfresh Hrun Hraise) H4 H5 Hty).
Qed.

Theorem C01_source_generic_graphs :
  forall (o : soptions) (s s' : stream) (d : sdata) (evs : list tev) (delimited : bool),
    stream_new GraphStream Generic o = Ok s -> cfg_ok o (st_logical s) ->
    p_nd (so_params o) = false -> fl_rows (st_flow s) = [] -> forallb wf_quad (d_stmts d) = true ->
    graphs_stream_frames_generic d s = (s', evs) -> raised evs = None ->
    exists po ak st0 sk first more,
      skip_empty (emitted evs) = (sk, first :: more) /\ Decoder.options_from_frame first delimited = Ok po /\
      route (po_phys po) = Ok ak /\ decoder_new po = Ok st0 /\
      (types_named (ParserOptions_stream_types (popts_obj po)) ->
       exists a gd, adapter_ctor ak (popts_obj po) = Val a /\ Decoder___init__ SN Adapter_options a = Val gd /\
         g_flat (gd_frames (map (frame_msg (rmsg gput)) (emitted evs)) gd) =
         (map (fun e => Some (obj_of_event e)) (flat_map event_of_quad (d_stmts d)), true)).
Proof.
  intros o s s' d evs delimited Hnew Hcfg Hnd Hfresh Hwf Hrun Hraise.
  destruct (graphs_round_trip o s s' d evs delimited Hnew Hcfg Hnd Hfresh Hwf Hrun Hraise) as (po & ak & st0 & sk & first & more & H1 & H2 & H3 & H4 & H5).
  exists po, ak, st0, sk, first, more. repeat (split; [assumption|]).
  intros Hty. exact (source_round_trip _ _ _ po ak st0 (graphs_stream_valid_ns o s s' d evs Hnew Hcfg Hfresh Hwf Hrun Hraise) H4 H5 Hty).
Qed.

(* C04 for the generic integration, translated reader: ANY stream the referee (model/Spec.v: my reading of rdf.proto) accepts,
   whoever produced it, given as the message objects with exactly its fields set, is read by the translated Decoder over the
   translated adapters to exactly the objects of the events the referee says it denotes -- statements and namespace
   declarations, in order -- and no exception *)
Theorem C04_source_generic_reads_valid_streams :
  forall (fs : list frame) (evs : list event) (dl : bool),
    run_frames fs = Valid evs ->
    exists po ak st0 sk first more,
      skip_empty fs = (sk, first :: more) /\ Decoder.options_from_frame first dl = Ok po /\
      route (po_phys po) = Ok ak /\ decoder_new po = Ok st0 /\
      (types_named (ParserOptions_stream_types (popts_obj po)) ->
       exists a gd, adapter_ctor ak (popts_obj po) = Val a /\ Decoder___init__ SN Adapter_options a = Val gd /\
         g_flat (gd_frames (map (frame_msg (rmsg gput)) fs) gd) = (map (fun e => Some (obj_of_event e)) evs, true)).
Proof.
  intros fs evs dl Hv.
  destruct (DecoderSound.decoder_sound_frames fs evs dl Hv) as (po & ak & st0 & sk & first & more & H1 & H2 & H3 & H4 & H5).
  exists po, ak, st0, sk, first, more. repeat (split; [assumption|]).
  intros Hty. exact (source_round_trip fs evs evs po ak st0 Hv H4 H5 Hty).
Qed.

(* C14 for the generic integration: with declarations enabled, the translated reader on the frames of a TripleStream yields
   the Prefix objects of the bindings, in binding order, and then exactly the statements (ns_events is [] when the option is
   off: the statements do not depend on it) *)
Theorem C14_source_generic_triples :
  forall (o : soptions) (s s' : stream) (d : sdata) (evs : list tev) (dl : bool),
    stream_new TripleStream Generic o = Ok s -> cfg_ok o (st_logical s) -> fl_rows (st_flow s) = [] ->
    triples_stream_frames d s = (s', evs) -> raised evs = None ->
    exists po ak st0 sk first more,
      skip_empty (emitted evs) = (sk, first :: more) /\ Decoder.options_from_frame first dl = Ok po /\
      route (po_phys po) = Ok ak /\ decoder_new po = Ok st0 /\
      (types_named (ParserOptions_stream_types (popts_obj po)) ->
       exists a gd, adapter_ctor ak (popts_obj po) = Val a /\ Decoder___init__ SN Adapter_options a = Val gd /\
         g_flat (gd_frames (map (frame_msg (rmsg gput)) (emitted evs)) gd) =
         (map (fun e => Some (obj_of_event e)) (ns_events o d ++ flat_map event_of_triple (d_stmts d)), true)).
Proof.
  intros o s s' d evs dl Hnew Hcfg Hfresh Hrun Hraise.
  exact (C04_source_generic_reads_valid_streams (emitted evs) _ dl (triples_stream_valid_ns o s s' d evs Hnew Hcfg Hfresh Hrun Hraise)).
Qed.

(* ------------------------------------------------------------------ the flat parser itself (translated): parse_triples_stream /
   parse_quads_stream / parse_jelly_flat of integrations/generic/parse.py, once get_options_and_frames (IO: not translated) has
   produced the options and the frames *)
Definition first_err (res : list (list (option gobj) * option PyPrims.exn)) : option PyPrims.exn :=
  fold_right (fun x acc => match snd x with Some e => Some e | None => acc end) None res.

Lemma first_err_cons x res : first_err (x :: res) = match snd x with Some e => Some e | None => first_err res end.
Proof. reflexivity. Qed.

Lemma gd_frames_err_last fms (d : GDec) : forall e, first_err (gd_frames fms d) = Some e ->
  exists pre ys, gd_frames fms d = pre ++ [(ys, Some e)] /\ Forall (fun x => snd x = None) pre.
Proof.
  revert d. induction fms as [|fm fms IH]; intros d e; cbn [gd_frames first_err fold_right]; [discriminate|].
  destruct (gd_iter fm d) as [[r d'] ys]. destruct r as [u|e0]; cbn [fold_right snd].
  - intros H. destruct (IH d' e H) as (pre & ys' & -> & Hp). exists ((ys, None) :: pre), ys'. split; [reflexivity | constructor; [reflexivity | exact Hp]].
  - intros [= <-]. exists [], ys. split; [reflexivity | constructor].
Qed.

(* the loop of parse_*_stream is gd_frames *)
Lemma stream_loop_is (loop : list (pbval str) -> list (pbval str) * list (list (option gobj)) * GDec -> loopres unit (list (pbval str) * list (list (option gobj)) * GDec)) :
  (forall xs st, loop xs st = match xs with
                             | [] => LContinue st
                             | frame :: xs' =>
                               let '(frames, ys, decoder) := st in
                               let '(r, decoder', ys1) := gd_iter frame decoder in
                               match r with
                               | Exn e => LRaise e (frames, ys ++ [ys1], decoder')
                               | Val _ => loop xs' (frames, ys ++ [ys1], decoder')
                               end
                             end) ->
  forall xs frames ys d,
    match loop xs (frames, ys, d), first_err (gd_frames xs d) with
    | LContinue (fr', ys', _), None => fr' = frames /\ ys' = ys ++ map fst (gd_frames xs d)
    | LRaise e (fr', ys', _), Some e' => e = e' /\ fr' = frames /\ ys' = ys ++ map fst (gd_frames xs d)
    | _, _ => False
    end.
Proof.
  intros Hl. induction xs as [|x xs IH]; intros frames ys d; rewrite Hl.
  - cbn. rewrite app_nil_r. split; reflexivity.
  - cbn [gd_frames]. destruct (gd_iter x d) as [[r d'] ys1]. destruct r as [u|e]; rewrite first_err_cons; cbn [snd map fst].
    + specialize (IH frames (ys ++ [ys1]) d').
      destruct (loop xs (frames, ys ++ [ys1], d')) as [[[fr' ys'] d2]|rv [[fr' ys'] d2]|e [[fr' ys'] d2]];
        destruct (first_err (gd_frames xs d')) as [e'|]; try contradiction.
      * destruct IH as (-> & ->). split; [reflexivity|]. rewrite <- app_assoc. reflexivity.
      * destruct IH as (-> & -> & ->). repeat split. rewrite <- app_assoc. reflexivity.
    + repeat split.
Qed.

Lemma flatten_loop_is {X} (loop : list (list X) -> list (pbval str) * list X -> loopres unit (list (pbval str) * list X)) :
  (forall xs st, loop xs st = match xs with
                             | [] => LContinue st
                             | t :: xs' => let '(frames, ys) := st in loop xs' (frames, ys ++ t)
                             end) ->
  forall xs frames ys, loop xs (frames, ys) = LContinue (frames, ys ++ concat xs).
Proof.
  intros Hl. induction xs as [|x xs IH]; intros frames ys; rewrite Hl; cbn [concat].
  - rewrite app_nil_r. reflexivity.
  - rewrite IH, app_assoc. reflexivity.
Qed.

Lemma parse_triples_stream_is fms opts a (d : GDec) :
  GenericTriplesAdapter___init__ SN opts = Val a -> Decoder___init__ SN Adapter_options a = Val d ->
  parse_triples_stream SN fms opts =
  (match first_err (gd_frames fms d) with Some e => Exn (gen_exn e) | None => Val tt end, fms, map fst (gd_frames fms d)).
Proof.
  intros Ha Hd. unfold parse_triples_stream. cbv zeta. rewrite Ha, Hd.
  match goal with |- context [?f fms (fms, @nil (list (option gobj)), d)] => set (loop := f) end.
  pose proof (stream_loop_is loop ltac:(intros [|x xs] [[fr ys] dd]; reflexivity) fms fms [] d) as H. change (carrier SN) with str in *.
  destruct (loop fms (fms, [], d)) as [[[fr' ys'] d2]|rv [[fr' ys'] d2]|e [[fr' ys'] d2]];
    destruct (first_err (gd_frames fms d)) as [e'|]; try contradiction.
  - destruct H as (-> & ->). reflexivity.
  - destruct H as (-> & -> & ->). reflexivity.
Qed.

Lemma parse_quads_stream_is fms opts a (d : GDec) :
  (if StreamTypes_physical_type (ParserOptions_stream_types opts) =? 2 then GenericQuadsAdapter___init__ SN opts else GenericGraphsAdapter___init__ SN opts) = Val a ->
  Decoder___init__ SN Adapter_options a = Val d ->
  parse_quads_stream SN fms opts =
  (match first_err (gd_frames fms d) with Some e => Exn (gen_exn e) | None => Val tt end, fms, map fst (gd_frames fms d)).
Proof.
  intros Ha Hd. unfold parse_quads_stream. cbv zeta.
  destruct (StreamTypes_physical_type (ParserOptions_stream_types opts) =? 2); cbv beta iota; rewrite Ha, Hd;
    (match goal with |- context [?f fms (fms, @nil (list (option gobj)), d)] => set (loop := f) end;
     pose proof (stream_loop_is loop ltac:(intros [|x xs] [[fr ys] dd]; reflexivity) fms fms [] d) as H; change (carrier SN) with str in *;
     destruct (loop fms (fms, [], d)) as [[[fr' ys'] d2]|rv [[fr' ys'] d2]|e [[fr' ys'] d2]];
       destruct (first_err (gd_frames fms d)) as [e'|]; try contradiction;
     [destruct H as (-> & ->); reflexivity | destruct H as (-> & -> & ->); reflexivity]).
Qed.

Lemma no_err_forallb res : snd (g_flat res) = true -> first_err res = None.
Proof.
  unfold g_flat. cbn [snd]. induction res as [|[ys [e|]] res IH]; cbn; try discriminate; [reflexivity | exact IH].
Qed.

Lemma flat_map_concat {X Y} (f : X -> list Y) l : flat_map f l = concat (map f l).
Proof. induction l as [|x l IH]; cbn; [reflexivity | rewrite IH; reflexivity]. Qed.

(* C04 with the translated flat parser of the generic integration: any stream the referee accepts, as message objects, through
   parse_jelly_flat(frames, options) -- the adapter class chosen by the physical type, Decoder(adapter), iter_rows per frame, the
   yields flattened -- gives exactly the objects of the events it denotes, and ends normally *)
Theorem C04_source_generic_flat_parser :
  forall (fs : list frame) (evs : list event) (dl : bool),
    run_frames fs = Valid evs ->
    exists po, (exists sk first more, skip_empty fs = (sk, first :: more) /\ Decoder.options_from_frame first dl = Ok po) /\
      (types_named (ParserOptions_stream_types (popts_obj po)) ->
       let fms := map (frame_msg (rmsg gput)) fs in
       parse_jelly_flat SN fms (popts_obj po) false = (Val tt, fms, map (fun e => Some (obj_of_event e)) evs)).
Proof.
  intros fs evs dl Hv.
  destruct (C04_source_generic_reads_valid_streams fs evs dl Hv) as (po & ak & st0 & sk & first & more & H1 & H2 & H3 & H4 & H5).
  exists po. split; [exists sk, first, more; split; assumption|].
  intros Hty fms. destruct (H5 Hty) as (a & gd & Ha & Hd & Hflat). fold fms in Hflat.
  pose proof (no_err_forallb _ ltac:(rewrite Hflat; reflexivity)) as Hne.
  assert (Hys : concat (map fst (gd_frames fms gd)) = map (fun e => Some (obj_of_event e)) evs).
  { rewrite <- flat_map_concat. pose proof (f_equal fst Hflat) as Hf. exact Hf. }
  unfold parse_jelly_flat. cbv zeta. unfold StreamTypes_flat. cbv beta iota zeta. cbn [andb].
  unfold route in H3.
  change (StreamTypes_physical_type (ParserOptions_stream_types (popts_obj po))) with (Z.of_N (po_phys po)).
  destruct (po_phys po =? 1)%N eqn:E1.
  - apply N.eqb_eq in E1. rewrite E1. injection H3 as <-. cbn [adapter_ctor] in Ha. cbn [Z.of_N Z.eqb Pos.eqb].
    rewrite (parse_triples_stream_is fms (popts_obj po) a gd Ha Hd), Hne. cbv beta iota.
    match goal with |- context [?f (map fst (gd_frames fms gd)) (fms, @nil (option gobj))] => set (loop := f) end.
    rewrite (flatten_loop_is loop ltac:(intros [|x xs] [fr ys]; reflexivity)). cbn [app]. rewrite Hys. reflexivity.
  - destruct (po_phys po =? 2)%N eqn:E2.
    + apply N.eqb_eq in E2. rewrite E2. injection H3 as <-. cbn [adapter_ctor] in Ha. cbn [Z.of_N Z.eqb Pos.eqb orb].
      rewrite (parse_quads_stream_is fms (popts_obj po) a gd
                 ltac:(change (StreamTypes_physical_type (ParserOptions_stream_types (popts_obj po))) with (Z.of_N (po_phys po)); rewrite E2; exact Ha) Hd), Hne.
      cbv beta iota.
      match goal with |- context [?f (map fst (gd_frames fms gd)) (fms, @nil (option gobj))] => set (loop := f) end.
      rewrite (flatten_loop_is loop ltac:(intros [|x xs] [fr ys]; reflexivity)). cbn [app]. rewrite Hys. reflexivity.
    + destruct (po_phys po =? 3)%N eqn:E3; [|discriminate].
      apply N.eqb_eq in E3. rewrite E3. injection H3 as <-. cbn [adapter_ctor] in Ha. cbn [Z.of_N Z.eqb Pos.eqb orb].
      rewrite (parse_quads_stream_is fms (popts_obj po) a gd
                 ltac:(change (StreamTypes_physical_type (ParserOptions_stream_types (popts_obj po))) with (Z.of_N (po_phys po)); rewrite E3; exact Ha) Hd), Hne.
      cbv beta iota.
      match goal with |- context [?f (map fst (gd_frames fms gd)) (fms, @nil (option gobj))] => set (loop := f) end.
      rewrite (flatten_loop_is loop ltac:(intros [|x xs] [fr ys]; reflexivity)). cbn [app]. rewrite Hys. reflexivity.
Qed.

Print Assumptions grmsg_owner.
Print Assumptions generic_reads_written_frames.
Print Assumptions C01_source_generic_triples.
Print Assumptions C01_source_generic_quads.
Print Assumptions C01_source_generic_graphs.
Print Assumptions C04_source_generic_reads_valid_streams.
Print Assumptions C14_source_generic_triples.
Print Assumptions C04_source_generic_flat_parser.
