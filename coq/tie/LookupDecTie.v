(* LookupDecTie.v -- the source tie for the reader's lookup tables.

   generated/LookupDecGen.v is written from pyjelly/parse/lookup.py by
   /verif/translate/py2v.py on every run.  This file proves that the translated source and the
   hand-written model (model/Lookup.v) -- the one every property theorem is about -- are in lock step:
   related states stay related under every method, with equal results, for every history of calls.
   A change to either source file that changes what a method does breaks one of these proofs. *)
From Coq Require Import Lia ZifyBool.
From PJ.Model Require Import Base.
From PJ.Model Require Lookup.
From PJ.Tie Require Import PyPrims.
From PJ.Gen Require Import LookupDecGen.
Module M := PJ.Model.Lookup.
Local Open Scope Z_scope.

Section Tie.
Context (S : strops).
Notation K := (carrier S).
Notation eqb := (s_eqb S).
Notation is_empty := (s_is_empty S).
Notation empty_str := (s_empty S).

(* ------------------------------------------------------------------ reader side *)
Definition Rd (g : LookupDecoder S) (m : @M.ldec K) : Prop :=
  LookupDecoder_data g = M.d_data m /\
  LookupDecoder_last_assigned_index g = Z.of_N (M.d_last_assigned m) /\
  LookupDecoder_last_reused_index g = Z.of_N (M.d_last_reused m).

Lemma lastn_all {A} (l : list A) : lastn (length l) l = l.
Proof. unfold lastn. rewrite Nat.sub_diag. reflexivity. Qed.

Lemma tie_init_decoder size : (size <= 4096)%N ->
  exists g, LookupDecoder___init__ S (Z.of_N size) = Val g /\ Rd g (M.ldec_init size).
Proof.
  intros Hs. unfold LookupDecoder___init__.
  replace (Z.of_N size >? 4096) with false by lia.
  unfold deque_make. replace (Z.of_N size <? 0) with false by lia.
  unfold tuple_repeat.
  replace (Z.to_nat (Z.of_N size)) with (N.to_nat size) by lia.
  pattern (N.to_nat size) at 1. rewrite <- (repeat_length (@None K) (N.to_nat size)).
  rewrite lastn_all.
  eexists; split; [reflexivity|]. repeat split.
Qed.

Lemma tie_init_decoder_too_large size : (4096 < size)%N ->
  LookupDecoder___init__ S (Z.of_N size) = Exn JellyAssertionError.
Proof.
  intros Hs. unfold LookupDecoder___init__.
  replace (Z.of_N size >? 4096) with true by lia. reflexivity.
Qed.

Lemma set_at_set_nth {A} (n : nat) (x : A) l : (n < length l)%nat -> M.set_nth n x l = Some (set_at n x l).
Proof.
  revert l. induction n as [|n IH]; intros [|h t] Hn; cbn in *; try lia; [reflexivity|].
  rewrite IH by lia. reflexivity.
Qed.

Lemma py_index_in_range (l : list (option K)) (i : N) :
  (1 <= i)%N ->
  py_index l (Z.of_N i - 1) =
  if ((1 <=? i) && (i <=? N.of_nat (length l)))%N then Some (N.to_nat (i - 1)) else None.
Proof.
  intros Hi. unfold py_index, seq_len.
  destruct ((1 <=? i) && (i <=? N.of_nat (length l)))%N eqn:E.
  - replace ((0 <=? Z.of_N i - 1) && (Z.of_N i - 1 <? Z.of_nat (length l))) with true by lia.
    f_equal. lia.
  - replace ((0 <=? Z.of_N i - 1) && (Z.of_N i - 1 <? Z.of_nat (length l))) with false by lia.
    replace ((- Z.of_nat (length l) <=? Z.of_N i - 1) && (Z.of_N i - 1 <? 0)) with false by lia.
    reflexivity.
Qed.

Lemma tie_assign_entry idx v g m : Rd g m ->
  match LookupDecoder_assign_entry S (Z.of_N idx) v g, M.assign_entry idx v m with
  | (Val _, g'), Some m' => Rd g' m'
  | (Exn _, _), None => True
  | _, _ => False
  end.
Proof.
  intros (Hd & Ha & Hr).
  unfold LookupDecoder_assign_entry, M.assign_entry, M.in_range.
  rewrite Ha, Hd.
  destruct (idx =? 0)%N eqn:E0.
  - replace (Z.of_N idx =? 0) with true by lia.
    replace (Z.of_N (M.d_last_assigned m) + 1 >? 0) with true by lia.
    unfold seq_set.
    replace (Z.of_N (M.d_last_assigned m) + 1 - 1) with (Z.of_N (M.d_last_assigned m + 1) - 1) by lia.
    rewrite py_index_in_range by lia.
    destruct ((1 <=? M.d_last_assigned m + 1) && (M.d_last_assigned m + 1 <=? N.of_nat (length (M.d_data m))))%N eqn:Er; [|exact I].
    rewrite set_at_set_nth by lia.
    repeat split; cbn; try assumption. lia.
  - replace (Z.of_N idx =? 0) with false by lia.
    replace (Z.of_N idx >? 0) with true by lia.
    unfold seq_set. rewrite py_index_in_range by lia.
    destruct ((1 <=? idx) && (idx <=? N.of_nat (length (M.d_data m))))%N eqn:Er; [|exact I].
    rewrite set_at_set_nth by lia.
    repeat split; cbn; assumption.
Qed.

Lemma tie_at i g m : (1 <= i)%N -> Rd g m ->
  match LookupDecoder_at S (Z.of_N i) g, M.at_ i m with
  | (Val r, g'), Some (m', r') => r = r' /\ Rd g' m'
  | (Exn _, _), None => True
  | _, _ => False
  end.
Proof.
  intros Hi (Hd & Ha & Hr).
  unfold LookupDecoder_at, M.at_, M.in_range.
  cbn [LookupDecoder_data set_LookupDecoder_last_reused_index].
  rewrite Hd. unfold seq_get. rewrite py_index_in_range by exact Hi.
  destruct ((1 <=? i) && (i <=? N.of_nat (length (M.d_data m))))%N eqn:Er; [|exact I].
  destruct (nth_error (M.d_data m) (N.to_nat (i - 1))) as [[v|]|]; try exact I.
  split; [reflexivity|]. repeat split; cbn; assumption.
Qed.

Lemma tie_decode_name_term_index idx g m : Rd g m ->
  match LookupDecoder_decode_name_term_index S (Z.of_N idx) g, M.decode_name_term_index idx m with
  | (Val r, g'), Some (m', r') => r = r' /\ Rd g' m'
  | (Exn _, _), None => True
  | _, _ => False
  end.
Proof.
  intros HR. pose proof HR as (Hd & Ha & Hr).
  unfold LookupDecoder_decode_name_term_index, M.decode_name_term_index. cbv zeta.
  rewrite Hr.
  destruct (idx =? 0)%N eqn:E0.
  - replace (Z.of_N idx =? 0) with true by lia.
    replace (Z.of_N (M.d_last_reused m) + 1 =? 0) with false by lia.
    replace (Z.of_N (M.d_last_reused m) + 1) with (Z.of_N (M.d_last_reused m + 1)) by lia.
    pose proof (tie_at (M.d_last_reused m + 1) g m ltac:(lia) HR) as Ht.
    destruct (LookupDecoder_at S (Z.of_N (M.d_last_reused m + 1)) g) as [r g'].
    destruct (M.at_ (M.d_last_reused m + 1) m) as [[m' v]|]; destruct r as [x|e]; try contradiction; exact Ht.
  - assert (Hz : (Z.of_N idx =? 0) = false) by lia. rewrite Hz. cbv iota. rewrite Hz.
    pose proof (tie_at idx g m ltac:(lia) HR) as Ht.
    destruct (LookupDecoder_at S (Z.of_N idx) g) as [r g'].
    destruct (M.at_ idx m) as [[m' v]|]; destruct r as [x|e]; try contradiction; exact Ht.
Qed.

Lemma tie_decode_datatype_term_index idx g m : Rd g m ->
  match LookupDecoder_decode_datatype_term_index S (Z.of_N idx) g, M.decode_datatype_term_index idx m with
  | (Val r, g'), Some (m', r') => r = Some r' /\ Rd g' m'
  | (Exn _, _), None => True
  | _, _ => False
  end.
Proof.
  intros HR.
  unfold LookupDecoder_decode_datatype_term_index, M.decode_datatype_term_index.
  destruct (idx =? 0)%N eqn:E0.
  - replace (Z.of_N idx =? 0) with true by lia. exact I.
  - replace (Z.of_N idx =? 0) with false by lia.
    pose proof (tie_at idx g m ltac:(lia) HR) as Ht.
    destruct (LookupDecoder_at S (Z.of_N idx) g) as [r g'].
    destruct (M.at_ idx m) as [[m' v]|]; destruct r as [x|e]; try contradiction; [|exact I].
    destruct Ht as [-> HR']. split; [reflexivity | exact HR'].
Qed.

(* the empty prefix: the source returns "", the model None *)
Definition str_of (r : option K) : K := match r with Some v => v | None => empty_str end.

Lemma tie_decode_prefix_term_index idx g m : Rd g m ->
  match LookupDecoder_decode_prefix_term_index S (Z.of_N idx) g, M.decode_prefix_term_index idx m with
  | (Val r, g'), Some (m', r') => r = str_of r' /\ Rd g' m'
  | (Exn _, _), None => True
  | _, _ => False
  end.
Proof.
  intros HR. pose proof HR as (Hd & Ha & Hr).
  unfold LookupDecoder_decode_prefix_term_index, M.decode_prefix_term_index. cbv zeta.
  rewrite Hr.
  destruct (idx =? 0)%N eqn:E0.
  - replace (Z.of_N idx =? 0) with true by lia.
    destruct (M.d_last_reused m =? 0)%N eqn:E1.
    + replace (Z.of_N (M.d_last_reused m) =? 0) with true by lia. split; [reflexivity | exact HR].
    + replace (Z.of_N (M.d_last_reused m) =? 0) with false by lia.
      pose proof (tie_at (M.d_last_reused m) g m ltac:(lia) HR) as Ht.
      destruct (LookupDecoder_at S (Z.of_N (M.d_last_reused m)) g) as [r g'].
      destruct (M.at_ (M.d_last_reused m) m) as [[m' v]|]; destruct r as [x|e]; try contradiction; [|exact I].
      destruct Ht as [-> HR']. split; [reflexivity | exact HR'].
  - assert (Hz : (Z.of_N idx =? 0) = false) by lia. rewrite Hz. cbv iota. rewrite Hz.
    rewrite E0. cbv iota.
    pose proof (tie_at idx g m ltac:(lia) HR) as Ht.
    destruct (LookupDecoder_at S (Z.of_N idx) g) as [r g'].
    destruct (M.at_ idx m) as [[m' v]|]; destruct r as [x|e]; try contradiction; [|exact I].
    destruct Ht as [-> HR']. split; [reflexivity | exact HR'].
Qed.

(* ------------------------------------------------------------------ whole histories *)
Definition lift {A S} (x : outcome A * S) : outcome (option A) * S :=
  (match fst x with Val v => Val (Some v) | Exn e => Exn e end, snd x).

Definition mlift {A S} (x : option (S * A)) : option (S * option A) :=
  match x with Some (s, a) => Some (s, Some a) | None => None end.

Inductive rop := RAssign (idx : N) (v : K) | RName (idx : N) | RPrefix (idx : N) | RDatatype (idx : N).

Definition gdstep (o : rop) (g : LookupDecoder S) : outcome (option K) * LookupDecoder S :=
  match o with
  | RAssign idx v => let x := LookupDecoder_assign_entry S (Z.of_N idx) v g in
                     (match fst x with Val _ => Val None | Exn e => Exn e end, snd x)
  | RName idx => lift (LookupDecoder_decode_name_term_index S (Z.of_N idx) g)
  | RPrefix idx => lift (LookupDecoder_decode_prefix_term_index S (Z.of_N idx) g)
  | RDatatype idx => LookupDecoder_decode_datatype_term_index S (Z.of_N idx) g
  end.

Definition mdstep (o : rop) (m : @M.ldec K) : option (M.ldec * option K) :=
  match o with
  | RAssign idx v => match M.assign_entry idx v m with Some m' => Some (m', None) | None => None end
  | RName idx => mlift (M.decode_name_term_index idx m)
  | RPrefix idx => match M.decode_prefix_term_index idx m with Some (m', r) => Some (m', Some (str_of r)) | None => None end
  | RDatatype idx => mlift (M.decode_datatype_term_index idx m)
  end.

Fixpoint gdrun (ops : list rop) (g : LookupDecoder S) : list (option K) * bool :=
  match ops with
  | [] => ([], false)
  | o :: os =>
    match gdstep o g with
    | (Val r, g') => let '(rs, b) := gdrun os g' in (r :: rs, b)
    | (Exn _, _) => ([], true)
    end
  end.

Fixpoint mdrun (ops : list rop) (m : @M.ldec K) : list (option K) * bool :=
  match ops with
  | [] => ([], false)
  | o :: os =>
    match mdstep o m with
    | Some (m', r) => let '(rs, b) := mdrun os m' in (r :: rs, b)
    | None => ([], true)
    end
  end.

Lemma tie_gdstep o g m : Rd g m ->
  match gdstep o g, mdstep o m with
  | (Val r, g'), Some (m', r') => r = r' /\ Rd g' m'
  | (Exn _, _), None => True
  | _, _ => False
  end.
Proof.
  intros HR. destruct o as [idx v|idx|idx|idx]; cbn [gdstep mdstep].
  - pose proof (tie_assign_entry idx v g m HR) as H.
    destruct (LookupDecoder_assign_entry S (Z.of_N idx) v g) as [[u|e] g'];
      destruct (M.assign_entry idx v m) as [m'|]; cbn; try exact H.
    split; [reflexivity | exact H].
  - pose proof (tie_decode_name_term_index idx g m HR) as H. unfold lift, mlift.
    destruct (LookupDecoder_decode_name_term_index S (Z.of_N idx) g) as [[v|e] g'];
      destruct (M.decode_name_term_index idx m) as [[m' c]|]; cbn; try exact H.
    destruct H as [-> H]. split; [reflexivity | exact H].
  - pose proof (tie_decode_prefix_term_index idx g m HR) as H. unfold lift.
    destruct (LookupDecoder_decode_prefix_term_index S (Z.of_N idx) g) as [[v|e] g'];
      destruct (M.decode_prefix_term_index idx m) as [[m' c]|]; cbn; try exact H.
    destruct H as [-> H]. split; [reflexivity | exact H].
  - pose proof (tie_decode_datatype_term_index idx g m HR) as H. unfold mlift.
    destruct (LookupDecoder_decode_datatype_term_index S (Z.of_N idx) g) as [[v|e] g'];
      destruct (M.decode_datatype_term_index idx m) as [[m' c]|]; cbn; try exact H.
Qed.

Theorem reader_lock_step ops : forall g m, Rd g m ->
  gdrun ops g = mdrun ops m.
Proof.
  induction ops as [|o os IH]; intros g m HR; cbn [gdrun mdrun]; [reflexivity|].
  pose proof (tie_gdstep o g m HR) as H.
  destruct (gdstep o g) as [[r|e] g']; destruct (mdstep o m) as [[m' r']|]; try contradiction.
  - destruct H as [-> HR']. rewrite (IH g' m' HR'). reflexivity.
  - reflexivity.
Qed.

(* from construction on: every history of calls on a fresh LookupDecoder of the source returns what the
   model returns, and raises exactly when the model has no result *)
Theorem source_reader_is_model size ops : (size <= 4096)%N ->
  exists g0, LookupDecoder___init__ S (Z.of_N size) = Val g0 /\
             gdrun ops g0 = mdrun ops (M.ldec_init size).
Proof.
  intros Hs. destruct (tie_init_decoder size Hs) as (g0 & Hi & HR).
  exists g0. split; [exact Hi | exact (reader_lock_step ops g0 _ HR)].
Qed.

End Tie.

Print Assumptions source_reader_is_model.
Print Assumptions tie_init_decoder_too_large.
