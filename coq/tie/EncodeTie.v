(* EncodeTie.v -- source tie for pyjelly/serialize/encode.py: split_iri and the TermEncoder core
   (__init__, start_statement, _entry_index with its per-statement bound, encode_iri_indices, encode_iri,
   encode_literal, encode_default_graph), encode_namespace_declaration and encode_options, translated
   from the source on every run (generated/EncodeGen.v), against model/Encoder.v.
   Strings are instantiated the way the model has them: a str is the list of its UTF-8 bytes; the two
   separators split_iri looks for are ASCII, so splitting at the byte and at the character coincide. *)
From Coq Require Import Lia ZifyBool.
From PJ.Model Require Import Base Terms.
From PJ.Model Require Lookup Encoder.
From PJ.Tie Require Import PyPrims.
From PJ.Gen Require Import LookupEncGen OptionsGen EncodeGen.
From PJ.Tie Require Import StrN LookupEncTie.
Module E := PJ.Model.Encoder.
Local Open Scope Z_scope.

(* ------------------------------------------------------------------ split_iri *)
Lemma rpart_single (c : N) (s : str) : rpart N.eqb [c] s = E.rpartition c s.
Proof.
  induction s as [|x s IH]; [reflexivity|].
  cbn [rpart E.rpartition]. rewrite IH.
  destruct (E.rpartition c s) as [[a b]|]; [reflexivity|].
  cbn [is_prefix length skipn]. rewrite Bool.andb_true_r.
  rewrite (N.eqb_sym c x). reflexivity.
Qed.

Theorem source_split_iri_is_model (iri : str) : split_iri SN iri = Val (E.split_iri iri).
Proof.
  unfold split_iri, E.split_iri. cbn [SN s_rpartition s_lit s_is_empty s_add s_empty map].
  change (Z.to_N 35) with 35%N. change (Z.to_N 47) with 47%N.
  unfold py_rpartition. rewrite !rpart_single.
  destruct (E.rpartition 35 iri) as [[a b]|]; cbn [is_nil negb]; [reflexivity|].
  destruct (E.rpartition 47 iri) as [[a b]|]; cbn [is_nil negb]; reflexivity.
Qed.

(* ------------------------------------------------------------------ TermEncoder *)
Lemma mem_is_mem_str k l : mem str_eqb k l = mem_str k l.
Proof. induction l as [|x l IH]; cbn; [reflexivity | now rewrite IH]. Qed.

Lemma set_add_is_model k l : set_add str_eqb k l = E.set_add k l.
Proof. unfold set_add, E.set_add. now rewrite mem_is_mem_str. Qed.

Notation Re := (Re SN).

Definition Rt (g : TermEncoder SN) (m : E.tenc) : Prop :=
  Re (TermEncoder_names g) (E.t_names m) /\ Re (TermEncoder_prefixes g) (E.t_prefixes m) /\
  Re (TermEncoder_datatypes g) (E.t_datatypes m) /\
  TermEncoder__name_keys g = E.t_nkeys m /\ TermEncoder__prefix_keys g = E.t_pkeys m /\
  TermEncoder__datatype_keys g = E.t_dkeys m.

Ltac rsimpl := cbn [set_TermEncoder_names set_TermEncoder_prefixes set_TermEncoder_datatypes set_TermEncoder__name_keys
  set_TermEncoder__prefix_keys set_TermEncoder__datatype_keys set_TermEncoder_lookup_preset TermEncoder_names TermEncoder_prefixes
  TermEncoder_datatypes TermEncoder__name_keys TermEncoder__prefix_keys TermEncoder__datatype_keys TermEncoder_lookup_preset] in *.

Ltac close_goal :=
  split; [reflexivity|]; split; [reflexivity|]; split; [reflexivity|];
  unfold Rt; rsimpl; cbn [E.t_names E.t_prefixes E.t_datatypes E.t_nkeys E.t_pkeys E.t_dkeys];
  split; [assumption|]; split; [assumption|]; split; [assumption|];
  split; [first [assumption | reflexivity]|]; split; first [assumption | reflexivity].

Ltac norm := change (carrier SN) with str in *; change (s_eqb SN) with str_eqb in *;
             change (s_is_empty SN) with (@is_nil N) in *.

(* TermEncoder(lookup_preset): three empty tables of the preset's sizes, no keys *)
Theorem source_term_encoder_init_is_model (n p d : N) :
  exists g, TermEncoder___init__ SN (Some (mk_LookupPreset (Z.of_N n) (Z.of_N p) (Z.of_N d))) = Val g /\
            Rt g (E.tenc_init n p d).
Proof.
  unfold TermEncoder___init__. cbn [LookupPreset_max_names LookupPreset_max_prefixes LookupPreset_max_datatypes].
  destruct (tie_init_encoder SN n) as (gn & Hn & Rn).
  destruct (tie_init_encoder SN p) as (gp & Hp & Rp).
  destruct (tie_init_encoder SN d) as (gd & Hd & Rd).
  rewrite Hn, Hp, Hd. eexists; split; [reflexivity|].
  split; [exact Rn | split; [exact Rp | split; [exact Rd | repeat split]]].
Qed.

Theorem source_start_statement_is_model g m : Rt g m ->
  match TermEncoder_start_statement SN g with
  | (Val _, g') => Rt g' (E.start_statement m)
  | (Exn _, _) => False
  end.
Proof.
  intros (Hn & Hp & Hd & _). unfold TermEncoder_start_statement. cbn.
  split; [exact Hn | split; [exact Hp | split; [exact Hd | repeat split]]].
Qed.

(* TermEncoder._entry_index: the per-statement bound, then LookupEncoder.encode_entry_index *)
Lemma tie_entry_index (table : LookupEncoder SN) (mt : E.slenc) (keys : list str) (key : str) :
  Re table mt ->
  match TermEncoder__entry_index SN table keys key, E.entry_index mt keys key with
  | (Val r, table', keys'), Ok (mt', mkeys', r') => r = zo r' /\ Re table' mt' /\ keys' = mkeys'
  | (Exn _, _, _), Err _ => True
  | _, _ => False
  end.
Proof.
  intros HR. pose proof HR as (Hl & _ & _). pose proof Hl as (_ & Hmax & _).
  unfold TermEncoder__entry_index, E.entry_index, E.lmax, nlen.
  cbn [SN s_eqb]. rewrite set_add_is_model. rewrite Hmax. unfold seq_len.
  change (carrier SN) with str in *. cbn [carrier] in *.
  destruct (M.l_max (M.e_lookup mt) <? N.of_nat (length (E.set_add key keys)))%N eqn:Eb.
  - match goal with |- context [?a >? ?b] => replace (a >? b) with true by lia end. exact I.
  - match goal with |- context [?a >? ?b] => replace (a >? b) with false by lia end.
    pose proof (tie_encode_entry_index SN key table mt HR) as H.
    norm.
    destruct (LookupEncoder_encode_entry_index SN key table) as [[r|e] table'];
      destruct (M.encode_entry_index str_eqb key mt) as [[mt' r']|]; try contradiction; [|exact I].
    destruct H as [-> H]. repeat split; try reflexivity; apply H.
Qed.

(* the entry rows of an IRI, as message objects *)
Definition msg_of_row (r : row) : pbval str :=
  match r with
  | RPrefix id v => PMsg "RdfStreamRow" [("prefix"%string, PMsg "RdfPrefixEntry" [("id"%string, PInt (Z.of_N id)); ("value"%string, PStr v)])]
  | RName id v => PMsg "RdfStreamRow" [("name"%string, PMsg "RdfNameEntry" [("id"%string, PInt (Z.of_N id)); ("value"%string, PStr v)])]
  | RDatatype id v => PMsg "RdfStreamRow" [("datatype"%string, PMsg "RdfDatatypeEntry" [("id"%string, PInt (Z.of_N id)); ("value"%string, PStr v)])]
  | _ => PMsg "RdfStreamRow" []
  end.

(* TermEncoder.encode_iri_indices: same entry rows, same prefix and name ids, related states -- or both refuse *)
Theorem source_encode_iri_indices_is_model (iri : str) g m : Rt g m ->
  match TermEncoder_encode_iri_indices SN iri g, E.encode_iri iri m with
  | (Val (rows, pidx, nidx), g'), Ok (m', mrows, mp, mn) =>
      rows = map msg_of_row mrows /\ pidx = Z.of_N mp /\ nidx = Z.of_N mn /\ Rt g' m'
  | (Exn _, _), Err _ => True
  | _, _ => False
  end.
Proof.
  intros (Hn & Hp & Hd & Kn & Kp & Kd).
  unfold TermEncoder_encode_iri_indices, E.encode_iri.
  rewrite source_split_iri_is_model.
  destruct (E.split_iri iri) as [prefix name0].
  pose proof Hp as (Hpl & _ & _). pose proof Hpl as (_ & Hpmax & _).
  unfold E.lmax. rewrite Hpmax. norm.
  destruct (M.l_max (M.e_lookup (E.t_prefixes m)) =? 0)%N eqn:E0.
  - (* prefix table disabled: the whole IRI is the name *)
    match goal with |- context [negb (?a =? 0)] => replace (a =? 0) with true by lia end. cbn [negb].
    cbn [bind].
    pose proof (tie_entry_index (TermEncoder_names g) (E.t_names m) (TermEncoder__name_keys g) iri Hn) as H1.
    rewrite Kn in H1 |- *.
    destruct (TermEncoder__entry_index SN (TermEncoder_names g) (E.t_nkeys m) iri) as [[[r|e] tn] kn];
      destruct (E.entry_index (E.t_names m) (E.t_nkeys m) iri) as [[[mtn mkn] r']|e']; try contradiction; cbn [bind]; [|exact I].
    destruct H1 as (-> & Hn' & ->).
    rsimpl.
    pose proof (tie_encode_prefix_term_index SN prefix (TermEncoder_prefixes g) (E.t_prefixes m) Hp) as H2.
    norm.
    destruct r' as [ne|]; cbn [zo option_map].
    + destruct (LookupEncoder_encode_prefix_term_index SN prefix (TermEncoder_prefixes g)) as [[pv|pe] tp];
        destruct (M.encode_prefix_term_index str_eqb (is_nil prefix) prefix (E.t_prefixes m)) as [[mtp mpv]|]; try contradiction;
        cbn [E.lift bind]; [|exact I].
      destruct H2 as (-> & Hp').
      rsimpl.
      pose proof (tie_encode_name_term_index SN iri tn mtn Hn') as H3. norm.
      destruct (LookupEncoder_encode_name_term_index SN iri tn) as [[nv|nerr] tn2];
        destruct (M.encode_name_term_index str_eqb iri mtn) as [[mtn2 mnv]|]; try contradiction; cbn [E.lift bind]; [|exact I].
      destruct H3 as (-> & Hn2).
      close_goal.
    + destruct (LookupEncoder_encode_prefix_term_index SN prefix (TermEncoder_prefixes g)) as [[pv|pe] tp];
        destruct (M.encode_prefix_term_index str_eqb (is_nil prefix) prefix (E.t_prefixes m)) as [[mtp mpv]|]; try contradiction;
        cbn [E.lift bind]; [|exact I].
      destruct H2 as (-> & Hp').
      rsimpl.
      pose proof (tie_encode_name_term_index SN iri tn mtn Hn') as H3. norm.
      destruct (LookupEncoder_encode_name_term_index SN iri tn) as [[nv|nerr] tn2];
        destruct (M.encode_name_term_index str_eqb iri mtn) as [[mtn2 mnv]|]; try contradiction; cbn [E.lift bind]; [|exact I].
      destruct H3 as (-> & Hn2).
      close_goal.
  - (* prefix table in use *)
    match goal with |- context [negb (?a =? 0)] => replace (a =? 0) with false by lia end. cbn [negb].
    pose proof (tie_entry_index (TermEncoder_prefixes g) (E.t_prefixes m) (TermEncoder__prefix_keys g) prefix Hp) as H0.
    rewrite Kp in H0 |- *.
    destruct (TermEncoder__entry_index SN (TermEncoder_prefixes g) (E.t_pkeys m) prefix) as [[[pr|pe] tp] kp];
      destruct (E.entry_index (E.t_prefixes m) (E.t_pkeys m) prefix) as [[[mtp mkp] pr']|pe']; try contradiction; cbn [bind]; [|exact I].
    destruct H0 as (-> & Hp' & ->).
    rsimpl.
    pose proof (tie_entry_index (TermEncoder_names g) (E.t_names m) (TermEncoder__name_keys g) name0 Hn) as H1.
    rewrite Kn in H1 |- *.
    destruct (TermEncoder__entry_index SN (TermEncoder_names g) (E.t_nkeys m) name0) as [[[r|e] tn] kn];
      destruct (E.entry_index (E.t_names m) (E.t_nkeys m) name0) as [[[mtn mkn] r']|e']; try contradiction; cbn [bind]; [|exact I].
    destruct H1 as (-> & Hn' & ->).
    rsimpl.
    pose proof (tie_encode_prefix_term_index SN prefix tp mtp Hp') as H2.
    norm.
    pose proof (fun tn' mtn' (H : Re tn' mtn') => tie_encode_name_term_index SN name0 tn' mtn' H) as H3g.
    norm.
    destruct pr' as [pe0|]; destruct r' as [ne|]; cbn [zo option_map];
      (destruct (LookupEncoder_encode_prefix_term_index SN prefix tp) as [[pv|perr] tp2];
       destruct (M.encode_prefix_term_index str_eqb (is_nil prefix) prefix mtp) as [[mtp2 mpv]|]; try contradiction;
       cbn [E.lift bind]; [|exact I];
       destruct H2 as (-> & Hp2);
       rsimpl;
       pose proof (H3g tn mtn Hn') as H3;
       destruct (LookupEncoder_encode_name_term_index SN name0 tn) as [[nv|nerr] tn2];
       destruct (M.encode_name_term_index str_eqb name0 mtn) as [[mtn2 mnv]|]; try contradiction; cbn [E.lift bind]; [|exact I];
       destruct H3 as (-> & Hn2);
       close_goal).
Qed.

(* TermEncoder.encode_iri: the rows of encode_iri_indices; the two ids are written into the RdfIri message *)
Definition iri_msg (p n : N) : pbval str :=
  PMsg "RdfIri" [("prefix_id"%string, PInt (Z.of_N p)); ("name_id"%string, PInt (Z.of_N n))].

Theorem source_encode_iri_is_model (iri : str) g m : Rt g m ->
  match TermEncoder_encode_iri SN iri (PMsg "RdfIri" []) g, E.encode_iri iri m with
  | (Val rows, g', msg), Ok (m', mrows, mp, mn) => rows = map msg_of_row mrows /\ msg = iri_msg mp mn /\ Rt g' m'
  | (Exn _, _, _), Err _ => True
  | _, _ => False
  end.
Proof.
  intros HR. unfold TermEncoder_encode_iri.
  pose proof (source_encode_iri_indices_is_model iri g m HR) as H.
  destruct (TermEncoder_encode_iri_indices SN iri g) as [[[[rows p] n]|e] g'];
    destruct (E.encode_iri iri m) as [[[[m' mrows] mp] mn]|e']; try contradiction; [|exact I].
  destruct H as (-> & -> & -> & HR'). split; [reflexivity|]. split; [reflexivity | exact HR'].
Qed.

(* encode_namespace_declaration: a new statement, the IRI's entry rows, then the declaration row *)
Definition ns_msg (name : str) (p n : N) : pbval str :=
  PMsg "RdfStreamRow" [("namespace"%string, PMsg "RdfNamespaceDeclaration" [("name"%string, PStr name); ("value"%string, iri_msg p n)])].

Definition msg_of_row' (r : row) : pbval str :=
  match r with RNamespace name p n => ns_msg name p n | _ => msg_of_row r end.

Lemma msg_of_row'_entries rows : (forall r, In r rows -> match r with RNamespace _ _ _ => False | _ => True end) ->
  map msg_of_row' rows = map msg_of_row rows.
Proof.
  induction rows as [|r rows IH]; intros H; [reflexivity|]. cbn [map].
  rewrite IH by (intros r' Hr'; apply H; right; exact Hr').
  specialize (H r (or_introl eq_refl)). destruct r; try reflexivity. contradiction.
Qed.

Theorem source_encode_namespace_declaration_is_model (name iri : str) g m : Rt g m ->
  match encode_namespace_declaration SN name iri g, E.encode_namespace_declaration name iri m with
  | (Val rows, g'), Ok (m', mrows) =>
      exists entries p n, mrows = entries ++ [RNamespace name p n] /\ rows = map msg_of_row entries ++ [ns_msg name p n] /\ Rt g' m'
  | (Exn _, _), Err _ => True
  | _, _ => False
  end.
Proof.
  intros HR. unfold encode_namespace_declaration, E.encode_namespace_declaration.
  pose proof (source_start_statement_is_model g m HR) as H0.
  destruct (TermEncoder_start_statement SN g) as [[u|e] g0]; [|contradiction].
  pose proof (source_encode_iri_is_model iri g0 (E.start_statement m) H0) as H.
  destruct (TermEncoder_encode_iri SN iri (PMsg "RdfIri" []) g0) as [[[rows|e] g'] msg];
    destruct (E.encode_iri iri (E.start_statement m)) as [[[[m' mrows] mp] mn]|e']; try contradiction; cbn [bind]; [|exact I].
  destruct H as (-> & -> & HR'). exists mrows, mp, mn. split; [reflexivity|]. split; [reflexivity | exact HR'].
Qed.

(* encode_options: the options row says what the three option objects say *)
Definition options_msg (o : woptions) : pbval str :=
  PMsg "RdfStreamRow" [("options"%string, PMsg "RdfStreamOptions" [
    ("stream_name"%string, PStr (o_name o)); ("physical_type"%string, PInt (Z.of_N (o_phys o)));
    ("generalized_statements"%string, PBool (o_gen o)); ("rdf_star"%string, PBool (o_star o));
    ("max_name_table_size"%string, PInt (Z.of_N (o_maxn o))); ("max_prefix_table_size"%string, PInt (Z.of_N (o_maxp o)));
    ("max_datatype_table_size"%string, PInt (Z.of_N (o_maxd o))); ("logical_type"%string, PInt (Z.of_N (o_logical o)));
    ("version"%string, PInt (Z.of_N (o_version o)))])].

Theorem source_encode_options_is_model (o : woptions) (delim nd : bool) :
  encode_options SN (mk_LookupPreset (Z.of_N (o_maxn o)) (Z.of_N (o_maxp o)) (Z.of_N (o_maxd o)))
                    (mk_StreamTypes (Z.of_N (o_phys o)) (Z.of_N (o_logical o)))
                    (mk_StreamParameters (o_gen o) (o_star o) (Z.of_N (o_version o)) delim nd (o_name o : carrier SN)) =
  Val (options_msg o).
Proof. reflexivity. Qed.

(* TermEncoder.encode_literal *)
Definition lit_msg (lex : str) (k : wlitkind) : pbval str :=
  PMsg "RdfLiteral" (("lex"%string, PStr lex) ::
    match k with LkNone => [] | LkLang l => [("langtag"%string, PStr l)] | LkDt d => [("datatype"%string, PInt (Z.of_N d))] end).

Lemma xsd_string_lit :
  s_lit SN [104; 116; 116; 112; 58; 47; 47; 119; 119; 119; 46; 119; 51; 46; 111; 114; 103; 47; 50; 48; 48; 49; 47; 88; 77; 76; 83; 99; 104;
            101; 109; 97; 35; 115; 116; 114; 105; 110; 103] = xsd_string.
Proof. reflexivity. Qed.

Lemma lit_lang (lex : str) (lang : option str) (lit0 : pbval str) :
  lit0 = PMsg "RdfLiteral" [("lex"%string, PStr lex)] ->
  match lang with
  | Some l => if negb (is_nil l) then msg_set ["langtag"%string; "datatype"%string] "langtag" (PStr l) lit0 else lit0
  | None => lit0
  end = lit_msg lex (match E.truthy lang with Some l => LkLang l | None => LkNone end).
Proof.
  intros ->. unfold E.truthy. destruct lang as [l|]; [|reflexivity].
  destruct (is_nil l); reflexivity.
Qed.

Theorem source_encode_literal_is_model (lex : str) (lang dt : option str) g m : Rt g m ->
  match TermEncoder_encode_literal SN lex lang dt (PMsg "RdfLiteral" []) g, E.encode_literal lex lang dt m with
  | (Val rows, g', msg), Ok (m', mrows, WLit lex' k) => rows = map msg_of_row mrows /\ msg = lit_msg lex' k /\ Rt g' m'
  | (Exn _, _, _), Err _ => True
  | _, _ => False
  end.
Proof.
  intros HR. pose proof HR as (Hn & Hp & Hd & Kn & Kp & Kd).
  unfold TermEncoder_encode_literal, E.encode_literal. rewrite xsd_string_lit. norm.
  assert (Hnodt : forall (g0 : TermEncoder SN),
    (let literal := msg_set ["lex"%string] "lex" (PStr lex) (PMsg "RdfLiteral" []) in
     match lang with
     | Some language =>
         if negb (is_nil language)
         then let literal0 := msg_set ["langtag"%string; "datatype"%string] "langtag" (PStr language) literal in (Val (@nil (pbval str)), g0, literal0)
         else let language0 := Some language in (Val [], g0, literal)
     | None => (Val [], g0, literal)
     end) = (Val [], g0, lit_msg lex (match E.truthy lang with Some l => LkLang l | None => LkNone end))).
  { intros g0. cbv zeta. unfold E.truthy. destruct lang as [l|]; [|reflexivity]. destruct (is_nil l); reflexivity. }
  destruct dt as [d|].
  2:{ change (E.truthy (@None str)) with (@None str). cbv zeta. rewrite Hnodt. cbn [bind negb N.eqb].
      split; [reflexivity|]. split; [reflexivity | exact HR]. }
  change (E.truthy (Some d)) with (if is_nil d then @None str else Some d).
  destruct (is_nil d) eqn:Ed; cbn [negb].
  { cbv zeta. rewrite Hnodt. cbn [bind negb N.eqb]. split; [reflexivity|]. split; [reflexivity | exact HR]. }
  destruct (str_eqb d xsd_string) eqn:Ex; cbn [negb].
  { cbv zeta. rewrite Hnodt. cbn [bind negb N.eqb]. split; [reflexivity|]. split; [reflexivity | exact HR]. }
  pose proof Hd as (Hdl & _ & _). pose proof Hdl as (_ & Hdmax & _).
  unfold E.lmax. rewrite Hdmax. norm.
  destruct (M.l_max (M.e_lookup (E.t_datatypes m)) =? 0)%N eqn:E0.
  { match goal with |- context [if (?a =? 0) then _ else _] => replace (a =? 0) with true by lia end. exact I. }
  match goal with |- context [if (?a =? 0) then _ else _] => replace (a =? 0) with false by lia end.
  pose proof (tie_entry_index (TermEncoder_datatypes g) (E.t_datatypes m) (TermEncoder__datatype_keys g) d Hd) as H1.
  rewrite Kd in H1 |- *.
  destruct (TermEncoder__entry_index SN (TermEncoder_datatypes g) (E.t_dkeys m) d) as [[[r|e] td] kd];
    destruct (E.entry_index (E.t_datatypes m) (E.t_dkeys m) d) as [[[mtd mkd] r']|e']; try contradiction; cbn [bind]; [|exact I].
  destruct H1 as (-> & Hd' & ->). rsimpl.
  pose proof (tie_encode_datatype_term_index SN d td mtd Hd') as H2. norm.
  destruct r' as [eid|]; cbn [zo option_map];
    (destruct (LookupEncoder_encode_datatype_term_index SN d td) as [[dv|derr] td2];
     destruct (M.encode_datatype_term_index str_eqb d mtd) as [[mtd2 mdv]|]; try contradiction; cbn [E.lift bind]; [|exact I];
     destruct H2 as (-> & Hd2); rsimpl).
  all: cbv zeta; unfold E.truthy;
    (destruct (mdv =? 0)%N eqn:Em;
     [replace (Z.of_N mdv =? 0) with true by lia | replace (Z.of_N mdv =? 0) with false by lia]);
    (destruct lang as [l|]; [destruct (is_nil l)|]); cbn [negb bind];
    (split; [reflexivity|]; split; [reflexivity|];
     unfold Rt; rsimpl; cbn [E.t_names E.t_prefixes E.t_datatypes E.t_nkeys E.t_pkeys E.t_dkeys];
     split; [exact Hn|]; split; [exact Hp|]; split; [exact Hd2|]; split; [exact Kn|]; split; [exact Kp | reflexivity]).
Qed.

Print Assumptions source_split_iri_is_model.
Print Assumptions source_term_encoder_init_is_model.
Print Assumptions source_start_statement_is_model.
Print Assumptions source_encode_iri_indices_is_model.
Print Assumptions source_encode_iri_is_model.
Print Assumptions source_encode_namespace_declaration_is_model.
Print Assumptions source_encode_options_is_model.
Print Assumptions source_encode_literal_is_model.
