(* PyPrims.v -- the Python built-ins that the translated source (generated/*.v, written by
   /verif/translate/py2v.py from /repo on every run) is allowed to use, given a meaning in Gallina.
   This file is hand-written and is part of the trusted base of the source tie: it says what
   OrderedDict.move_to_end / popitem(last=False) / __setitem__ / __getitem__, deque indexing (negative
   indices included), tuple repetition, `raise`, `assert` and integer arithmetic mean.
   Python ints are unbounded: Z.  Strings are an abstract type with a boolean equality and an
   emptiness test, exactly like the keys of model/Lookup.v. *)
From Coq Require Export String ZArith List Bool.
Export ListNotations.
Local Open Scope Z_scope.

Inductive exn :=
| KeyError | IndexError | AssertionError | TypeError | ValueError
| JellyConformanceError | JellyAssertionError | JellyNotImplementedError
| StopIteration | NotImplementedError | ZeroDivisionError | AttributeError | RecursionError | RuntimeError
| OutsideModel.   (* not a Python exception: a path the translation does not describe (the ties show it is not taken) *)

(* PEP 479: a StopIteration that would leave the body of a generator is replaced by RuntimeError *)
Definition gen_exn (e : exn) : exn := match e with StopIteration => RuntimeError | _ => e end.

(* the outcome of a call: a value or a raised exception; the object's state is returned beside it
   in both cases (what a method changed before it raised stays changed) *)
Inductive outcome (A : Type) := Val (a : A) | Exn (e : exn).
Arguments Val {A} a.
Arguments Exn {A} e.

(* how a translated `for` loop over a list ends: the list ran out, a `return` inside the body, or an exception;
   each with the state the loop carries *)
Inductive loopres (R St : Type) := LContinue (st : St) | LReturn (r : R) (st : St) | LRaise (e : exn) (st : St).
Arguments LContinue {R St} st.
Arguments LReturn {R St} r st.
Arguments LRaise {R St} e st.

Definition is_exn (e e' : exn) : bool :=
  match e, e' with
  | KeyError, KeyError | IndexError, IndexError | AssertionError, AssertionError
  | TypeError, TypeError | ValueError, ValueError
  | JellyConformanceError, JellyConformanceError | JellyAssertionError, JellyAssertionError
  | JellyNotImplementedError, JellyNotImplementedError
  | StopIteration, StopIteration | NotImplementedError, NotImplementedError
  | ZeroDivisionError, ZeroDivisionError | AttributeError, AttributeError | RecursionError, RecursionError
  | RuntimeError, RuntimeError
  | OutsideModel, OutsideModel => true
  | _, _ => false
  end.

Section Prims.
Context {K : Type} (eqb : K -> K -> bool).

(* ---- collections.OrderedDict[str, int]: association list, oldest first ---- *)
Definition od := list (K * Z).
Definition od_empty : od := [].

Fixpoint od_find (k : K) (d : od) : option Z :=
  match d with
  | [] => None
  | (k', v) :: d' => if eqb k k' then Some v else od_find k d'
  end.

Fixpoint od_remove (k : K) (d : od) : od :=
  match d with
  | [] => []
  | (k', v) :: d' => if eqb k k' then d' else (k', v) :: od_remove k d'
  end.

Definition od_contains (k : K) (d : od) : bool :=
  match od_find k d with Some _ => true | None => false end.

Definition od_len (d : od) : Z := Z.of_nat (length d).

(* d[k] *)
Definition od_get (k : K) (d : od) : outcome Z :=
  match od_find k d with Some v => Val v | None => Exn KeyError end.

(* d.move_to_end(k) *)
Definition od_move_to_end (k : K) (d : od) : outcome od :=
  match od_find k d with
  | Some v => Val (od_remove k d ++ [(k, v)])
  | None => Exn KeyError
  end.

(* d.popitem(last=False) *)
Definition od_popitem_first (d : od) : outcome ((K * Z) * od) :=
  match d with
  | [] => Exn KeyError
  | kv :: d' => Val (kv, d')
  end.

(* d[k] = v : an existing key keeps its position, a new key goes to the end *)
Fixpoint od_update (k : K) (v : Z) (d : od) : od :=
  match d with
  | [] => []
  | (k', v') :: d' => if eqb k k' then (k', v) :: d' else (k', v') :: od_update k v d'
  end.

Definition od_set (k : K) (v : Z) (d : od) : od :=
  if od_contains k d then od_update k v d else d ++ [(k, v)].

End Prims.

(* ---- sequences with Python indexing: collections.deque / tuple ---- *)
Section Seq.
Context {A : Type}.

Definition seq_len (l : list A) : Z := Z.of_nat (length l).

(* the position Python's l[i] refers to, None = IndexError *)
Definition py_index (l : list A) (i : Z) : option nat :=
  let n := seq_len l in
  if (0 <=? i) && (i <? n) then Some (Z.to_nat i)
  else if (- n <=? i) && (i <? 0) then Some (Z.to_nat (n + i))
  else None.

Fixpoint set_at (n : nat) (x : A) (l : list A) : list A :=
  match n, l with
  | _, [] => []
  | O, _ :: t => x :: t
  | S n', h :: t => h :: set_at n' x t
  end.

Definition seq_get (l : list A) (i : Z) : outcome A :=
  match py_index l i with
  | None => Exn IndexError
  | Some n => match nth_error l n with Some x => Val x | None => Exn IndexError end
  end.

Definition seq_set (l : list A) (i : Z) (x : A) : outcome (list A) :=
  match py_index l i with
  | None => Exn IndexError
  | Some n => Val (set_at n x l)
  end.

(* (x,) * n : the empty tuple for n <= 0 *)
Definition tuple_repeat (x : A) (n : Z) : list A := repeat x (Z.to_nat n).

(* the last n items *)
Definition lastn (n : nat) (l : list A) : list A := skipn (length l - n) l.

(* deque(items, maxlen=n): keeps the last n items; a negative maxlen raises ValueError *)
Definition deque_make (items : list A) (maxlen : Z) : outcome (list A) :=
  if maxlen <? 0 then Exn ValueError else Val (lastn (Z.to_nat maxlen) items).

End Seq.

(* ---- str: the operations the translated source may use on strings, as one structure.  The generated
   files are parametric in it (`Context (S : strops)`); the tie files instantiate it where the model is
   concrete about strings (lists of code points) and leave it abstract where the model is. *)
Record strops := {
  carrier : Type;
  s_eqb : carrier -> carrier -> bool;          (* a == b *)
  s_is_empty : carrier -> bool;                (* not a *)
  s_empty : carrier;                           (* "" *)
  s_add : carrier -> carrier -> carrier;       (* a + b *)
  s_rpartition : carrier -> carrier -> outcome (carrier * carrier * carrier);   (* a.rpartition(sep) *)
  s_lit : list Z -> carrier;                   (* a literal, by code points *)
  s_lower : carrier -> carrier;                (* a.lower(), on the ASCII letters (what a language tag is made of) *)
  (* two functions of strings that the SPECIFICATION of rdflib's Literal constructor uses (translate/dyn.py, rdflib_Literal):
     rdflib's _is_valid_langtag, and the lexical form a Literal of a given datatype holds (whiteSpace facet of xsd:token / xsd:normalizedString) *)
  s_langtag_ok : carrier -> bool;
  s_rdflib_lex : option carrier -> carrier -> carrier
}.

(* ---- str as a list of code points: the concrete operations *)
Section ListStr.
Context {A : Type} (eqA : A -> A -> bool).

Fixpoint list_eqb (a b : list A) : bool :=
  match a, b with
  | [], [] => true
  | x :: a', y :: b' => eqA x y && list_eqb a' b'
  | _, _ => false
  end.

Fixpoint is_prefix (p s : list A) : bool :=
  match p, s with
  | [], _ => true
  | x :: p', y :: s' => eqA x y && is_prefix p' s'
  | _ :: _, [] => false
  end.

(* the LAST occurrence of sep (non-empty) in s: what is before it and what is after it *)
Fixpoint rpart (sep s : list A) : option (list A * list A) :=
  match s with
  | [] => None
  | c :: s' =>
    match rpart sep s' with
    | Some (a, b) => Some (c :: a, b)
    | None => if is_prefix sep s then Some ([], skipn (length sep) s) else None
    end
  end.

(* str.rpartition(sep): (before, sep, after) for the last occurrence, ("", "", s) when there is none;
   an empty separator is a ValueError *)
Definition py_rpartition (s sep : list A) : outcome (list A * list A * list A) :=
  match sep with
  | [] => Exn ValueError
  | _ => match rpart sep s with
         | Some (a, b) => Val (a, sep, b)
         | None => Val ([], [], s)
         end
  end.

(* set[str] as a duplicate-free list (insertion order is not observable through add / len / clear) *)
Fixpoint mem (x : A) (l : list A) : bool :=
  match l with [] => false | y :: l' => eqA x y || mem x l' end.
End ListStr.

Definition set_add {K} (eqb : K -> K -> bool) (k : K) (l : list K) : list K := if mem eqb k l then l else k :: l.

(* ---- protobuf message objects, as far as the translated source builds them: constructor calls with
   keyword arguments and attribute assignment.  Presence, defaults and the wire format are not modelled
   here (the model's Wire.v does that, tied by the correspondence check) -- only which fields were given
   which values, with the oneof rule (setting a member clears its siblings). *)
Inductive pbval (K : Type) :=
| PInt (z : Z) | PBool (b : bool) | PStr (s : K)
| PMsg (name : string) (fields : list (string * pbval K))
| PRep (items : list (pbval K)).            (* a repeated field *)
Arguments PRep {K} items.
Arguments PInt {K} z.
Arguments PBool {K} b.
Arguments PStr {K} s.
Arguments PMsg {K} name fields.

Definition msg_fields {K} (m : pbval K) : list (string * pbval K) :=
  match m with PMsg _ fs => fs | _ => [] end.

Definition msg_name {K} (m : pbval K) : string :=
  match m with PMsg n _ => n | _ => EmptyString end.

Fixpoint drop_fields {K} (names : list string) (fs : list (string * pbval K)) : list (string * pbval K) :=
  match fs with
  | [] => []
  | (n, v) :: fs' => if existsb (String.eqb n) names then drop_fields names fs' else (n, v) :: drop_fields names fs'
  end.

(* m.f = v where f belongs to the oneof group `group` (f itself included; [f] for a plain field) *)
Definition msg_set {K} (group : list string) (f : string) (v : pbval K) (m : pbval K) : pbval K :=
  PMsg (msg_name m) (drop_fields group (msg_fields m) ++ [(f, v)]).

Fixpoint msg_get {K} (f : string) (fs : list (string * pbval K)) : option (pbval K) :=
  match fs with
  | [] => None
  | (n, v) :: fs' => if String.eqb n f then Some v else msg_get f fs'
  end.

(* ---- reading a protobuf message object (the reader's side).  A field that was not on the wire is not in the list:
   reading it gives the proto3 default (0, false, "", the empty message, the empty list); HasField / WhichOneof see
   presence.  (What the wire parser makes of bytes is the model's Wire.v, tied by the correspondence check.) *)
Section MsgRead.
Context {K : Type} (empty : K).

Definition msg_int (f : string) (m : pbval K) : Z :=
  match msg_get f (msg_fields m) with Some (PInt z) => z | _ => 0%Z end.
Definition msg_bool (f : string) (m : pbval K) : bool :=
  match msg_get f (msg_fields m) with Some (PBool b) => b | _ => false end.
Definition msg_str (f : string) (m : pbval K) : K :=
  match msg_get f (msg_fields m) with Some (PStr s) => s | _ => empty end.
Definition msg_sub (f ty : string) (m : pbval K) : pbval K :=
  match msg_get f (msg_fields m) with Some (PMsg n fs) => PMsg n fs | _ => PMsg ty [] end.
Definition msg_rep (f : string) (m : pbval K) : list (pbval K) :=
  match msg_get f (msg_fields m) with Some (PRep l) => l | _ => [] end.
Definition msg_has (f : string) (m : pbval K) : bool :=
  match msg_get f (msg_fields m) with Some _ => true | None => false end.

(* m.WhichOneof(group): the member of the group that is set (msg_set keeps at most one), None when none is *)
Fixpoint which_of (group : list string) (fs : list (string * pbval K)) : option string :=
  match fs with
  | [] => None
  | (n, _) :: fs' => if existsb (String.eqb n) group then Some n else which_of group fs'
  end.
Definition msg_which (group : list string) (m : pbval K) : option string := which_of group (msg_fields m).

(* getattr(m, name) for a name WhichOneof returned: the value of that field (a string field gives the str itself) *)
Definition msg_field (f : string) (m : pbval K) : option (pbval K) := msg_get f (msg_fields m).

(* type(x): the message class name, or "str" for a string *)
Definition pb_kind (x : pbval K) : string :=
  match x with PMsg n _ => n | PStr _ => "str"%string | PInt _ => "int"%string | PBool _ => "bool"%string | PRep _ => "list"%string end.

(* a str argument of a handler chosen by type(x) is str *)
Definition pb_as_str (x : pbval K) : K := match x with PStr s => s | _ => empty end.
End MsgRead.

(* how deeply messages nest in x: the fuel a translated recursion over sub-messages needs (Python has no such
   bound of its own short of the interpreter's recursion limit; protobuf's parser stops at 100 levels) *)
Fixpoint pb_depth {K} (x : pbval K) : nat :=
  match x with
  | PMsg _ fs => Datatypes.S ((fix go (l : list (string * pbval K)) : nat :=
                     match l with [] => O | (_, v) :: l' => Nat.max (pb_depth v) (go l') end) fs)
  | PRep l => Datatypes.S ((fix go (l : list (pbval K)) : nat :=
                     match l with [] => O | v :: l' => Nat.max (pb_depth v) (go l') end) l)
  | _ => O
  end.

(* ---- dict[str, V] as an association list (insertion order; d[k] = v replaces in place) *)
Section Dict.
Context {K V : Type} (eqb : K -> K -> bool).
Fixpoint ad_find (k : K) (d : list (K * V)) : option V :=
  match d with [] => None | (k', v) :: d' => if eqb k k' then Some v else ad_find k d' end.
Fixpoint ad_update (k : K) (v : V) (d : list (K * V)) : list (K * V) :=
  match d with [] => [] | (k', v') :: d' => if eqb k k' then (k', v) :: d' else (k', v') :: ad_update k v d' end.
Definition ad_set (k : K) (v : V) (d : list (K * V)) : list (K * V) :=
  match ad_find k d with Some _ => ad_update k v d | None => d ++ [(k, v)] end.
Definition ad_get (k : K) (d : list (K * V)) : outcome V :=
  match ad_find k d with Some v => Val v | None => Exn KeyError end.
End Dict.
