(* DecoderBase.v -- what the ties for the Decoder class (DecoderTie.v, GenericParseTie.v) share: the adapters as the model
   has them, the relation between the translated lookup tables and the model's, what reading a message object gives
   (reads_term / reads_row / reads_owner), and that those premises can be met for every row rdf.proto can say. *)
From Coq Require Import Lia ZifyBool.
From PJ.Model Require Import Base Terms Encoder Streams Decoder.
From PJ.Model Require Lookup.
From PJ.Proofs Require Import TermInd.
From PJ.Tie Require Import PyPrims StrN LookupDecTie OptionsTie EncodeTie DecodeTie.
From PJ.Gen Require Import LookupDecGen OptionsGen DecodeGen.
Module L := PJ.Model.Lookup.
Local Open Scope Z_scope.

(* ------------------------------------------------------------------ the adapters, as the model has them *)
(* ------------------------------------------------------------------ exceptions *)
Definition exn_of (e : Base.exn) : PyPrims.exn :=
  match e with
  | KeyErr => KeyError | IndexErr => IndexError | Conformance => JellyConformanceError | JAssertion => JellyAssertionError
  | AssertionErr => AssertionError | NotImpl => NotImplementedError | TypeErr => TypeError | ValueErr => ValueError
  | DecodeErr => ValueError | StopIter => StopIteration | AttrErr => AttributeError
  end.
(* the model lifts every failure of a lookup table to IndexErr (model/Lookup.v says only that the call fails) *)
Definition err_ok (pe : PyPrims.exn) (me : Base.exn) : Prop := me = IndexErr \/ pe = exn_of me.
(* ... as it leaves a generator (iter_rows): a StopIteration would have become a RuntimeError (PEP 479) *)
Definition err_ok_gen (pe : PyPrims.exn) (me : Base.exn) : Prop := exists e0, pe = gen_exn e0 /\ err_ok e0 me.

Inductive aval := ATerm (t : term) | AEv (e : event) | AUnit.

Record madapter := { ma_opts : ParserOptions SN; ma_ig : integ; ma_kind : adapter_kind; ma_graph : option term }.
Definition ma_set_graph (g : option term) (a : madapter) : madapter :=
  {| ma_opts := ma_opts a; ma_ig := ma_ig a; ma_kind := ma_kind a; ma_graph := g |}.

Definition a_iri (k : str) (a : madapter) : outcome aval * madapter := (Val (ATerm (TIri k)), a).
Definition a_default_graph (a : madapter) : outcome aval * madapter := (Val (ATerm TDefault), a).
Definition a_bnode (k : str) (a : madapter) : outcome aval * madapter := (Val (ATerm (TBnode k)), a).
(* literal(lex, language, datatype): the term the integration's constructor builds (model/Decoder.v, mk_literal: for rdflib,
   rdflib.Literal's checks and rewriting) *)
Definition a_literal (lex : str) (lang dt : option str) (a : madapter) : outcome aval * madapter :=
  match mk_literal (ma_ig a) lex lang dt with Ok t => (Val (ATerm t), a) | Err e => (Exn (exn_of e), a) end.
Definition a_triple (ts : list aval) (a : madapter) : outcome aval * madapter :=
  match ma_kind a with
  | ATriples => match ts with [ATerm s; ATerm p; ATerm o] => (Val (AEv (ETriple s p o)), a) | _ => (Exn TypeError, a) end
  | AQuads => (Exn NotImplementedError, a)
  | AGraphs =>
    match ma_graph a with
    | Some g => match ts with [ATerm s; ATerm p; ATerm o] => (Val (AEv (EQuad s p o g)), a) | _ => (Exn TypeError, a) end
    | None => (Exn JellyConformanceError, a)
    end
  end.
Definition a_quad (ts : list aval) (a : madapter) : outcome aval * madapter :=
  match ma_kind a with
  | AQuads => match ts with [ATerm s; ATerm p; ATerm o; ATerm g] => (Val (AEv (EQuad s p o g)), a) | _ => (Exn TypeError, a) end
  | _ => (Exn NotImplementedError, a)
  end.
Definition a_graph_start (g : aval) (a : madapter) : outcome aval * madapter :=
  match ma_kind a with
  | AGraphs => match g with ATerm t => (Val AUnit, ma_set_graph (Some t) a) | _ => (Exn TypeError, a) end
  | _ => (Exn NotImplementedError, a)
  end.
Definition a_graph_end (a : madapter) : outcome aval * madapter :=
  match ma_kind a with
  | AGraphs => (Val AUnit, ma_set_graph None a)
  | _ => (Exn NotImplementedError, a)
  end.
Definition a_namespace (name : str) (iri : aval) (a : madapter) : outcome aval * madapter :=
  match iri with ATerm (TIri s) => (Val (AEv (EPrefix name s)), a) | _ => (Exn TypeError, a) end.
Definition a_quoted (ts : list aval) (a : madapter) : outcome aval * madapter :=
  match ma_ig a with
  | Generic => match ts with [ATerm s; ATerm p; ATerm o] => (Val (ATerm (TTriple s p o)), a) | _ => (Exn TypeError, a) end
  | Rdflib => (Exn NotImplementedError, a)
  end.


(* ------------------------------------------------------------------ states *)
Definition Rz (g : LookupDecoder SN) (m : sldec) : Prop :=
  Rd SN g m /\ LookupDecoder_lookup_size g = Z.of_nat (length (L.d_data m)).

Definition k_subject : str := s_lit SN [115; 117; 98; 106; 101; 99; 116].
Definition k_predicate : str := s_lit SN [112; 114; 101; 100; 105; 99; 97; 116; 101].
Definition k_object : str := s_lit SN [111; 98; 106; 101; 99; 116].
Definition k_graph : str := s_lit SN [103; 114; 97; 112; 104].


Definition mk_ma (ig : integ) (ak : adapter_kind) (po : poptions) (g : option term) : madapter :=
  {| ma_opts := popts_obj po; ma_ig := ig; ma_kind := ak; ma_graph := g |}.

(* decoding a term leaves the repeated terms alone *)
Definition same_regs (st st' : dstate) : Prop :=
  ds_s st' = ds_s st /\ ds_p st' = ds_p st /\ ds_o st' = ds_o st /\ ds_g st' = ds_g st.

(* ------------------------------------------------------------------ what reading a message object gives *)
Definition g_s := ["s_iri"; "s_bnode"; "s_literal"; "s_triple_term"]%string.
Definition g_p := ["p_iri"; "p_bnode"; "p_literal"; "p_triple_term"]%string.
Definition g_o := ["o_iri"; "o_bnode"; "o_literal"; "o_triple_term"]%string.
Definition g_g := ["g_iri"; "g_bnode"; "g_default_graph"; "g_literal"]%string.

Definition reads_lit (k : wlitkind) (m : pbval str) : Prop :=
  match k with
  | LkNone => msg_str (K := str) [] "langtag" m = [] /\ msg_has "datatype" m = false
  | LkLang t => msg_str (K := str) [] "langtag" m = t /\ msg_has "datatype" m = false
  | LkDt id => msg_str (K := str) [] "langtag" m = [] /\ msg_has "datatype" m = true /\ msg_int "datatype" m = Z.of_N id
  end.

Fixpoint reads_term (w : wterm) (m : pbval str) {struct w} : Prop :=
  match w with
  | WIri p n => pb_kind m = "RdfIri"%string /\ msg_int "prefix_id" m = Z.of_N p /\ msg_int "name_id" m = Z.of_N n
  | WBnode l => m = PStr l
  | WLit lex k => pb_kind m = "RdfLiteral"%string /\ msg_str (K := str) [] "lex" m = lex /\ reads_lit k m
  | WDefault => pb_kind m = "RdfDefaultGraph"%string
  | WTriple s p o =>
    pb_kind m = "RdfTriple"%string /\
    match s with
    | Some s' => exists f v, msg_which g_s m = Some f /\ msg_field f m = Some v /\ reads_term s' v
    | None => msg_which g_s m = None
    end /\
    match p with
    | Some p' => exists f v, msg_which g_p m = Some f /\ msg_field f m = Some v /\ reads_term p' v
    | None => msg_which g_p m = None
    end /\
    match o with
    | Some o' => exists f v, msg_which g_o m = Some f /\ msg_field f m = Some v /\ reads_term o' v
    | None => msg_which g_o m = None
    end
  end.

Definition reads_slot (group : list string) (w : option wterm) (m : pbval str) : Prop :=
  match w with
  | Some w' => exists f v, msg_which group m = Some f /\ msg_field f m = Some v /\ reads_term w' v
  | None => msg_which group m = None
  end.

(* ------------------------------------------------------------------ small facts *)
Lemma str_eqb_true a b : str_eqb a b = true <-> a = b.
Proof.
  revert b. induction a as [|x a IH]; intros [|y b]; cbn; split; intros H; try reflexivity; try discriminate.
  - apply andb_true_iff in H as [H1 H2]. apply N.eqb_eq in H1. apply IH in H2. congruence.
  - injection H as -> ->. rewrite N.eqb_refl. cbn. apply IH. reflexivity.
Qed.

Lemma str_eqb_false a b : a <> b -> str_eqb a b = false.
Proof. intros H. destruct (str_eqb a b) eqn:E; [apply str_eqb_true in E; contradiction | reflexivity]. Qed.

Lemma ad_find_update {V} k' k (v : V) d :
  ad_find str_eqb k' (ad_update str_eqb k v d) =
  if str_eqb k' k then match ad_find str_eqb k d with Some _ => Some v | None => None end else ad_find str_eqb k' d.
Proof.
  induction d as [|[k0 v0] d IH]; cbn [ad_update ad_find].
  - destruct (str_eqb k' k); reflexivity.
  - destruct (str_eqb k k0) eqn:E0; cbn [ad_find].
    + apply str_eqb_true in E0. subst k0. destruct (str_eqb k' k); reflexivity.
    + rewrite IH. destruct (str_eqb k' k0) eqn:E1; [|reflexivity].
      apply str_eqb_true in E1. subst k0.
      destruct (str_eqb k' k) eqn:E2; [|reflexivity].
      apply str_eqb_true in E2. subst k'. rewrite (proj2 (str_eqb_true k k) eq_refl) in E0. discriminate.
Qed.

Lemma ad_find_app {V} k' (d1 d2 : list (str * V)) :
  ad_find str_eqb k' (d1 ++ d2) = match ad_find str_eqb k' d1 with Some v => Some v | None => ad_find str_eqb k' d2 end.
Proof. induction d1 as [|[k0 v0] d1 IH]; cbn [app ad_find]; [reflexivity|]. destruct (str_eqb k' k0); [reflexivity | exact IH]. Qed.

Lemma ad_find_set {V} k' k (v : V) d :
  ad_find str_eqb k' (ad_set str_eqb k v d) = if str_eqb k' k then Some v else ad_find str_eqb k' d.
Proof.
  unfold ad_set. destruct (ad_find str_eqb k d) eqn:E.
  - rewrite ad_find_update, E. reflexivity.
  - rewrite ad_find_app. cbn [ad_find].
    destruct (str_eqb k' k) eqn:E1.
    + apply str_eqb_true in E1. subst k'. rewrite E. reflexivity.
    + destruct (ad_find str_eqb k' d); reflexivity.
Qed.

(* a field of a message nests less deeply than the message *)
Lemma msg_get_depth {K} f (fs : list (string * pbval K)) v :
  msg_get f fs = Some v ->
  (pb_depth v <= (fix go (l : list (string * pbval K)) : nat :=
                    match l with [] => O | (_, v) :: l' => Nat.max (pb_depth v) (go l') end) fs)%nat.
Proof.
  induction fs as [|[n x] fs IH]; cbn [msg_get]; [discriminate|].
  destruct (String.eqb n f).
  - intros [= ->]. lia.
  - intros H. specialize (IH H). lia.
Qed.

Lemma msg_field_depth (f : string) (m v : pbval str) : msg_field f m = Some v -> (pb_depth v < pb_depth m)%nat.
Proof.
  unfold msg_field. destruct m as [z|b|s|n fs|l]; cbn [msg_fields msg_get]; try discriminate.
  intros H. apply msg_get_depth in H. cbn [pb_depth]. lia.
Qed.

(* ------------------------------------------------------------------ the lookup tables: size and length stay *)
Lemma at_size i (g : LookupDecoder SN) : LookupDecoder_lookup_size (snd (LookupDecoder_at SN i g)) = LookupDecoder_lookup_size g.
Proof.
  unfold LookupDecoder_at. cbn [LookupDecoder_data set_LookupDecoder_last_reused_index].
  destruct (seq_get (LookupDecoder_data g) (i - 1)) as [[v|]|e]; reflexivity.
Qed.

Lemma name_size i (g : LookupDecoder SN) :
  LookupDecoder_lookup_size (snd (LookupDecoder_decode_name_term_index SN i g)) = LookupDecoder_lookup_size g.
Proof.
  unfold LookupDecoder_decode_name_term_index. cbv zeta.
  match goal with |- context [if ?c then (Exn _, _) else _] => destruct c end; [reflexivity|].
  match goal with |- context [LookupDecoder_at SN ?j g] => pose proof (at_size j g) as H; destruct (LookupDecoder_at SN j g) as [[r|e] g'] end;
    exact H.
Qed.

Lemma prefix_size i (g : LookupDecoder SN) :
  LookupDecoder_lookup_size (snd (LookupDecoder_decode_prefix_term_index SN i g)) = LookupDecoder_lookup_size g.
Proof.
  unfold LookupDecoder_decode_prefix_term_index. cbv zeta.
  match goal with |- context [if ?c then (Val _, _) else _] => destruct c end; [reflexivity|].
  match goal with |- context [LookupDecoder_at SN ?j g] => pose proof (at_size j g) as H; destruct (LookupDecoder_at SN j g) as [[r|e] g'] end;
    exact H.
Qed.

Lemma datatype_size i (g : LookupDecoder SN) :
  LookupDecoder_lookup_size (snd (LookupDecoder_decode_datatype_term_index SN i g)) = LookupDecoder_lookup_size g.
Proof.
  unfold LookupDecoder_decode_datatype_term_index.
  destruct (i =? 0); [reflexivity|].
  pose proof (at_size i g) as H; destruct (LookupDecoder_at SN i g) as [[r|e] g']; exact H.
Qed.

Lemma assign_size i v (g : LookupDecoder SN) :
  LookupDecoder_lookup_size (snd (LookupDecoder_assign_entry SN i v g)) = LookupDecoder_lookup_size g.
Proof.
  unfold LookupDecoder_assign_entry. cbv zeta.
  destruct (i =? 0).
  - destruct (LookupDecoder_last_assigned_index g + 1 >? 0); [|reflexivity].
    destruct (seq_set _ _ _); reflexivity.
  - destruct (i >? 0); [|reflexivity]. destruct (seq_set _ _ _); reflexivity.
Qed.

Lemma m_at_data i (m m' : sldec) r : L.at_ i m = Some (m', r) -> L.d_data m' = L.d_data m.
Proof.
  unfold L.at_. destruct (L.in_range i m); [|discriminate].
  destruct (nth_error _ _) as [[v|]|]; try discriminate. intros [= <- _]. reflexivity.
Qed.

Lemma set_nth_length {A} n (x : A) l l' : L.set_nth n x l = Some l' -> length l' = length l.
Proof.
  revert l l'. induction n as [|n IH]; intros [|h t] l'; cbn; try discriminate.
  - intros [= <-]. reflexivity.
  - destruct (L.set_nth n x t) eqn:E; [|discriminate]. intros [= <-]. cbn. f_equal. exact (IH _ _ E).
Qed.

Lemma m_assign_len i v (m m' : sldec) : L.assign_entry i v m = Some m' -> length (L.d_data m') = length (L.d_data m).
Proof.
  unfold L.assign_entry. cbv zeta. destruct (L.in_range _ m); [|discriminate].
  destruct (L.set_nth _ _ _) eqn:E; [|discriminate]. intros [= <-]. cbn. exact (set_nth_length _ _ _ _ E).
Qed.

Lemma tiez_name idx g m : Rz g m ->
  match LookupDecoder_decode_name_term_index SN (Z.of_N idx) g, L.decode_name_term_index idx m with
  | (Val r, g'), Some (m', r') => r = r' /\ Rz g' m'
  | (Exn _, _), None => True
  | _, _ => False
  end.
Proof.
  intros [HR Hs]. pose proof (tie_decode_name_term_index SN idx g m HR) as H. pose proof (name_size (Z.of_N idx) g) as Hz.
  change (carrier SN) with str in *.
  destruct (LookupDecoder_decode_name_term_index SN (Z.of_N idx) g) as [[r|e] g']; destruct (L.decode_name_term_index idx m) as [[m' r']|] eqn:Em;
    try contradiction; [|exact I].
  destruct H as [-> HR']. split; [reflexivity|]. split; [exact HR'|]. cbn [snd] in Hz. rewrite Hz, Hs.
  unfold L.decode_name_term_index in Em. cbv zeta in Em. rewrite (m_at_data _ _ _ _ Em). reflexivity.
Qed.

Lemma tiez_prefix idx g m : Rz g m ->
  match LookupDecoder_decode_prefix_term_index SN (Z.of_N idx) g, L.decode_prefix_term_index idx m with
    | (Val r, g'), Some (m', r') => r = str_of SN r' /\ Rz g' m'
  | (Exn _, _), None => True
  | _, _ => False
  end.
Proof.
  intros [HR Hs]. pose proof (tie_decode_prefix_term_index SN idx g m HR) as H. pose proof (prefix_size (Z.of_N idx) g) as Hz.
  change (carrier SN) with str in *.
  destruct (LookupDecoder_decode_prefix_term_index SN (Z.of_N idx) g) as [[r|e] g']; destruct (L.decode_prefix_term_index idx m) as [[m' r']|] eqn:Em;
    try contradiction; [|exact I].
  destruct H as [-> HR']. split; [reflexivity|]. split; [exact HR'|]. cbn [snd] in Hz. rewrite Hz, Hs.
  unfold L.decode_prefix_term_index in Em. cbv zeta in Em.
  destruct (_ =? 0)%N in Em; [injection Em as <- _; reflexivity|].
  destruct (L.at_ _ m) as [[m2 v]|] eqn:Ea; [|discriminate]. injection Em as <- _. rewrite (m_at_data _ _ _ _ Ea). reflexivity.
Qed.

Lemma tiez_datatype idx g m : Rz g m ->
  match LookupDecoder_decode_datatype_term_index SN (Z.of_N idx) g, L.decode_datatype_term_index idx m with
  | (Val r, g'), Some (m', r') => r = Some r' /\ Rz g' m'
  | (Exn _, _), None => True
  | _, _ => False
  end.
Proof.
  intros [HR Hs]. pose proof (tie_decode_datatype_term_index SN idx g m HR) as H. pose proof (datatype_size (Z.of_N idx) g) as Hz.
  change (carrier SN) with str in *.
  destruct (LookupDecoder_decode_datatype_term_index SN (Z.of_N idx) g) as [[r|e] g']; destruct (L.decode_datatype_term_index idx m) as [[m' r']|] eqn:Em;
    try contradiction; [|exact I].
  destruct H as [-> HR']. split; [reflexivity|]. split; [exact HR'|]. cbn [snd] in Hz. rewrite Hz, Hs.
  unfold L.decode_datatype_term_index in Em. destruct (idx =? 0)%N; [discriminate|]. rewrite (m_at_data _ _ _ _ Em). reflexivity.
Qed.

Lemma tiez_assign idx v g m : Rz g m ->
  match LookupDecoder_assign_entry SN (Z.of_N idx) v g, L.assign_entry idx v m with
  | (Val _, g'), Some m' => Rz g' m'
  | (Exn _, _), None => True
  | _, _ => False
  end.
Proof.
  intros [HR Hs]. pose proof (tie_assign_entry SN idx v g m HR) as H. pose proof (assign_size (Z.of_N idx) v g) as Hz.
  change (carrier SN) with str in *.
  destruct (LookupDecoder_assign_entry SN (Z.of_N idx) v g) as [[r|e] g']; destruct (L.assign_entry idx v m) as [m'|] eqn:Em;
    try contradiction; [|exact I].
  split; [exact H|]. cbn [snd] in Hz. rewrite Hz, Hs, (m_assign_len _ _ _ _ Em). reflexivity.
Qed.


Definition reads_row (r : row) (m : pbval str) : Prop :=
  match r with
  | ROptions o => pb_kind m = "RdfStreamOptions"%string /\ reads_options m o
  | Terms.RPrefix i v => pb_kind m = "RdfPrefixEntry"%string /\ msg_int "id" m = Z.of_N i /\ msg_str (K := str) [] "value" m = v
  | Terms.RName i v => pb_kind m = "RdfNameEntry"%string /\ msg_int "id" m = Z.of_N i /\ msg_str (K := str) [] "value" m = v
  | Terms.RDatatype i v => pb_kind m = "RdfDatatypeEntry"%string /\ msg_int "id" m = Z.of_N i /\ msg_str (K := str) [] "value" m = v
  | RTriple s p o => pb_kind m = "RdfTriple"%string /\ reads_slot g_s s m /\ reads_slot g_p p m /\ reads_slot g_o o m
  | RQuad s p o g => pb_kind m = "RdfQuad"%string /\ reads_slot g_s s m /\ reads_slot g_p p m /\ reads_slot g_o o m /\ reads_slot g_g g m
  | RGraphStart g => pb_kind m = "RdfGraphStart"%string /\ reads_slot g_g g m
  | RGraphEnd => pb_kind m = "RdfGraphEnd"%string
  | RNamespace name p n =>
    pb_kind m = "RdfNamespaceDeclaration"%string /\ msg_str (K := str) [] "name" m = name /\
    msg_int "prefix_id" (msg_sub "value" "RdfIri" m) = Z.of_N p /\ msg_int "name_id" (msg_sub "value" "RdfIri" m) = Z.of_N n
  | REmpty => False
  end.

(* what decode_row returns against what the model says iter_rows yields for the row *)

(* ------------------------------------------------------------------ iter_rows: the rows of a frame *)
Definition g_rows := ["options"; "triple"; "quad"; "graph_start"; "graph_end"; "namespace"; "name"; "prefix"; "datatype"]%string.

(* a row of the frame (an RdfStreamRow) holds the row message under the name WhichOneof("row") gives; a row with nothing
   set is the model's REmpty *)
Definition reads_owner (r : row) (owner : pbval str) : Prop :=
  match r with
  | REmpty => msg_which g_rows owner = None
  | _ => exists f v, msg_which g_rows owner = Some f /\ msg_field f owner = Some v /\ reads_row r v
  end.

(* ------------------------------------------------------------------ the premises are satisfiable: for every row that
   protobuf can represent there is a message object that reads as it (the one with exactly the fields set) *)
Definition suffix (w : wterm) : string :=
  match w with WIri _ _ => "_iri" | WBnode _ => "_bnode" | WLit _ _ => "_literal" | WTriple _ _ _ => "_triple_term" | WDefault => "_default_graph" end.

Fixpoint wmsg (w : wterm) : pbval str :=
  match w with
  | WIri p n => PMsg "RdfIri" [("prefix_id"%string, PInt (Z.of_N p)); ("name_id"%string, PInt (Z.of_N n))]
  | WBnode l => PStr l
  | WLit lex k => PMsg "RdfLiteral" (("lex"%string, PStr lex) ::
                    match k with LkNone => [] | LkLang t => [("langtag"%string, PStr t)] | LkDt i => [("datatype"%string, PInt (Z.of_N i))] end)
  | WDefault => PMsg "RdfDefaultGraph" []
  | WTriple s p o =>
    PMsg "RdfTriple" (match s with Some s' => [(("s" ++ suffix s')%string, wmsg s')] | None => [] end ++
                      match p with Some p' => [(("p" ++ suffix p')%string, wmsg p')] | None => [] end ++
                      match o with Some o' => [(("o" ++ suffix o')%string, wmsg o')] | None => [] end)
  end.

Definition slot_fields (pre : string) (w : option wterm) : list (string * pbval str) :=
  match w with Some w' => [((pre ++ suffix w')%string, wmsg w')] | None => [] end.

(* what rdf.proto can say: no default graph as subject, predicate or object (nor inside a quoted triple); no quoted
   triple as a graph name *)
Fixpoint wf_term (w : wterm) : bool :=
  match w with
  | WTriple s p o =>
    match s with Some WDefault => false | Some s' => wf_term s' | None => true end &&
    match p with Some WDefault => false | Some p' => wf_term p' | None => true end &&
    match o with Some WDefault => false | Some o' => wf_term o' | None => true end
  | _ => true
  end.
Definition wf_spo (w : option wterm) : bool := match w with Some WDefault => false | Some w' => wf_term w' | None => true end.
Definition wf_g (w : option wterm) : bool := match w with Some (WTriple _ _ _) => false | Some w' => wf_term w' | None => true end.

Definition row_msg (r : row) : pbval str :=
  match r with
  | ROptions o => msg_sub "options" "RdfStreamOptions" (options_msg o)
  | Terms.RPrefix i v => PMsg "RdfPrefixEntry" [("id"%string, PInt (Z.of_N i)); ("value"%string, PStr v)]
  | Terms.RName i v => PMsg "RdfNameEntry" [("id"%string, PInt (Z.of_N i)); ("value"%string, PStr v)]
  | Terms.RDatatype i v => PMsg "RdfDatatypeEntry" [("id"%string, PInt (Z.of_N i)); ("value"%string, PStr v)]
  | RTriple s p o => PMsg "RdfTriple" (slot_fields "s" s ++ slot_fields "p" p ++ slot_fields "o" o)
  | RQuad s p o g => PMsg "RdfQuad" (slot_fields "s" s ++ slot_fields "p" p ++ slot_fields "o" o ++ slot_fields "g" g)
  | RGraphStart g => PMsg "RdfGraphStart" (slot_fields "g" g)
  | RGraphEnd => PMsg "RdfGraphEnd" []
  | RNamespace name p n => PMsg "RdfNamespaceDeclaration" [("name"%string, PStr name);
                             ("value"%string, PMsg "RdfIri" [("prefix_id"%string, PInt (Z.of_N p)); ("name_id"%string, PInt (Z.of_N n))])]
  | REmpty => PMsg "" []
  end.
Definition row_field (r : row) : string :=
  match r with
  | ROptions _ => "options" | Terms.RPrefix _ _ => "prefix" | Terms.RName _ _ => "name" | Terms.RDatatype _ _ => "datatype"
  | RTriple _ _ _ => "triple" | RQuad _ _ _ _ => "quad" | RGraphStart _ => "graph_start" | RGraphEnd => "graph_end"
  | RNamespace _ _ _ => "namespace" | REmpty => ""
  end.
Definition owner_msg (r : row) : pbval str :=
  match r with REmpty => PMsg "RdfStreamRow" [] | _ => PMsg "RdfStreamRow" [(row_field r, row_msg r)] end.

Definition wf_row (r : row) : bool :=
  match r with
  | RTriple s p o => wf_spo s && wf_spo p && wf_spo o
  | RQuad s p o g => wf_spo s && wf_spo p && wf_spo o && wf_g g
  | RGraphStart g => wf_g g
  | _ => true
  end.

Lemma wmsg_reads (w : wterm) : wf_term w = true -> reads_term w (wmsg w).
Proof.
  induction w as [p n|l|lex k| |a b c IHa IHb IHc] using wterm_ind'; intros Hwf; cbn [reads_term wmsg].
  - repeat split.
  - reflexivity.
  - split; [reflexivity|]. split; [reflexivity|]. destruct k; repeat split.
  - reflexivity.
  - cbn [wf_term] in Hwf. apply andb_true_iff in Hwf as [Hwf Hc]. apply andb_true_iff in Hwf as [Ha Hb].
    split; [reflexivity|].
    split; [|split].
    + destruct a as [a'|]; [|destruct b as [[]|], c as [[]|]; try discriminate; reflexivity].
      cbn [OP] in IHa. exists ("s" ++ suffix a')%string, (wmsg a').
      destruct a'; try discriminate; (split; [reflexivity|]); (split; [reflexivity|]); apply IHa; exact Ha.
    + destruct b as [b'|]; [|destruct a as [[]|], c as [[]|]; try discriminate; reflexivity].
      cbn [OP] in IHb. exists ("p" ++ suffix b')%string, (wmsg b').
      destruct b'; try discriminate; (split; [destruct a as [[]|]; try discriminate; reflexivity|]);
        (split; [destruct a as [[]|]; try discriminate; reflexivity|]); apply IHb; exact Hb.
    + destruct c as [c'|]; [|destruct a as [[]|], b as [[]|]; try discriminate; reflexivity].
      cbn [OP] in IHc. exists ("o" ++ suffix c')%string, (wmsg c').
      destruct c'; try discriminate; (split; [destruct a as [[]|], b as [[]|]; try discriminate; reflexivity|]);
        (split; [destruct a as [[]|], b as [[]|]; try discriminate; reflexivity|]); apply IHc; exact Hc.
Qed.

Lemma which_of_app (G : list string) (l1 l2 : list (string * pbval str)) :
  which_of G (l1 ++ l2) = match which_of G l1 with Some f => Some f | None => which_of G l2 end.
Proof. induction l1 as [|[n v] l1 IH]; cbn [app which_of]; [reflexivity|]. destruct (existsb (String.eqb n) G); [reflexivity | exact IH]. Qed.

Lemma msg_get_app f (l1 l2 : list (string * pbval str)) :
  msg_get f (l1 ++ l2) = match msg_get f l1 with Some v => Some v | None => msg_get f l2 end.
Proof. induction l1 as [|[n v] l1 IH]; cbn [app msg_get]; [reflexivity|]. destruct (String.eqb n f); [reflexivity | exact IH]. Qed.

(* a slot's field is found by its own group only, under its own name only *)
Definition own_slot (pre : string) (G : list string) : Prop :=
  forall w, (if String.eqb pre "g" then wf_g w else wf_spo w) = true ->
  match w with
  | Some w' => which_of G (slot_fields pre w) = Some (pre ++ suffix w')%string /\ msg_get (pre ++ suffix w')%string (slot_fields pre w) = Some (wmsg w')
  | None => which_of G (slot_fields pre w) = None
  end.
Lemma own_s : own_slot "s" g_s. Proof. intros [[]|]; cbn; try discriminate; intros _; repeat split. Qed.
Lemma own_p : own_slot "p" g_p. Proof. intros [[]|]; cbn; try discriminate; intros _; repeat split. Qed.
Lemma own_o : own_slot "o" g_o. Proof. intros [[]|]; cbn; try discriminate; intros _; repeat split. Qed.
Lemma own_g : own_slot "g" g_g. Proof. intros [[]|]; cbn; try discriminate; intros _; repeat split. Qed.

Definition foreign (pre pre' : string) (G : list string) : Prop :=
  forall w, which_of G (slot_fields pre w) = None /\ forall w', msg_get (pre' ++ suffix w')%string (slot_fields pre w) = None.
Ltac foreign_tac := intros [[]|]; (split; [reflexivity | intros []; reflexivity]).
Lemma for_sp : foreign "s" "p" g_p. Proof. foreign_tac. Qed.
Lemma for_so : foreign "s" "o" g_o. Proof. foreign_tac. Qed.
Lemma for_sg : foreign "s" "g" g_g. Proof. foreign_tac. Qed.
Lemma for_po : foreign "p" "o" g_o. Proof. foreign_tac. Qed.
Lemma for_pg : foreign "p" "g" g_g. Proof. foreign_tac. Qed.
Lemma for_og : foreign "o" "g" g_g. Proof. foreign_tac. Qed.

Lemma wf_spo_term w' : wf_spo (Some w') = true -> wf_term w' = true.
Proof. destruct w'; cbn; intros H; try exact H; try reflexivity; discriminate. Qed.
Lemma wf_g_term w' : wf_g (Some w') = true -> wf_term w' = true.
Proof. destruct w'; cbn; intros H; try exact H; try reflexivity; discriminate. Qed.

(* the slot pre of group G in a message whose fields are: foreign slots, then the slot, then anything *)
Lemma slot_reads n pre G (before : list (string * pbval str)) w after :
  own_slot pre G -> which_of G before = None -> (forall w', msg_get (pre ++ suffix w')%string before = None) ->
  (if String.eqb pre "g" then wf_g w else wf_spo w) = true ->
  (w = None -> which_of G after = None) ->
  reads_slot G w (PMsg n (before ++ slot_fields pre w ++ after)).
Proof.
  intros Hown Hb Hbg Hwf Hafter. specialize (Hown w Hwf). unfold reads_slot, msg_which, msg_field. cbn [msg_fields].
  destruct w as [w'|].
  - destruct Hown as [Hw Hg]. exists (pre ++ suffix w')%string, (wmsg w').
    rewrite which_of_app, Hb, which_of_app, Hw. split; [reflexivity|].
    rewrite msg_get_app, Hbg, msg_get_app, Hg. split; [reflexivity|].
    apply wmsg_reads. destruct (String.eqb pre "g"); [apply wf_g_term | apply wf_spo_term]; exact Hwf.
  - rewrite which_of_app, Hb, which_of_app, Hown. apply Hafter. reflexivity.
Qed.

Lemma none_app2 G (a b : list (string * pbval str)) : which_of G a = None -> which_of G b = None -> which_of G (a ++ b) = None.
Proof. intros Ha Hb. rewrite which_of_app, Ha. exact Hb. Qed.
Lemma get_none_app2 f (a b : list (string * pbval str)) : msg_get f a = None -> msg_get f b = None -> msg_get f (a ++ b) = None.
Proof. intros Ha Hb. rewrite msg_get_app, Ha. exact Hb. Qed.

Lemma foreign_back pre G : own_slot pre G -> True. Proof. trivial. Qed.

(* slots that come after the one looked for: invisible to its group (checked per pair) *)
Lemma after_ps w : which_of g_s (slot_fields "p" w) = None. Proof. destruct w as [[]|]; reflexivity. Qed.
Lemma after_os w : which_of g_s (slot_fields "o" w) = None. Proof. destruct w as [[]|]; reflexivity. Qed.
Lemma after_gs w : which_of g_s (slot_fields "g" w) = None. Proof. destruct w as [[]|]; reflexivity. Qed.
Lemma after_op w : which_of g_p (slot_fields "o" w) = None. Proof. destruct w as [[]|]; reflexivity. Qed.
Lemma after_gp w : which_of g_p (slot_fields "g" w) = None. Proof. destruct w as [[]|]; reflexivity. Qed.
Lemma after_go w : which_of g_o (slot_fields "g" w) = None. Proof. destruct w as [[]|]; reflexivity. Qed.

Theorem owner_msg_reads (r : row) : wf_row r = true -> reads_owner r (owner_msg r).
Proof.
  destruct r as [o|i v|i v|i v|s p o|s p o g|g| |name p n|]; cbn [wf_row]; intros Hwf; cbn [reads_owner owner_msg];
    try (eexists _, _; split; [reflexivity|]; split; [reflexivity|]; cbn [reads_row row_msg]).
  - split; [reflexivity|]. repeat split.
  - repeat split.
  - repeat split.
  - repeat split.
  - apply andb_true_iff in Hwf as [Hwf Ho]. apply andb_true_iff in Hwf as [Hs Hp].
    split; [reflexivity|]. split; [|split].
    + apply (slot_reads _ "s" g_s [] s); [exact own_s | reflexivity | reflexivity | exact Hs |].
      intros _. apply none_app2; [apply after_ps | apply after_os].
    + rewrite app_assoc. rewrite <- (app_nil_r (slot_fields "o" o)). rewrite <- app_assoc.
      apply (slot_reads _ "p" g_p (slot_fields "s" s) p); [exact own_p | apply for_sp | apply for_sp | exact Hp |].
      intros _. rewrite app_nil_r. apply after_op.
    + rewrite <- (app_nil_r (slot_fields "o" o)). rewrite !app_assoc. rewrite <- app_assoc.
      apply (slot_reads _ "o" g_o (slot_fields "s" s ++ slot_fields "p" p) o); [exact own_o | | | exact Ho | reflexivity].
      * apply none_app2; [apply for_so | apply for_po].
      * intros w'. apply get_none_app2; [apply for_so | apply for_po].
  - apply andb_true_iff in Hwf as [Hwf Hg]. apply andb_true_iff in Hwf as [Hwf Ho]. apply andb_true_iff in Hwf as [Hs Hp].
    split; [reflexivity|]. split; [|split; [|split]].
    + apply (slot_reads _ "s" g_s [] s); [exact own_s | reflexivity | reflexivity | exact Hs |].
      intros _. apply none_app2; [apply after_ps | apply none_app2; [apply after_os | apply after_gs]].
    + apply (slot_reads _ "p" g_p (slot_fields "s" s) p); [exact own_p | apply for_sp | apply for_sp | exact Hp |].
      intros _. apply none_app2; [apply after_op | apply after_gp].
    + rewrite (app_assoc (slot_fields "s" s)).
      apply (slot_reads _ "o" g_o (slot_fields "s" s ++ slot_fields "p" p) o); [exact own_o | | | exact Ho | intros _; apply after_go].
      * apply none_app2; [apply for_so | apply for_po].
      * intros w'. apply get_none_app2; [apply for_so | apply for_po].
    + rewrite <- (app_nil_r (slot_fields "g" g)). rewrite !app_assoc. rewrite <- app_assoc.
      apply (slot_reads _ "g" g_g ((slot_fields "s" s ++ slot_fields "p" p) ++ slot_fields "o" o) g); [exact own_g | | | exact Hg | reflexivity].
      * apply none_app2; [apply none_app2; [apply for_sg | apply for_pg] | apply for_og].
      * intros w'. apply get_none_app2; [apply get_none_app2; [apply for_sg | apply for_pg] | apply for_og].
  - split; [reflexivity|]. rewrite <- (app_nil_r (slot_fields "g" g)).
    apply (slot_reads _ "g" g_g [] g); [exact own_g | reflexivity | reflexivity | exact Hwf | reflexivity].
  - reflexivity.
  - repeat split.
  - reflexivity.
Qed.

(* so: whatever rows a frame carries (that rdf.proto can say), the translated iter_rows over the message object with
   exactly those fields set does what the model's decode_rows does -- no premise about the message left *)
(* ------------------------------------------------------------------ Decoder.__init__ *)
Lemma init_size z (g : LookupDecoder SN) : LookupDecoder___init__ SN z = Val g -> LookupDecoder_lookup_size g = z.
Proof.
  unfold LookupDecoder___init__. destruct (z >? 4096); [discriminate|].
  destruct (deque_make _ _); [|discriminate]. intros [= <-]. reflexivity.
Qed.

Lemma tiez_init size :
  match LookupDecoder___init__ SN (Z.of_N size), ldec_new size with
  | Val g, Ok m => Rz g m
  | Exn e, Err me => e = exn_of me
  | _, _ => False
  end.
Proof.
  unfold ldec_new, MAX_LOOKUP_SIZE. destruct (4096 <? size)%N eqn:E.
  - rewrite (tie_init_decoder_too_large SN size) by lia. reflexivity.
  - destruct (tie_init_decoder SN size ltac:(lia)) as (g & Hg & HR). rewrite Hg. split; [exact HR|].
    rewrite (init_size _ _ Hg). cbn [L.ldec_init L.d_data]. rewrite repeat_length. lia.
Qed.

Print Assumptions owner_msg_reads.
