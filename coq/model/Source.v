(* Source.v -- how get_options_and_frames obtains the header and the stream from the three
   kinds of byte source of C09 (pyjelly/parse/ioutils.py after the header-read fix):
   an in-memory buffer / seekable file reads three bytes and seeks back; a non-seekable raw
   source is read until three bytes have arrived or the input ends, each raw read returning
   between one byte and what was asked for, as its schedule dictates, and the bytes are put
   back in front of the rest. *)
From PJ.Model Require Import Base Terms Wire Encoder Streams Decoder.

Inductive source :=
| Buffer (b : list N)
| Seekable (b : list N)
| Raw (sched : list nat) (b : list N).   (* sizes the transport offers per read; 1 when exhausted *)

(* one raw read of at most [want] bytes *)
Definition raw_read (want : nat) (sched : list nat) (rest : list N) : list N * list nat * list N :=
  let offer := match sched with s :: _ => s | [] => 1%nat end in
  let n := Nat.min want (Nat.max 1 offer) in
  (firstn n rest, tl sched, skipn n rest).

(* the loop: while len(header) < 3: chunk = read(3 - len(header)); if not chunk: break *)
Fixpoint read_header (fuel : nat) (have : list N) (sched : list nat) (rest : list N) : list N * list N :=
  match fuel with
  | O => (have, rest)
  | S f =>
    if Nat.leb 3 (length have) then (have, rest) else
    let '(chunk, sched', rest') := raw_read (3 - length have) sched rest in
    match chunk with
    | [] => (have, rest)
    | _ => read_header f (have ++ chunk) sched' rest'
    end
  end.

(* header used for the decision, and the byte string the parser then reads *)
Definition acquire (s : source) : list N * list N :=
  match s with
  | Buffer b | Seekable b => (firstn 3 b, b)
  | Raw sched b => let '(h, rest) := read_header 4 [] sched b in (h, h ++ rest)
  end.

Definition parse_source (ig : integ) (grouped strict : bool) (s : source) : parse_result :=
  let '(h, b) := acquire s in parse_stream_h h ig grouped strict b.
