(* Audit.v -- the compression contract of C19 as counters over a row sequence, evaluated with
   the state of the Spec referee: redundant lookup entries, missed elisions of repeated terms,
   missed zero forms of ids, repeated graph starts. *)
From PJ.Model Require Import Base Terms Spec.

Record counters := { c_redundant : N; c_elision : N; c_zero : N; c_gstart : N; c_entries : N }.
Definition zero_counters : counters :=
  {| c_redundant := 0; c_elision := 0; c_zero := 0; c_gstart := 0; c_entries := 0 |}.

Definition cadd (a b : counters) : counters :=
  {| c_redundant := c_redundant a + c_redundant b; c_elision := c_elision a + c_elision b;
     c_zero := c_zero a + c_zero b; c_gstart := c_gstart a + c_gstart b;
     c_entries := c_entries a + c_entries b |}.

Definition b2n (b : bool) : N := if b then 1 else 0.

Fixpoint resident (v : str) (t : table) : bool :=
  match t with
  | [] => false
  | Some x :: r => str_eqb v x || resident v r
  | None :: r => resident v r
  end.

(* an entry row: redundant when the string is resident; a missed zero when the explicit id is
   the sequential one *)
Definition audit_entry (id : N) (v : str) (t : table) (la : N) : counters :=
  {| c_redundant := b2n (resident v t); c_elision := 0;
     c_zero := b2n (negb (id =? 0) && (id =? la + 1)); c_gstart := 0; c_entries := 1 |}.

(* the ids of the IRIs of a term, in order, threading last prefix / name ids *)
Fixpoint audit_wterm (w : wterm) (lp ln : N) : N * N * N :=   (* missed zeros, new lp, new ln *)
  match w with
  | WIri p n =>
    let rp := if p =? 0 then lp else p in
    let rn := if n =? 0 then ln + 1 else n in
    (b2n (negb (p =? 0) && (p =? lp)) + b2n (negb (n =? 0) && (n =? ln + 1)), rp, rn)
  | WTriple (Some a) (Some b) (Some c) =>
    let '(z1, lp1, ln1) := audit_wterm a lp ln in
    let '(z2, lp2, ln2) := audit_wterm b lp1 ln1 in
    let '(z3, lp3, ln3) := audit_wterm c lp2 ln2 in
    (z1 + z2 + z3, lp3, ln3)
  | _ => (0, lp, ln)
  end.

Definition audit_slot (w : option wterm) (lp ln : N) : N * N * N :=
  match w with Some w' => audit_wterm w' lp ln | None => (0, lp, ln) end.

(* a present slot whose term equals the previous one is a missed elision *)
Definition missed (w : option wterm) (decoded : term) (prev : option term) : N :=
  match w, prev with
  | Some _, Some p => b2n (term_eqb p decoded)
  | _, _ => 0
  end.

(* audit one row in state s, knowing the state s' and the events Spec produced for it *)
Definition audit_row (r : row) (s s' : sstate) : counters :=
  match r with
  | RName id v => audit_entry id v (s_names s) (s_la_n s)
  | RPrefix id v => audit_entry id v (s_prefixes s) (s_la_p s)
  | RDatatype id v => audit_entry id v (s_datatypes s) (s_la_d s)
  | RTriple a b c =>
    let '(z1, lp1, ln1) := audit_slot a (s_last_pid s) (s_last_nid s) in
    let '(z2, lp2, ln2) := audit_slot b lp1 ln1 in
    let '(z3, _, _) := audit_slot c lp2 ln2 in
    let el := match s_ps s', s_pp s', s_po s' with
              | Some ta, Some tb, Some tc => missed a ta (s_ps s) + missed b tb (s_pp s) + missed c tc (s_po s)
              | _, _, _ => 0 end in
    {| c_redundant := 0; c_elision := el; c_zero := z1 + z2 + z3; c_gstart := 0; c_entries := 0 |}
  | RQuad a b c g =>
    let '(z1, lp1, ln1) := audit_slot a (s_last_pid s) (s_last_nid s) in
    let '(z2, lp2, ln2) := audit_slot b lp1 ln1 in
    let '(z3, lp3, ln3) := audit_slot c lp2 ln2 in
    let '(z4, _, _) := audit_slot g lp3 ln3 in
    let el := match s_ps s', s_pp s', s_po s', s_pg s' with
              | Some ta, Some tb, Some tc, Some tg =>
                missed a ta (s_ps s) + missed b tb (s_pp s) + missed c tc (s_po s) + missed g tg (s_pg s)
              | _, _, _, _ => 0 end in
    {| c_redundant := 0; c_elision := el; c_zero := z1 + z2 + z3 + z4; c_gstart := 0; c_entries := 0 |}
  | RGraphStart g =>
    let '(z, _, _) := audit_slot g (s_last_pid s) (s_last_nid s) in
    {| c_redundant := 0; c_elision := 0; c_zero := z; c_gstart := 0; c_entries := 0 |}
  | RNamespace _ p n =>
    let '(z, _, _) := audit_wterm (WIri p n) (s_last_pid s) (s_last_nid s) in
    {| c_redundant := 0; c_elision := 0; c_zero := z; c_gstart := 0; c_entries := 0 |}
  | _ => zero_counters
  end.

(* the graph of the last graph start seen, for the "single graph start" clause *)
Fixpoint audit_from (rows : list row) (s : sstate) (lastg : option term) (acc : counters) : option counters :=
  match rows with
  | [] => Some acc
  | r :: rest =>
    match step r s with
    | SBad _ => None
    | SOk (s', _) =>
      let c := audit_row r s s' in
      let '(c', lastg') :=
        match r with
        | RGraphStart _ =>
          match s_open s', lastg with
          | Some g, Some g0 => (cadd c {| c_redundant := 0; c_elision := 0; c_zero := 0; c_gstart := b2n (term_eqb g g0); c_entries := 0 |}, Some g)
          | Some g, None => (c, Some g)
          | None, _ => (c, lastg)
          end
        | _ => (c, lastg)
        end in
      audit_from rest s' lastg' (cadd acc c')
    end
  end.

Definition audit (rows : list row) : option counters :=
  match rows with
  | ROptions o :: rest =>
    match start o with SOk s => audit_from rest s None zero_counters | SBad _ => None end
  | _ => None
  end.

Definition audit_frames (fs : list frame) : option counters := audit (flat_map f_rows fs).
