(* World.v -- a process holding several streams and decoders at once (C12): the state of the
   process is the list of their states and nothing else; an interleaving is a list of
   (index, operation). *)
From PJ.Model Require Import Base.

Section World.
Context {S Op Out : Type} (step : Op -> S -> S * Out).

Fixpoint update (i : nat) (x : S) (w : list S) : list S :=
  match i, w with
  | _, [] => []
  | O, _ :: r => x :: r
  | Datatypes.S i', y :: r => y :: update i' x r
  end.

(* one step of component i; an index outside the world does nothing *)
Definition wstep (iop : nat * Op) (w : list S) : list S * option Out :=
  match nth_error w (fst iop) with
  | Some s => let '(s', o) := step (snd iop) s in (update (fst iop) s' w, Some o)
  | None => (w, None)
  end.

Fixpoint wrun (ops : list (nat * Op)) (w : list S) : list S * list (nat * Out) :=
  match ops with
  | [] => (w, [])
  | iop :: rest =>
    let '(w', o) := wstep iop w in
    let '(w'', outs) := wrun rest w' in
    (w'', match o with Some x => (fst iop, x) :: outs | None => outs end)
  end.

(* component i alone, on its own operations *)
Fixpoint run_alone (ops : list Op) (s : S) : S * list Out :=
  match ops with
  | [] => (s, [])
  | op :: rest => let '(s', o) := step op s in let '(s'', outs) := run_alone rest s' in (s'', o :: outs)
  end.

Definition ops_of (i : nat) (ops : list (nat * Op)) : list Op :=
  map snd (filter (fun iop => Nat.eqb (fst iop) i) ops).
Definition outs_of (i : nat) (outs : list (nat * Out)) : list Out :=
  map snd (filter (fun io => Nat.eqb (fst io) i) outs).
End World.
