(* Api.v -- the entry points the correspondence driver calls: thin compositions of the
   model's own definitions, nothing new. *)
From PJ.Model Require Import Base Lookup Terms Wire Encoder Streams Decoder Spec Audit Source.

(* ---------- LK: writer and reader lookups coupled, one use of a key ---------- *)
Inductive lk_rule := LkName | LkPrefix | LkDatatype.

Record lk_obs := {
  lo_entry : option N;          (* id on the entry row, None = no entry row *)
  lo_term : N;                  (* id on the term *)
  lo_resolved : option str;     (* what the reader resolves; None = reader error *)
  lo_wlen : N;                  (* live entries on the writer *)
  lo_la_w : N; lo_lr_w : N; lo_la_r : N; lo_lr_r : N }.

Definition lk_use (rule : lk_rule) (k : str) (e : slenc) (d : sldec)
  : option (slenc * sldec * lk_obs) :=
  match encode_entry_index str_eqb k e with
  | None => None
  | Some (e1, oe) =>
    match (match oe with Some id => assign_entry id k d | None => Some d end) with
    | None => None
    | Some d1 =>
      match (match rule with
             | LkName => encode_name_term_index str_eqb k e1
             | LkPrefix => encode_prefix_term_index str_eqb (is_nil k) k e1
             | LkDatatype => encode_datatype_term_index str_eqb k e1
             end) with
      | None => None
      | Some (e2, ti) =>
        let r := match rule with
                 | LkName => match decode_name_term_index ti d1 with
                             | Some (d2, v) => Some (d2, Some v) | None => None end
                 | LkPrefix => match decode_prefix_term_index ti d1 with
                               | Some (d2, Some v) => Some (d2, Some v)
                               | Some (d2, None) => Some (d2, Some [])
                               | None => None end
                 | LkDatatype => match decode_datatype_term_index ti d1 with
                                 | Some (d2, v) => Some (d2, Some v) | None => None end
                 end in
        let d2 := match r with Some (d2, _) => d2 | None => d1 end in
        Some (e2, d2,
              {| lo_entry := oe; lo_term := ti;
                 lo_resolved := match r with Some (_, v) => v | None => None end;
                 lo_wlen := nlen (l_data (e_lookup e2));
                 lo_la_w := e_last_assigned e2; lo_lr_w := e_last_reused e2;
                 lo_la_r := d_last_assigned d2; lo_lr_r := d_last_reused d2 |})
      end
    end
  end.

Fixpoint lk_run (rule : lk_rule) (keys : list str) (e : slenc) (d : sldec) : list (option lk_obs) :=
  match keys with
  | [] => []
  | k :: rest =>
    match lk_use rule k e d with
    | None => [None]
    | Some (e', d', o) => Some o :: lk_run rule rest e' d'
    end
  end.

Definition api_lookup (rule : lk_rule) (size : N) (keys : list str) : list (option lk_obs) :=
  lk_run rule keys (lenc_init size) (ldec_init size).

(* ---------- EN: a serializer run ---------- *)
Definition api_encode (c : stream_class) (ig : integ) (o : soptions) (d : sdata)
  : res (stream * list tev) :=
  do s <- stream_new c ig o; Ok (stream_frames d s).

(* grouped_stream_to_frames: one stream shared by all sinks *)
Fixpoint grouped_frames (sinks : list sdata) (s : stream) : stream * list tev :=
  match sinks with
  | [] => (s, [])
  | d :: rest =>
    let '(s', evs) := stream_frames d s in
    match raised evs with
    | Some _ => (s', evs)
    | None => let '(s'', evs') := grouped_frames rest s' in (s'', evs ++ evs')
    end
  end.

Definition api_encode_grouped (c : stream_class) (ig : integ) (o : soptions) (sinks : list sdata)
  : res (stream * list tev) :=
  do s <- stream_new c ig o; Ok (grouped_frames sinks s).

(* statement-by-statement driving with catch-and-continue (C20) *)
Inductive sop :=
| OpTriple (terms : list term)
| OpQuad (terms : list term)
| OpGraph (g : term) (triples : list (list term))
| OpNamespace (name iri : str)
| OpFlush.

Definition run_op (op : sop) (s : stream) : stream * list tev :=
  match op with
  | OpTriple t => match stream_triple t s with (s', Ok fr) => (s', emit_opt fr) | (s', Err e) => (s', [Raise e]) end
  | OpQuad t => match stream_quad t s with (s', Ok fr) => (s', emit_opt fr) | (s', Err e) => (s', [Raise e]) end
  | OpGraph g ts => let '(s', evs, _) := stream_graph g ts s in (s', evs)
  | OpNamespace n i => match namespace_declaration n i s with (s', Ok _) => (s', []) | (s', Err e) => (s', [Raise e]) end
  | OpFlush => let '(fl, fr) := to_stream_frame (st_flow s) in (with_flow s fl, emit_opt fr)
  end.

Fixpoint run_ops (ops : list sop) (s : stream) : stream * list (list tev) :=
  match ops with
  | [] => (s, [])
  | op :: rest =>
    let '(s', evs) := run_op op s in
    let '(s'', r) := run_ops rest s' in (s'', evs :: r)
  end.

Definition api_steps (c : stream_class) (ig : integ) (o : soptions) (ops : list sop)
  : res (stream * list (list tev)) :=
  do s <- stream_new c ig o; Ok (run_ops ops (enroll s)).

(* ---------- SP: the referee on bytes ---------- *)
(* a byte string is read the way a consumer would: framing by the header hint *)
Definition frames_of_bytes (b : list N) : option (list frame) :=
  if hint (firstn 3 b) then
    match read_frames b with (fs, FiEof) => Some fs | (_, FiError) => None end
  else match parse_frame b with Some f => Some [f] | None => None end.

Definition api_spec_bytes (b : list N) : option verdict :=
  match frames_of_bytes b with Some fs => Some (run_frames fs) | None => None end.

Fixpoint parse_payloads (ps : list (list N)) : option (list frame) :=
  match ps with
  | [] => Some []
  | p :: rest =>
    match parse_frame p, parse_payloads rest with
    | Some f, Some fs => Some (f :: fs) | _, _ => None
    end
  end.

Definition api_spec_payloads (ps : list (list N)) : option verdict :=
  match parse_payloads ps with Some fs => Some (run_frames fs) | None => None end.

(* ---------- PA: a parser run ---------- *)
Definition api_parse (ig : integ) (grouped strict : bool) (b : list N) : parse_result :=
  parse_stream ig grouped strict b.

(* ---------- WF: wire round trip of one frame payload ---------- *)
Definition api_reser (p : list N) : option (list N) :=
  match parse_frame p with Some f => Some (ser_frame f) | None => None end.

(* ---------- ER: an rdflib serializer run ---------- *)
Definition api_encode_rdflib (c : stream_class) (o : soptions) (d : rdata) : res (stream * list tev) :=
  do s <- stream_new c Rdflib o; Ok (rdf_stream_frames d s).

Fixpoint rdf_grouped_frames (sinks : list rdata) (s : stream) : stream * list tev :=
  match sinks with
  | [] => (s, [])
  | d :: rest =>
    let '(s', evs) := rdf_stream_frames d s in
    match raised evs with
    | Some _ => (s', evs)
    | None => let '(s'', evs') := rdf_grouped_frames rest s' in (s'', evs ++ evs')
    end
  end.

Definition api_encode_rdflib_grouped (c : stream_class) (o : soptions) (sinks : list rdata)
  : res (stream * list tev) :=
  do s <- stream_new c Rdflib o; Ok (rdf_grouped_frames sinks s).

(* ---------- the *_to_frames entry points ---------- *)
(* generic grouped_stream_to_frames: options and stream class guessed from the first sink *)
Definition api_grouped_generic (o : option soptions) (sinks : list sdata) : res (stream * list tev) :=
  match sinks with
  | [] => Err StopIter                      (* nothing is created, nothing written *)
  | first :: _ =>
    let quads := negb (is_triples_sink (d_stmts first)) in
    let opts := match o with Some x => x | None => guess_options Generic quads end in
    do s <- stream_new (guess_stream_class (so_logical opts) quads) Generic opts;
    Ok (grouped_frames sinks s)
  end.

Definition api_grouped_rdflib (o : option soptions) (sinks : list rdata) : res (stream * list tev) :=
  match sinks with
  | [] => Err StopIter
  | first :: _ =>
    let quads := match rd_kind first with RDataset => true | _ => false end in
    let opts := match o with Some x => x | None => guess_options Rdflib quads end in
    do s <- stream_new (guess_stream_class (so_logical opts) quads) Rdflib opts;
    Ok (rdf_grouped_frames sinks s)
  end.

(* ---------- AU: the compression audit on bytes ---------- *)
Definition api_audit_bytes (b : list N) : option counters :=
  match frames_of_bytes b with Some fs => audit_frames fs | None => None end.

(* ---------- PS: a parser run over a source with a read schedule ---------- *)
Definition api_parse_raw (ig : integ) (grouped strict : bool) (sched : list nat) (b : list N) : parse_result :=
  parse_source ig grouped strict (Raw sched b).
