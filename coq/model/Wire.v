(* Wire.v -- protobuf (proto3) wire format of the Jelly messages of rdf.proto:
   canonical serialisation (field order, default omission, oneof presence), a parser for the
   same schema, and the length-prefixed framing of google.protobuf.proto
   (serialize_length_prefixed / parse_length_prefixed) used by
   pyjelly/serialize/ioutils.py and pyjelly/parse/ioutils.py. *)
From PJ.Model Require Import Base Terms.

(* ---------- varint ---------- *)
Fixpoint venc (fuel : nat) (n : N) : list N :=
  match fuel with
  | O => [n]
  | S f => if n <? 128 then [n] else (n mod 128 + 128) :: venc f (n / 128)
  end.
Definition varint (n : N) : list N := venc (N.size_nat n) n.

(* decode one varint from the front: Some (value, rest); None when the bytes end first
   or more than 10 bytes are used (protobuf: "Too many bytes when decoding varint"). *)
Fixpoint vdec (fuel : nat) (shift : N) (acc : N) (b : list N) : option (N * list N) :=
  match fuel, b with
  | O, _ => None
  | _, [] => None
  | S f, x :: b' =>
    let acc' := acc + N.shiftl (x mod 128) shift in
    if x <? 128 then Some (acc', b') else vdec f (shift + 7) acc' b'
  end.
Definition varint_dec (b : list N) : option (N * list N) := vdec 10 0 0 b.

(* ---------- serialisation ---------- *)
Definition tag (field wt : N) : list N := varint (field * 8 + wt).
Definition f_varint (field n : N) : list N := tag field 0 ++ varint n.
Definition f_len (field : N) (payload : list N) : list N := tag field 2 ++ varint (nlen payload) ++ payload.
(* proto3 scalar outside a oneof: omitted when default *)
Definition f_varint_opt (field n : N) : list N := if n =? 0 then [] else f_varint field n.
Definition f_str_opt (field : N) (s : str) : list N := if is_nil s then [] else f_len field s.
Definition f_bool_opt (field : N) (b : bool) : list N := if b then f_varint field 1 else [].

Definition ser_iri (p n : N) : list N := f_varint_opt 1 p ++ f_varint_opt 2 n.

Definition ser_lit (lex : str) (k : wlitkind) : list N :=
  f_str_opt 1 lex ++
  match k with
  | LkNone => []
  | LkLang t => f_len 2 t
  | LkDt d => f_varint 3 d
  end.

(* a term in one of the s/p/o slots: [base] is the first field number of the oneof *)
Fixpoint ser_spo (base : N) (t : wterm) : list N :=
  match t with
  | WIri p n => f_len base (ser_iri p n)
  | WBnode l => f_len (base + 1) l
  | WLit lex k => f_len (base + 2) (ser_lit lex k)
  | WTriple s p o =>
    f_len (base + 3)
      ((match s with Some t' => ser_spo 1 t' | None => [] end) ++
       (match p with Some t' => ser_spo 5 t' | None => [] end) ++
       (match o with Some t' => ser_spo 9 t' | None => [] end))
  | WDefault => []              (* not representable in an s/p/o slot *)
  end.

Definition ser_slot (base : N) (t : option wterm) : list N :=
  match t with Some t' => ser_spo base t' | None => [] end.

(* a graph term: fields base (iri), base+1 (bnode), base+2 (default graph), base+3 (literal) *)
Definition ser_graph (base : N) (t : option wterm) : list N :=
  match t with
  | None => []
  | Some (WIri p n) => f_len base (ser_iri p n)
  | Some (WBnode l) => f_len (base + 1) l
  | Some WDefault => f_len (base + 2) []
  | Some (WLit lex k) => f_len (base + 3) (ser_lit lex k)
  | Some (WTriple _ _ _) => []  (* not representable *)
  end.

Definition ser_triple (s p o : option wterm) : list N :=
  ser_slot 1 s ++ ser_slot 5 p ++ ser_slot 9 o.

Definition ser_options (o : woptions) : list N :=
  f_str_opt 1 (o_name o) ++ f_varint_opt 2 (o_phys o) ++ f_bool_opt 3 (o_gen o) ++
  f_bool_opt 4 (o_star o) ++ f_varint_opt 9 (o_maxn o) ++ f_varint_opt 10 (o_maxp o) ++
  f_varint_opt 11 (o_maxd o) ++ f_varint_opt 14 (o_logical o) ++ f_varint_opt 15 (o_version o).

Definition ser_entry (id : N) (v : str) : list N := f_varint_opt 1 id ++ f_str_opt 2 v.

Definition ser_row (r : row) : list N :=
  match r with
  | ROptions o => f_len 1 (ser_options o)
  | RTriple s p o => f_len 2 (ser_triple s p o)
  | RQuad s p o g => f_len 3 (ser_triple s p o ++ ser_graph 13 g)
  | RGraphStart g => f_len 4 (ser_graph 1 g)
  | RGraphEnd => f_len 5 []
  | RNamespace name p n => f_len 6 (f_str_opt 1 name ++ f_len 2 (ser_iri p n))
  | RName id v => f_len 9 (ser_entry id v)
  | RPrefix id v => f_len 10 (ser_entry id v)
  | RDatatype id v => f_len 11 (ser_entry id v)
  | REmpty => []
  end.

Definition ser_meta (kv : str * str) : list N :=
  f_len 15 (f_str_opt 1 (fst kv) ++ f_str_opt 2 (snd kv)).

Definition ser_frame (f : frame) : list N :=
  flat_map (fun r => f_len 1 (ser_row r)) (f_rows f) ++ flat_map ser_meta (f_meta f).

(* write_single / write_delimited *)
Definition write_single (f : frame) : list N := ser_frame f.
Definition write_delimited1 (f : frame) : list N :=
  let b := ser_frame f in varint (nlen b) ++ b.
Definition write_delimited (fs : list frame) : list N := flat_map write_delimited1 fs.

(* ---------- parsing ---------- *)
Inductive wval := VVar (n : N) | VLen (b : list N) | VFix (b : list N).

Fixpoint take {A} (n : nat) (l : list A) : option (list A * list A) :=
  match n, l with
  | O, _ => Some ([], l)
  | S _, [] => None
  | S n', x :: l' => match take n' l' with Some (a, b) => Some (x :: a, b) | None => None end
  end.

(* split a message into (field number, value) pairs; None = malformed *)
Fixpoint parse_fields (fuel : nat) (b : list N) : option (list (N * wval)) :=
  match b with
  | [] => Some []
  | _ =>
    match fuel with
    | O => None
    | S f =>
      match varint_dec b with
      | None => None
      | Some (t, b1) =>
        let field := t / 8 in
        let wt := t mod 8 in
        if field =? 0 then None else
        if wt =? 0 then
          match varint_dec b1 with
          | Some (v, b2) =>
            match parse_fields f b2 with Some r => Some ((field, VVar v) :: r) | None => None end
          | None => None
          end
        else if wt =? 2 then
          match varint_dec b1 with
          | Some (n, b2) =>
            if nlen b2 <? n then None else       (* declared length beyond the data *)
            match take (N.to_nat n) b2 with
            | Some (payload, b3) =>
              match parse_fields f b3 with Some r => Some ((field, VLen payload) :: r) | None => None end
            | None => None
            end
          | None => None
          end
        else if wt =? 1 then
          match take 8 b1 with
          | Some (p, b2) => match parse_fields f b2 with Some r => Some ((field, VFix p) :: r) | None => None end
          | None => None
          end
        else if wt =? 5 then
          match take 4 b1 with
          | Some (p, b2) => match parse_fields f b2 with Some r => Some ((field, VFix p) :: r) | None => None end
          | None => None
          end
        else None
      end
    end
  end.

Definition fields_of (b : list N) : option (list (N * wval)) := parse_fields (length b) b.

Definition u32 (n : N) : N := n mod 4294967296.

(* last occurrence wins *)
Fixpoint get_var (field : N) (fs : list (N * wval)) (dflt : N) : N :=
  match fs with
  | [] => dflt
  | (f, VVar v) :: r => if f =? field then get_var field r (u32 v) else get_var field r dflt
  | _ :: r => get_var field r dflt
  end.
Fixpoint get_len (field : N) (fs : list (N * wval)) (dflt : list N) : list N :=
  match fs with
  | [] => dflt
  | (f, VLen v) :: r => if f =? field then get_len field r v else get_len field r dflt
  | _ :: r => get_len field r dflt
  end.

Definition parse_iri (b : list N) : option (N * N) :=
  match fields_of b with
  | Some fs => Some (get_var 1 fs 0, get_var 2 fs 0)
  | None => None
  end.

(* the last field among 2 (langtag) / 3 (datatype) decides the oneof *)
Fixpoint lit_kind (fs : list (N * wval)) (acc : wlitkind) : wlitkind :=
  match fs with
  | [] => acc
  | (f, VLen v) :: r => if f =? 2 then lit_kind r (LkLang v) else lit_kind r acc
  | (f, VVar v) :: r => if f =? 3 then lit_kind r (LkDt (u32 v)) else lit_kind r acc
  | _ :: r => lit_kind r acc
  end.

Definition parse_lit (b : list N) : option wterm :=
  match fields_of b with
  | Some fs => Some (WLit (get_len 1 fs []) (lit_kind fs LkNone))
  | None => None
  end.

(* fields base..base+3 of an s/p/o oneof; the last one present wins.  Quoted triples
   recurse on [fuel]. *)
Fixpoint parse_triple_fields (fuel : nat) :
  list (N * wval) -> option wterm -> option wterm -> option wterm ->
  option (option wterm * option wterm * option wterm) :=
  fix go (fs : list (N * wval)) (s p o : option wterm) {struct fs} :=
  match fs with
  | [] => Some (s, p, o)
  | (f, v) :: r =>
    if (1 <=? f) && (f <=? 12) then
      let slot := (f - 1) / 4 in
      let kind := (f - 1) mod 4 in
      let t : option (option wterm) :=
        match kind, v with
        | 0, VLen b => match parse_iri b with Some (pi, ni) => Some (Some (WIri pi ni)) | None => None end
        | 1, VLen b => Some (Some (WBnode b))
        | 2, VLen b => match parse_lit b with Some l => Some (Some l) | None => None end
        | 3, VLen b =>
          match fuel with
          | O => None
          | S fu =>
            match fields_of b with
            | Some fs' =>
              match parse_triple_fields fu fs' None None None with
              | Some (s', p', o') => Some (Some (WTriple s' p' o'))
              | None => None
              end
            | None => None
            end
          end
        | _, _ => None          (* wrong wire type for a known field *)
        end in
      match t with
      | None => None
      | Some t' =>
        if slot =? 0 then go r t' p o
        else if slot =? 1 then go r s t' o
        else go r s p t'
      end
    else go r s p o
  end.

Fixpoint parse_graph_fields (base : N) (fs : list (N * wval)) (g : option wterm) : option (option wterm) :=
  match fs with
  | [] => Some g
  | (f, VLen b) :: r =>
    if f =? base then
      match parse_iri b with Some (pi, ni) => parse_graph_fields base r (Some (WIri pi ni)) | None => None end
    else if f =? base + 1 then parse_graph_fields base r (Some (WBnode b))
    else if f =? base + 2 then
      match fields_of b with Some _ => parse_graph_fields base r (Some WDefault) | None => None end
    else if f =? base + 3 then
      match parse_lit b with Some l => parse_graph_fields base r (Some l) | None => None end
    else parse_graph_fields base r g
  | (f, _) :: r =>
    if (base <=? f) && (f <=? base + 3) then None else parse_graph_fields base r g
  end.

Definition parse_options (b : list N) : option woptions :=
  match fields_of b with
  | Some fs =>
    Some {| o_name := get_len 1 fs []; o_phys := get_var 2 fs 0;
            o_gen := negb (get_var 3 fs 0 =? 0); o_star := negb (get_var 4 fs 0 =? 0);
            o_maxn := get_var 9 fs 0; o_maxp := get_var 10 fs 0; o_maxd := get_var 11 fs 0;
            o_logical := get_var 14 fs 0; o_version := get_var 15 fs 0 |}
  | None => None
  end.

Definition parse_entry (b : list N) : option (N * str) :=
  match fields_of b with
  | Some fs => Some (get_var 1 fs 0, get_len 2 fs [])
  | None => None
  end.

(* the last row-oneof field present wins *)
Fixpoint parse_row_fields (fs : list (N * wval)) (acc : row) : option row :=
  match fs with
  | [] => Some acc
  | (f, VLen b) :: r =>
    let nxt (x : option row) := match x with Some x' => parse_row_fields r x' | None => None end in
    if f =? 1 then nxt (match parse_options b with Some o => Some (ROptions o) | None => None end)
    else if f =? 2 then
      nxt (match fields_of b with
           | Some fs' => match parse_triple_fields (length b) fs' None None None with
                         | Some (s, p, o) => Some (RTriple s p o) | None => None end
           | None => None end)
    else if f =? 3 then
      nxt (match fields_of b with
           | Some fs' => match parse_triple_fields (length b) fs' None None None, parse_graph_fields 13 fs' None with
                         | Some (s, p, o), Some g => Some (RQuad s p o g) | _, _ => None end
           | None => None end)
    else if f =? 4 then
      nxt (match fields_of b with
           | Some fs' => match parse_graph_fields 1 fs' None with Some g => Some (RGraphStart g) | None => None end
           | None => None end)
    else if f =? 5 then nxt (match fields_of b with Some _ => Some RGraphEnd | None => None end)
    else if f =? 6 then
      nxt (match fields_of b with
           | Some fs' => match parse_iri (get_len 2 fs' []) with
                         | Some (pi, ni) => Some (RNamespace (get_len 1 fs' []) pi ni) | None => None end
           | None => None end)
    else if f =? 9 then nxt (match parse_entry b with Some (i, v) => Some (RName i v) | None => None end)
    else if f =? 10 then nxt (match parse_entry b with Some (i, v) => Some (RPrefix i v) | None => None end)
    else if f =? 11 then nxt (match parse_entry b with Some (i, v) => Some (RDatatype i v) | None => None end)
    else parse_row_fields r acc
  | (f, _) :: r =>
    if ((1 <=? f) && (f <=? 6)) || ((9 <=? f) && (f <=? 11)) then None else parse_row_fields r acc
  end.

Definition parse_row (b : list N) : option row :=
  match fields_of b with Some fs => parse_row_fields fs REmpty | None => None end.

Definition parse_meta (b : list N) : option (str * str) :=
  match fields_of b with
  | Some fs => Some (get_len 1 fs [], get_len 2 fs [])
  | None => None
  end.

Fixpoint parse_frame_fields (fs : list (N * wval)) : option (list row * list (str * str)) :=
  match fs with
  | [] => Some ([], [])
  | (f, VLen b) :: r =>
    if f =? 1 then
      match parse_row b, parse_frame_fields r with
      | Some x, Some (rows, md) => Some (x :: rows, md) | _, _ => None end
    else if f =? 15 then
      match parse_meta b, parse_frame_fields r with
      | Some kv, Some (rows, md) => Some (rows, kv :: md) | _, _ => None end
    else parse_frame_fields r
  | (f, _) :: r => if (f =? 1) || (f =? 15) then None else parse_frame_fields r
  end.

(* google.protobuf.proto.parse(RdfStreamFrame, bytes); None = DecodeError *)
Definition parse_frame (b : list N) : option frame :=
  match fields_of b with
  | Some fs =>
    match parse_frame_fields fs with
    | Some (rows, md) => Some {| f_rows := rows; f_meta := md |}
    | None => None
    end
  | None => None
  end.

(* parse_length_prefixed in a loop = frame_iterator.  Result: the frames read, then how
   the iteration ended. *)
Inductive fi_end := FiEof | FiError.

Fixpoint frame_iterator (fuel : nat) (b : list N) : list frame * fi_end :=
  match b with
  | [] => ([], FiEof)
  | _ =>
    match fuel with
    | O => ([], FiError)
    | S fu =>
      match varint_dec b with
      | None => ([], FiError)                      (* EOF inside the size, or > 10 bytes *)
      | Some (size, b1) =>
        if size =? 0 then
          let '(fs, e) := frame_iterator fu b1 in (mkframe [] :: fs, e)
        else
          if nlen b1 <? size then ([], FiError) else   (* parsed_size <> size *)
          match take (N.to_nat size) b1 with
          | None => ([], FiError)
          | Some (payload, b2) =>
            match parse_frame payload with
            | None => ([], FiError)
            | Some f => let '(fs, e) := frame_iterator fu b2 in (f :: fs, e)
            end
          end
      end
    end
  end.

Definition read_frames (b : list N) : list frame * fi_end := frame_iterator (length b) b.
