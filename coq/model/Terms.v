(* Terms.v -- API-level terms, wire-level terms, rows and frames.
   API terms follow pyjelly/integrations/generic/generic_sink.py; wire terms, rows and
   frames follow rdf.proto (oneof presence is explicit: [option]). *)
From PJ.Model Require Import Base.

(* ---- API terms ---- *)
Inductive term :=
| TIri (iri : str)
| TBnode (label : str)
| TLit (lex : str) (lang : option str) (dt : option str)
| TTriple (s p o : term)
| TDefault
| TOther.                      (* any object the encoders do not know *)

Fixpoint term_eqb (a b : term) : bool :=
  match a, b with
  | TIri x, TIri y => str_eqb x y
  | TBnode x, TBnode y => str_eqb x y
  | TLit l1 g1 d1, TLit l2 g2 d2 => str_eqb l1 l2 && opt_eqb str_eqb g1 g2 && opt_eqb str_eqb d1 d2
  | TTriple s1 p1 o1, TTriple s2 p2 o2 => term_eqb s1 s2 && term_eqb p1 p2 && term_eqb o1 o2
  | TDefault, TDefault => true
  | TOther, TOther => true
  | _, _ => false
  end.

(* ---- wire terms ---- *)
Inductive wlitkind := LkNone | LkLang (tag : str) | LkDt (id : N).

Inductive wterm :=
| WIri (prefix_id name_id : N)
| WBnode (label : str)
| WLit (lex : str) (k : wlitkind)
| WTriple (s p o : option wterm)
| WDefault.

Record woptions := {
  o_name : str; o_phys : N; o_gen : bool; o_star : bool;
  o_maxn : N; o_maxp : N; o_maxd : N; o_logical : N; o_version : N }.

Inductive row :=
| ROptions (o : woptions)
| RPrefix (id : N) (v : str)
| RName (id : N) (v : str)
| RDatatype (id : N) (v : str)
| RTriple (s p o : option wterm)
| RQuad (s p o g : option wterm)
| RGraphStart (g : option wterm)
| RGraphEnd
| RNamespace (name : str) (prefix_id name_id : N)
| REmpty.                      (* a row whose oneof is not set *)

Record frame := { f_rows : list row; f_meta : list (str * str) }.

Definition mkframe (rows : list row) : frame := {| f_rows := rows; f_meta := [] |}.

(* ---- decoded events ---- *)
Inductive event :=
| ETriple (s p o : term)
| EQuad (s p o g : term)
| EPrefix (name : str) (iri : str).

Definition xsd_string : str :=
  (* "http://www.w3.org/2001/XMLSchema#string" *)
  [104;116;116;112;58;47;47;119;119;119;46;119;51;46;111;114;103;47;50;48;48;49;47;
   88;77;76;83;99;104;101;109;97;35;115;116;114;105;110;103].

Definition rdflib_default_graph : str :=
  (* "urn:x-rdflib:default" *)
  [117;114;110;58;120;45;114;100;102;108;105;98;58;100;101;102;97;117;108;116].

(* ---- what rdflib's Literal constructor does with a lexical form and a language tag (rdflib/term.py, Literal.__new__;
        the specification is compared with the real rdflib on every run that uses it) ---- *)
Definition xsd_token : str :=
  (* "http://www.w3.org/2001/XMLSchema#token" *)
  [104;116;116;112;58;47;47;119;119;119;46;119;51;46;111;114;103;47;50;48;48;49;47;
   88;77;76;83;99;104;101;109;97;35;116;111;107;101;110].
Definition xsd_normalized_string : str :=
  (* "http://www.w3.org/2001/XMLSchema#normalizedString" *)
  [104;116;116;112;58;47;47;119;119;119;46;119;51;46;111;114;103;47;50;48;48;49;47;
   88;77;76;83;99;104;101;109;97;35;110;111;114;109;97;108;105;122;101;100;83;116;114;105;110;103].

(* _normalise_XSD_STRING: .replace("\t", " ").replace("\n", " ").replace("\r", " ") *)
Definition ws_replace (lex : str) : str :=
  map (fun c => if (c =? 9) || (c =? 10) || (c =? 13) then 32 else c) lex.

(* str.strip(): the characters with str.isspace(), in UTF-8.  Length in bytes of such a character at the head of s (0: none):
   U+0009..000D, U+001C..001F, U+0020 | U+0085, U+00A0 | U+1680, U+2000..200A, U+2028, U+2029, U+202F, U+205F, U+3000 *)
Definition ws1 (c : N) : bool := ((9 <=? c) && (c <=? 13)) || ((28 <=? c) && (c <=? 32)).
Definition ws2 (c d : N) : bool := (c =? 194) && ((d =? 133) || (d =? 160)).
Definition ws3 (c d e : N) : bool :=
  ((c =? 225) && (d =? 154) && (e =? 128)) ||
  ((c =? 226) && (d =? 128) && (((128 <=? e) && (e <=? 138)) || (e =? 168) || (e =? 169) || (e =? 175))) ||
  ((c =? 226) && (d =? 129) && (e =? 159)) ||
  ((c =? 227) && (d =? 128) && (e =? 128)).
Definition ws_head (s : str) : nat :=
  match s with
  | c :: r =>
    if ws1 c then 1%nat else
    match r with
    | d :: r2 => if ws2 c d then 2%nat else match r2 with e :: _ => if ws3 c d e then 3%nat else 0%nat | [] => 0%nat end
    | [] => 0%nat
    end
  | [] => 0%nat
  end.
(* the same at the END of a string, given reversed (valid UTF-8: a lead byte is never a continuation byte) *)
Definition ws_last (rs : str) : nat :=
  match rs with
  | c :: r =>
    if ws1 c then 1%nat else
    match r with
    | d :: r2 => if ws2 d c then 2%nat else match r2 with e :: _ => if ws3 e d c then 3%nat else 0%nat | [] => 0%nat end
    | [] => 0%nat
    end
  | [] => 0%nat
  end.
Fixpoint strip_by (f : str -> nat) (fuel : nat) (s : str) : str :=
  match fuel with
  | O => s
  | S fuel' => match f s with O => s | n => strip_by f fuel' (skipn n s) end
  end.
Definition py_strip (s : str) : str :=
  let l := strip_by ws_head (length s) s in
  rev (strip_by ws_last (length l) (rev l)).

(* re.sub(" +", " ", s) *)
Fixpoint collapse_spaces (s : str) : str :=
  match s with
  | c :: r => if (c =? 32) && match r with d :: _ => d =? 32 | [] => false end then collapse_spaces r else c :: collapse_spaces r
  | [] => []
  end.

(* the lexical form an rdflib Literal of datatype dt holds when built from lex *)
Definition rdflib_lex (dt : option str) (lex : str) : str :=
  match dt with
  | Some d =>
    if str_eqb d xsd_token then collapse_spaces (py_strip (ws_replace lex))
    else if str_eqb d xsd_normalized_string then ws_replace lex
    else lex
  | None => lex
  end.

(* _is_valid_langtag: re.match("^[a-zA-Z]+(?:-[a-zA-Z0-9]+)*$", tag)  ($ also matches before one final newline) *)
Definition is_alpha (c : N) : bool := ((65 <=? c) && (c <=? 90)) || ((97 <=? c) && (c <=? 122)).
Definition is_alnum (c : N) : bool := is_alpha c || ((48 <=? c) && (c <=? 57)).
(* seg: in a segment that already has a character; first: the segment is the first one (letters only) *)
Fixpoint langtag_from (first seg : bool) (s : str) : bool :=
  match s with
  | [] => seg
  | c :: r =>
    if (if first then is_alpha c else is_alnum c) then langtag_from first true r
    else if (c =? 45) && seg then langtag_from false false r
    else (c =? 10) && seg && match r with [] => true | _ => false end
  end.
Definition valid_langtag (t : str) : bool := langtag_from true false t.
