(* Terms.v -- API-level terms, wire-level terms, rows and frames.
   API terms follow pyjelly/integrations/generic/generic_sink.py; wire terms, rows and
   frames follow rdf.proto (oneof presence is explicit: [option]). *)
From PJ.Model Require Import Base.

(* ---- API terms ---- *)
Inductive term :=
| TIri (iri : str)
| TBnode (label : str)
| TLit (lex : str) (lang : option str) (dt : option str)
| TTriple (s p o : term)
| TDefault
| TOther.                      (* any object the encoders do not know *)

Fixpoint term_eqb (a b : term) : bool :=
  match a, b with
  | TIri x, TIri y => str_eqb x y
  | TBnode x, TBnode y => str_eqb x y
  | TLit l1 g1 d1, TLit l2 g2 d2 => str_eqb l1 l2 && opt_eqb str_eqb g1 g2 && opt_eqb str_eqb d1 d2
  | TTriple s1 p1 o1, TTriple s2 p2 o2 => term_eqb s1 s2 && term_eqb p1 p2 && term_eqb o1 o2
  | TDefault, TDefault => true
  | TOther, TOther => true
  | _, _ => false
  end.

(* ---- wire terms ---- *)
Inductive wlitkind := LkNone | LkLang (tag : str) | LkDt (id : N).

Inductive wterm :=
| WIri (prefix_id name_id : N)
| WBnode (label : str)
| WLit (lex : str) (k : wlitkind)
| WTriple (s p o : option wterm)
| WDefault.

Record woptions := {
  o_name : str; o_phys : N; o_gen : bool; o_star : bool;
  o_maxn : N; o_maxp : N; o_maxd : N; o_logical : N; o_version : N }.

Inductive row :=
| ROptions (o : woptions)
| RPrefix (id : N) (v : str)
| RName (id : N) (v : str)
| RDatatype (id : N) (v : str)
| RTriple (s p o : option wterm)
| RQuad (s p o g : option wterm)
| RGraphStart (g : option wterm)
| RGraphEnd
| RNamespace (name : str) (prefix_id name_id : N)
| REmpty.                      (* a row whose oneof is not set *)

Record frame := { f_rows : list row; f_meta : list (str * str) }.

Definition mkframe (rows : list row) : frame := {| f_rows := rows; f_meta := [] |}.

(* ---- decoded events ---- *)
Inductive event :=
| ETriple (s p o : term)
| EQuad (s p o g : term)
| EPrefix (name : str) (iri : str).

Definition xsd_string : str :=
  (* "http://www.w3.org/2001/XMLSchema#string" *)
  [104;116;116;112;58;47;47;119;119;119;46;119;51;46;111;114;103;47;50;48;48;49;47;
   88;77;76;83;99;104;101;109;97;35;115;116;114;105;110;103].

Definition rdflib_default_graph : str :=
  (* "urn:x-rdflib:default" *)
  [117;114;110;58;120;45;114;100;102;108;105;98;58;100;101;102;97;117;108;116].
