(* Obs.v -- observation functions for the extraction cross-check: the driver (extracted OCaml) prints,
   for a sample of the commands it answered, a Coq [Example] stating that the SAME model function,
   evaluated by the kernel's vm_compute on the same input, yields the same observation.  These
   projections only drop state that the driver does not print either. *)
From PJ.Model Require Import Base Lookup Terms Wire Encoder Streams Decoder Spec Audit Source Api.

Local Open Scope N_scope.

Definition obs_tev (e : tev) : N * list N :=
  match e with Pull => (0, []) | Emit f => (1, ser_frame f) | Raise _ => (2, []) end.

Definition obs_encode (c : stream_class) (ig : integ) (o : soptions) (d : sdata)
  : option (list (N * list N) * nat * bool) :=
  match api_encode c ig o d with
  | Err _ => None
  | Ok (s, evs) => Some (map obs_tev evs, length (fl_rows (st_flow s)), st_failed s)
  end.

Definition obs_frame_result (fr : frame_result) : list (str * str) * list event * bool :=
  let '(md, evs, err) := fr in (md, evs, match err with Some _ => true | None => false end).

Definition obs_parse (ig : integ) (grouped strict : bool) (b : list N)
  : nat * bool * list (list (str * str) * list event * bool) :=
  let r := api_parse ig grouped strict b in
  (pr_preread r, match pr_end r with PEnd => true | PRaise _ => false end, map obs_frame_result (pr_frames r)).
