(* Base.v -- common conventions of the pyjelly model.
   Bytes are plain N (< 256 by construction); a Python [str] is the list of its UTF-8
   bytes.  Python exceptions are a small enum carried by [res]. *)
From Coq Require Export List NArith Bool.
Export ListNotations.
Open Scope N_scope.

Definition str := list N.

Fixpoint str_eqb (a b : str) : bool :=
  match a, b with
  | [], [] => true
  | x :: a', y :: b' => (x =? y) && str_eqb a' b'
  | _, _ => false
  end.

Inductive exn :=
| KeyErr | IndexErr | Conformance | JAssertion | AssertionErr | NotImpl
| TypeErr | ValueErr | DecodeErr | StopIter | AttrErr.

Inductive res (A : Type) := Ok (a : A) | Err (e : exn).
Arguments Ok {A} a.
Arguments Err {A} e.

Definition bind {A B} (r : res A) (f : A -> res B) : res B :=
  match r with Ok a => f a | Err e => Err e end.
Notation "'do' x <- r ; k" := (bind r (fun x => k))
  (at level 200, x pattern, r at level 100, k at level 200, right associativity).

Definition is_ok {A} (r : res A) : bool := match r with Ok _ => true | Err _ => false end.

Definition opt_eqb {A} (eqb : A -> A -> bool) (a b : option A) : bool :=
  match a, b with
  | None, None => true
  | Some x, Some y => eqb x y
  | _, _ => false
  end.

Definition is_nil {A} (l : list A) : bool := match l with [] => true | _ => false end.

Fixpoint mem_str (k : str) (l : list str) : bool :=
  match l with [] => false | x :: l' => str_eqb k x || mem_str k l' end.

Definition nlen {A} (l : list A) : N := N.of_nat (length l).
