(* Streams.v -- model of pyjelly/options.py (type compatibility, presets),
   pyjelly/serialize/flows.py, pyjelly/serialize/streams.py and the *_stream_frames
   generators of both integrations (integrations/*/serialize.py) as trace functions. *)
From PJ.Model Require Import Base Lookup Terms Encoder.

(* ---------- options.py ---------- *)
Definition MIN_NAME_LOOKUP_SIZE : N := 8.
Definition MAX_LOOKUP_SIZE : N := 4096.
Definition MAX_VERSION : N := 2.
Definition DEFAULT_FRAME_SIZE : N := 250.

(* TRIPLES_ONLY_LOGICAL_TYPES = {GRAPHS=3, SUBJECT_GRAPHS=13, FLAT_TRIPLES=1} *)
Definition triples_only_logical (l : N) : bool := (l =? 3) || (l =? 13) || (l =? 1).

(* validate_type_compatibility: true = accepted *)
Definition type_compat (phys logical : N) : bool :=
  if (phys =? 0) || (logical =? 0) then true
  else Bool.eqb (phys =? 1) (triples_only_logical logical).

Definition logical_flat (l : N) : bool := (l =? 1) || (l =? 2).

(* LookupPreset.__post_init__ *)
(* LookupPreset.__post_init__: the name table holds at least 8 entries; no table more than 4096 *)
Definition preset_ok (maxn maxp maxd : N) : bool :=
  negb (maxn <? MIN_NAME_LOOKUP_SIZE) && (maxn <=? MAX_LOOKUP_SIZE) && (maxp <=? MAX_LOOKUP_SIZE) && (maxd <=? MAX_LOOKUP_SIZE).

(* ---------- flows.py ---------- *)
Inductive flow_kind := FManual | FBounded | FFlatTriples | FFlatQuads | FGraphs | FDatasets.

Definition class_logical (k : flow_kind) : N :=
  match k with
  | FManual | FBounded => 0 | FFlatTriples => 1 | FFlatQuads => 2 | FGraphs => 3 | FDatasets => 4
  end.

Definition is_bounded (k : flow_kind) : bool :=
  match k with FBounded | FFlatTriples | FFlatQuads => true | _ => false end.

Record flow := { fl_kind : flow_kind; fl_logical : N; fl_frame_size : N; fl_rows : list row }.

(* FrameFlow.__init__: logical_type or class.logical_type; frame_size or DEFAULT *)
Definition flow_new (k : flow_kind) (logical frame_size : N) : flow :=
  {| fl_kind := k;
     fl_logical := if logical =? 0 then class_logical k else logical;
     fl_frame_size := if frame_size =? 0 then DEFAULT_FRAME_SIZE else frame_size;
     fl_rows := [] |}.

Definition flow_set_rows (f : flow) (rows : list row) : flow :=
  {| fl_kind := fl_kind f; fl_logical := fl_logical f; fl_frame_size := fl_frame_size f; fl_rows := rows |}.

Definition flow_extend (f : flow) (rows : list row) : flow := flow_set_rows f (fl_rows f ++ rows).

(* to_stream_frame *)
Definition to_stream_frame (f : flow) : flow * option frame :=
  match fl_rows f with
  | [] => (f, None)
  | rows => (flow_set_rows f [], Some (mkframe rows))
  end.

Definition frame_from_bounds (f : flow) : flow * option frame :=
  if is_bounded (fl_kind f) then
    if fl_frame_size f <=? nlen (fl_rows f) then to_stream_frame f else (f, None)
  else (f, None).

Definition frame_from_graph (f : flow) : flow * option frame :=
  match fl_kind f with FGraphs => to_stream_frame f | _ => (f, None) end.

Definition frame_from_dataset (f : flow) : flow * option frame :=
  match fl_kind f with FDatasets => to_stream_frame f | _ => (f, None) end.

(* flow_for_type: logical % 10 looked up in FLOW_DISPATCH *)
Definition flow_for_type (logical : N) : res flow_kind :=
  let b := logical mod 10 in
  if b =? 1 then Ok FFlatTriples else if b =? 2 then Ok FFlatQuads
  else if b =? 3 then Ok FGraphs else if b =? 4 then Ok FDatasets
  else if b =? 0 then Err NotImpl else Err ValueErr.

(* ---------- streams.py ---------- *)
Inductive stream_class := TripleStream | QuadStream | GraphStream.

Definition physical_type (c : stream_class) : N :=
  match c with TripleStream => 1 | QuadStream => 2 | GraphStream => 3 end.

Definition default_flow_class (c : stream_class) : flow_kind :=
  match c with TripleStream => FFlatTriples | _ => FFlatQuads end.

Record sparams := {
  p_gen : bool; p_star : bool; p_delimited : bool; p_nd : bool; p_name : str }.

(* StreamParameters.__post_init__: version from namespace_declarations *)
Definition params_version (p : sparams) : N := if p_nd p then 2 else 1.

Record soptions := {
  so_flow : option flow;               (* SerializerOptions.flow *)
  so_frame_size : N; so_logical : N; so_params : sparams;
  so_maxn : N; so_maxp : N; so_maxd : N }.

Definition infer_flow (c : stream_class) (o : soptions) : res flow :=
  if p_delimited (so_params o) then
    do k <- (if so_logical o =? 0 then Ok (default_flow_class c) else flow_for_type (so_logical o));
    if is_bounded k then Ok (flow_new k (so_logical o) (so_frame_size o))
    else Ok (flow_new k (so_logical o) 0)
  else Ok (flow_new FManual (so_logical o) 0).

Record stream := {
  st_class : stream_class; st_integ : integ; st_opts : soptions;
  st_enc : tenc; st_flow : flow; st_rep : repeated;
  st_enrolled : bool; st_failed : bool; st_logical : N }.

(* Stream.__init__ (the LookupPreset check happens when the options are built) *)
Definition stream_new (c : stream_class) (ig : integ) (o : soptions) : res stream :=
  if negb (preset_ok (so_maxn o) (so_maxp o) (so_maxd o)) then Err Conformance else
  do fl <- (match so_flow o with Some f => Ok f | None => infer_flow c o end);
  if negb (type_compat (physical_type c) (fl_logical fl)) then Err JAssertion else
  Ok {| st_class := c; st_integ := ig; st_opts := o;
        st_enc := tenc_init (so_maxn o) (so_maxp o) (so_maxd o);
        st_flow := fl; st_rep := repeated_init;
        st_enrolled := false; st_failed := false; st_logical := fl_logical fl |}.

Definition with_flow (s : stream) (f : flow) : stream :=
  {| st_class := st_class s; st_integ := st_integ s; st_opts := st_opts s; st_enc := st_enc s;
     st_flow := f; st_rep := st_rep s; st_enrolled := st_enrolled s; st_failed := st_failed s;
     st_logical := st_logical s |}.

Definition with_enc (s : stream) (t : tenc) (rp : repeated) (f : flow) : stream :=
  {| st_class := st_class s; st_integ := st_integ s; st_opts := st_opts s; st_enc := t;
     st_flow := f; st_rep := rp; st_enrolled := st_enrolled s; st_failed := st_failed s;
     st_logical := st_logical s |}.

Definition set_failed (s : stream) : stream :=
  {| st_class := st_class s; st_integ := st_integ s; st_opts := st_opts s; st_enc := st_enc s;
     st_flow := st_flow s; st_rep := st_rep s; st_enrolled := st_enrolled s; st_failed := true;
     st_logical := st_logical s |}.

Definition options_row (s : stream) : row :=
  let o := st_opts s in let p := so_params o in
  ROptions {| o_name := p_name p; o_phys := physical_type (st_class s);
              o_gen := p_gen p; o_star := p_star p;
              o_maxn := so_maxn o; o_maxp := so_maxp o; o_maxd := so_maxd o;
              o_logical := st_logical s; o_version := params_version p |}.

Definition enroll (s : stream) : stream :=
  if st_enrolled s then s else
  {| st_class := st_class s; st_integ := st_integ s; st_opts := st_opts s; st_enc := st_enc s;
     st_flow := flow_extend (st_flow s) [options_row s]; st_rep := st_rep s;
     st_enrolled := true; st_failed := st_failed s; st_logical := st_logical s |}.

(* a step returns the new stream and either an optional frame or the exception *)
Definition step_result := (stream * res (option frame))%type.

Definition refuse (s : stream) : step_result := (s, Err JAssertion).

(* Stream.namespace_declaration *)
Definition namespace_declaration (name iri : str) (s : stream) : stream * res unit :=
  if st_failed s then (s, Err JAssertion) else
  match encode_namespace_declaration name iri (st_enc s) with
  | Err e => (set_failed s, Err e)
  | Ok (t', rows) => (with_enc s t' (st_rep s) (flow_extend (st_flow s) rows), Ok tt)
  end.

(* TripleStream.triple / QuadStream.quad *)
Definition stream_triple (terms : list term) (s : stream) : step_result :=
  if st_failed s then refuse s else
  match encode_triple (st_integ s) terms (st_enc s) (st_rep s) with
  | Err e => (set_failed s, Err e)
  | Ok (t', rp', rows) =>
    let '(fl, fr) := frame_from_bounds (flow_extend (st_flow s) rows) in
    (with_enc s t' rp' fl, Ok fr)
  end.

Definition stream_quad (terms : list term) (s : stream) : step_result :=
  if st_failed s then refuse s else
  match encode_quad (st_integ s) terms (st_enc s) (st_rep s) with
  | Err e => (set_failed s, Err e)
  | Ok (t', rp', rows) =>
    let '(fl, fr) := frame_from_bounds (flow_extend (st_flow s) rows) in
    (with_enc s t' rp' fl, Ok fr)
  end.

(* ---------- traces ---------- *)
(* what a generator does, in program order *)
Inductive tev :=
| Pull                      (* next() on the caller's input iterator *)
| Emit (f : frame)          (* a frame handed to the caller *)
| Raise (e : exn).          (* the generator dies *)

Definition emit_opt (o : option frame) : list tev := match o with Some f => [Emit f] | None => [] end.

(* GraphStream.graph: graph start, the triples, graph end; stops at the first error *)
Fixpoint graph_triples (triples : list (list term)) (s : stream) : stream * list tev * bool :=
  match triples with
  | [] => (s, [], true)
  | tr :: rest =>
    match stream_triple tr s with
    | (s', Err e) => (s', [Raise e], false)
    | (s', Ok fr) =>
      let '(s'', evs, ok) := graph_triples rest s' in (s'', emit_opt fr ++ evs, ok)
    end
  end.

Definition stream_graph (gid : term) (triples : list (list term)) (s : stream) : stream * list tev * bool :=
  if st_failed s then (s, [Raise JAssertion], false) else
  match encode_graph_start (st_integ s) gid (st_enc s) with
  | Err e => (set_failed s, [Raise e], false)
  | Ok (t', rows) =>
    let s1 := with_enc s t' (st_rep s) (flow_extend (st_flow s) rows) in
    let '(s2, evs, ok) := graph_triples triples s1 in
    if ok then
      let '(fl, fr) := frame_from_bounds (flow_extend (st_flow s2) [RGraphEnd]) in
      (with_flow s2 fl, evs ++ emit_opt fr, true)
    else (s2, evs, false)
  end.

(* the caller's data: a sink (with namespaces) or a plain generator of statements *)
Record sdata := {
  d_is_sink : bool;
  d_namespaces : list (str * str);
  d_stmts : list (list term) }.

Fixpoint declare_all (ns : list (str * str)) (s : stream) : stream * res unit :=
  match ns with
  | [] => (s, Ok tt)
  | (name, iri) :: rest =>
    match namespace_declaration name iri s with
    | (s', Ok _) => declare_all rest s'
    | (s', Err e) => (s', Err e)
    end
  end.

(* end of input: frame_from_graph / frame_from_dataset, then the unconditional flush *)
Definition finish (graph_flush : bool) (s : stream) : stream * list tev :=
  let '(fl1, fr1) := if graph_flush then frame_from_graph (st_flow s) else frame_from_dataset (st_flow s) in
  let '(fl2, fr2) := to_stream_frame fl1 in
  (with_flow s fl2, emit_opt fr1 ++ emit_opt fr2).

Fixpoint feed (step : list term -> stream -> step_result) (stmts : list (list term)) (s : stream)
  : stream * list tev * bool :=
  match stmts with
  | [] => (s, [Pull], true)                  (* the pull that finds the input exhausted *)
  | st :: rest =>
    match step st s with
    | (s', Err e) => (s', [Pull; Raise e], false)
    | (s', Ok fr) =>
      let '(s'', evs, ok) := feed step rest s' in (s'', Pull :: emit_opt fr ++ evs, ok)
    end
  end.

(* namespace_declarations(data, stream) where data may be a generator: AttributeError *)
Definition ns_phase (always : bool) (d : sdata) (s : stream) : stream * res unit :=
  if p_nd (so_params (st_opts s)) then
    if d_is_sink d then declare_all (d_namespaces d) s
    else if always then (s, Err AttrErr) else (s, Ok tt)
  else (s, Ok tt).

(* triples_stream_frames (generic; for rdflib a Graph behaves the same) *)
Definition triples_stream_frames (d : sdata) (s : stream) : stream * list tev :=
  let s0 := enroll s in
  match ns_phase false d s0 with
  | (s1, Err e) => (s1, [Raise e])
  | (s1, Ok _) =>
    let '(s2, evs, ok) := feed stream_triple (d_stmts d) s1 in
    if ok then let '(s3, fin) := finish true s2 in (s3, evs ++ fin) else (s2, evs)
  end.

Definition quads_stream_frames (d : sdata) (s : stream) : stream * list tev :=
  let s0 := enroll s in
  match ns_phase true d s0 with
  | (s1, Err e) => (s1, [Raise e])
  | (s1, Ok _) =>
    let '(s2, evs, ok) := feed stream_quad (d_stmts d) s1 in
    if ok then let '(s3, fin) := finish false s2 in (s3, evs ++ fin) else (s2, evs)
  end.

(* split_to_graphs: maximal runs of statements with equal graph term.
   Each element: (graph id, its triples, number of statements pulled to know the run ended) *)
Definition graph_of (st : list term) : option term := nth_error st 3.

Fixpoint split_runs (stmts : list (list term)) (cur : option (term * list (list term)))
  : list (term * list (list term)) :=
  match stmts with
  | [] => match cur with Some (g, ts) => [(g, ts)] | None => [] end
  | st :: rest =>
    let g := match graph_of st with Some g => g | None => TOther end in
    let tr := firstn 3 st in
    match cur with
    | Some (g0, ts) =>
      if term_eqb g0 g then split_runs rest (Some (g0, ts ++ [tr]))
      else (g0, ts) :: split_runs rest (Some (g, [tr]))
    | None => split_runs rest (Some (g, [tr]))
    end
  end.

Fixpoint feed_graphs (graphs : list (term * list (list term))) (s : stream) : stream * list tev * bool :=
  match graphs with
  | [] => (s, [], true)
  | (g, ts) :: rest =>
    let '(s', evs, ok) := stream_graph g ts s in
    if ok then let '(s'', evs', ok') := feed_graphs rest s' in (s'', evs ++ evs', ok')
    else (s', evs, false)
  end.

(* graphs_stream_frames (generic).  Pull events: the generic path pulls a whole run (and
   the first statement of the next) before encoding it; modelled as all pulls of a run up
   front. *)
Fixpoint pulls (n : nat) : list tev := match n with O => [] | S n' => Pull :: pulls n' end.

Fixpoint feed_graphs_generic (first : bool) (graphs : list (term * list (list term))) (s : stream)
  : stream * list tev * bool :=
  match graphs with
  | [] => (s, [], true)
  | (g, ts) :: rest =>
    (* pulls needed before this graph is yielded: its statements (minus the one already
       pulled as lookahead) plus the lookahead that ends the run *)
    let np := if first then S (length ts) else length ts in
    let '(s', evs, ok) := stream_graph g ts s in
    if ok then
      let '(s'', evs', ok') := feed_graphs_generic false rest s' in (s'', pulls np ++ evs ++ evs', ok')
    else (s', pulls np ++ evs, false)
  end.

Definition graphs_stream_frames_generic (d : sdata) (s : stream) : stream * list tev :=
  let s0 := enroll s in
  match ns_phase true d s0 with
  | (s1, Err e) => (s1, [Raise e])
  | (s1, Ok _) =>
    match d_stmts d with
    | [] => let '(s3, fin) := finish false s1 in (s3, Pull :: fin)
    | _ =>
      let '(s2, evs, ok) := feed_graphs_generic true (split_runs (d_stmts d) None) s1 in
      if ok then let '(s3, fin) := finish false s2 in (s3, evs ++ fin) else (s2, evs)
    end
  end.

(* stream_frames dispatch *)
Definition stream_frames (d : sdata) (s : stream) : stream * list tev :=
  match st_class s with
  | TripleStream => triples_stream_frames d s
  | QuadStream => quads_stream_frames d s
  | GraphStream => graphs_stream_frames_generic d s
  end.

Fixpoint emitted (evs : list tev) : list frame :=
  match evs with
  | [] => []
  | Emit f :: r => f :: emitted r
  | _ :: r => emitted r
  end.

Fixpoint raised (evs : list tev) : option exn :=
  match evs with
  | [] => None
  | Raise e :: _ => Some e
  | _ :: r => raised r
  end.

(* ---------- integrations/rdflib/serialize.py: the same three generators, hand-copied in the
   code and therefore here.  rdflib's containers are data: the harness supplies the order in
   which rdflib iterated them. ---------- *)
Inductive rkind := RGraph | RDataset | RGen.

Record rdata := {
  rd_kind : rkind;
  rd_namespaces : list (str * str);                    (* store.namespaces() *)
  rd_graphs : list (term * list (list term));          (* Dataset.graphs(): identifier, triples *)
  rd_stmts : list (list term) }.                       (* iter(Graph) / Dataset.quads() / generator *)

Definition rdf_ns_phase (graph_only : bool) (d : rdata) (s : stream) : stream * res unit :=
  if p_nd (so_params (st_opts s)) then
    match rd_kind d with
    | RGen => if graph_only then (s, Ok tt) else (s, Err AttrErr)
    | _ => declare_all (rd_namespaces d) s
    end
  else (s, Ok tt).

(* for graph in graphs: for terms in graph: triple; frame_from_graph *)
Fixpoint rdf_feed_triple_graphs (graphs : list (list (list term))) (s : stream) : stream * list tev * bool :=
  match graphs with
  | [] => (s, [], true)
  | g :: rest =>
    let '(s1, evs, ok) := feed stream_triple g s in
    if ok then
      let '(fl, fr) := frame_from_graph (st_flow s1) in
      let '(s2, evs', ok') := rdf_feed_triple_graphs rest (with_flow s1 fl) in
      (s2, evs ++ emit_opt fr ++ evs', ok')
    else (s1, evs, false)
  end.

Definition rdf_triples_stream_frames (d : rdata) (s : stream) : stream * list tev :=
  let s0 := enroll s in
  match rdf_ns_phase true d s0 with
  | (s1, Err e) => (s1, [Raise e])
  | (s1, Ok _) =>
    let graphs := match rd_kind d with
                  | RDataset => map snd (rd_graphs d)
                  | _ => [rd_stmts d]
                  end in
    let '(s2, evs, ok) := rdf_feed_triple_graphs graphs s1 in
    if ok then let '(fl, fr) := to_stream_frame (st_flow s2) in (with_flow s2 fl, evs ++ emit_opt fr)
    else (s2, evs)
  end.

Definition rdf_quads_stream_frames (d : rdata) (s : stream) : stream * list tev :=
  let s0 := enroll s in
  match rdf_ns_phase false d s0 with
  | (s1, Err e) => (s1, [Raise e])
  | (s1, Ok _) =>
    let '(s2, evs, ok) := feed stream_quad (rd_stmts d) s1 in
    if ok then let '(s3, fin) := finish false s2 in (s3, evs ++ fin) else (s2, evs)
  end.

(* a generator is first loaded into a Dataset (all pulls up front), then graphs() *)
Definition rdf_graphs_stream_frames (d : rdata) (s : stream) : stream * list tev :=
  let s0 := enroll s in
  match rdf_ns_phase false d s0 with
  | (s1, Err e) => (s1, [Raise e])
  | (s1, Ok _) =>
    let pre := match rd_kind d with RGen => pulls (S (length (rd_stmts d))) | _ => [] end in
    let '(s2, evs, ok) := feed_graphs (rd_graphs d) s1 in
    if ok then let '(s3, fin) := finish false s2 in (s3, pre ++ evs ++ fin) else (s2, pre ++ evs)
  end.

Definition rdf_stream_frames (d : rdata) (s : stream) : stream * list tev :=
  match st_class s with
  | TripleStream => rdf_triples_stream_frames d s
  | QuadStream => rdf_quads_stream_frames d s
  | GraphStream => rdf_graphs_stream_frames d s
  end.

(* ---------- guess_options / guess_stream and the *_to_frames entry points ---------- *)
Definition guess_stream_class (logical : N) (quads : bool) : stream_class :=
  if negb (logical mod 10 =? 3) && quads then QuadStream else TripleStream.

Definition default_params (gen star : bool) : sparams :=
  {| p_gen := gen; p_star := star; p_delimited := true; p_nd := false; p_name := [] |}.

(* generic: generalized + RDF-star on; rdflib: both off; logical type from the data *)
Definition guess_options (ig : integ) (quads : bool) : soptions :=
  let b := match ig with Generic => true | Rdflib => false end in
  {| so_flow := None; so_frame_size := DEFAULT_FRAME_SIZE; so_logical := if quads then 2 else 1;
     so_params := default_params b b; so_maxn := 4000; so_maxp := 150; so_maxd := 32 |}.

(* GenericStatementSink.is_triples_sink: bool(store) and len(store[0]) == 3 *)
Definition is_triples_sink (stmts : list (list term)) : bool :=
  match stmts with st :: _ => Nat.eqb (length st) 3 | [] => false end.

(* generic flat_stream_to_frames *)
Definition flat_stream_to_frames (o : option soptions) (stmts : list (list term)) : list tev * option stream :=
  match stmts with
  | [] => ([Pull], None)
  | first :: _ =>
    let quads := negb (is_triples_sink [first]) in
    let opts := match o with Some x => x | None => guess_options Generic quads end in
    match stream_new (guess_stream_class (so_logical opts) quads) Generic opts with
    | Err e => ([Pull; Raise e], None)
    | Ok s =>
      let '(s', evs) := stream_frames {| d_is_sink := false; d_namespaces := []; d_stmts := stmts |} s in
      (evs, Some s')
    end
  end.

(* rdflib flat_stream_to_frames: Dataset() if len(first) == 4 else Graph() *)
Definition rdf_flat_stream_to_frames (o : option soptions) (d : rdata) : list tev * option stream :=
  match rd_stmts d with
  | [] => ([Pull], None)
  | first :: _ =>
    let quads := Nat.eqb (length first) 4 in
    let opts := match o with Some x => x | None => guess_options Rdflib quads end in
    match stream_new (guess_stream_class (so_logical opts) quads) Rdflib opts with
    | Err e => ([Pull; Raise e], None)
    | Ok s => let '(s', evs) := rdf_stream_frames d s in (evs, Some s')
    end
  end.
