(* Encoder.v -- model of pyjelly/serialize/encode.py (split_iri, TermEncoder with the
   per-statement key guard, encode_spo / encode_triple / encode_quad /
   encode_namespace_declaration) and of the two integration dispatchers
   (integrations/generic/serialize.py:34-103, integrations/rdflib/serialize.py:34-90). *)
From PJ.Model Require Import Base Lookup Terms.

Notation slookup := (@lookup str).
Notation slenc := (@lenc str).

(* ---- split_iri ---- *)
(* str.rpartition(sep): Some (before, after) for the LAST occurrence of sep *)
Fixpoint rpartition (sep : N) (s : str) : option (str * str) :=
  match s with
  | [] => None
  | c :: s' =>
    match rpartition sep s' with
    | Some (a, b) => Some (c :: a, b)
    | None => if c =? sep then Some ([], s') else None
    end
  end.

Definition split_iri (iri : str) : str * str :=
  match rpartition 35 iri with          (* '#' *)
  | Some (a, b) => (a ++ [35], b)
  | None =>
    match rpartition 47 iri with        (* '/' *)
    | Some (a, b) => (a ++ [47], b)
    | None => ([], iri)
    end
  end.

(* ---- TermEncoder ---- *)
Record tenc := {
  t_names : slenc; t_prefixes : slenc; t_datatypes : slenc;
  t_nkeys : list str; t_pkeys : list str; t_dkeys : list str   (* keys of the current statement *)
}.

Definition tenc_init (maxn maxp maxd : N) : tenc :=
  {| t_names := lenc_init maxn; t_prefixes := lenc_init maxp; t_datatypes := lenc_init maxd;
     t_nkeys := []; t_pkeys := []; t_dkeys := [] |}.

Definition start_statement (t : tenc) : tenc :=
  {| t_names := t_names t; t_prefixes := t_prefixes t; t_datatypes := t_datatypes t;
     t_nkeys := []; t_pkeys := []; t_dkeys := [] |}.

Definition set_add (k : str) (l : list str) : list str := if mem_str k l then l else k :: l.

Definition lmax (e : slenc) : N := l_max (e_lookup e).

(* TermEncoder._entry_index: the guard, then LookupEncoder.encode_entry_index *)
Definition entry_index (table : slenc) (keys : list str) (k : str)
  : res (slenc * list str * option N) :=
  let keys' := set_add k keys in
  if lmax table <? nlen keys' then Err Conformance else
  match encode_entry_index str_eqb k table with
  | Some (table', oe) => Ok (table', keys', oe)
  | None => Err IndexErr
  end.

Definition lift {A} (e : exn) (o : option A) : res A :=
  match o with Some a => Ok a | None => Err e end.

(* encode_iri_indices: (state, entry rows, prefix id, name id) *)
Definition encode_iri (iri : str) (t : tenc) : res (tenc * list row * N * N) :=
  let '(prefix, name0) := split_iri iri in
  do (pfx, pkeys, pe, name) <-
     (if lmax (t_prefixes t) =? 0 then Ok (t_prefixes t, t_pkeys t, None, iri)
      else do (p', k', oe) <- entry_index (t_prefixes t) (t_pkeys t) prefix;
           Ok (p', k', oe, name0));
  do (nms, nkeys, ne) <- entry_index (t_names t) (t_nkeys t) name;
  let rows := (match pe with Some id => [RPrefix id prefix] | None => [] end) ++
              (match ne with Some id => [RName id name] | None => [] end) in
  do (pfx2, pidx) <- lift KeyErr (encode_prefix_term_index str_eqb (is_nil prefix) prefix pfx);
  do (nms2, nidx) <- lift KeyErr (encode_name_term_index str_eqb name nms);
  Ok ({| t_names := nms2; t_prefixes := pfx2; t_datatypes := t_datatypes t;
         t_nkeys := nkeys; t_pkeys := pkeys; t_dkeys := t_dkeys t |}, rows, pidx, nidx).

Definition truthy (o : option str) : option str :=
  match o with Some s => if is_nil s then None else Some s | None => None end.

(* encode_literal *)
Definition encode_literal (lex : str) (lang dt : option str) (t : tenc)
  : res (tenc * list row * wterm) :=
  do (t', rows, dtid) <-
    (match truthy dt with
     | Some d =>
       if str_eqb d xsd_string then Ok (t, [], 0) else
       if lmax (t_datatypes t) =? 0 then Err Conformance else
       do (dts, dkeys, oe) <- entry_index (t_datatypes t) (t_dkeys t) d;
       do (dts2, idx) <- lift KeyErr (encode_datatype_term_index str_eqb d dts);
       Ok ({| t_names := t_names t; t_prefixes := t_prefixes t; t_datatypes := dts2;
              t_nkeys := t_nkeys t; t_pkeys := t_pkeys t; t_dkeys := dkeys |},
           match oe with Some id => [RDatatype id d] | None => [] end, idx)
     | None => Ok (t, [], 0)
     end);
  (* literal.lex = lex; if language: langtag = language; if datatype_id: datatype = id
     -- both live in one oneof, so the datatype wins when both are given *)
  let kind := if negb (dtid =? 0) then LkDt dtid
              else match truthy lang with Some l => LkLang l | None => LkNone end in
  Ok (t', rows, WLit lex kind).

(* which integration's dispatcher *)
Inductive integ := Generic | Rdflib.

(* TermEncoder.encode_spo as overridden by the integration; quoted triples do not use
   repeated terms *)
Fixpoint encode_spo_term (ig : integ) (tm : term) (t : tenc) : res (tenc * list row * wterm) :=
  match tm with
  | TIri iri => do (t', rows, p, n) <- encode_iri iri t; Ok (t', rows, WIri p n)
  | TLit lex lang dt => encode_literal lex lang dt t
  | TBnode l => Ok (t, [], WBnode l)
  | TTriple s p o =>
    match ig with
    | Rdflib => Err NotImpl
    | Generic =>
      do (t1, r1, ws) <- encode_spo_term ig s t;
      do (t2, r2, wp) <- encode_spo_term ig p t1;
      do (t3, r3, wo) <- encode_spo_term ig o t2;
      Ok (t3, r1 ++ r2 ++ r3, WTriple (Some ws) (Some wp) (Some wo))
    end
  | TDefault | TOther => Err NotImpl
  end.

Definition encode_graph_term (ig : integ) (tm : term) (t : tenc) : res (tenc * list row * wterm) :=
  match ig, tm with
  | Generic, TDefault => Ok (t, [], WDefault)
  | Generic, TIri iri => do (t', rows, p, n) <- encode_iri iri t; Ok (t', rows, WIri p n)
  | Generic, TLit lex lang dt => encode_literal lex lang dt t
  | Generic, TBnode l => Ok (t, [], WBnode l)
  | Rdflib, TIri iri =>
    if str_eqb iri rdflib_default_graph then Ok (t, [], WDefault)
    else do (t', rows, p, n) <- encode_iri iri t; Ok (t', rows, WIri p n)
  | Rdflib, TBnode l => Ok (t, [], WBnode l)
  | _, _ => Err NotImpl
  end.

(* repeated_terms: s, p, o, g *)
Record repeated := { r_s : option term; r_p : option term; r_o : option term; r_g : option term }.
Definition repeated_init : repeated := {| r_s := None; r_p := None; r_o := None; r_g := None |}.

(* `repeated_terms[slot] != term` *)
Definition differs (prev : option term) (tm : term) : bool :=
  match prev with Some p => negb (term_eqb p tm) | None => true end.

(* one slot of encode_spo: (state, rows, wire slot, new repeated value) *)
Definition encode_slot (ig : integ) (prev : option term) (tm : term) (t : tenc)
  : res (tenc * list row * option wterm * option term) :=
  if differs prev tm then
    do (t', rows, w) <- encode_spo_term ig tm t; Ok (t', rows, Some w, Some tm)
  else Ok (t, [], None, prev).

Definition encode_gslot (ig : integ) (prev : option term) (tm : term) (t : tenc)
  : res (tenc * list row * option wterm * option term) :=
  if differs prev tm then
    do (t', rows, w) <- encode_graph_term ig tm t; Ok (t', rows, Some w, Some tm)
  else Ok (t, [], None, prev).

(* next(terms) *)
Definition nth_term (terms : list term) (n : nat) : res term :=
  match nth_error terms n with Some x => Ok x | None => Err StopIter end.

(* encode_triple: the repeated terms are updated slot by slot, so a failure at the object
   leaves subject and predicate updated -- the state after an error is not returned,
   because the stream refuses further use (Streams.v) *)
Definition encode_triple (ig : integ) (terms : list term) (t : tenc) (rp : repeated)
  : res (tenc * repeated * list row) :=
  let t0 := start_statement t in
  do s <- nth_term terms 0;
  do (t1, r1, ws, ps) <- encode_slot ig (r_s rp) s t0;
  do p <- nth_term terms 1;
  do (t2, r2, wp, pp) <- encode_slot ig (r_p rp) p t1;
  do o <- nth_term terms 2;
  do (t3, r3, wo, po) <- encode_slot ig (r_o rp) o t2;
  Ok (t3, {| r_s := ps; r_p := pp; r_o := po; r_g := r_g rp |},
      r1 ++ r2 ++ r3 ++ [RTriple ws wp wo]).

Definition encode_quad (ig : integ) (terms : list term) (t : tenc) (rp : repeated)
  : res (tenc * repeated * list row) :=
  let t0 := start_statement t in
  do s <- nth_term terms 0;
  do (t1, r1, ws, ps) <- encode_slot ig (r_s rp) s t0;
  do p <- nth_term terms 1;
  do (t2, r2, wp, pp) <- encode_slot ig (r_p rp) p t1;
  do o <- nth_term terms 2;
  do (t3, r3, wo, po) <- encode_slot ig (r_o rp) o t2;
  do g <- nth_term terms 3;
  do (t4, r4, wg, pg) <- encode_gslot ig (r_g rp) g t3;
  Ok (t4, {| r_s := ps; r_p := pp; r_o := po; r_g := pg |},
      r1 ++ r2 ++ r3 ++ r4 ++ [RQuad ws wp wo wg]).

Definition encode_namespace_declaration (name : str) (iri : str) (t : tenc)
  : res (tenc * list row) :=
  do (t', rows, p, n) <- encode_iri iri (start_statement t);
  Ok (t', rows ++ [RNamespace name p n]).

(* GraphStream.graph, first part: graph start *)
Definition encode_graph_start (ig : integ) (g : term) (t : tenc) : res (tenc * list row) :=
  do (t', rows, w) <- encode_graph_term ig g (start_statement t);
  Ok (t', rows ++ [RGraphStart (Some w)]).
