(* Lookup.v -- model of pyjelly/serialize/lookup.py (Lookup, LookupEncoder) and
   pyjelly/parse/lookup.py (LookupDecoder).  Keys are abstract with a boolean equality so
   that the mirror proofs do not depend on what a string is. *)
From PJ.Model Require Import Base.

Section Lookup.
Context {K : Type} (eqb : K -> K -> bool).

(* ---------- writer side: pyjelly/serialize/lookup.py ---------- *)
Record lookup := { l_data : list (K * N); l_max : N; l_evicting : bool }.

Fixpoint find (k : K) (d : list (K * N)) : option N :=
  match d with
  | [] => None
  | (k', i) :: d' => if eqb k k' then Some i else find k d'
  end.

Fixpoint remove (k : K) (d : list (K * N)) : list (K * N) :=
  match d with
  | [] => []
  | (k', i) :: d' => if eqb k k' then d' else (k', i) :: remove k d'
  end.

(* OrderedDict.move_to_end; None = KeyError *)
Definition move_to_end (k : K) (l : lookup) : option lookup :=
  match find k (l_data l) with
  | None => None
  | Some i => Some {| l_data := remove k (l_data l) ++ [(k, i)]; l_max := l_max l; l_evicting := l_evicting l |}
  end.

(* Lookup.insert; None = IndexError (size 0). Precondition: key absent. *)
Definition insert (k : K) (l : lookup) : option (lookup * N) :=
  if l_max l =? 0 then None else
  if l_evicting l then
    match l_data l with
    | [] => None (* unreachable: popitem on empty dict raises KeyError *)
    | (_, i) :: d' => Some ({| l_data := d' ++ [(k, i)]; l_max := l_max l; l_evicting := true |}, i)
    end
  else
    let i := N.of_nat (length (l_data l)) + 1 in
    Some ({| l_data := l_data l ++ [(k, i)]; l_max := l_max l; l_evicting := i =? l_max l |}, i).

Record lenc := { e_lookup : lookup; e_last_assigned : N; e_last_reused : N }.

Definition lenc_init (size : N) : lenc :=
  {| e_lookup := {| l_data := []; l_max := size; l_evicting := false |};
     e_last_assigned := 0; e_last_reused := 0 |}.

(* encode_entry_index: returns (state, None) on hit, (state, Some id) on miss; outer None = exception *)
Definition encode_entry_index (k : K) (e : lenc) : option (lenc * option N) :=
  match move_to_end k (e_lookup e) with
  | Some l' => Some ({| e_lookup := l'; e_last_assigned := e_last_assigned e; e_last_reused := e_last_reused e |}, None)
  | None =>
    match insert k (e_lookup e) with
    | None => None
    | Some (l', i) =>
      Some ({| e_lookup := l'; e_last_assigned := i; e_last_reused := e_last_reused e |},
            Some (if i =? e_last_assigned e + 1 then 0 else i))
    end
  end.

Definition encode_term_index (k : K) (e : lenc) : option (lenc * N) :=
  match move_to_end k (e_lookup e) with
  | None => None
  | Some l' =>
    match find k (l_data l') with
    | None => None
    | Some i => Some ({| e_lookup := l'; e_last_assigned := e_last_assigned e; e_last_reused := i |}, i)
    end
  end.

Definition encode_name_term_index (k : K) (e : lenc) : option (lenc * N) :=
  let prev := e_last_reused e in
  match encode_term_index k e with
  | None => None
  | Some (e', cur) => Some (e', if cur =? prev + 1 then 0 else cur)
  end.

Definition encode_datatype_term_index (k : K) (e : lenc) : option (lenc * N) :=
  if l_max (e_lookup e) =? 0 then Some (e, 0) else encode_term_index k e.

(* is_empty k = (not value) *)
Definition encode_prefix_term_index (is_empty : bool) (k : K) (e : lenc) : option (lenc * N) :=
  if l_max (e_lookup e) =? 0 then Some (e, 0) else
  let prev := e_last_reused e in
  if is_empty && (prev =? 0) then Some (e, 0) else
  match encode_term_index k e with
  | None => None
  | Some (e', cur) =>
    Some (e', if prev =? 0 then cur else if cur =? prev then 0 else cur)
  end.

(* ---------- reader side: pyjelly/parse/lookup.py ---------- *)
Record ldec := { d_data : list (option K); d_last_assigned : N; d_last_reused : N }.

Definition ldec_init (size : N) : ldec :=
  {| d_data := repeat None (N.to_nat size); d_last_assigned := 0; d_last_reused := 0 |}.

Fixpoint set_nth {A} (n : nat) (x : A) (l : list A) : option (list A) :=
  match n, l with
  | _, [] => None
  | O, _ :: t => Some (x :: t)
  | S n', h :: t => match set_nth n' x t with Some t' => Some (h :: t') | None => None end
  end.

Definition in_range (i : N) (d : ldec) : bool := (1 <=? i) && (i <=? N.of_nat (length (d_data d))).

Definition assign_entry (idx : N) (v : K) (d : ldec) : option ldec :=
  let i := if idx =? 0 then d_last_assigned d + 1 else idx in
  if in_range i d then
    match set_nth (N.to_nat (i - 1)) (Some v) (d_data d) with
    | None => None
    | Some data' => Some {| d_data := data'; d_last_assigned := i; d_last_reused := d_last_reused d |}
    end
  else None.

Definition at_ (i : N) (d : ldec) : option (ldec * K) :=
  if in_range i d then
    match nth_error (d_data d) (N.to_nat (i - 1)) with
    | Some (Some v) => Some ({| d_data := d_data d; d_last_assigned := d_last_assigned d; d_last_reused := i |}, v)
    | _ => None
    end
  else None.

Definition decode_name_term_index (idx : N) (d : ldec) : option (ldec * K) :=
  let i := if idx =? 0 then d_last_reused d + 1 else idx in at_ i d.

Definition decode_datatype_term_index (idx : N) (d : ldec) : option (ldec * K) :=
  if idx =? 0 then None else at_ idx d.

(* returns None for error, Some (d, None) for "" *)
Definition decode_prefix_term_index (idx : N) (d : ldec) : option (ldec * option K) :=
  let i := if idx =? 0 then d_last_reused d else idx in
  if i =? 0 then Some (d, None) else
  match at_ i d with Some (d', v) => Some (d', Some v) | None => None end.


Definition keys (d : list (K * N)) := map fst d.
Definition idxs (d : list (K * N)) := map snd d.
Definition dlen (l : lookup) : N := N.of_nat (length (l_data l)).

End Lookup.
