(* Spec.v -- strict reference semantics of the Jelly format (rdf.proto 1.1.1), written from
   the comments of the schema and independent of pyjelly's code: a partial function from a
   row sequence to the events it denotes, with the class of the first violation otherwise.
   It is the referee for the writer (C03, C14, C18, C19, C20) and the reader (C04, C16). *)
From PJ.Model Require Import Base Terms.

Inductive vclass :=
| MissingOptions        (* first row is not an options row *)
| UnsupportedType       (* physical type not TRIPLES/QUADS/GRAPHS *)
| UnsupportedVersion    (* version newer than 2 *)
| BadOptions            (* name table < 8, a table > 4096, forbidden physical/logical pair *)
| OptionsChanged        (* a later options row differs from the first *)
| IdOutOfRange          (* entry id or reference outside [1, size] *)
| Unfilled              (* reference to a slot never filled *)
| DatatypeZero
| DatatypeDisabled
| EmptyLangtag          (* explicitly present empty language tag: outside the rules *)
| RepeatedInQuoted      (* a quoted triple with a missing term *)
| RepeatedWithoutPrevious
| RowKind               (* row kind the physical type forbids *)
| TripleOutsideGraph
| GraphStartEmpty
| GraphEndWithoutStart
| NamespaceInV1
| BadTermPosition       (* default graph in s/p/o, quoted triple as graph name *)
| EmptyRow.

(* the classes C16 catalogues: the reader must reject these *)
Definition catalogued (c : vclass) : bool :=
  match c with
  | MissingOptions | UnsupportedType | UnsupportedVersion | IdOutOfRange | Unfilled
  | DatatypeZero | DatatypeDisabled | RepeatedInQuoted | RepeatedWithoutPrevious
  | RowKind | TripleOutsideGraph => true
  | _ => false
  end.

Inductive sres (A : Type) := SOk (a : A) | SBad (c : vclass).
Arguments SOk {A} a.
Arguments SBad {A} c.
Definition sbind {A B} (r : sres A) (f : A -> sres B) : sres B :=
  match r with SOk a => f a | SBad c => SBad c end.
Notation "'sdo' x <- r ; k" := (sbind r (fun x => k))
  (at level 200, x pattern, r at level 100, k at level 200, right associativity).

(* a lookup table: slot i (1-based) is [nth_error t (i-1)] *)
Definition table := list (option str).

Fixpoint tset (n : nat) (v : str) (t : table) : table :=
  match n, t with
  | _, [] => []
  | O, _ :: r => Some v :: r
  | S n', x :: r => x :: tset n' v r
  end.

Definition in_table (i : N) (t : table) : bool := (1 <=? i) && (i <=? nlen t).

Definition tget (i : N) (t : table) : sres str :=
  if in_table i t then
    match nth_error t (N.to_nat (i - 1)) with
    | Some (Some v) => SOk v
    | _ => SBad Unfilled
    end
  else SBad IdOutOfRange.

Record sstate := {
  s_opts : woptions;
  s_names : table; s_prefixes : table; s_datatypes : table;
  s_la_n : N; s_la_p : N; s_la_d : N;        (* last assigned entry id per table *)
  s_last_pid : N; s_last_nid : N;            (* prefix / name id of the previous IRI *)
  s_ps : option term; s_pp : option term; s_po : option term; s_pg : option term;
  s_open : option term }.                    (* GRAPHS: the graph currently open *)

Definition spec_compat (phys logical : N) : bool :=
  (* the specification's table: TRIPLES goes with FLAT_TRIPLES, GRAPHS, SUBJECT_GRAPHS;
     QUADS and GRAPHS (physical) go with FLAT_QUADS, DATASETS, NAMED_GRAPHS,
     TIMESTAMPED_NAMED_GRAPHS; an unspecified logical type goes with anything *)
  if logical =? 0 then true else
  if phys =? 1 then (logical =? 1) || (logical =? 3) || (logical =? 13)
  else (logical =? 2) || (logical =? 4) || (logical =? 14) || (logical =? 114).

Definition known_logical (l : N) : bool :=
  (l =? 0) || (l =? 1) || (l =? 2) || (l =? 3) || (l =? 4) || (l =? 13) || (l =? 14) || (l =? 114).

Definition start (o : woptions) : sres sstate :=
  if negb ((1 <=? o_phys o) && (o_phys o <=? 3)) then SBad UnsupportedType else
  if 2 <? o_version o then SBad UnsupportedVersion else
  if (o_maxn o <? 8) || (4096 <? o_maxn o) || (4096 <? o_maxp o) || (4096 <? o_maxd o)
     || negb (known_logical (o_logical o)) || negb (spec_compat (o_phys o) (o_logical o))
  then SBad BadOptions else
  SOk {| s_opts := o;
         s_names := repeat None (N.to_nat (o_maxn o));
         s_prefixes := repeat None (N.to_nat (o_maxp o));
         s_datatypes := repeat None (N.to_nat (o_maxd o));
         s_la_n := 0; s_la_p := 0; s_la_d := 0; s_last_pid := 0; s_last_nid := 0;
         s_ps := None; s_pp := None; s_po := None; s_pg := None; s_open := None |}.

Definition woptions_eqb (a b : woptions) : bool :=
  str_eqb (o_name a) (o_name b) && (o_phys a =? o_phys b) && Bool.eqb (o_gen a) (o_gen b) &&
  Bool.eqb (o_star a) (o_star b) && (o_maxn a =? o_maxn b) && (o_maxp a =? o_maxp b) &&
  (o_maxd a =? o_maxd b) && (o_logical a =? o_logical b) && (o_version a =? o_version b).

(* entry rows: id 0 means "last assigned + 1" *)
Definition entry (id : N) (v : str) (t : table) (la : N) : sres (table * N) :=
  let i := if id =? 0 then la + 1 else id in
  if in_table i t then SOk (tset (N.to_nat (i - 1)) v t, i) else SBad IdOutOfRange.

Definition upd_names (s : sstate) (t : table) (la : N) : sstate :=
  {| s_opts := s_opts s; s_names := t; s_prefixes := s_prefixes s; s_datatypes := s_datatypes s;
     s_la_n := la; s_la_p := s_la_p s; s_la_d := s_la_d s; s_last_pid := s_last_pid s;
     s_last_nid := s_last_nid s; s_ps := s_ps s; s_pp := s_pp s; s_po := s_po s; s_pg := s_pg s;
     s_open := s_open s |}.
Definition upd_prefixes (s : sstate) (t : table) (la : N) : sstate :=
  {| s_opts := s_opts s; s_names := s_names s; s_prefixes := t; s_datatypes := s_datatypes s;
     s_la_n := s_la_n s; s_la_p := la; s_la_d := s_la_d s; s_last_pid := s_last_pid s;
     s_last_nid := s_last_nid s; s_ps := s_ps s; s_pp := s_pp s; s_po := s_po s; s_pg := s_pg s;
     s_open := s_open s |}.
Definition upd_datatypes (s : sstate) (t : table) (la : N) : sstate :=
  {| s_opts := s_opts s; s_names := s_names s; s_prefixes := s_prefixes s; s_datatypes := t;
     s_la_n := s_la_n s; s_la_p := s_la_p s; s_la_d := la; s_last_pid := s_last_pid s;
     s_last_nid := s_last_nid s; s_ps := s_ps s; s_pp := s_pp s; s_po := s_po s; s_pg := s_pg s;
     s_open := s_open s |}.
Definition upd_iri (s : sstate) (pid nid : N) : sstate :=
  {| s_opts := s_opts s; s_names := s_names s; s_prefixes := s_prefixes s; s_datatypes := s_datatypes s;
     s_la_n := s_la_n s; s_la_p := s_la_p s; s_la_d := s_la_d s; s_last_pid := pid;
     s_last_nid := nid; s_ps := s_ps s; s_pp := s_pp s; s_po := s_po s; s_pg := s_pg s;
     s_open := s_open s |}.
Definition upd_prev (s : sstate) (ps pp po pg : option term) : sstate :=
  {| s_opts := s_opts s; s_names := s_names s; s_prefixes := s_prefixes s; s_datatypes := s_datatypes s;
     s_la_n := s_la_n s; s_la_p := s_la_p s; s_la_d := s_la_d s; s_last_pid := s_last_pid s;
     s_last_nid := s_last_nid s; s_ps := ps; s_pp := pp; s_po := po; s_pg := pg;
     s_open := s_open s |}.
Definition upd_open (s : sstate) (g : option term) : sstate :=
  {| s_opts := s_opts s; s_names := s_names s; s_prefixes := s_prefixes s; s_datatypes := s_datatypes s;
     s_la_n := s_la_n s; s_la_p := s_la_p s; s_la_d := s_la_d s; s_last_pid := s_last_pid s;
     s_last_nid := s_last_nid s; s_ps := s_ps s; s_pp := s_pp s; s_po := s_po s; s_pg := s_pg s;
     s_open := g |}.

(* an IRI: name id 0 = previous name id + 1; prefix id 0 = previous prefix id, and if that
   is still 0 the prefix is empty *)
Definition iri (pid nid : N) (s : sstate) : sres (sstate * str) :=
  let n := if nid =? 0 then s_last_nid s + 1 else nid in
  let p := if pid =? 0 then s_last_pid s else pid in
  sdo name <- tget n (s_names s);
  sdo prefix <- (if p =? 0 then SOk [] else tget p (s_prefixes s));
  SOk (upd_iri s p n, prefix ++ name).

Definition literal (lex : str) (k : wlitkind) (s : sstate) : sres term :=
  match k with
  | LkNone => SOk (TLit lex None None)
  | LkLang t => if is_nil t then SBad EmptyLangtag else SOk (TLit lex (Some t) None)
  | LkDt d =>
    if d =? 0 then SBad DatatypeZero else
    if is_nil (s_datatypes s) then SBad DatatypeDisabled else
    sdo dt <- tget d (s_datatypes s); SOk (TLit lex None (Some dt))
  end.

(* a term in an s/p/o position (graph = false) or a graph position (graph = true) *)
Fixpoint sterm (graph : bool) (w : wterm) (s : sstate) : sres (sstate * term) :=
  match w with
  | WIri p n => sdo (s', i) <- iri p n s; SOk (s', TIri i)
  | WBnode l => SOk (s, TBnode l)
  | WLit lex k => sdo t <- literal lex k s; SOk (s, t)
  | WDefault => if graph then SOk (s, TDefault) else SBad BadTermPosition
  | WTriple a b c =>
    if graph then SBad BadTermPosition else
    match a, b, c with
    | Some a', Some b', Some c' =>
      sdo (s1, ta) <- sterm false a' s;
      sdo (s2, tb) <- sterm false b' s1;
      sdo (s3, tc) <- sterm false c' s2;
      SOk (s3, TTriple ta tb tc)
    | _, _, _ => SBad RepeatedInQuoted
    end
  end.

Definition slot (graph : bool) (w : option wterm) (prev : option term) (s : sstate)
  : sres (sstate * term) :=
  match w with
  | Some w' => sterm graph w' s
  | None => match prev with Some t => SOk (s, t) | None => SBad RepeatedWithoutPrevious end
  end.

Definition spo (a b c : option wterm) (s : sstate) : sres (sstate * term * term * term) :=
  sdo (s1, ta) <- slot false a (s_ps s) s;
  sdo (s2, tb) <- slot false b (s_pp s) s1;
  sdo (s3, tc) <- slot false c (s_po s) s2;
  SOk (s3, ta, tb, tc).

Definition phys (s : sstate) : N := o_phys (s_opts s).

(* one row after the first *)
Definition step (r : row) (s : sstate) : sres (sstate * list event) :=
  match r with
  | ROptions o => if woptions_eqb o (s_opts s) then SOk (s, []) else SBad OptionsChanged
  | RName id v => sdo (t, la) <- entry id v (s_names s) (s_la_n s); SOk (upd_names s t la, [])
  | RPrefix id v => sdo (t, la) <- entry id v (s_prefixes s) (s_la_p s); SOk (upd_prefixes s t la, [])
  | RDatatype id v => sdo (t, la) <- entry id v (s_datatypes s) (s_la_d s); SOk (upd_datatypes s t la, [])
  | RTriple a b c =>
    if phys s =? 1 then
      sdo (s', ta, tb, tc) <- spo a b c s;
      SOk (upd_prev s' (Some ta) (Some tb) (Some tc) (s_pg s'), [ETriple ta tb tc])
    else if phys s =? 3 then
      match s_open s with
      | None => SBad TripleOutsideGraph
      | Some g =>
        sdo (s', ta, tb, tc) <- spo a b c s;
        SOk (upd_prev s' (Some ta) (Some tb) (Some tc) (s_pg s'), [EQuad ta tb tc g])
      end
    else SBad RowKind
  | RQuad a b c g =>
    if phys s =? 2 then
      sdo (s1, ta, tb, tc) <- spo a b c s;
      sdo (s2, tg) <- slot true g (s_pg s1) s1;
      SOk (upd_prev s2 (Some ta) (Some tb) (Some tc) (Some tg), [EQuad ta tb tc tg])
    else SBad RowKind
  | RGraphStart g =>
    if phys s =? 3 then
      match g with
      | None => SBad GraphStartEmpty
      | Some w => sdo (s', tg) <- sterm true w s; SOk (upd_open s' (Some tg), [])
      end
    else SBad RowKind
  | RGraphEnd =>
    if phys s =? 3 then
      match s_open s with
      | Some _ => SOk (upd_open s None, [])
      | None => SBad GraphEndWithoutStart
      end
    else SBad RowKind
  | RNamespace name p n =>
    if o_version (s_opts s) <? 2 then SBad NamespaceInV1 else
    sdo (s', i) <- iri p n s; SOk (s', [EPrefix name i])
  | REmpty => SBad EmptyRow
  end.

Inductive verdict :=
| Valid (evs : list event)
| Invalid (row_index : nat) (c : vclass) (evs_before : list event).

Fixpoint run_from (i : nat) (rows : list row) (s : sstate) (acc : list event) : verdict :=
  match rows with
  | [] => Valid acc
  | r :: rest =>
    match step r s with
    | SOk (s', evs) => run_from (S i) rest s' (acc ++ evs)
    | SBad c => Invalid i c acc
    end
  end.

Definition run (rows : list row) : verdict :=
  match rows with
  | ROptions o :: rest =>
    match start o with
    | SOk s => run_from 1 rest s []
    | SBad c => Invalid 0 c []
    end
  | _ => Invalid 0 MissingOptions []
  end.

(* a framed stream denotes what its concatenated rows denote *)
Definition run_frames (fs : list frame) : verdict := run (flat_map f_rows fs).
