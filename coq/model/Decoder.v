(* Decoder.v -- model of pyjelly/parse/decode.py (options_from_frame, Decoder) and of the
   parsing entry points of both integrations (integrations/*/parse.py: the adapters,
   parse_triples_stream / parse_quads_stream, parse_jelly_flat / parse_jelly_grouped). *)
From PJ.Model Require Import Base Lookup Terms Wire Encoder Streams.

Notation sldec := (@ldec str).

(* ---------- options_from_frame ---------- *)
Record poptions := {
  po_phys : N; po_logical : N; po_maxn : N; po_maxp : N; po_maxd : N;
  po_name : str; po_gen : bool; po_star : bool; po_version : N; po_delimited : bool; po_nd : bool }.

Definition default_woptions : woptions :=
  {| o_name := []; o_phys := 0; o_gen := false; o_star := false;
     o_maxn := 0; o_maxp := 0; o_maxd := 0; o_logical := 0; o_version := 0 |}.

(* frame.rows[0].options: the default message when the first row is of another kind *)
Definition first_options (f : frame) : res woptions :=
  match f_rows f with
  | [] => Err IndexErr
  | ROptions o :: _ => Ok o
  | _ :: _ => Ok default_woptions
  end.

Definition options_from_frame (f : frame) (delimited : bool) : res poptions :=
  do o <- first_options f;
  let nd := MAX_VERSION <=? o_version o in
  if negb (type_compat (o_phys o) (o_logical o)) then Err JAssertion else
  if negb (preset_ok (o_maxn o) (o_maxp o) (o_maxd o)) then Err Conformance else
  Ok {| po_phys := o_phys o; po_logical := o_logical o;
        po_maxn := o_maxn o; po_maxp := o_maxp o; po_maxd := o_maxd o;
        po_name := o_name o; po_gen := o_gen o; po_star := o_star o;
        po_version := if nd then 2 else 1; po_delimited := delimited; po_nd := nd |}.

(* ---------- Decoder ---------- *)
Inductive adapter_kind := ATriples | AQuads | AGraphs.

Record dstate := {
  ds_names : sldec; ds_prefixes : sldec; ds_datatypes : sldec;
  ds_s : option term; ds_p : option term; ds_o : option term; ds_g : option term;
  ds_graph : option term }.

Definition ldec_new (size : N) : res sldec :=
  if MAX_LOOKUP_SIZE <? size then Err JAssertion else Ok (ldec_init size).

Definition decoder_new (o : poptions) : res dstate :=
  do n <- ldec_new (po_maxn o);
  do p <- ldec_new (po_maxp o);
  do d <- ldec_new (po_maxd o);
  Ok {| ds_names := n; ds_prefixes := p; ds_datatypes := d;
        ds_s := None; ds_p := None; ds_o := None; ds_g := None; ds_graph := None |}.

Definition set_tables (st : dstate) (n p d : sldec) : dstate :=
  {| ds_names := n; ds_prefixes := p; ds_datatypes := d;
     ds_s := ds_s st; ds_p := ds_p st; ds_o := ds_o st; ds_g := ds_g st; ds_graph := ds_graph st |}.

(* decode_iri: the name first, then the prefix *)
Definition decode_iri (pid nid : N) (st : dstate) : res (dstate * str) :=
  do (n', name) <- lift IndexErr (decode_name_term_index nid (ds_names st));
  do (p', prefix) <- lift IndexErr (decode_prefix_term_index pid (ds_prefixes st));
  Ok (set_tables st n' p' (ds_datatypes st),
      (match prefix with Some s => s | None => [] end) ++ name).

(* the term an adapter's literal(lex, language, datatype) returns.  Generic: Literal(lex, langtag, datatype), as given.
   Rdflib: rdflib.Literal(lex, lang=language, datatype=datatype, normalize=False) -- an empty tag is no tag; a tag AND a datatype:
   TypeError; a tag that is not well-formed: ValueError; the lexical form of an xsd:token / xsd:normalizedString literal is
   REWRITTEN (whiteSpace facet; normalize=False does not switch that off) *)
Definition mk_literal (ig : integ) (lex : str) (lang dt : option str) : res term :=
  match ig with
  | Generic => Ok (TLit lex lang dt)
  | Rdflib =>
    let lang' := match lang with Some [] => None | _ => lang end in
    match lang', dt with
    | Some _, Some _ => Err TypeErr
    | Some t, None => if valid_langtag t then Ok (TLit lex lang' None) else Err ValueErr
    | None, _ => Ok (TLit (rdflib_lex dt lex) None dt)
    end
  end.

Definition decode_literal (ig : integ) (lex : str) (k : wlitkind) (st : dstate) : res (dstate * term) :=
  match k with
  | LkLang t => do l <- mk_literal ig lex (if is_nil t then None else Some t) None; Ok (st, l)
  | LkNone => do l <- mk_literal ig lex None None; Ok (st, l)
  | LkDt id =>
    if nlen (d_data (ds_datatypes st)) =? 0 then Err Conformance else
    do (d', dt) <- lift IndexErr (decode_datatype_term_index id (ds_datatypes st));
    do l <- mk_literal ig lex None (Some dt);
    Ok (set_tables st (ds_names st) (ds_prefixes st) d', l)
  end.

(* decode_term; quoted triples need every slot and (rdflib) an adapter that implements them *)
Fixpoint decode_term (ig : integ) (w : wterm) (st : dstate) : res (dstate * term) :=
  match w with
  | WIri p n => do (st', iri) <- decode_iri p n st; Ok (st', TIri iri)
  | WBnode l => Ok (st, TBnode l)
  | WLit lex k => decode_literal ig lex k st
  | WDefault => Ok (st, TDefault)
  | WTriple s p o =>
    (* slot by slot, as decode_quoted_triple does: an absent slot is noticed when its turn comes
       ("repeated terms are not allowed in quoted triples") *)
    match s with None => Err ValueErr | Some s' =>
    do (st1, ts) <- decode_term ig s' st;
    match p with None => Err ValueErr | Some p' =>
    do (st2, tp) <- decode_term ig p' st1;
    match o with None => Err ValueErr | Some o' =>
    do (st3, to) <- decode_term ig o' st2;
    match ig with Generic => Ok (st3, TTriple ts tp to) | Rdflib => Err NotImpl end
    end end end
  end.

(* one slot of decode_statement: present -> decode and remember; absent -> previous *)
Definition decode_slot (ig : integ) (w : option wterm) (prev : option term) (st : dstate)
  : res (dstate * term) :=
  match w with
  | Some w' => decode_term ig w' st
  | None => match prev with Some t => Ok (st, t) | None => Err KeyErr end
  end.

Definition set_spo (st : dstate) (s p o : term) : dstate :=
  {| ds_names := ds_names st; ds_prefixes := ds_prefixes st; ds_datatypes := ds_datatypes st;
     ds_s := Some s; ds_p := Some p; ds_o := Some o; ds_g := ds_g st; ds_graph := ds_graph st |}.
Definition set_g (st : dstate) (g : term) : dstate :=
  {| ds_names := ds_names st; ds_prefixes := ds_prefixes st; ds_datatypes := ds_datatypes st;
     ds_s := ds_s st; ds_p := ds_p st; ds_o := ds_o st; ds_g := Some g; ds_graph := ds_graph st |}.
Definition set_graph (st : dstate) (g : option term) : dstate :=
  {| ds_names := ds_names st; ds_prefixes := ds_prefixes st; ds_datatypes := ds_datatypes st;
     ds_s := ds_s st; ds_p := ds_p st; ds_o := ds_o st; ds_g := ds_g st; ds_graph := g |}.

Definition decode_spo (ig : integ) (s p o : option wterm) (st : dstate)
  : res (dstate * term * term * term) :=
  do (st1, ts) <- decode_slot ig s (ds_s st) st;
  do (st2, tp) <- decode_slot ig p (ds_p st) st1;
  do (st3, to) <- decode_slot ig o (ds_o st) st2;
  Ok (set_spo st3 ts tp to, ts, tp, to).

Definition assign (id : N) (v : str) (d : sldec) : res sldec :=
  match assign_entry id v d with Some d' => Ok d' | None => Err IndexErr end.

(* validate_stream_options: the asserts against the options of the first row *)
Definition validate_stream_options (po : poptions) (o : woptions) : bool :=
  (po_phys po =? o_phys o) && (po_logical po =? o_logical o) && str_eqb (po_name po) (o_name o) &&
  (o_version o <=? po_version po) && (po_maxp po =? o_maxp o) && (po_maxd po =? o_maxd o) &&
  (po_maxn po =? o_maxn o).

(* decode_row + iter_rows: the new state and what is yielded for this row *)
Definition decode_row (ig : integ) (ak : adapter_kind) (po : poptions) (r : row) (st : dstate)
  : res (dstate * list event) :=
  match r with
  | ROptions o => if validate_stream_options po o then Ok (st, []) else Err AssertionErr
  | RPrefix id v =>
    do p' <- assign id v (ds_prefixes st); Ok (set_tables st (ds_names st) p' (ds_datatypes st), [])
  | RName id v =>
    do n' <- assign id v (ds_names st); Ok (set_tables st n' (ds_prefixes st) (ds_datatypes st), [])
  | RDatatype id v =>
    do d' <- assign id v (ds_datatypes st); Ok (set_tables st (ds_names st) (ds_prefixes st) d', [])
  | RTriple s p o =>
    do (st', ts, tp, to) <- decode_spo ig s p o st;
    match ak with
    | ATriples => Ok (st', [ETriple ts tp to])
    | AQuads => Err NotImpl
    | AGraphs =>
      match ds_graph st' with
      | Some g => Ok (st', [EQuad ts tp to g])
      | None => Err Conformance
      end
    end
  | RQuad s p o g =>
    do (st1, ts, tp, to) <- decode_spo ig s p o st;
    do (st2, tg) <- decode_slot ig g (ds_g st1) st1;
    match ak with
    | AQuads => Ok (set_g st2 tg, [EQuad ts tp to tg])
    | _ => Err NotImpl
    end
  | RGraphStart g =>
    match g with
    | None => Err TypeErr                       (* getattr(graph_start, None): attribute name must be string *)
    | Some w =>
      do (st', tg) <- decode_term ig w st;
      match ak with AGraphs => Ok (set_graph st' (Some tg), []) | _ => Err NotImpl end
    end
  | RGraphEnd => match ak with AGraphs => Ok (set_graph st None, []) | _ => Err NotImpl end
  | RNamespace name p n =>
    do (st', iri) <- decode_iri p n st; Ok (st', [EPrefix name iri])
  | REmpty => Err TypeErr
  end.

(* the rows of one frame: the state, the events yielded, and the exception if one row failed *)
Fixpoint decode_rows (ig : integ) (ak : adapter_kind) (po : poptions) (rows : list row) (st : dstate)
  : dstate * list event * option exn :=
  match rows with
  | [] => (st, [], None)
  | r :: rest =>
    match decode_row ig ak po r st with
    | Err e => (st, [], Some e)
    | Ok (st', evs) =>
      let '(st'', out, err) := decode_rows ig ak po rest st' in (st'', evs ++ out, err)
    end
  end.

(* per frame: (metadata, events yielded, exception that ended the frame early) *)
Definition frame_result := (list (str * str) * list event * option exn)%type.

Fixpoint decode_frames (ig : integ) (ak : adapter_kind) (po : poptions) (fs : list frame) (st : dstate)
  : list frame_result :=
  match fs with
  | [] => []
  | f :: rest =>
    let '(st', out, err) := decode_rows ig ak po (f_rows f) st in
    (f_meta f, out, err) ::
    match err with None => decode_frames ig ak po rest st' | Some _ => [] end
  end.

(* ---------- pyjelly/parse/ioutils.py ---------- *)
Definition hint (h : list N) : bool :=
  match h with
  | b0 :: b1 :: b2 :: _ => negb (b0 =? 10) || ((b1 =? 10) && negb (b2 =? 10))
  | _ => false
  end.

Fixpoint skip_empty (fs : list frame) : list frame * list frame :=
  match fs with
  | [] => ([], [])
  | f :: rest =>
    if is_nil (f_rows f) then let '(sk, r) := skip_empty rest in (f :: sk, r) else ([], fs)
  end.

(* get_options_and_frames: the options, the frames, how the frame source ends, and the number
   of frames that had to be read before the options were known *)
(* [header]: the (up to) three bytes the delimiting decision is taken from *)
Definition get_options_and_frames_h (header : list N) (b : list N)
  : res (poptions * list frame * fi_end * nat) :=
  if hint header then
    let '(fs, e) := read_frames b in
    match skip_empty fs with
    | (sk, first :: rest) =>
      do po <- options_from_frame first true; Ok (po, fs, e, S (length sk))
    | (_, []) => match e with FiEof => Err Conformance | FiError => Err DecodeErr end
    end
  else
    match parse_frame b with
    | None => Err DecodeErr
    | Some f =>
      if is_nil (f_rows f) then Err Conformance else
      do po <- options_from_frame f false; Ok (po, [f], FiEof, 1%nat)
    end.

(* ---------- parse_jelly_flat / parse_jelly_grouped ---------- *)
Inductive pend := PEnd | PRaise (e : exn).

Definition route (phys : N) : res adapter_kind :=
  if phys =? 1 then Ok ATriples else if phys =? 2 then Ok AQuads
  else if phys =? 3 then Ok AGraphs else Err NotImpl.

Definition strict_flat_ok (po : poptions) : bool := logical_flat (po_logical po).
Definition strict_grouped_ok (po : poptions) : bool :=
  negb ((po_logical po =? 0) || logical_flat (po_logical po)).

Record parse_result := {
  pr_frames : list frame_result;    (* per frame read, in order *)
  pr_end : pend;                    (* how the generator ended *)
  pr_preread : nat }.               (* frames read before the first yield *)

Definition fail (e : exn) : parse_result := {| pr_frames := []; pr_end := PRaise e; pr_preread := 0 |}.

Fixpoint last_err (frs : list frame_result) : option exn :=
  match frs with
  | [] => None
  | (_, _, Some e) :: _ => Some e
  | _ :: r => last_err r
  end.

Definition get_options_and_frames (b : list N) := get_options_and_frames_h (firstn 3 b) b.

Definition parse_stream_h (header : list N) (ig : integ) (grouped strict : bool) (b : list N) : parse_result :=
  match get_options_and_frames_h header b with
  | Err e => fail e
  | Ok (po, fs, src_end, pre) =>
    if strict && negb (if grouped then strict_grouped_ok po else strict_flat_ok po) then fail Conformance else
    match route (po_phys po) with
    | Err e => fail e
    | Ok ak =>
      match decoder_new po with
      | Err e => fail e
      | Ok st =>
        let frs := decode_frames ig ak po fs st in
        {| pr_frames := frs;
           pr_end := match last_err frs with
                     | Some e => PRaise e
                     | None => match src_end with FiEof => PEnd | FiError => PRaise DecodeErr end
                     end;
           pr_preread := pre |}
      end
    end
  end.

Definition parse_stream (ig : integ) (grouped strict : bool) (b : list N) : parse_result :=
  parse_stream_h (firstn 3 b) ig grouped strict b.

(* flat view: every event yielded, in order *)
Definition flat_events (r : parse_result) : list event :=
  flat_map (fun fr => snd (fst fr)) (pr_frames r).

(* grouped view: one sink per frame that completed *)
Definition grouped_sinks (r : parse_result) : list (list (str * str) * list event) :=
  flat_map (fun fr => match fr with (md, evs, None) => [(md, evs)] | _ => [] end) (pr_frames r).
