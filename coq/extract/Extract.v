(* Extract.v -- extraction of the executable model to OCaml for the correspondence driver.
   Only the directives of ExtrOcamlBasic are used (bool, option, unit, list, prod, sumbool,
   sumor to the OCaml natives; andb/orb inlined); N, positive and nat stay extracted
   inductives. *)
From Coq Require Import Extraction ExtrOcamlBasic.
From PJ.Model Require Import Base Lookup Terms Wire Encoder Streams Decoder Spec Audit Source Api.
Extraction Language OCaml.
Extraction "pj.ml"
  api_audit_bytes api_parse_raw api_lookup api_grouped_generic api_grouped_rdflib flat_stream_to_frames rdf_flat_stream_to_frames api_encode api_encode_rdflib api_encode_rdflib_grouped api_encode_grouped api_steps api_spec_bytes api_spec_payloads api_parse api_reser
  hint ser_frame write_delimited1 emitted raised catalogued flat_events grouped_sinks
  flow_new type_compat spec_compat options_from_frame stream_new options_row.
