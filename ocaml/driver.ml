(* driver.ml -- line-oriented front end to the extracted model (Pj).  One command per
   input line, one reply line per command.  Hand-written and trusted: it only converts
   between text and the extracted datatypes and calls the extracted functions. *)
open Pj

(* ---- numbers and strings ---- *)
let rec pos_of_int (i : int) : positive =
  if i = 1 then XH else if i land 1 = 0 then XO (pos_of_int (i lsr 1)) else XI (pos_of_int (i lsr 1))
let n_of_int (i : int) : n = if i = 0 then N0 else Npos (pos_of_int i)
let rec int_of_pos (p : positive) : int =
  match p with XH -> 1 | XO q -> 2 * int_of_pos q | XI q -> 2 * int_of_pos q + 1
let int_of_n (x : n) : int = match x with N0 -> 0 | Npos p -> int_of_pos p
let rec int_of_nat (x : nat) : int = match x with O -> 0 | S y -> 1 + int_of_nat y
(* N values can exceed OCaml ints only for hostile varints; print those in hex bits *)
let rec bits_of_pos p = match p with XH -> 1 | XO q | XI q -> 1 + bits_of_pos q
let string_of_n (x : n) : string =
  match x with
  | N0 -> "0"
  | Npos p -> if bits_of_pos p < 62 then string_of_int (int_of_pos p) else "big"

let hexval c =
  match c with
  | '0'..'9' -> Char.code c - 48
  | 'a'..'f' -> Char.code c - 87
  | 'A'..'F' -> Char.code c - 55
  | _ -> failwith "bad hex"
let bytes_of_hex (s : string) : n list =
  (* s starts with 'x' *)
  if String.length s = 0 || s.[0] <> 'x' then failwith ("expected hex token, got " ^ s);
  let len = (String.length s - 1) / 2 in
  let rec go i acc = if i < 0 then acc else go (i - 1) (n_of_int (hexval s.[1 + 2*i] * 16 + hexval s.[2 + 2*i]) :: acc) in
  go (len - 1) []
let hex_of_bytes (b : n list) : string =
  let buf = Buffer.create 64 in
  Buffer.add_char buf 'x';
  List.iter (fun x -> Buffer.add_string buf (Printf.sprintf "%02x" (int_of_n x land 255))) b;
  Buffer.contents buf

(* ---- token reader ---- *)
let toks : string array ref = ref [||]
let pos = ref 0
let next () = let t = !toks.(!pos) in incr pos; t
let next_int () = int_of_string (next ())
let next_n () = n_of_int (next_int ())
let next_bool () = next () = "1"
let next_hex () = bytes_of_hex (next ())
let next_ohex () = let t = next () in if t = "-" then None else Some (bytes_of_hex t)
let rec repeat k f = if k <= 0 then [] else let x = f () in x :: repeat (k - 1) f

let rec next_term () : term =
  match next () with
  | "I" -> TIri (next_hex ())
  | "B" -> TBnode (next_hex ())
  | "L" -> let lex = next_hex () in let lang = next_ohex () in let dt = next_ohex () in TLit (lex, lang, dt)
  | "T" -> let s = next_term () in let p = next_term () in let o = next_term () in TTriple (s, p, o)
  | "D" -> TDefault
  | "O" -> TOther
  | t -> failwith ("bad term token " ^ t)

let next_stmt () : term list = let k = next_int () in repeat k next_term
let next_stmts () : term list list = let k = next_int () in repeat k next_stmt
let next_ns () : (str * str) list =
  let k = next_int () in repeat k (fun () -> let a = next_hex () in let b = next_hex () in (a, b))

(* ---- printers ---- *)
let ohex o = match o with None -> "-" | Some s -> hex_of_bytes s
let rec pterm (t : term) : string =
  match t with
  | TIri s -> "I " ^ hex_of_bytes s
  | TBnode s -> "B " ^ hex_of_bytes s
  | TLit (l, g, d) -> "L " ^ hex_of_bytes l ^ " " ^ ohex g ^ " " ^ ohex d
  | TTriple (s, p, o) -> "T " ^ pterm s ^ " " ^ pterm p ^ " " ^ pterm o
  | TDefault -> "D"
  | TOther -> "O"
let pevent (e : event) : string =
  match e with
  | ETriple (s, p, o) -> "ET " ^ pterm s ^ " " ^ pterm p ^ " " ^ pterm o
  | EQuad (s, p, o, g) -> "EQ " ^ pterm s ^ " " ^ pterm p ^ " " ^ pterm o ^ " " ^ pterm g
  | EPrefix (n, i) -> "EP " ^ hex_of_bytes n ^ " " ^ hex_of_bytes i
let pevents evs = String.concat " " (List.map pevent evs)

let ptev (e : tev) : string =
  match e with
  | Pull -> "P"
  | Emit f -> "F" ^ hex_of_bytes (ser_frame f)
  | Raise _ -> "R"
let ptevs evs = String.concat " " (List.map ptev evs)

let pclass (c : vclass) : string =
  match c with
  | MissingOptions -> "MissingOptions" | UnsupportedType -> "UnsupportedType"
  | UnsupportedVersion -> "UnsupportedVersion" | BadOptions -> "BadOptions"
  | OptionsChanged -> "OptionsChanged" | IdOutOfRange -> "IdOutOfRange" | Unfilled -> "Unfilled"
  | DatatypeZero -> "DatatypeZero" | DatatypeDisabled -> "DatatypeDisabled"
  | EmptyLangtag -> "EmptyLangtag" | RepeatedInQuoted -> "RepeatedInQuoted"
  | RepeatedWithoutPrevious -> "RepeatedWithoutPrevious" | RowKind -> "RowKind"
  | TripleOutsideGraph -> "TripleOutsideGraph" | GraphStartEmpty -> "GraphStartEmpty"
  | GraphEndWithoutStart -> "GraphEndWithoutStart" | NamespaceInV1 -> "NamespaceInV1"
  | BadTermPosition -> "BadTermPosition" | EmptyRow -> "EmptyRow"

let pverdict (v : verdict option) : string =
  match v with
  | None -> "unparsable"
  | Some (Valid evs) -> "valid " ^ pevents evs
  | Some (Invalid (i, c, evs)) ->
    Printf.sprintf "invalid %d %s %d %s" (int_of_nat i) (pclass c) (if catalogued c then 1 else 0) (pevents evs)

(* ---- serializer configuration ---- *)
let flow_kind_of s =
  match s with
  | "M" -> FManual | "B" -> FBounded | "FT" -> FFlatTriples | "FQ" -> FFlatQuads
  | "G" -> FGraphs | "D" -> FDatasets | _ -> failwith "bad flow kind"

let next_config () =
  let ig = (match next () with "g" -> Generic | "r" -> Rdflib | _ -> failwith "integ") in
  let cls = (match next () with "T" -> TripleStream | "Q" -> QuadStream | "G" -> GraphStream | _ -> failwith "class") in
  let fl = next () in
  let flow =
    if fl = "-" then None else
      (match String.split_on_char ':' fl with
       | [k; l; fs] -> Some (flow_new (flow_kind_of k) (n_of_int (int_of_string l)) (n_of_int (int_of_string fs)))
       | _ -> failwith "flow") in
  let fs = next_n () in
  let logical = next_n () in
  let gen = next_bool () in let star = next_bool () in let delim = next_bool () in let nd = next_bool () in
  let name = next_hex () in
  let maxn = next_n () in let maxp = next_n () in let maxd = next_n () in
  let params = { p_gen = gen; p_star = star; p_delimited = delim; p_nd = nd; p_name = name } in
  (cls, ig, { so_flow = flow; so_frame_size = fs; so_logical = logical; so_params = params;
              so_maxn = maxn; so_maxp = maxp; so_maxd = maxd })

let next_sdata () : sdata =
  let sink = next_bool () in
  let ns = next_ns () in
  let stmts = next_stmts () in
  { d_is_sink = sink; d_namespaces = ns; d_stmts = stmts }

let next_rdata () : rdata =
  let kind = (match next () with "graph" -> RGraph | "dataset" -> RDataset | "gen" -> RGen | _ -> failwith "rkind") in
  let ns = next_ns () in
  let k = next_int () in
  let graphs = repeat k (fun () -> let g = next_term () in let ts = next_stmts () in (g, ts)) in
  let stmts = next_stmts () in
  { rd_kind = kind; rd_namespaces = ns; rd_graphs = graphs; rd_stmts = stmts }

let pstream_end (s : stream) =
  Printf.sprintf "| flow=%d failed=%d" (List.length s.st_flow.fl_rows) (if s.st_failed then 1 else 0)

(* ---- commands ---- *)
let plk (o : lk_obs option) : string =
  match o with
  | None -> "[X]"
  | Some o ->
    Printf.sprintf "[e=%s t=%s r=%s w=%s la=%s/%s lr=%s/%s]"
      (match o.lo_entry with None -> "-" | Some i -> string_of_n i) (string_of_n o.lo_term)
      (match o.lo_resolved with None -> "!" | Some s -> hex_of_bytes s)
      (string_of_n o.lo_wlen) (string_of_n o.lo_la_w) (string_of_n o.lo_la_r)
      (string_of_n o.lo_lr_w) (string_of_n o.lo_lr_r)

let pframe_result (fr : frame_result) : string =
  let ((md, evs), err) = fr in
  Printf.sprintf "{ %d %s; %s ; %s }" (List.length md)
    (String.concat " " (List.map (fun (k, v) -> hex_of_bytes k ^ " " ^ hex_of_bytes v) md))
    (pevents evs) (match err with None -> "ok" | Some _ -> "err")


(* ---- XC: the same command as a Coq Example (extraction cross-check) ---- *)
let cq_n (x : n) : string = string_of_int (int_of_n x)
let cq_list f l = "[" ^ String.concat "; " (List.map f l) ^ "]"
let cq_bytes (b : n list) : string = if b = [] then "(@nil N)" else cq_list cq_n b
let cq_bool b = if b then "true" else "false"
let cq_opt f o = match o with None -> "None" | Some x -> "(Some " ^ f x ^ ")"
let rec cq_term (t : term) : string =
  match t with
  | TIri s -> "(TIri " ^ cq_bytes s ^ ")"
  | TBnode s -> "(TBnode " ^ cq_bytes s ^ ")"
  | TLit (l, g, d) -> "(TLit " ^ cq_bytes l ^ " " ^ cq_opt cq_bytes g ^ " " ^ cq_opt cq_bytes d ^ ")"
  | TTriple (s, p, o) -> "(TTriple " ^ cq_term s ^ " " ^ cq_term p ^ " " ^ cq_term o ^ ")"
  | TDefault -> "TDefault"
  | TOther -> "TOther"
let cq_event (e : event) : string =
  match e with
  | ETriple (s, p, o) -> "(ETriple " ^ cq_term s ^ " " ^ cq_term p ^ " " ^ cq_term o ^ ")"
  | EQuad (s, p, o, g) -> "(EQuad " ^ cq_term s ^ " " ^ cq_term p ^ " " ^ cq_term o ^ " " ^ cq_term g ^ ")"
  | EPrefix (n, i) -> "(EPrefix " ^ cq_bytes n ^ " " ^ cq_bytes i ^ ")"
let cq_events evs = if evs = [] then "(@nil event)" else cq_list cq_event evs
let cq_stmts (l : term list list) = if l = [] then "(@nil (list term))" else cq_list (fun st -> if st = [] then "(@nil term)" else cq_list cq_term st) l
let cq_pairs (l : (str * str) list) = if l = [] then "(@nil (str * str))" else cq_list (fun (a, b) -> "(" ^ cq_bytes a ^ ", " ^ cq_bytes b ^ ")") l
let cq_flow_kind k = match k with FManual -> "FManual" | FBounded -> "FBounded" | FFlatTriples -> "FFlatTriples"
                                  | FFlatQuads -> "FFlatQuads" | FGraphs -> "FGraphs" | FDatasets -> "FDatasets"
let cq_flow (f : flow) =
  Printf.sprintf "{| fl_kind := %s; fl_logical := %s; fl_frame_size := %s; fl_rows := (@nil row) |}"
    (cq_flow_kind f.fl_kind) (cq_n f.fl_logical) (cq_n f.fl_frame_size)
let cq_soptions (o : soptions) =
  Printf.sprintf "{| so_flow := %s; so_frame_size := %s; so_logical := %s; so_params := {| p_gen := %s; p_star := %s; p_delimited := %s; p_nd := %s; p_name := %s |}; so_maxn := %s; so_maxp := %s; so_maxd := %s |}"
    (cq_opt (fun f -> "(" ^ cq_flow f ^ ")") o.so_flow) (cq_n o.so_frame_size) (cq_n o.so_logical)
    (cq_bool o.so_params.p_gen) (cq_bool o.so_params.p_star) (cq_bool o.so_params.p_delimited) (cq_bool o.so_params.p_nd)
    (cq_bytes o.so_params.p_name) (cq_n o.so_maxn) (cq_n o.so_maxp) (cq_n o.so_maxd)
let cq_sdata (d : sdata) =
  Printf.sprintf "{| d_is_sink := %s; d_namespaces := %s; d_stmts := %s |}" (cq_bool d.d_is_sink) (cq_pairs d.d_namespaces) (cq_stmts d.d_stmts)
let cq_class c = match c with TripleStream -> "TripleStream" | QuadStream -> "QuadStream" | GraphStream -> "GraphStream"
let cq_integ i = match i with Generic -> "Generic" | Rdflib -> "Rdflib"
let cq_nat (i : int) = "(" ^ string_of_int i ^ ")%nat"
let cq_lk (o : lk_obs) =
  Printf.sprintf "{| lo_entry := %s; lo_term := %s; lo_resolved := %s; lo_wlen := %s; lo_la_w := %s; lo_lr_w := %s; lo_la_r := %s; lo_lr_r := %s |}"
    (cq_opt cq_n o.lo_entry) (cq_n o.lo_term) (cq_opt cq_bytes o.lo_resolved) (cq_n o.lo_wlen) (cq_n o.lo_la_w) (cq_n o.lo_lr_w) (cq_n o.lo_la_r) (cq_n o.lo_lr_r)
let cq_tev (e : tev) =
  match e with
  | Pull -> "(0, (@nil N))" | Emit f -> "(1, " ^ cq_bytes (ser_frame f) ^ ")" | Raise _ -> "(2, (@nil N))"

let handle_xc () : string =
  match next () with
  | "LK" ->
    let rs = next () in
    let rule = (match rs with "n" -> LkName | "p" -> LkPrefix | "d" -> LkDatatype | _ -> failwith "rule") in
    let size = next_n () in
    let k = next_int () in
    let keys = repeat k next_hex in
    let res = api_lookup rule size keys in
    Printf.sprintf "api_lookup %s %s %s = %s"
      (match rule with LkName -> "LkName" | LkPrefix -> "LkPrefix" | LkDatatype -> "LkDatatype") (cq_n size)
      (if keys = [] then "(@nil str)" else cq_list cq_bytes keys)
      (if res = [] then "(@nil (option lk_obs))" else cq_list (cq_opt cq_lk) res)
  | "EN" ->
    let (cls, ig, o) = next_config () in
    let d = next_sdata () in
    let res = (match api_encode cls ig o d with
        | Err _ -> "None"
        | Ok (s, evs) ->
          Printf.sprintf "(Some (%s, %s, %s))" (if evs = [] then "(@nil (N * list N))" else cq_list cq_tev evs)
            (cq_nat (List.length s.st_flow.fl_rows)) (cq_bool s.st_failed)) in
    Printf.sprintf "obs_encode %s %s (%s) (%s) = %s" (cq_class cls) (cq_integ ig) (cq_soptions o) (cq_sdata d) res
  | "PA" ->
    let ig = (match next () with "g" -> Generic | "r" -> Rdflib | _ -> failwith "integ") in
    let grouped = next_bool () in let strict = next_bool () in
    let b = next_hex () in
    let r = api_parse ig grouped strict b in
    let pfr (fr : frame_result) = let ((md, evs), err) = fr in
      Printf.sprintf "(%s, %s, %s)" (cq_pairs md) (cq_events evs) (cq_bool (err <> None)) in
    Printf.sprintf "obs_parse %s %s %s %s = (%s, %s, %s)" (cq_integ ig) (cq_bool grouped) (cq_bool strict) (cq_bytes b)
      (cq_nat (int_of_nat r.pr_preread)) (cq_bool (r.pr_end = PEnd))
      (if r.pr_frames = [] then "(@nil (list (str * str) * list event * bool))" else cq_list pfr r.pr_frames)
  | "SB" ->
    let b = next_hex () in
    let v = api_spec_bytes b in
    let pv = (match v with
        | None -> "None"
        | Some (Valid evs) -> "(Some (Valid " ^ cq_events evs ^ "))"
        | Some (Invalid (i, c, evs)) -> Printf.sprintf "(Some (Invalid %s %s %s))" (cq_nat (int_of_nat i)) (pclass c) (cq_events evs)) in
    Printf.sprintf "api_spec_bytes %s = %s" (cq_bytes b) pv
  | "AU" ->
    let b = next_hex () in
    let pc = (match api_audit_bytes b with
        | None -> "None"
        | Some c -> Printf.sprintf "(Some {| c_redundant := %s; c_elision := %s; c_zero := %s; c_gstart := %s; c_entries := %s |})"
                      (cq_n c.c_redundant) (cq_n c.c_elision) (cq_n c.c_zero) (cq_n c.c_gstart) (cq_n c.c_entries)) in
    Printf.sprintf "api_audit_bytes %s = %s" (cq_bytes b) pc
  | c -> failwith ("no cross-check form for " ^ c)

let handle () : string =
  match next () with
  | "XC" -> handle_xc ()
  | "LK" ->
    let rule = (match next () with "n" -> LkName | "p" -> LkPrefix | "d" -> LkDatatype | _ -> failwith "rule") in
    let size = next_n () in
    let k = next_int () in
    let keys = repeat k next_hex in
    String.concat " " (List.map plk (api_lookup rule size keys))
  | "EN" ->
    let (cls, ig, o) = next_config () in
    let d = next_sdata () in
    (match api_encode cls ig o d with
     | Err _ -> "ERRNEW"
     | Ok (s, evs) -> ptevs evs ^ " " ^ pstream_end s)
  | "ER" ->
    let (cls, _, o) = next_config () in
    let d = next_rdata () in
    (match api_encode_rdflib cls o d with
     | Err _ -> "ERRNEW"
     | Ok (s, evs) -> ptevs evs ^ " " ^ pstream_end s)
  | "ERG" ->
    let (cls, _, o) = next_config () in
    let k = next_int () in
    let sinks = repeat k next_rdata in
    (match api_encode_rdflib_grouped cls o sinks with
     | Err _ -> "ERRNEW"
     | Ok (s, evs) -> ptevs evs ^ " " ^ pstream_end s)
  | "FL" ->   (* flat_stream_to_frames, generic *)
    let has = next_bool () in
    let (_, _, o) = next_config () in
    let stmts = next_stmts () in
    let (evs, so) = flat_stream_to_frames (if has then Some o else None) stmts in
    ptevs evs ^ (match so with Some s -> " " ^ pstream_end s | None -> " | none")
  | "FLR" ->  (* flat_stream_to_frames, rdflib *)
    let has = next_bool () in
    let (_, _, o) = next_config () in
    let d = next_rdata () in
    let (evs, so) = rdf_flat_stream_to_frames (if has then Some o else None) d in
    ptevs evs ^ (match so with Some s -> " " ^ pstream_end s | None -> " | none")
  | "GR" ->   (* grouped_stream_to_frames, generic *)
    let has = next_bool () in
    let (_, _, o) = next_config () in
    let k = next_int () in
    let sinks = repeat k next_sdata in
    (match api_grouped_generic (if has then Some o else None) sinks with
     | Err _ -> "ERRNEW"
     | Ok (s, evs) -> ptevs evs ^ " " ^ pstream_end s)
  | "GRR" ->  (* grouped_stream_to_frames, rdflib *)
    let has = next_bool () in
    let (_, _, o) = next_config () in
    let k = next_int () in
    let sinks = repeat k next_rdata in
    (match api_grouped_rdflib (if has then Some o else None) sinks with
     | Err _ -> "ERRNEW"
     | Ok (s, evs) -> ptevs evs ^ " " ^ pstream_end s)
  | "EG" ->
    let (cls, ig, o) = next_config () in
    let k = next_int () in
    let sinks = repeat k next_sdata in
    (match api_encode_grouped cls ig o sinks with
     | Err _ -> "ERRNEW"
     | Ok (s, evs) -> ptevs evs ^ " " ^ pstream_end s)
  | "ST" ->
    let (cls, ig, o) = next_config () in
    let k = next_int () in
    let ops = repeat k (fun () ->
        match next () with
        | "t" -> OpTriple (next_stmt ())
        | "q" -> OpQuad (next_stmt ())
        | "g" -> let g = next_term () in let ts = next_stmts () in OpGraph (g, ts)
        | "n" -> let a = next_hex () in let b = next_hex () in OpNamespace (a, b)
        | "f" -> OpFlush
        | t -> failwith ("bad op " ^ t)) in
    (match api_steps cls ig o ops with
     | Err _ -> "ERRNEW"
     | Ok (s, per) -> String.concat " " (List.map (fun evs -> "{ " ^ ptevs evs ^ " }") per) ^ " " ^ pstream_end s)
  | "SB" -> pverdict (api_spec_bytes (next_hex ()))
  | "SP" -> let k = next_int () in pverdict (api_spec_payloads (repeat k next_hex))
  | "PA" ->
    let ig = (match next () with "g" -> Generic | "r" -> Rdflib | _ -> failwith "integ") in
    let grouped = next_bool () in let strict = next_bool () in
    let r = api_parse ig grouped strict (next_hex ()) in
    Printf.sprintf "pre=%d end=%s %s" (int_of_nat r.pr_preread)
      (match r.pr_end with PEnd -> "E" | PRaise _ -> "R")
      (String.concat " " (List.map pframe_result r.pr_frames))
  | "AU" ->
    (match api_audit_bytes (next_hex ()) with
     | None -> "invalid"
     | Some c -> Printf.sprintf "redundant=%s elision=%s zero=%s gstart=%s entries=%s" (string_of_n c.c_redundant)
                   (string_of_n c.c_elision) (string_of_n c.c_zero) (string_of_n c.c_gstart) (string_of_n c.c_entries))
  | "PS" ->
    let ig = (match next () with "g" -> Generic | "r" -> Rdflib | _ -> failwith "integ") in
    let grouped = next_bool () in let strict = next_bool () in
    let k = next_int () in
    let rec nat_of_int i = if i <= 0 then O else S (nat_of_int (i - 1)) in
    let sched = repeat k (fun () -> nat_of_int (Stdlib.min (next_int ()) 64)) in
    let r = api_parse_raw ig grouped strict sched (next_hex ()) in
    Printf.sprintf "pre=%d end=%s %s" (int_of_nat r.pr_preread)
      (match r.pr_end with PEnd -> "E" | PRaise _ -> "R")
      (String.concat " " (List.map pframe_result r.pr_frames))
  | "HD" -> if hint (next_hex ()) then "1" else "0"
  | "WF" -> (match api_reser (next_hex ()) with None -> "unparsable" | Some b -> hex_of_bytes b)
  | c -> failwith ("unknown command " ^ c)

let () =
  try
    while true do
      let line = input_line stdin in
      toks := Array.of_list (List.filter (fun s -> s <> "") (String.split_on_char ' ' line));
      pos := 0;
      let out = (try handle () with
          | Failure m -> "DRIVER-ERROR " ^ m
          | Invalid_argument m -> "DRIVER-ERROR " ^ m
          | Stack_overflow -> "DRIVER-ERROR stack overflow") in
      print_string out; print_newline ()
    done
  with End_of_file -> ()
