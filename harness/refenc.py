"""refenc.py -- an independent reference ENCODER of the Jelly format making arbitrary legal
choices (eviction victim, IRI split point, explicit vs zero ids, early or redundant entries,
use or non-use of repeated terms, frame cuts, empty and metadata-only frames, repeated
identical options rows).  It shares no code with pyjelly's encoder; rows are built directly
as protobuf messages.  Every stream it produces is admitted only when the extracted Spec
referee says Valid with the events the encoder intended.

It can also inject one catalogued violation (C16) at a chosen position."""
from __future__ import annotations

import random

from core import event_tok, gs, hx
from pyjelly import jelly

VIOLATIONS = [
    "id_out_of_range_entry", "implicit_id_after_last_slot", "id_out_of_range_ref", "unfilled_ref", "unfilled_gap_ref", "datatype_zero", "datatype_disabled",
    "repeated_without_previous", "repeated_in_quoted", "missing_options", "row_kind", "triple_outside_graph",
    "unsupported_version", "unsupported_type",
]


class Table:
    def __init__(self, size: int) -> None:
        self.size = size
        self.slots: list[str | None] = [None] * (size + 1)  # 1-based
        self.last_assigned = 0

    def find(self, v: str) -> int | None:
        for i in range(1, self.size + 1):
            if self.slots[i] == v:
                return i
        return None


class RefEncoder:
    def __init__(self, r: random.Random, phys: int, maxn: int, maxp: int, maxd: int, version: int = 1,
                 logical: int = 0, name: str = "", gen: bool = True, star: bool = True, edge_p: float = 0.0, natural_split_p: float = 0.0) -> None:
        self.r = r
        self.natural_split_p = natural_split_p  # how often an IRI is split after its last '/' or '#' (else: anywhere)
        self.pairs: dict[tuple[int, int], str] = {}
        self.pair_reuse = 0  # IRIs whose (prefix slot, name slot) pair stood for another IRI before
        self.edge_p = edge_p  # how often a freely chosen slot is the highest free one (ids at the top edge of a table)
        self.phys, self.version, self.logical, self.name = phys, version, logical, name
        self.gen, self.star = gen, star
        self.names, self.prefixes, self.datatypes = Table(maxn), Table(maxp), Table(maxd)
        self.last_pid = 0
        self.last_nid = 0
        self.prev: dict[str, object] = {}
        self.rows: list = []  # row messages in order
        self.row_events: list[int] = []  # events each row denotes (parallel to rows, filled by frames())
        self.events: list[str] = []
        self.event_rows: list[int] = []  # index of the row that carries each event
        self.pinned: dict[int, set[int]] = {}
        self.open_graph = None
        self.cur_rows: list = []

    # ---- rows
    def options_row(self):
        return jelly.RdfStreamRow(options=jelly.RdfStreamOptions(
            stream_name=self.name, physical_type=self.phys, generalized_statements=self.gen, rdf_star=self.star,
            max_name_table_size=self.names.size, max_prefix_table_size=self.prefixes.size,
            max_datatype_table_size=self.datatypes.size, logical_type=self.logical, version=self.version))

    def _entry(self, table: Table, kind: str, value: str) -> int:
        """Make sure `value` is in the table (possibly re-sending it), return its slot."""
        r = self.r
        pinned = self.pinned.setdefault(id(table), set())
        slot = table.find(value)
        if slot is not None and r.random() < 0.85:
            pinned.add(slot)
            return slot  # resident: no entry
        # choose a slot: resident one (redundant re-send), sequential, or any non-pinned slot
        if slot is None:
            choices = [i for i in range(1, table.size + 1) if i not in pinned]
            if not choices:
                raise OverflowError("statement does not fit the table")
            seq = table.last_assigned + 1
            empties = [i for i in choices if table.slots[i] is None]
            k = r.random()
            if seq in choices and k < 0.5:
                slot = seq
            elif empties and k < 0.8:
                slot = max(empties) if r.random() < self.edge_p else r.choice(empties)
            else:
                slot = r.choice(choices)
        explicit = slot
        if slot == table.last_assigned + 1 and r.random() < 0.7:
            explicit = 0
        table.slots[slot] = value
        table.last_assigned = slot
        pinned.add(slot)
        if kind == "name":
            row = jelly.RdfStreamRow(name=jelly.RdfNameEntry(id=explicit, value=value))
        elif kind == "prefix":
            row = jelly.RdfStreamRow(prefix=jelly.RdfPrefixEntry(id=explicit, value=value))
        else:
            row = jelly.RdfStreamRow(datatype=jelly.RdfDatatypeEntry(id=explicit, value=value))
        self.cur_rows.append(row)
        return slot

    def iri(self, s: str, msg) -> None:
        r = self.r
        if self.prefixes.size == 0:
            k = 0
        else:
            # any split point is legal (on character boundaries)
            k = r.choice([0, len(s), s.rfind("/") + 1, s.rfind("#") + 1, r.randint(0, len(s))])
            if r.random() < self.natural_split_p:
                k = max(s.rfind("/"), s.rfind("#")) + 1
        prefix, name = s[:k], s[k:]
        if prefix == "" and self.last_pid == 0:
            pid_wire = 0
        else:
            if self.prefixes.size == 0:
                raise OverflowError
            pslot = self._entry(self.prefixes, "prefix", prefix)
            pid_wire = 0 if (pslot == self.last_pid and r.random() < 0.7) else pslot
            self.last_pid = pslot
        nslot = self._entry(self.names, "name", name)
        nid_wire = 0 if (nslot == self.last_nid + 1 and r.random() < 0.7) else nslot
        self.last_nid = nslot
        msg.prefix_id = pid_wire
        msg.name_id = nid_wire
        key = (self.last_pid, nslot)
        if self.pairs.get(key, s) != s:
            self.pair_reuse += 1
        self.pairs[key] = s

    def literal(self, t: gs.Literal, msg) -> None:
        msg.lex = t._lex
        if t._langtag:
            msg.langtag = t._langtag
        elif t._datatype:
            if self.datatypes.size == 0:
                raise OverflowError
            msg.datatype = self._entry(self.datatypes, "datatype", t._datatype)

    def term(self, t, stmt, prefix: str) -> None:
        """Fill field <prefix>_{iri,bnode,literal,triple_term} of stmt."""
        if isinstance(t, gs.IRI):
            self.iri(t._iri, getattr(stmt, prefix + "_iri"))
            getattr(stmt, prefix + "_iri").SetInParent()
        elif isinstance(t, gs.BlankNode):
            setattr(stmt, prefix + "_bnode", t._identifier)
        elif isinstance(t, gs.Literal):
            self.literal(t, getattr(stmt, prefix + "_literal"))
            getattr(stmt, prefix + "_literal").SetInParent()
        elif isinstance(t, gs.Triple):
            q = getattr(stmt, prefix + "_triple_term")
            q.SetInParent()
            for tt, pp in zip(t, "spo"):
                self.term(tt, q, pp)
        elif t is gs.DefaultGraph:
            getattr(stmt, prefix + "_default_graph").SetInParent()
        else:
            raise TypeError(t)

    def slot(self, t, stmt, prefix: str, oneof: str) -> None:
        if oneof in self.prev and self.prev[oneof] == t and self.r.random() < 0.8:
            return  # repeated term
        self.term(t, stmt, prefix)
        self.prev[oneof] = t

    def begin(self) -> None:
        self.pinned = {}
        self.cur_rows = []

    def commit(self, row) -> None:
        self.rows.extend(self.cur_rows)
        self.rows.append(row)
        self.cur_rows = []

    def triple(self, s, p, o) -> None:
        self.begin()
        t = jelly.RdfTriple()
        self.slot(s, t, "s", "subject")
        self.slot(p, t, "p", "predicate")
        self.slot(o, t, "o", "object")
        self.commit(jelly.RdfStreamRow(triple=t))

    def quad(self, s, p, o, g) -> None:
        self.begin()
        q = jelly.RdfQuad()
        self.slot(s, q, "s", "subject")
        self.slot(p, q, "p", "predicate")
        self.slot(o, q, "o", "object")
        self.slot(g, q, "g", "graph")
        self.commit(jelly.RdfStreamRow(quad=q))

    def graph_start(self, g) -> None:
        self.begin()
        m = jelly.RdfGraphStart()
        self.term(g, m, "g")
        self.commit(jelly.RdfStreamRow(graph_start=m))
        self.open_graph = g

    def graph_end(self) -> None:
        self.rows.append(jelly.RdfStreamRow(graph_end=jelly.RdfGraphEnd()))
        self.open_graph = None

    def namespace(self, name: str, iri: str) -> None:
        self.begin()
        m = jelly.RdfNamespaceDeclaration(name=name)
        self.iri(iri, m.value)
        m.value.SetInParent()
        self.commit(jelly.RdfStreamRow(namespace=m))
        self.events.append(f"EP {hx(name)} {hx(iri)}")
        self.event_rows.append(len(self.rows) - 1)

    # ---- whole streams
    def encode(self, stmts: list, ns: list[tuple[str, str]]) -> None:
        r = self.r
        self.rows.append(self.options_row())
        pending_ns = list(ns) if self.version >= 2 else []
        for st in stmts:
            while pending_ns and r.random() < 0.5:
                self.namespace(*pending_ns.pop(0))
            if r.random() < 0.08:
                self.rows.append(self.options_row())  # repeated identical options row
            if self.phys == 1:
                self.triple(*st[:3])
                self.events.append(event_tok(gs.Triple(*st[:3])))
                self.event_rows.append(len(self.rows) - 1)
            elif self.phys == 2:
                self.quad(*st[:4])
                self.events.append(event_tok(gs.Quad(*st[:4])))
                self.event_rows.append(len(self.rows) - 1)
            else:
                g = st[3]
                if self.open_graph is None or self.open_graph != g or r.random() < 0.15:
                    if self.open_graph is not None and r.random() < 0.8:
                        self.graph_end()
                    self.graph_start(g)
                self.triple(*st[:3])
                self.events.append(event_tok(gs.Quad(*st[:3], g)))
                self.event_rows.append(len(self.rows) - 1)
        while pending_ns:
            self.namespace(*pending_ns.pop(0))
        if self.phys == 3 and self.open_graph is not None and r.random() < 0.8:
            self.graph_end()

    def frames(self, cut_p: float = 0.3, empties: bool = True, metadata: bool = True) -> list:
        """Cut the rows into frames at random; returns protobuf frames."""
        r = self.r
        out = []
        cur = jelly.RdfStreamFrame()
        self.frame_rows: list[int] = []  # number of rows in each frame produced

        def flush():
            nonlocal cur
            # the first frame of a stream must be empty or start with a row for the delimiting
            # heuristic to apply (C08's domain), so a leading frame without rows gets no metadata
            if metadata and r.random() < 0.2 and (out or len(cur.rows)):
                cur.metadata["k" + str(r.randint(0, 2))] = bytes([r.randint(0, 255) for _ in range(r.randint(0, 3))])
            out.append(cur)
            self.frame_rows.append(len(cur.rows))
            cur = jelly.RdfStreamFrame()

        if empties and r.random() < 0.2:
            flush()  # leading empty (possibly metadata-only) frame
        for row in self.rows:
            cur.rows.append(row)
            if r.random() < cut_p:
                flush()
                if empties and r.random() < 0.1:
                    flush()
        if len(cur.rows) or r.random() < 0.1:
            flush()
        return out


def frames_bytes(frames: list, delimited: bool = True) -> bytes:
    from fam_encode import varint

    if delimited:
        return b"".join(varint(len(b)) + b for b in (f.SerializeToString(deterministic=True) for f in frames))
    merged = jelly.RdfStreamFrame()
    for f in frames:
        merged.rows.extend(f.rows)
    return merged.SerializeToString(deterministic=True)


def frame_events(events: list[str], event_rows: list[int], frame_rows: list[int]) -> list[list[str]]:
    """Split the events of a stream by the frame that carries their row."""
    out, start = [], 0
    for n in frame_rows:
        out.append([e for e, ri in zip(events, event_rows) if start <= ri < start + n])
        start += n
    return out


def cut_frames(rows: list, cuts: list[int], metadata=None) -> list:
    """Frames from an explicit partition: cuts = row counts per frame (zeros = empty frames)."""
    out, i = [], 0
    for k, n in enumerate(cuts):
        f = jelly.RdfStreamFrame()
        for row in rows[i : i + n]:
            f.rows.append(row)
        i += n
        if metadata and metadata.get(k):
            for a, b in metadata[k]:
                f.metadata[a] = b
        out.append(f)
    assert i == len(rows)
    return out
