"""fam_encode.py -- family EN: the serializer entry points of both integrations against
model/Encoder.v + Streams.v (frames compared byte for byte through model/Wire.v, pull/emit
traces, flow length and failed flag at return), with the property oracles of C01/C03/C06/C11/
C14/C18/C19/C20 evaluated on what the implementation wrote."""
from __future__ import annotations

import io

import core
from core import (Cfg, PullLog, en_cmd, event_tok, frame_tok, gparse, gs, gser, hx, make_stream, norm_term, ns_tok,
                  stmts_tok, stream_end_tok, strip_pulls, trace_frames, unhx)


def varint(n: int) -> bytes:
    out = bytearray()
    while True:
        b = n & 0x7F
        n >>= 7
        if n:
            out.append(b | 0x80)
        else:
            out.append(b)
            return bytes(out)


def delimited(frames: list[bytes]) -> bytes:
    return b"".join(varint(len(f)) + f for f in frames)


def split_delimited(data: bytes) -> list[bytes] | None:
    out, i = [], 0
    while i < len(data):
        n, shift = 0, 0
        while True:
            if i >= len(data):
                return None
            b = data[i]
            i += 1
            n |= (b & 0x7F) << shift
            shift += 7
            if not b & 0x80:
                break
        if i + n > len(data):
            return None
        out.append(data[i : i + n])
        i += n
    return out


def to_bytes(cfg: Cfg, frames: list[bytes]) -> bytes:
    """What a caller of stream_frames writes: delimited, or frames concatenated (write_single)."""
    return delimited(frames) if cfg.delim else b"".join(frames)


def expected_events(stmts: list, cls: str, ns: list | None = None, nd: bool = False) -> list[str]:
    """The events the input denotes: what must come back (xsd:string == plain)."""
    out = []
    if nd and ns:
        out += [f"EP {hx(a)} {hx(b)}" for a, b in ns]
    for st in stmts:
        terms = [norm_term(t) for t in st]
        if cls == "T":
            out.append(event_tok(gs.Triple(*terms[:3])))
        else:
            out.append(event_tok(gs.Quad(*terms[:4])))
    return out


def impl_parse_flat(data: bytes, inp=None):
    """parse_jelly_flat on bytes (or on a prepared binary file object) -> (end, [event tokens]) with literals normalised."""
    evs, end = [], "E"
    try:
        for item in gparse.parse_jelly_flat(io.BytesIO(data) if inp is None else inp):
            if isinstance(item, gs.Prefix):
                evs.append(event_tok(item))
            else:
                evs.append(event_tok(type(item)(*[norm_term(t) if t is not None else None for t in item])))
    except Exception as e:  # noqa: BLE001
        end = "R:" + type(e).__name__
    return end, evs


def spec_events(reply: str):
    """Driver SB/SP reply -> (status, class, events)"""
    if reply.startswith("valid"):
        return "valid", None, norm_event_toks(core.split_events(reply[5:].strip()))
    if reply.startswith("invalid"):
        parts = reply.split(" ", 4)
        return "invalid", parts[2], norm_event_toks(core.split_events(parts[4] if len(parts) > 4 else ""))
    return "unparsable", None, []


XS = hx(core.XSD_STRING)


def norm_event_toks(evs: list[str]) -> list[str]:
    """xsd:string datatype == plain, on token level: 'L lex - <xsd:string>' -> 'L lex - -'."""
    out = []
    for e in evs:
        t = e.split(" ")
        i = 0
        while i < len(t):
            if t[i] == "L" and i + 3 < len(t) + 1:
                if t[i + 3] == XS:
                    t[i + 3] = "-"
                i += 4
            else:
                i += 1
        out.append(" ".join(t))
    return out


# ------------------------------------------------------------------ one case
def run_case(ctx, case: dict) -> dict | None:
    """Run one EN case on both sides and the oracles; returns a disagreement dict or None.
    case: {cfg, stmts, ns, sink, entry, oracles:[...]}"""
    cfg: Cfg = case["cfg"]
    stmts, ns, sink, entry = case["stmts"], case.get("ns", []), case.get("sink", False), case.get("entry", "stream_frames")
    impl = impl_run(cfg, stmts, ns, sink, entry, case)
    model = ctx.driver.ask(model_cmd(cfg, stmts, ns, sink, entry, case))
    if sink or entry in ("sink_serialize",):
        model_cmp, impl_cmp = strip_pulls(model), strip_pulls(impl["trace"])
    else:
        model_cmp, impl_cmp = model, impl["trace"]
    if entry in ("flat_file", "grouped_file", "sink_serialize"):
        # only bytes are observable: compare the written bytes and the end state
        mframes = trace_frames(model)
        mbytes = delimited(mframes)
        mraise = " R" in " " + model or model == "ERRNEW"
        same = (mbytes == impl["bytes"]) and (mraise == impl["raised"])
    else:
        same = model_cmp == impl_cmp
    pv = property_oracles(ctx, case, impl)
    if same and not pv:
        return None
    return {
        "family": "EN", "entry": entry, "cfg": cfg.as_json(), "stmts": [core.stmt_tok(s) for s in stmts], "ns": ns,
        "sink": sink, "impl": impl["trace"][:2000], "model": model[:2000], "corresponds": same,
        "property_violation": pv, "signature": case.get("signature", {}),
        "extra": {k: v for k, v in case.items() if k in ("sinks", "options_given")},
    }


def impl_run(cfg: Cfg, stmts, ns, sink, entry, case) -> dict:
    res = {"trace": "", "bytes": b"", "raised": False, "flow": None, "frames": []}
    if entry == "stream_frames":
        t = core.run_generic_stream_frames(cfg, stmts, ns, sink)
        res["trace"] = t
        res["frames"] = trace_frames(t)
        res["bytes"] = to_bytes(cfg, res["frames"])
        res["raised"] = t == "ERRNEW" or " R " in " " + t + " "
        if "flow=" in t:
            res["flow"] = int(t.split("flow=")[1].split()[0])
        return res
    out = io.BytesIO()
    trace: list[str] = []
    try:
        if entry == "flat_file":
            opts = None
            if case.get("options_given", True):
                opts = core.make_options(cfg)  # builds SerializerOptions the same way
            gser.flat_stream_to_file(PullLog(stmts, trace), out, opts)
        elif entry == "grouped_file":
            sinks = []
            for sst, sns in case["sinks"]:
                s = gs.GenericStatementSink()
                for x in sst:
                    s.add(x)
                for a, b in sns:
                    s.bind(a, gs.IRI(b))
                sinks.append(s)
            kw = {}
            if case.get("options_given", True):
                kw["options"] = core.make_options(cfg)
            gser.grouped_stream_to_file((s for s in sinks), out, **kw)
        elif entry == "sink_serialize":
            s = gs.GenericStatementSink()
            for x in stmts:
                s.add(x)
            for a, b in ns:
                s.bind(a, gs.IRI(b))
            s.serialize(out)
    except Exception:  # noqa: BLE001
        res["raised"] = True
    res["bytes"] = out.getvalue()
    fr = split_delimited(res["bytes"]) or []
    res["frames"] = fr
    res["trace"] = " ".join(trace + ["F" + hx(f) for f in fr] + (["R"] if res["raised"] else []))
    return res


def model_cmd(cfg: Cfg, stmts, ns, sink, entry, case) -> str:
    if entry == "stream_frames":
        return en_cmd(cfg, stmts, ns, sink)
    given = "1" if case.get("options_given", True) else "0"
    if entry == "flat_file":
        return f"FL {given} {cfg.tok()} {stmts_tok(stmts)}"
    if entry == "grouped_file":
        sinks = case["sinks"]
        body = " ".join(f"1 {ns_tok(sns)} {stmts_tok(sst)}" for sst, sns in sinks)
        return f"GR {given} {cfg.tok()} {len(sinks)} {body}"
    if entry == "sink_serialize":
        return f"GR 0 {cfg.tok()} 1 1 {ns_tok(ns)} {stmts_tok(stmts)}"
    raise ValueError(entry)


# ------------------------------------------------------------------ oracles
def property_oracles(ctx, case, impl) -> dict | None:
    """The property's own statement evaluated on the implementation's output."""
    for o in case.get("oracles", []):
        v = ORACLES[o](ctx, case, impl)
        if v:
            return {"oracle": o, "what": v}
    return None


def effective_class(case) -> str:
    """Stream class actually used (guessed for the *_file entry points)."""
    cfg, entry = case["cfg"], case.get("entry", "stream_frames")
    if entry == "stream_frames":
        return cfg.cls
    first = case["stmts"][0] if entry != "grouped_file" else (case["sinks"][0][0][0] if case["sinks"][0][0] else None)
    quads = first is not None and len(first) == 4
    logical = cfg.logical if case.get("options_given", True) else (2 if quads else 1)
    return "Q" if (logical % 10 != 3 and quads) else "T"


def all_stmts(case) -> list:
    if case.get("entry") == "grouped_file":
        return [s for sst, _ in case["sinks"] for s in sst]
    return case["stmts"]


def all_ns(case) -> list:
    if case.get("entry") == "grouped_file":
        return None  # per sink; handled by the caller
    return case.get("ns", [])


def oracle_roundtrip(ctx, case, impl):
    """C01/C06/C18: if nothing was raised, the bytes parse back to exactly the input."""
    if impl["raised"]:
        return None
    cls = effective_class(case)
    out_cls = "T" if cls == "T" else "Q"
    cfg = case["cfg"]
    nd = cfg.nd and case.get("options_given", True)
    if case.get("entry") == "grouped_file":
        exp = []
        for sst, sns in case["sinks"]:
            exp += expected_events(sst, out_cls, sns, nd)
    else:
        exp = expected_events(case["stmts"], out_cls, case.get("ns", []) if case.get("sink") or case.get("entry") == "sink_serialize" else [], nd)
    if not exp and not impl["bytes"]:
        return None
    end, got = impl_parse_flat(impl["bytes"])
    if end != "E":
        return f"written bytes do not parse back ({end}); {len(impl['bytes'])} bytes for {len(exp)} events"
    if got != exp:
        for i, (a, b) in enumerate(zip(exp, got)):
            if a != b:
                return f"event {i} read back differs: wrote {a} read {b}"
        return f"wrote {len(exp)} events, read back {len(got)}"
    return None


def oracle_spec(ctx, case, impl):
    """C03: the bytes are valid for the independent referee and denote the input."""
    if impl["raised"] or not impl["bytes"]:
        return None
    cfg = case["cfg"]
    if case.get("entry", "stream_frames") == "stream_frames" and not cfg.delim:
        reply = ctx.driver.ask(f"SP {len(impl['frames'])} " + " ".join(hx(f) for f in impl["frames"]))
    else:
        reply = ctx.driver.ask("SB " + hx(impl["bytes"]))
    status, cls_, evs = spec_events(reply)
    if status != "valid":
        return f"the referee rejects what was written: {reply[:160]}"
    cls = effective_class(case)
    nd = cfg.nd and case.get("options_given", True)
    if case.get("entry") == "grouped_file":
        exp = []
        for sst, sns in case["sinks"]:
            exp += expected_events(sst, "T" if cls == "T" else "Q", sns, nd)
    else:
        exp = expected_events(case["stmts"], "T" if cls == "T" else "Q", case.get("ns", []) if case.get("sink") or case.get("entry") == "sink_serialize" else [], nd)
    if evs != exp:
        for i, (a, b) in enumerate(zip(exp, evs)):
            if a != b:
                return f"the referee decodes event {i} as {b}, input was {a}"
        return f"the referee decodes {len(evs)} events, input had {len(exp)}"
    return None


def oracle_flushed(ctx, case, impl):
    """C06: nothing is left behind in the flow when the call returns without raising."""
    if impl["raised"]:
        return None
    if impl.get("flow"):
        return f"{impl['flow']} rows left in stream.flow after the entry point returned"
    return None


ORACLES = {"roundtrip": oracle_roundtrip, "spec": oracle_spec, "flushed": oracle_flushed}


# ------------------------------------------------------------------ generators of cases
def gen_generic_case(ctx, G, cls: str | None = None, fits: bool = True, entry: str | None = None, nd: bool | None = None, churn: bool = False) -> dict:
    import gen as genmod

    r = ctx.rng
    cls = cls or r.choice("TQG")
    ar = 3 if cls == "T" else 4
    g = genmod.Gen(r, nprefix=r.randint(1, 5), nname=r.randint(2, 8), ndt=r.randint(1, 3))
    n = r.choice([1, 2, 3, 5, 8, 13, 30])
    maxd_zero = r.random() < 0.15
    stmts = g.statements(n, ar, typed=not maxd_zero)
    need = genmod.table_need(stmts)
    cfg = genmod.random_cfg(r, cls, need)
    if maxd_zero:
        cfg.maxd = 0
    elif cfg.maxd == 0:
        cfg.maxd = max(1, need[2])
    if churn:
        # prefix / name churn: many namespaces sharing few local names, tables at their smallest that
        # still fit every statement, long inputs -- slots are re-assigned all the time (by explicit and
        # by sequential ids) while the same (slot, slot) pairs keep coming back with other contents
        g = genmod.Gen(r, nprefix=r.randint(4, 7), nname=r.randint(2, 3), ndt=r.randint(1, 2))
        n = r.choice([13, 30, 60])
        stmts = g.statements(n, ar, typed=not maxd_zero, quoted=r.random() < 0.3, prepeat=r.choice([0.1, 0.3]))
        need = genmod.table_need(stmts)
        cfg = genmod.random_cfg(r, cls, need)
        cfg.maxn = max(8, need[0])
        cfg.maxp = max(1, need[1]) + r.choice([0, 0, 1])
        cfg.maxd = 0 if maxd_zero else max(1, need[2])
        if r.random() < 0.3:
            # name churn instead: no prefix table, many whole-IRI names through a small name table
            cfg.maxp = 0
    cfg.delim = r.random() < 0.7
    if not cfg.delim:
        cfg.logical = {"T": 1, "Q": 2, "G": 2}[cls]
    if not fits:
        # C18's domain: some enabled table has fewer slots than one statement needs
        g2 = genmod.Gen(r, nprefix=r.randint(3, 8), nname=r.randint(6, 16), ndt=r.randint(2, 6))
        stmts = g2.statements(n, ar, typed=True, prepeat=0.3)
        if r.random() < 0.5:   # a statement with many IRIs: nested quoted triples
            big = gs.Triple(gs.Triple(g2.iri(), g2.iri(), gs.Triple(g2.iri(), g2.iri(), g2.iri())), g2.iri(),
                            gs.Triple(gs.Triple(g2.iri(), g2.iri(), g2.iri()), g2.iri(), g2.iri()))
            pos = r.randrange(len(stmts) + 1)
            stmts.insert(pos, big if ar == 3 else gs.Quad(*big, g2.graph()))
        need = genmod.table_need(stmts)
        cfg.maxn = r.randint(8, max(8, need[0] - 1)) if r.random() < 0.4 else max(8, need[0])
        cfg.maxp = r.randint(1, max(1, need[1] - 1)) if r.random() < 0.6 else max(1, need[1])
        cfg.maxd = r.randint(1, max(1, need[2] - 1)) if r.random() < 0.5 else max(1, need[2])
    if nd is None:
        nd = r.random() < 0.25
    cfg.nd = nd
    if r.random() < 0.3:
        cfg.ver = r.choice([1, 2])
    ns = g.namespaces(r.randint(0, 3)) if nd else []
    if nd and ns:
        # namespace IRIs use the tables as well
        from pyjelly.serialize.encode import split_iri

        if cfg.maxp:
            cfg.maxp = max(cfg.maxp, 1)
    sink = r.random() < 0.5 or bool(ns)
    entry = entry or "stream_frames"
    if entry == "flat_file":
        sink, ns = False, []
    if entry == "stream_frames" and fits and not churn and r.random() < 0.03:
        # the empty sequence: an options frame and nothing else (flat_stream_to_file guesses the stream
        # class from the first statement and writes nothing at all for an empty generator -- by
        # construction of that entry point, so only stream_frames is given empty inputs)
        stmts = []
    return {"cfg": cfg, "stmts": stmts, "ns": ns, "sink": sink, "entry": entry, "oracles": ["roundtrip", "spec", "flushed"]}
