"""replays.py -- re-run one recorded case (`./check Cxx --replay file`)."""
from __future__ import annotations


def replay(pid: str, body: dict) -> int:
    import checks
    from runner import Ctx

    fam = body.get("family")
    fn = checks.REPLAYERS.get(fam)
    if fn is None:
        print(f"replay: nothing executable recorded for family {fam!r}: {body.get('obligation') or body.get('kind')}")
        return 1
    ctx = Ctx(pid, "quick", 0)
    try:
        still = fn(ctx, body)
    finally:
        ctx.driver.close()
    if still:
        print(f"VIOLATION property={pid} replay=(replayed) :: {still}")
        return 1
    print("replay: the recorded case no longer fails")
    return 0
