"""checks_b.py -- plans for C06..C10."""
from __future__ import annotations

import gzip
import io
import itertools
import tempfile

import core
import fam_encode
import fam_parse
import fam_rdflib
import gen as genmod
import refenc
from checks import core_hx, core_stmt_tok, plan, REPLAYERS  # noqa: F401
from core import Cfg, gs, hx
from pyjelly import jelly
from pyjelly.parse import ioutils as pio


# ------------------------------------------------------------------ C06
def mismatch_outcome(rcfg, stmts, kind: str, entry: str):
    """rdflib data of one kind through a stream class made for the other: ('raised', ..) | ('complete', ..) | ('lost', what)."""
    import rdflib as _rdflib

    from pyjelly.integrations.rdflib import serialize as rser

    data = fam_rdflib.build(stmts, [], kind == "dataset")
    want = {(str(s), str(p), str(o)) for s, p, o in (data.triples((None, None, None)) if kind == "graph" else [q[:3] for q in data.quads((None, None, None, None))])}
    try:
        stream = core.make_stream(rcfg)
        if entry == "stream_frames":
            frs = [f.SerializeToString(deterministic=True) for f in rser.stream_frames(stream, data)]
            blob = fam_encode.to_bytes(rcfg, frs)
        else:
            blob = data.serialize(encoding="jelly", format="jelly", options=core.make_options(rcfg), stream=stream)
    except Exception as e:  # noqa: BLE001
        return ("raised", type(e).__name__)
    try:
        back = _rdflib.Dataset()
        back.parse(data=blob, format="jelly")
        got = {(str(s), str(p), str(o)) for s, p, o, _g in back.quads((None, None, None, None))}
    except Exception as e:  # noqa: BLE001
        return ("lost", f"bytes that cannot be read back ({type(e).__name__})")
    if want <= got:
        return ("complete", len(got))
    return ("lost", f"{len(want - got)} of {len(want)} statements missing from what was written")


def c06_inputs(r):
    g = genmod.Gen(r, nprefix=2, nname=4, ndt=1)
    I, L, B = gs.IRI, gs.Literal, gs.BlankNode
    t3 = [gs.Triple(I("http://a/s"), I("http://a/p"), L("1")), gs.Triple(I("http://a/s"), I("http://a/p"), L("2")),
          gs.Triple(B("b"), I("http://a/q"), I("http://a/s"))]
    q4 = [gs.Quad(I("http://a/s"), I("http://a/p"), L("1"), I("http://g/1")),
          gs.Quad(I("http://a/s"), I("http://a/p"), L("2"), I("http://g/1")),
          gs.Quad(B("b"), I("http://a/q"), I("http://a/s"), gs.DefaultGraph),
          # the same triple asserted again in the next graph: all three terms repeat, only the graph changes
          gs.Quad(B("b"), I("http://a/q"), I("http://a/s"), I("http://g/2")),
          gs.Quad(B("b"), I("http://a/q"), L("x", "en"), I("http://g/2")),
          gs.Quad(B("b"), I("http://a/q"), L("x", "en"), I("http://g/3"))]
    return {3: [t3, fam_parse.rdf11_statements(r, g, 5, 3)], 4: [q4, fam_parse.rdf11_statements(r, g, 6, 4)]}


@plan(
    "C06",
    "EN/ER exhaustively over the configuration lattice {TripleStream,QuadStream,GraphStream} x 8 logical types x delimited T/F x flow "
    "in {inferred, Manual, Bounded, FlatTriples, FlatQuads, Graphs, Datasets} x frame_size in {1,2,250} x entry points (generic "
    "stream_frames over sink and generator, flat_stream_to_file, grouped_stream_to_file, sink.serialize; rdflib stream_frames, "
    "Graph.serialize, flat_stream_to_frames) x fixed and random non-empty inputs; observed: exception, bytes, len(stream.flow) at return, "
    "parse-back. Non-trivial = a configuration the constructors accept; distinct by (entry, configuration, input).",
)
def c06(ctx):
    out = []
    r = ctx.rng
    inputs = c06_inputs(r)
    flows = [None, "M", "B", "FT", "FQ", "G", "D"]
    fsizes = [1, 2, 250] if not ctx.quick else [1, 250]
    n_acc = n_rej = 0
    for cls, logical, delim, fk, fs in itertools.product("TQG", core.LOGICALS, (True, False), flows, fsizes):
        ar = 3 if cls == "T" else 4
        for stmts in inputs[ar][: (1 if ctx.quick else 2)]:
            flow = None if fk is None else (fk, logical, fs)
            cfg = Cfg(cls=cls, logical=logical, delim=delim, flow=flow, frame_size=fs, gen=True, star=True)
            # generic stream_frames, sink and generator
            for sink in (True, False):
                case = {"cfg": cfg, "stmts": stmts, "ns": [], "sink": sink, "entry": "stream_frames", "oracles": ["flushed", "roundtrip"]}
                ctx.report.evaluations += 1
                d = fam_encode.run_case(ctx, case)
                key = ("g", "stream_frames", sink, cfg.tok(), len(stmts))
                if d is None or d.get("corresponds"):
                    pass
                if d:
                    out.append(d)
            # was it accepted? (count for the evidence)
            try:
                core.make_stream(cfg)
                n_acc += 1
                ctx.report.nontrivial.add(("lattice", cfg.tok(), ar))
            except Exception:  # noqa: BLE001
                n_rej += 1
            # rdflib: stream_frames over Graph/Dataset, Graph.serialize with the stream passed in
            rcfg = Cfg(**{**cfg.as_json(), "ig": "r", "gen": False, "star": False})
            data = "graph" if cls == "T" else "dataset"
            for entry, extra in (("stream_frames", {}), ("serialize", {"pass_stream": True})):
                case = {"cfg": rcfg, "stmts": stmts, "ns": [], "data": data, "entry": entry, "oracles": ["flushed", "roundtrip"], **extra}
                ctx.report.evaluations += 1
                d = fam_rdflib.run_rdflib_case(ctx, case)
                if d:
                    out.append(d)
            # ... and the stream class that does NOT fit the data (a Graph through a quads / graphs stream, a
            # Dataset through a triples stream): refused or written in full, never an options row and nothing else
            other = "dataset" if data == "graph" else "graph"
            ostmts = inputs[4 if other == "dataset" else 3][0]
            for entry, extra in (("stream_frames", {}), ("serialize", {"pass_stream": True})):
                got = mismatch_outcome(rcfg, ostmts, other, entry)
                ctx.report.evaluations += 1
                ctx.report.count(f"C06/rdflib {other} through a {cls} stream/{got[0]}")
                if got[0] == "lost":
                    out.append({"family": "ER", "entry": entry, "cfg": rcfg.as_json(), "stmts": [core_stmt_tok(x) for x in ostmts], "data": other, "corresponds": True,
                                "impl": got[1], "model": "", "mismatch": True,
                                "property_violation": {"what": f"rdflib {entry}: a {other} written through a {cls} stream returns normally with {got[1]}"}, "signature": {}})
    ctx.report.count("C06/lattice/accepted", n_acc)
    ctx.report.count("C06/lattice/rejected-by-constructor", n_rej)
    # entry points that guess the stream class from the options: flat_/grouped_ to_file, sink.serialize, Graph.serialize
    for logical, delim, fs in itertools.product(core.LOGICALS, (True, False), fsizes):
        for ar in (3, 4):
            stmts = inputs[ar][0]
            cfg = Cfg(cls="T" if ar == 3 else "Q", logical=logical, delim=delim, frame_size=fs)
            for entry in ("flat_file", "grouped_file"):
                case = {"cfg": cfg, "stmts": stmts, "ns": [], "sink": False, "entry": entry, "oracles": ["roundtrip"]}
                if entry == "grouped_file":
                    case["sinks"] = [(stmts[:2], []), (stmts[2:], [])]
                ctx.report.evaluations += 1
                ctx.report.nontrivial.add((entry, cfg.tok(), ar))
                d = fam_encode.run_case(ctx, case)
                if d:
                    out.append(d)
            rcfg = Cfg(**{**cfg.as_json(), "ig": "r", "gen": False, "star": False})
            for entry, data in (("serialize", "graph" if ar == 3 else "dataset"), ("flat", "gen")):
                if entry == "flat" and not delim:
                    continue
                case = {"cfg": rcfg, "stmts": stmts, "ns": [], "data": data, "entry": entry, "oracles": ["roundtrip"]}
                ctx.report.evaluations += 1
                d = fam_rdflib.run_rdflib_case(ctx, case)
                if d:
                    out.append(d)
    # guessed options
    for ar in (3, 4):
        case = {"cfg": Cfg(), "stmts": inputs[ar][0], "ns": [("ex", "http://ex/")], "sink": True, "entry": "sink_serialize", "oracles": ["roundtrip"]}
        ctx.report.evaluations += 1
        d = fam_encode.run_case(ctx, case)
        if d:
            out.append(d)
    if out and not any(d.get("property_violation") for d in out):
        # the model no longer corresponds but no lattice point loses a statement: look, on the implementation
        # alone, for an input / frame size / class on which statements go missing (frame cuts at graph ends,
        # alignments of pending rows with the frame size, ...)
        from checks import search_failing_input

        out += search_failing_input(ctx, None, budget_s=45.0)
    ctx.report.exhaustive = True
    ctx.report.notes.append("exhaustive over the listed lattice; inputs are two fixed and (thorough) one random per arity")
    ctx.report.sample({"lattice": "class x logical x delimited x flow x frame_size", "accepted": n_acc, "rejected": n_rej})
    return out


# ------------------------------------------------------------------ C07
def partitions(n: int, r, limit: int):
    """Cut sets of n rows into frames: all 2^(n-1) when small, random otherwise; as row counts."""
    if n <= 1:
        yield [n]
        return
    if 2 ** (n - 1) <= limit:
        for mask in range(2 ** (n - 1)):
            cuts, cur = [], 1
            for i in range(n - 1):
                if mask >> i & 1:
                    cuts.append(cur)
                    cur = 1
                else:
                    cur += 1
            cuts.append(cur)
            yield cuts
    else:
        for _ in range(limit):
            cuts, cur = [], 1
            p = r.random()
            for i in range(n - 1):
                if r.random() < p:
                    cuts.append(cur)
                    cur = 1
                else:
                    cur += 1
            cuts.append(cur)
            yield cuts


def with_empties(cuts: list[int], r) -> list[int]:
    out = []
    for c in cuts:
        if r.random() < 0.15:
            out.append(0)
        out.append(c)
    if r.random() < 0.15:
        out.append(0)
    return out


@plan(
    "C07",
    "PA: valid streams (reference encoder and pyjelly) re-partitioned into frames in every way (all 2^(n-1) cut sets up to 9 rows, random "
    "beyond), with empty frames inserted and metadata attached; flat parse must not change; grouped parse must give one sink per frame, in "
    "order, with that frame's metadata visible in the ContextVar while the sink is current; both integrations. EN: grouped_stream_to_file "
    "with a grouped logical type and a shared stream must write one frame per non-empty sink. Non-trivial = a partition with >= 2 frames; "
    "distinct by (stream, partition).",
)
def c07(ctx):
    out = []
    r = ctx.rng
    n_streams = ctx.n(25, 300)
    for si in range(n_streams):
        rdf11 = r.random() < 0.5
        st = fam_parse.ref_stream(ctx, rdf11=rdf11, churn=si % 2 == 1)
        if st is None:
            continue
        enc = st["enc"]
        rows = enc.rows
        if len(rows) > 60:
            continue
        ctx.report.count(f"C07/stream re-uses an id pair for another IRI={enc.pair_reuse > 0}")
        for cuts in partitions(len(rows), r, ctx.n(24, 128)):
            cuts2 = with_empties(cuts, r) if r.random() < 0.5 else cuts
            md = {}
            for k in range(len(cuts2)):
                if r.random() < 0.25 and (k > 0 or cuts2[0] > 0):
                    md[k] = [("k" + str(r.randint(0, 1)), bytes([r.randint(0, 255)]))]
            frames = refenc.cut_frames(rows, cuts2, md)
            data = refenc.frames_bytes(frames, True)
            ctx.report.evaluations += 1
            if len(cuts2) > 1:
                ctx.report.nontrivial.add((si, tuple(cuts2)))
            ctx.report.count(f"C07/frames={min(len(cuts2), 12)}")
            igs = ("g", "r") if rdf11 else ("g",)
            ds = fam_parse.run_parse_case(ctx, data, st["events"], igs=igs, modes=("flat",), family="PA", meta={"cuts": cuts2})
            out += ds
            # grouped: ground truth straight from the partition
            per_frame = refenc.frame_events(enc.events, enc.event_rows, cuts2)
            for ig in igs:
                end, sinks = fam_parse.impl_grouped(ig, data)
                pre, mend, mframes = fam_parse.model_parse(ctx, ig, True, False, data)
                pv = None
                if end != "E":
                    pv = f"{ig} parse_jelly_grouped raised on a valid stream"
                elif len(sinks) != len(cuts2):
                    pv = f"{ig} parse_jelly_grouped yielded {len(sinks)} sinks for {len(cuts2)} frames"
                else:
                    for k, ((m, sts, pf), exp) in enumerate(zip(sinks, per_frame)):
                        exps = [e for e in exp if not e.startswith("EP ")]
                        want_md = sorted((a.encode(), b) for a, b in md.get(k, []))
                        if m != want_md:
                            pv = f"{ig} sink {k}: metadata visible {m} but the frame carries {want_md}"
                            break
                        if (sts != exps) if ig == "g" else (sorted(set(sts)) != sorted(set(exps))):
                            pv = f"{ig} sink {k} does not hold exactly the statements of frame {k}"
                            break
                msk = [(sorted(mdm), [e for e in evs if not e.startswith("EP ")]) for mdm, evs, ok in mframes if ok]
                isk = [(m, sts) for m, sts, pf in sinks]
                if ig == "r":
                    msk = [(m, sorted(set(s))) for m, s in msk]
                    isk = [(m, sorted(set(s))) for m, s in isk]
                same = end == mend and isk == msk
                if pv or not same:
                    out.append({"family": "PA", "ig": ig, "mode": "grouped", "bytes": hx(data), "corresponds": same,
                                "impl": [end, len(sinks)], "model": [mend, len(msk)], "meta": {"cuts": cuts2},
                                "property_violation": None if not pv else {"what": pv}, "signature": {}})
        if si < 2:
            ctx.report.sample({"family": "PA/repartition", "rows": len(rows), "events": st["events"][:2]})
    # grouped writing: one frame per non-empty sink, state carried across
    for _ in range(ctx.n(120, 2000)):
        ar = r.choice([3, 4])
        g = genmod.Gen(r, nprefix=r.randint(1, 4), nname=r.randint(2, 6), ndt=2)
        nsinks = r.randint(1, 5)
        sinks = []
        for _k in range(nsinks):
            sinks.append((g.statements(r.choice([0, 1, 2, 4]) if _k else r.choice([1, 2, 4]), ar), []))
        allst = [s for sst, _ in sinks for s in sst]
        need = genmod.table_need(allst) if allst else (0, 0, 0)
        cfg = genmod.random_cfg(r, "T" if ar == 3 else "Q", need)
        if cfg.maxd == 0:
            cfg.maxd = max(1, need[2])
        cfg.logical = r.choice([3, 13]) if ar == 3 else r.choice([4, 14, 114])
        case = {"cfg": cfg, "stmts": allst, "ns": [], "sink": True, "entry": "grouped_file", "sinks": sinks, "oracles": ["roundtrip"]}
        ctx.report.evaluations += 1
        ctx.report.nontrivial.add(("grouped_file", cfg.tok(), tuple(len(s) for s, _ in sinks), tuple(core_stmt_tok(x) for x in allst)))
        d = fam_encode.run_case(ctx, case)
        if d is None:
            # the property itself: frames == non-empty sinks, each holding its sink's statements
            impl = fam_encode.impl_run(cfg, allst, [], True, "grouped_file", case)
            if not impl["raised"]:
                end, got = fam_parse.impl_grouped("g", impl["bytes"])
                nonempty = [fam_encode.expected_events(sst, "T" if ar == 3 else "Q") for sst, _ in sinks if sst]
                got_st = [fam_encode.norm_event_toks(sts) for m, sts, pf in got]
                if end != "E" or got_st != nonempty:
                    d = {"family": "EN", "entry": "grouped_file", "cfg": cfg.as_json(), "stmts": [core_stmt_tok(s) for s in allst],
                         "corresponds": True, "impl": f"{len(got_st)} frames", "model": "",
                         "extra": {"sinks": [([core_stmt_tok(x) for x in sst], sns) for sst, sns in sinks]},
                         "property_violation": {"what": f"grouped write: {len(got_st)} frames read back for {len(nonempty)} non-empty sinks, or contents differ"},
                         "signature": {}}
        if d:
            out.append(d)
    return out


# ------------------------------------------------------------------ C08
def small_rows(r):
    """Rows of many small serialized sizes (options rows first of all)."""
    rows = []
    for name_len in list(range(0, 14)) + [100, 118, 119, 120, 121, 122, 123, 124, 125, 126, 127, 128, 129, 130, 200, 300]:
        for extra in range(0, 6):
            o = jelly.RdfStreamOptions(stream_name="n" * name_len, max_name_table_size=8)
            if extra >= 1:
                o.physical_type = 1
            if extra >= 2:
                o.version = 1
            if extra >= 3:
                o.max_prefix_table_size = 1
            if extra >= 4:
                o.max_datatype_table_size = 300
            if extra >= 5:
                o.logical_type = 1
            rows.append(("options", jelly.RdfStreamRow(options=o)))
    o = jelly.RdfStreamOptions(max_name_table_size=8)
    rows.append(("options", jelly.RdfStreamRow(options=o)))
    rows.append(("options", jelly.RdfStreamRow(options=jelly.RdfStreamOptions(max_name_table_size=8, version=1, physical_type=1, max_prefix_table_size=9))))
    for L in range(0, 14):
        rows.append(("name", jelly.RdfStreamRow(name=jelly.RdfNameEntry(id=1 if L % 2 else 0, value="v" * L))))
        rows.append(("prefix", jelly.RdfStreamRow(prefix=jelly.RdfPrefixEntry(id=0, value="p" * L))))
    return rows


@plan(
    "C08",
    "HD: delimited_jelly_hint against the model on every header of 0..3 bytes over a 40-value byte alphabet around 0x0A (quick) or all 2^24 "
    "(thorough, implementation vs the truth table proved in Coq); ground truth: frames whose first row has every small length and whose "
    "first frame has every small length (incl. the 0x0A = 10 coincidences), written in both modes with protobuf, must be classified by their "
    "mode; streams written by the real serializer in both modes must parse to the same result. Non-trivial = a header containing 0x0A; "
    "distinct by header bytes / by (first-row length, frame length, mode).",
)
def c08(ctx):
    out = []
    r = ctx.rng
    vals = sorted(set([0x0A, 0x00, 0x01, 0x02, 0x08, 0x09, 0x0B, 0x0C, 0x12, 0x1A, 0x4A, 0x52, 0x7A, 0x7F, 0x80, 0x8A, 0xFF]
                      + [r.randint(0, 255) for _ in range(23)]))
    headers = [bytes(h) for k in range(0, 4) for h in itertools.product(vals, repeat=k)]
    cmds = ["HD " + hx(h) for h in headers]
    replies = ctx.driver.ask_many(cmds)
    for h, rep in zip(headers, replies):
        ctx.report.evaluations += 1
        impl = "1" if pio.delimited_jelly_hint(h) else "0"
        if 0x0A in h:
            ctx.report.nontrivial.add(h)
        if impl != rep:
            out.append({"family": "HD", "header": hx(h), "impl": impl, "model": rep, "corresponds": False, "property_violation": None, "signature": {}})
    if not ctx.quick:
        # all 2^24 headers against the Coq-proved truth table (C08_truth_table), in Python
        bad = 0
        f = pio.delimited_jelly_hint
        for b0 in range(256):
            for b1 in range(256):
                base = bytes([b0, b1])
                for b2 in range(256):
                    exp = (b0 != 10) or (b1 == 10 and b2 != 10)
                    if f(base + bytes([b2])) != exp:
                        bad += 1
                        if bad <= 3:
                            out.append({"family": "HD", "header": hx(base + bytes([b2])), "impl": str(not exp), "model": str(exp), "corresponds": False, "property_violation": None, "signature": {}})
        ctx.report.evaluations += 2 ** 24
        ctx.report.notes.append("all 2^24 three-byte headers compared with the truth table of theorem C08_truth_table")
    # ground truth by construction
    rows = small_rows(r)
    seen_shapes = set()
    for kind, row in rows:
        for more in (0, 1, 2):
            fr = jelly.RdfStreamFrame()
            fr.rows.append(row)
            for _ in range(more):
                fr.rows.append(jelly.RdfStreamRow(name=jelly.RdfNameEntry(id=0, value="x" * r.randint(0, 3))))
            payload = fr.SerializeToString(deterministic=True)
            rowlen = len(row.SerializeToString())
            for mode in ("delimited", "single"):
                if mode == "single" and kind != "options":
                    continue  # a non-delimited stream starts with its options row
                data = fam_encode.varint(len(payload)) + payload if mode == "delimited" else payload
                if len(data) < 3:
                    continue
                ctx.report.evaluations += 1
                shape = (mode, rowlen, len(payload))
                seen_shapes.add(shape)
                if rowlen == 10 or len(payload) == 10:
                    ctx.report.nontrivial.add(shape)
                got = pio.delimited_jelly_hint(data[:3])
                model = ctx.driver.ask("HD " + hx(data[:3])) == "1"
                want = mode == "delimited"
                if got != want or model != want:
                    out.append({"family": "HD", "header": hx(data[:3]), "impl": str(got), "model": str(model), "corresponds": got == model,
                                "shape": shape, "bytes": hx(data),
                                "property_violation": None if got == want else {"what": f"a {mode} stream (first row {rowlen} bytes, first frame {len(payload)} bytes) is classified as {'delimited' if got else 'non-delimited'}"},
                                "signature": {}})
    # an empty first frame, delimited
    for rest in (b"", b"\x00", b"\x0a\x00"):
        data = b"\x00" + b"\x0a\x02\x48\x08"[:0] + rest + fam_encode.varint(6) + b"\x0a\x04\x0a\x02\x48\x08"
        if len(data) >= 3 and not pio.delimited_jelly_hint(data[:3]):
            out.append({"family": "HD", "header": hx(data[:3]), "impl": "False", "model": "", "corresponds": True, "property_violation": {"what": "a delimited stream with an empty first frame is classified non-delimited"}, "signature": {}})
    ctx.report.count("C08/shapes", len(seen_shapes))
    # paired outputs of the real serializer
    for _ in range(ctx.n(80, 1500)):
        case = fam_encode.gen_generic_case(ctx, None)
        cfg = case["cfg"]
        cfg.logical = {"T": 1, "Q": 2, "G": 2}[cfg.cls]
        cfg.name = r.choice(["", "n" * r.randint(0, 12)])
        results = []
        for delim in (True, False):
            cfg.delim = delim
            impl = fam_encode.impl_run(cfg, case["stmts"], case["ns"], case["sink"], "stream_frames", case)
            results.append((impl["raised"], fam_encode.impl_parse_flat(impl["bytes"]) if not impl["raised"] else None, impl["bytes"]))
        ctx.report.evaluations += 1
        # the stream need not start at offset 0 of its carrier: an envelope the caller has already
        # consumed (of either class, as far as the three-byte rule goes) must not change the answer
        if not results[0][0]:
            env = r.choice([b"\x01\x02\x03", b"\x0a\x05\x01", b"\x0a\x0a\x0a", b"\x0a\x0a\x01", b"\x0a", b"JELLY\n"])
            for di, delim in enumerate((True, False)):
                for carrier in ("BytesIO", "BufferedReader", "BufferedReader2", "tempfile"):
                    if carrier == "BytesIO":
                        inp = io.BytesIO(env + results[di][2])
                    elif carrier == "BufferedReader":
                        inp = io.BufferedReader(io.BytesIO(env + results[di][2]))
                    elif carrier == "BufferedReader2":
                        # a seekable buffered reader whose look-ahead at the start of the stream is 1-2 bytes
                        inp = io.BufferedReader(io.BytesIO(env + results[di][2]), buffer_size=len(env) + r.choice([1, 2]))
                    else:
                        inp = tempfile.TemporaryFile()
                        inp.write(env + results[di][2])
                        inp.seek(0)
                    assert inp.read(len(env)) == env
                    got = fam_encode.impl_parse_flat(b"", inp)
                    inp.close()
                    ctx.report.evaluations += 1
                    ctx.report.count("C08/offset-carriers/" + carrier)
                    if got != results[di][1]:
                        out.append({"family": "HD", "header": hx(results[di][2][:3]), "impl": got[0], "model": results[di][1][0], "corresponds": True,
                                    "carrier": carrier, "envelope": hx(env), "bytes": hx(results[di][2]),
                                    "property_violation": {"what": f"a {'delimited' if delim else 'non-delimited'} stream read from a {carrier} positioned after a consumed {len(env)}-byte envelope parses differently ({got[0]}) than from offset 0 ({results[di][1][0]})"},
                                    "signature": {}})
        # the classification does not depend on how the first bytes arrive: a non-seekable source (socket,
        # pipe) whose first read delivers one or two bytes only
        if not results[0][0]:
            for di, delim in enumerate((True, False)):
                for first in (1, 2):
                    src = Dribble(results[di][2], [first, r.choice([1, 2, 64]), 10 ** 6])
                    got = fam_encode.impl_parse_flat(b"", src)
                    ctx.report.evaluations += 1
                    ctx.report.count("C08/non-seekable, first read of 1-2 bytes")
                    if got != results[di][1]:
                        out.append({"family": "HD", "header": hx(results[di][2][:3]), "impl": got[0], "model": results[di][1][0], "corresponds": True,
                                    "carrier": "non-seekable", "first_read": first, "bytes": hx(results[di][2]), "envelope": "x",
                                    "property_violation": {"what": f"a {'delimited' if delim else 'non-delimited'} stream read from a non-seekable source whose first read delivers {first} byte(s) parses differently ({got[0]}) than from memory ({results[di][1][0]})"},
                                    "signature": {}})
        if results[0][0] != results[1][0] or results[0][1] != results[1][1]:
            out.append({"family": "EN", "entry": "stream_frames", "cfg": cfg.as_json(), "stmts": [core_stmt_tok(s) for s in case["stmts"]],
                        "ns": case["ns"], "sink": case["sink"], "corresponds": True, "impl": hx(results[0][2][:12]) + " / " + hx(results[1][2][:12]), "model": "",
                        "property_violation": {"what": "the same content written delimited and non-delimited parses to different results"}, "signature": {}})
    ctx.report.sample({"family": "HD", "headers": len(headers), "ground-truth shapes": len(seen_shapes)})
    return out


def replay_hd(ctx, body):
    if body.get("carrier") == "non-seekable":
        data = core.unhx(body["bytes"])
        got = fam_encode.impl_parse_flat(b"", Dribble(data, [body["first_read"], 1, 10 ** 6]))
        base = fam_encode.impl_parse_flat(data)
        print("non-seekable, first read", body["first_read"], ":", got[0], len(got[1]), "from memory:", base[0], len(base[1]))
        return body["property_violation"]["what"] if got != base else None
    if body.get("carrier"):
        env, data = core.unhx(body["envelope"]), core.unhx(body["bytes"])
        if body["carrier"] == "BytesIO":
            inp = io.BytesIO(env + data)
        elif body["carrier"] == "BufferedReader":
            inp = io.BufferedReader(io.BytesIO(env + data))
        elif body["carrier"] == "BufferedReader2":
            inp = io.BufferedReader(io.BytesIO(env + data), buffer_size=len(env) + body.get("lookahead", 1))
        else:
            inp = tempfile.TemporaryFile()
            inp.write(env + data)
            inp.seek(0)
        inp.read(len(env))
        got, base = fam_encode.impl_parse_flat(b"", inp), fam_encode.impl_parse_flat(data)
        print("carrier", body["carrier"], "envelope", env.hex(), "from offset:", got[0], len(got[1]), "from 0:", base[0], len(base[1]))
        return body["property_violation"]["what"] if got != base else None
    h = core.unhx(body["header"])
    impl = pio.delimited_jelly_hint(h)
    model = ctx.driver.ask("HD " + hx(h))
    print("header", h.hex(), "impl", impl, "model", model)
    if body.get("property_violation"):
        return body["property_violation"]["what"] if body.get("shape") and (impl != (body["shape"][0] == "delimited")) else None
    return None if (model == ("1" if impl else "0")) else "model and implementation disagree"


REPLAYERS["HD"] = replay_hd


# ------------------------------------------------------------------ C09
class Dribble(io.RawIOBase):
    """Non-seekable raw source returning short reads according to a schedule."""

    def __init__(self, data: bytes, sched: list[int]) -> None:
        self.data, self.pos, self.sched = data, 0, list(sched)
        self.reads: list[int] = []

    def readable(self) -> bool:
        return True

    def seekable(self) -> bool:
        return False

    def readinto(self, buf) -> int:
        n = self.sched.pop(0) if self.sched else 1
        n = max(1, n)
        n = min(n, len(buf), len(self.data) - self.pos)
        buf[:n] = self.data[self.pos : self.pos + n]
        self.pos += n
        self.reads.append(n)
        return n


def schedules(r, n: int):
    yield [1] * 8
    yield [2] * 8
    yield [1, 10 ** 6]
    yield [2, 10 ** 6]
    yield [3, 10 ** 6]
    yield [10 ** 6]
    yield [1, 1, 5, 10 ** 6]
    for _ in range(n):
        yield [r.choice([1, 1, 2, 3, 4, 7, 64, 4096]) for _ in range(r.randint(1, 12))] + ([10 ** 6] if r.random() < 0.5 else [])


def header_critical_streams() -> list[bytes]:
    """Valid streams on which the delimiting decision needs the THIRD byte of the header (parse/ioutils.py, delimited_jelly_hint):
    delimited with a first frame of exactly 10 bytes (0A 0A xx, an options-only frame), and non-delimited with a first row of exactly
    10 bytes whose first field is the options (0A 0A 0A)."""
    from pyjelly import jelly

    def opts(**kw):
        return jelly.RdfStreamOptions(physical_type=1, max_name_table_size=16, version=1, **kw)
    rows2 = [jelly.RdfStreamRow(name=jelly.RdfNameEntry(id=0, value="http://e/s")), jelly.RdfStreamRow(name=jelly.RdfNameEntry(id=0, value="http://e/p")),
             jelly.RdfStreamRow(triple=jelly.RdfTriple(s_iri=jelly.RdfIri(name_id=1), p_iri=jelly.RdfIri(name_id=2), o_literal=jelly.RdfLiteral(lex="x")))]
    f1 = jelly.RdfStreamFrame(rows=[jelly.RdfStreamRow(options=opts())])
    f2 = jelly.RdfStreamFrame(rows=rows2)
    out = []
    if f1.ByteSize() == 10:
        out.append(refenc.frames_bytes([f1, f2], True))            # 0A 0A 08 ...
    o8 = opts(logical_type=1)                                    # an options message of 8 bytes: a row of 10
    one = jelly.RdfStreamFrame(rows=[jelly.RdfStreamRow(options=o8)] + rows2)
    if o8.ByteSize() == 8:
        out.append(refenc.frames_bytes([one], False))             # 0A 0A 0A 08 ...
    return out


@plan(
    "C09",
    "PS: valid streams (pyjelly's and the reference encoder's, delimited and not) supplied as BytesIO, BufferedReader, gzip, and a "
    "non-seekable RawIOBase double that dribbles bytes by schedule (all-1, all-2, 1/2/3 then large, random short reads); flat and grouped "
    "parsers of both integrations; results must equal the in-memory parse and the model's Raw-source run. Non-trivial = a schedule whose "
    "first read is shorter than 3 bytes; distinct by (stream, schedule, entry point).",
)
def c09(ctx):
    out = []
    r = ctx.rng
    critical = header_critical_streams()
    ctx.report.count("C09/streams whose third header byte decides", len(critical))
    for si in range(-len(critical), ctx.n(40, 600)):
        if si < 0:
            rdf11, data = True, critical[si + len(critical)]
        else:
            rdf11 = r.random() < 0.5
            st = fam_parse.ref_stream(ctx, rdf11=rdf11)
            if st is None:
                continue
            delim = r.random() < 0.8
            data = refenc.frames_bytes(st["frames"], delim)
        igs = ("g", "r") if rdf11 else ("g",)
        for ig in igs:
            base_end, base_evs, _ = fam_parse.impl_flat(ig, data)
            def after_preamble(n):
                f = io.BufferedReader(io.BytesIO(b"\x00" * n + data))
                f.read(n)
                return f

            def multi_gzip(k):
                return gzip.open(io.BytesIO(gzip.compress(data[:k]) + gzip.compress(data[k:])), "rb")

            srcs = [("BufferedReader", lambda: io.BufferedReader(io.BytesIO(data))),
                    ("BufferedReader(buffer_size=1)", lambda: io.BufferedReader(io.BytesIO(data), buffer_size=1)),
                    ("BufferedReader(buffer_size=2)", lambda: io.BufferedReader(io.BytesIO(data), buffer_size=2)),
                    ("BufferedReader(buffer_size=3)", lambda: io.BufferedReader(io.BytesIO(data), buffer_size=3)),
                    ("BufferedReader after 8190-byte preamble", lambda: after_preamble(8190)),
                    ("BufferedReader after 8191-byte preamble", lambda: after_preamble(8191)),
                    ("gzip", lambda: gzip.open(io.BytesIO(gzip.compress(data)), "rb")),
                    ("gzip, first member 1 byte", lambda: multi_gzip(1)),
                    ("gzip, first member 2 bytes", lambda: multi_gzip(2)),
                    ("BufferedReader over gzip", lambda: io.BufferedReader(gzip.open(io.BytesIO(gzip.compress(data)), "rb"), buffer_size=2))]
            for name, mk in srcs:
                ctx.report.evaluations += 1
                e, evs, _ = fam_parse.impl_flat(ig, data, src=mk())
                if (e, evs) != (base_end, base_evs):
                    out.append({"family": "PS", "ig": ig, "source": name, "bytes": hx(data), "corresponds": True, "impl": [e] + evs[:5], "model": [base_end] + base_evs[:5],
                                "property_violation": {"what": f"{name} source parses differently from the in-memory buffer"}, "signature": {}})
            for sched in schedules(r, ctx.n(4, 12)):
                ctx.report.evaluations += 1
                if sched[0] < 3:
                    ctx.report.nontrivial.add((si, ig, tuple(sched)))
                ctx.report.count(f"C09/first-read={'<3' if sched[0] < 3 else '>=3'}")
                src = Dribble(data, sched)
                e, evs, errn = fam_parse.impl_flat(ig, data, src=src)
                sc = [min(x, 64) for x in sched[:16]]
                reply = ctx.driver.ask(f"PS {ig} 0 0 {len(sc)} " + " ".join(map(str, sc)) + " " + hx(data))
                pre, mend, mframes = core.parse_pa_reply(reply)
                mevs = fam_parse.model_flat_events(mframes)
                same = (e, evs) == (mend, mevs)
                pv = None
                if (e, evs) != (base_end, base_evs):
                    pv = f"read schedule {sched[:6]} changes the parse: {e}/{len(evs)} items ({errn}) vs {base_end}/{len(base_evs)} from the buffer"
                if pv or not same:
                    out.append({"family": "PS", "ig": ig, "source": "raw", "sched": sched[:16], "bytes": hx(data), "corresponds": same,
                                "impl": [e] + evs[:5], "model": [mend] + mevs[:5], "property_violation": None if not pv else {"what": pv}, "signature": {}})
            # grouped over a dribbling source
            sched = [1, 1, 2, 10 ** 6]
            ctx.report.evaluations += 1
            try:
                if ig == "g":
                    a = [[core.event_tok(s) for s in sk] for sk in core.gparse.parse_jelly_grouped(Dribble(data, sched))]
                    b = [[core.event_tok(s) for s in sk] for sk in core.gparse.parse_jelly_grouped(io.BytesIO(data))]
                else:
                    from pyjelly.integrations.rdflib import parse as rparse

                    a = [len(sk) for sk in rparse.parse_jelly_grouped(Dribble(data, sched))]
                    b = [len(sk) for sk in rparse.parse_jelly_grouped(io.BytesIO(data))]
                ok = a == b
            except Exception:  # noqa: BLE001
                ok = False
            if not ok:
                out.append({"family": "PS", "ig": ig, "source": "raw-grouped", "sched": sched, "bytes": hx(data), "corresponds": True, "impl": "", "model": "",
                            "property_violation": {"what": "grouped parse over a dribbling source differs from the in-memory parse"}, "signature": {}})
        if si < 2:
            ctx.report.sample({"family": "PS", "bytes": hx(data)[:120], "schedules": "all-1, all-2, 1|2|3 then large, random"})
    return out


def replay_ps(ctx, body):
    data = core.unhx(body["bytes"])
    ig = body.get("ig", "g")
    base = fam_parse.impl_flat(ig, data)
    if body.get("source") == "raw":
        got = fam_parse.impl_flat(ig, data, src=Dribble(data, body["sched"]))
        print("buffer:", base[0], len(base[1]), " raw:", got[0], len(got[1]), got[2])
        return None if got[:2] == base[:2] else "read schedule changes the parse"
    return None


REPLAYERS["PS"] = replay_ps


# ------------------------------------------------------------------ C10
@plan(
    "C10",
    "PA: valid delimited streams (pyjelly's and the reference encoder's) cut at EVERY byte offset 0..len; parse_jelly_flat of both "
    "integrations consumed item by item; what is yielded before the end/exception must be exactly the statements of the frames wholly "
    "before the cut, and must equal the model's run on the same prefix. Non-trivial = a cut strictly inside a frame; distinct by (stream, offset).",
)
def c10(ctx):
    out = []
    r = ctx.rng
    for si in range(ctx.n(14, 160)):
        rdf11 = r.random() < 0.5
        st = fam_parse.ref_stream(ctx, rdf11=rdf11)
        if st is None:
            continue
        enc = st["enc"]
        # every third stream: few, long frames, so that length prefixes take two bytes (>= 128)
        # -- a cut can then fall between the bytes of a prefix
        if si % 2 == 0:
            frames = enc.frames(cut_p=0.04, empties=False, metadata=False)
        else:
            frames = st["frames"]
        payloads = [f.SerializeToString(deterministic=True) for f in frames]
        per_frame = refenc.frame_events(enc.events, enc.event_rows, enc.frame_rows)
        lead = 0
        if si % 3 == 1:
            # keep-alive style: the stream starts with one or two empty frames (the options come later)
            lead = 1 + si % 2
            payloads = [b""] * lead + payloads
            per_frame = [[] for _ in range(lead)] + per_frame
        data = fam_encode.delimited(payloads)
        if len(data) > 1500 and ctx.quick:
            continue
        ctx.report.count(f"C10/frames-with-2-byte-prefix={sum(1 for p_ in payloads if len(p_) >= 128)}")
        ctx.report.count(f"C10/leading-empty-frames={lead}")
        # frame boundaries
        bounds, pos = [], 0
        for p in payloads:
            pos += len(fam_encode.varint(len(p))) + len(p)
            bounds.append(pos)
        igs = ("g", "r") if rdf11 else ("g",)
        cmds = []
        for k in range(len(data) + 1):
            for ig in igs:
                cmds.append(f"PA {ig} 0 0 {hx(data[:k])}")
        replies = iter(ctx.driver.ask_many(cmds))
        for k in range(len(data) + 1):
            complete = sum(1 for b in bounds if b <= k)
            want = [e for fe in per_frame[:complete] for e in fe]
            for ig in igs:
                ctx.report.evaluations += 1
                if k not in bounds and k > 0:
                    ctx.report.nontrivial.add((si, k, ig))
                # the delivered part arrives through different kinds of sources: in memory, a real file
                # (a BufferedReader: read(n) may come back short only at the end), a non-seekable source
                # that dribbles
                carrier = (k + si) % 4
                if carrier == 2:
                    tf = tempfile.TemporaryFile()
                    tf.write(data[:k])
                    tf.seek(0)
                    e, evs, errn = fam_parse.impl_flat(ig, data[:k], src=tf)
                    tf.close()
                elif carrier == 3:
                    e, evs, errn = fam_parse.impl_flat(ig, data[:k], src=Dribble(data[:k], [r.choice([1, 2, 3, 7, 64]) for _ in range(6)] + [10 ** 6]))
                else:
                    e, evs, errn = fam_parse.impl_flat(ig, data[:k])
                ctx.report.count(f"C10/carrier={('BytesIO', 'BytesIO', 'file', 'non-seekable')[carrier]}")
                pre, mend, mframes = core.parse_pa_reply(next(replies))
                mevs = fam_parse.model_flat_events(mframes)
                same = (e, evs) == (mend, mevs)
                pv = None
                if k >= 3 or True:
                    if evs != want:
                        if evs[: len(want)] != want[: len(evs)]:
                            pv = f"cut at {k}: item {next(i for i, (a, b) in enumerate(zip(evs, want)) if a != b)} was never in the original at that position"
                        elif len(evs) < len(want):
                            pv = f"cut at {k}: {len(want) - len(evs)} statements of fully delivered frames were lost"
                        else:
                            pv = f"cut at {k}: {len(evs) - len(want)} items yielded from a frame that was not fully delivered"
                if pv or not same:
                    out.append({"family": "PA", "ig": ig, "mode": "flat", "bytes": hx(data[:k]), "cut": k, "of": len(data), "corresponds": same,
                                "impl": [e] + evs[-3:], "model": [mend] + mevs[-3:], "expected": want,
                                "property_violation": None if not pv else {"what": pv}, "signature": {}})
        if si < 2:
            ctx.report.sample({"family": "PA/truncation", "bytes": len(data), "frames": len(frames), "cuts": len(data) + 1})
    out += c10_large_frames(ctx)
    return out


def long_frame_stream(width: int, nst: int, fsize: int):
    """A TRIPLES stream written by pyjelly whose statement rows all have the same width (width + 8 bytes), in frames of fsize rows."""
    from pyjelly.integrations.generic import generic_sink as gs_
    from pyjelly.integrations.generic import serialize as gser
    from pyjelly.options import LookupPreset, StreamParameters
    from pyjelly.serialize.ioutils import write_delimited
    from pyjelly.serialize.streams import SerializerOptions, TripleStream

    sink = gs_.GenericStatementSink()
    s_, p_ = gs_.IRI("http://e.org/s"), gs_.IRI("http://e.org/p")
    for i in range(nst):
        sink.add(gs_.Triple(s_, p_, gs_.Literal(f"r-{i:0{width - 2}d}")))
    opts = SerializerOptions(frame_size=fsize, logical_type=1, params=StreamParameters(), lookup_preset=LookupPreset())
    stream = TripleStream(encoder=gser.GenericSinkTermEncoder(lookup_preset=opts.lookup_preset), options=opts)
    frames = list(gser.triples_stream_frames(stream, sink))
    buf = io.BytesIO()
    for f in frames:
        write_delimited(f, buf)
    data = buf.getvalue()
    payloads = [f.SerializeToString(deterministic=True) for f in frames]
    upto = [[fam_parse.event_tok(x) for x in fam_parse.gparse.parse_jelly_flat(io.BytesIO(fam_encode.delimited(payloads[: i + 1])))] for i in range(len(payloads))]
    per_frame = [upto[0]] + [upto[i][len(upto[i - 1]):] for i in range(1, len(upto))]
    bounds, starts, pos = [], [], 0
    for p in payloads:
        starts.append(pos + len(fam_encode.varint(len(p))))
        pos += len(fam_encode.varint(len(p))) + len(p)
        bounds.append(pos)
    return data, payloads, per_frame, starts, bounds


def long_frame_cut(data: bytes, per_frame: list, bounds: list, k: int, carrier: int, sched: list) -> tuple[str | None, str, list, int]:
    """Read data[:k] through one kind of source; -> (what is wrong or None, end, last events, expected count)."""
    complete = sum(1 for b in bounds if b <= k)
    want = [e for fe in per_frame[:complete] for e in fe]
    if carrier == 1:
        tf = tempfile.TemporaryFile()
        tf.write(data[:k])
        tf.seek(0)
        e, evs, _ = fam_parse.impl_flat("g", data[:k], src=tf)
        tf.close()
    elif carrier == 2:
        e, evs, _ = fam_parse.impl_flat("g", data[:k], src=Dribble(data[:k], list(sched) + [10 ** 7]))
    else:
        e, evs, _ = fam_parse.impl_flat("g", data[:k])
    pv = None
    if evs != want:
        if evs[: len(want)] != want[: len(evs)]:
            pv = f"long frame, cut at {k} of {len(data)}: item {next(i for i, (a, b) in enumerate(zip(evs, want)) if a != b)} was never in the original at that position"
        elif len(evs) < len(want):
            pv = f"long frame, cut at {k} of {len(data)}: {len(want) - len(evs)} statements of fully delivered frames were lost"
        else:
            pv = f"long frame, cut at {k} of {len(data)}: {len(evs) - len(want)} items yielded from a frame that was not fully delivered"
    elif e == "E" and k not in bounds and k != 0:
        pv = f"long frame, cut at {k} of {len(data)} (inside a frame): the parser ended normally"
    return pv, e, evs[-2:], len(want)


def c10_large_frames(ctx) -> list:
    """Frames longer than the reader's chunk (parse/ioutils.py reads a declared frame length in 64 KiB pieces): a stream whose
    rows all have the same width -- so that bytes of an earlier piece, if they ever stood in for missing ones, would still parse as
    rows -- written by pyjelly, cut inside each piece of the long frame (and at the piece boundaries), read through the three kinds
    of source.  Oracle as for the short streams: exactly the statements of the frames wholly before the cut, then the end."""
    out = []
    r = ctx.rng
    for si in range(ctx.n(1, 6)):
        width = r.choice([24, 56])  # the literal: width + 8 bytes of framing = a row of 32 or 64 bytes
        nst = r.choice([4500, 5200]) if width == 24 else r.choice([2300, 2700])
        fsize = r.choice([nst, nst // 2 + 7])
        data, payloads, per_frame, starts, bounds = long_frame_stream(width, nst, fsize)
        cuts = set()
        for st0, b in zip(starts, bounds):
            n_pieces = (b - st0 + 65535) // 65536
            for j in range(n_pieces):
                lo, hi = st0 + 65536 * j, min(b, st0 + 65536 * (j + 1))
                cuts.update(c for c in (lo, lo + 1, hi - 1) if c <= len(data))
                cuts.update(r.randrange(lo, hi) for _ in range(ctx.n(4, 12)))
                cuts.update(lo + (width + 8) * r.randrange(1, max(2, (hi - lo) // (width + 8))) for _ in range(ctx.n(3, 8)) if lo + (width + 8) < hi)
        ctx.report.count(f"C10/long-frames: frames over 64 KiB={sum(1 for p_ in payloads if len(p_) > 65536)}")
        for k in sorted(c for c in cuts if 0 <= c <= len(data)):
            for carrier in range(3):
                ctx.report.evaluations += 1
                ctx.report.nontrivial.add(("long", si, k, carrier))
                sched = [r.choice([1, 3, 4096, 70000]) for _ in range(6)]
                ctx.report.count(f"C10/long-frames carrier={('BytesIO', 'file', 'non-seekable')[carrier]}")
                pv, e, last, nwant = long_frame_cut(data, per_frame, bounds, k, carrier, sched)
                if pv:
                    out.append({"family": "PA", "ig": "g", "mode": "flat-long", "cut": k, "of": len(data), "corresponds": True,
                                "gen": {"width": width, "statements": nst, "frame_size": fsize, "carrier": carrier, "sched": sched},
                                "impl": [e] + last, "expected_count": nwant,
                                "property_violation": {"what": pv}, "signature": {}})
                    break
            if len(out) >= 3:
                return out
    return out
    return out
