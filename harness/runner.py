"""runner.py -- `./check Cxx --tier quick|thorough [--replay file]`.

1. proof obligations: the development is (re)built, props/Cxx.v is re-compiled now and the
   `Print Assumptions` output of every theorem in it is inspected;
2. correspondence obligations: the model's executable definitions (extracted, run by the
   OCaml driver) against the implementation imported from the repository working tree;
3. on a broken obligation: search for a concrete failing input with the property's own oracle,
   write a replay file, print the VIOLATION line;
4. evidence file.
"""
from __future__ import annotations

import argparse
import fcntl
import json
import os
import random
import re
import subprocess
import sys
import time
from pathlib import Path

VERIF = Path(__file__).resolve().parent.parent
sys.path.insert(0, str(VERIF / "harness"))

FORBIDDEN = re.compile(r"\b(Admitted|admit|Axiom|Axioms|Parameter|Parameters|Conjecture|Hypothesis|Variable|Variables)\b|Unset Guard|bypass_check|type-in-type|impredicative-set|Admit Obligations")
ALLOWED_AXIOMS: set[str] = set()  # no axiom is needed by any property theorem


def sh(cmd: str, timeout: int) -> tuple[int, str]:
    p = subprocess.run(cmd, shell=True, capture_output=True, text=True, timeout=timeout)
    return p.returncode, p.stdout + p.stderr


def ensure_build() -> tuple[bool, str]:
    lock = open(VERIF / ".build.lock", "w")
    fcntl.flock(lock, fcntl.LOCK_EX)
    try:
        rc, out = sh(f"make -C {VERIF} build 2>&1 | tail -30", timeout=3000)
        ok = rc == 0 and (VERIF / "_build" / "driver").exists() and "Error" not in out
        return ok, out
    finally:
        fcntl.flock(lock, fcntl.LOCK_UN)


def strip_comments(src: str) -> str:
    out, depth, i = [], 0, 0
    while i < len(src):
        if src.startswith("(*", i):
            depth += 1
            i += 2
        elif src.startswith("*)", i) and depth:
            depth -= 1
            i += 2
        else:
            if depth == 0:
                out.append(src[i])
            i += 1
    return "".join(out)


def scan_forbidden() -> list[str]:
    """Section-local Variable/Hypothesis/Context are fine; anything at top level is not.
    To keep the scan simple and strict the development uses `Context` only."""
    hits = []
    for p in sorted((VERIF / "coq").rglob("*.v")):
        src = strip_comments(p.read_text())
        for m in FORBIDDEN.finditer(src):
            hits.append(f"{p.relative_to(VERIF)}: {m.group(0)}")
    return hits


def extraction_cross_check(ctx, po: dict) -> None:
    """The driver is extracted OCaml.  For a sample of the commands it answered in this run, ask it for
    the same command as a Coq Example (`XC ...`) and let coqc evaluate the model by vm_compute on the same
    input: the kernel's evaluation and the extracted program must agree."""
    drv = ctx.driver
    cmds = [c for fam in drv.XC_FAMILIES for c in drv.sample.get(fam, [])]
    if not cmds:
        return
    saved = (dict(drv.sample), dict(drv.seen))
    lines = drv.ask_many(["XC " + c for c in cmds])
    drv.sample, drv.seen = saved
    body = ["From PJ.Model Require Import Base Lookup Terms Wire Encoder Streams Decoder Spec Audit Source Api Obs.",
            "Local Open Scope N_scope."]
    used = []
    for i, (c, ln) in enumerate(zip(cmds, lines)):
        if ln.startswith("DRIVER-ERROR") or len(ln) > 60000:
            continue
        used.append((i, c))
        body.append(f"Example xc{i} : {ln}.\nProof. vm_compute. reflexivity. Qed.")
    import shutil
    import tempfile

    tmpd = tempfile.mkdtemp(prefix="verif_xc_")
    try:
        (Path(tmpd) / "Xc.v").write_text("\n".join(body) + "\n")
        rc, out = sh(f"cd {VERIF}/coq && timeout 1800 coqc -Q model PJ.Model -Q proofs PJ.Proofs -Q {tmpd} PJ.Xc {tmpd}/Xc.v", timeout=1900)
    finally:
        shutil.rmtree(tmpd, ignore_errors=True)
    ctx.report.count("extraction-cross-check/examples", len(used))
    fams = sorted({c[:2] for _, c in used})
    if rc != 0:
        m = re.search(r"line (\d+)", out)
        bad = ""
        if m:
            ln_no = int(m.group(1))
            k = (ln_no - 3) // 2
            if 0 <= k < len(used):
                bad = used[k][1][:300]
        po["broken"].append("extraction cross-check: vm_compute of the model and the extracted driver disagree (or the example does not typecheck) on: "
                            + (bad or "?") + " :: " + out[-300:])
    else:
        ctx.report.notes.append(f"extraction cross-check: {len(used)} sampled commands ({', '.join(fams)}) re-evaluated by vm_compute inside coqc, all equal to the extracted driver's replies")


# ---------------------------------------------------------------------------------- source ties
# Parts of the source are translated to Gallina on every run (translate/py2v.py) and the tie theorems
# (coq/tie/*Tie.v: the translated source and the hand-written model are in lock step for every history
# of calls) are re-proved against the fresh translation.
TIES = {
    "lookup_enc": {"sources": ["pyjelly/serialize/lookup.py"], "gen": "LookupEncGen", "tie": "LookupEncTie", "needs": [],
                   "theorems": ["source_writer_is_model"]},
    "lookup_dec": {"sources": ["pyjelly/parse/lookup.py"], "gen": "LookupDecGen", "tie": "LookupDecTie", "needs": [],
                   "theorems": ["source_reader_is_model", "tie_init_decoder_too_large"]},
    "hint": {"sources": ["pyjelly/parse/ioutils.py"], "gen": "HintGen", "tie": "HintTie", "needs": [], "theorems": ["source_hint_is_model"]},
    "options": {"sources": ["pyjelly/options.py", "pyjelly/jelly/rdf_pb2.py"], "gen": "OptionsGen", "tie": "OptionsTie", "needs": [],
                "theorems": ["source_preset_is_model", "source_type_compat_is_model", "source_stream_types_is_model",
                             "source_params_version_is_model"]},
    # the translation of encode.py calls the translated lookup classes and LookupPreset, and its tie proofs use
    # the lookup tie's lemmas: those are regenerated and re-proved first ("needs")
    "encode": {"sources": ["pyjelly/serialize/encode.py"], "gen": "EncodeGen", "tie": "EncodeTie", "needs": ["lookup_enc", "options"],
               "theorems": ["source_split_iri_is_model", "source_term_encoder_init_is_model", "source_start_statement_is_model",
                            "source_encode_iri_indices_is_model", "source_encode_iri_is_model", "source_encode_namespace_declaration_is_model",
                            "source_encode_options_is_model", "source_encode_literal_is_model"]},
    # the statement level of encode.py: same translation, second tie file (parametric in the integrations' dispatchers)
    "encode_stmt": {"sources": ["pyjelly/serialize/encode.py"], "unit": "encode", "gen": "EncodeGen", "tie": "EncodeStmtTie",
                    "needs": ["lookup_enc", "options", "encode"],
                    "theorems": ["source_encode_triple_is_model", "source_encode_quad_is_model"]},
    "flows": {"sources": ["pyjelly/serialize/flows.py"], "gen": "FlowsGen", "tie": "FlowsTie", "needs": [],
              "theorems": ["source_flow_new_is_model", "source_to_stream_frame_is_model", "source_frame_from_bounds_is_model",
                           "source_frame_from_graph_is_model", "source_frame_from_dataset_is_model", "source_flow_for_type_is_model"]},
    # the Stream class family: construction with flow inference, enroll, namespace_declaration, triple(), quad()
    "streams": {"sources": ["pyjelly/serialize/streams.py"], "gen": "StreamsGen", "tie": "StreamsTie",
                "needs": ["lookup_enc", "options", "encode", "encode_stmt", "flows"],
                "theorems": ["source_stream_new_is_model", "source_enroll_is_model", "source_namespace_declaration_is_model",
                             "source_stream_triple_is_model", "source_stream_quad_is_model", "source_stream_graph_is_model"]},
    # the reader: options_from_frame (what a reader is told about a stream from its first row)
    "decode": {"sources": ["pyjelly/parse/decode.py"], "gen": "DecodeGen", "tie": "DecodeTie",
               "needs": ["lookup_enc", "options", "encode"], "needs_gen": ["lookup_dec"],
               "theorems": ["source_options_from_frame_is_model"]},
    # the Decoder class over the adapters as the model has them: decode_term (recursion on fuel), decode_row (dispatch on the
    # type of the row), iter_rows (the rows of a frame), __init__; and that the premises can be met for every row
    "decoder_base": {"sources": ["pyjelly/parse/decode.py"], "unit": "decode", "gen": "DecodeGen", "tie": "DecoderBase",
                     "needs": ["lookup_enc", "lookup_dec", "options", "encode", "decode"],
                     "theorems": ["owner_msg_reads"]},
    "decoder": {"sources": ["pyjelly/parse/decode.py"], "unit": "decode", "gen": "DecodeGen", "tie": "DecoderTie",
                "needs": ["lookup_enc", "lookup_dec", "options", "encode", "decode", "decoder_base"],
                "theorems": ["tie_dec_term", "source_decode_row_is_model", "source_iter_rows_is_model", "source_iter_rows_on_built_frame",
                             "source_decoder_init_is_model"]},
    # the generic integration's adapters (with the Adapter base class and the term classes of generic_sink.py), translated, simulate
    # the adapters as the model has them; hence the translated Decoder over the translated adapters against the model
    # the term classes of the generic integration as one generated inductive type; their equality is the model's term_eqb
    # where an encoded term goes in a statement message: lemmas shared by the two integrations' dispatcher ties (no theorem of its own)
    "stmt_layout": {"sources": ["pyjelly/serialize/encode.py"], "unit": "encode", "gen": "EncodeGen", "tie": "StmtLayout",
                    "needs": ["lookup_enc", "lookup_dec", "options", "encode", "encode_stmt", "decode", "decoder_base"], "theorems": []},
    # the rdflib integration's term encoder (RDFLibTermEncoder.encode_spo / encode_graph) over rdflib's term objects as the unit specifies
    # them: sim_spo / sim_graph PROVED, so the statement-level and Stream theorems hold at rdflib's objects and rdflib's == (on the terms
    # where that == is exact: language tags in lower case)
    "rdflib_serialize": {"sources": ["pyjelly/integrations/rdflib/serialize.py", "pyjelly/serialize/encode.py", "pyjelly/serialize/streams.py"],
                         "gen": "RdflibSerializeGen", "tie": "RdflibSerializeTie",
                         "needs": ["lookup_enc", "lookup_dec", "options", "encode", "encode_stmt", "flows", "streams", "decode", "decoder_base", "stmt_layout"],
                         "theorems": ["rdflib_term_eq_is_model", "rdflib_sim_spo", "rdflib_sim_graph", "rdflib_encode_triple_is_model",
                                      "rdflib_encode_quad_is_model", "rdflib_stream_triple_is_model", "rdflib_stream_quad_is_model",
                                      "rdflib_stream_graph_is_model"]},
    # the rdflib integration's writer drivers (namespace_declarations, triples / quads / graphs_stream_frames and the singledispatch
    # stream_frames) over rdflib's Graph / Dataset as the unit's stub module specifies them (iteration, graphs(), quads(), namespaces()) and
    # over a generator of statements, against the model's rdf_* drivers: frames yielded, how the run ends, the stream left
    "rdflib_drivers": {"sources": ["pyjelly/integrations/rdflib/serialize.py", "pyjelly/serialize/encode.py", "pyjelly/serialize/streams.py",
                                   "pyjelly/serialize/flows.py"],
                       "unit": "rdflib_serialize", "gen": "RdflibSerializeGen", "tie": "RdflibDriversTie",
                       "needs": ["lookup_enc", "lookup_dec", "options", "encode", "encode_stmt", "flows", "streams", "decode", "decoder_base", "stmt_layout",
                                 "rdflib_serialize"],
                       "theorems": ["rdflib_namespace_declarations_is_model", "rdflib_namespace_declarations_ds_is_model",
                                    "rdflib_quads_stream_frames_is_model", "rdflib_quads_stream_frames_gen_is_model",
                                    "rdflib_triples_stream_frames_is_model", "rdflib_triples_stream_frames_gen_is_model",
                                    "rdflib_triples_stream_frames_ds_is_model", "rdflib_graphs_stream_frames_is_model", "rdflib_stream_frames_is_model"]},
    # the rdflib integration's adapters (with the Adapter base class) over the unit's specification of rdflib's constructors, translated,
    # simulate the adapters as the model has them at ig = Rdflib (literal() = mk_literal Rdflib): what DecoderTie assumed of them, PROVED
    "rdflib_parse": {"sources": ["pyjelly/integrations/rdflib/parse.py", "pyjelly/parse/decode.py"],
                     "gen": "RdflibParseGen", "tie": "RdflibParseTie",
                     "needs": ["lookup_enc", "lookup_dec", "options", "encode", "decode", "decoder_base", "decoder"],
                     "theorems": ["rdflib_decode_row_is_model", "rdflib_iter_rows_is_model", "rdflib_iter_rows_on_built_frame",
                                  "rdflib_decoder_init_is_model", "types_named_iff_r"]},
    # C04 / C15 / C02 for the rdflib reader, translated: any RDF 1.1 stream the referee accepts is read -- by the translated Decoder over the
    # translated rdflib adapters, and by the translated parse_jelly_flat -- to the rdflib objects of the VIEW of its events
    "rdflib_round_trip": {"sources": ["pyjelly/integrations/rdflib/parse.py", "pyjelly/parse/decode.py"],
                          "unit": "rdflib_parse", "gen": "RdflibParseGen", "tie": "RdflibRoundTrip", "props": ["C02", "C04", "C15"],
                          "needs": ["lookup_enc", "lookup_dec", "options", "encode", "encode_stmt", "flows", "streams", "decode", "decoder_base", "decoder", "stmt_layout",
                                    "generic_sink", "generic_parse", "generic_serialize", "generic_round_trip", "rdflib_parse"],
                          "theorems": ["rdflib_reads_frames", "C04_source_rdflib_reads_valid_streams", "C04_source_rdflib_exact", "C04_source_rdflib_flat_parser",
                                       "C15_source_flat_parsers_correspond"]},
    # C02 end to end on translated source: the frames the translated rdflib driver yields (a Graph through a TripleStream, a Dataset's
    # quads() through a QuadStream), through the translated rdflib flat parser, give back the objects of the statements (no model in the conclusion)
    "rdflib_end_to_end": {"sources": ["pyjelly/integrations/rdflib/serialize.py", "pyjelly/integrations/rdflib/parse.py", "pyjelly/serialize/encode.py",
                                      "pyjelly/parse/decode.py", "pyjelly/serialize/streams.py", "pyjelly/serialize/flows.py"],
                          "unit": "rdflib_parse", "gen": "RdflibParseGen", "tie": "RdflibEndToEnd", "props": ["C02", "C03", "C06", "C14", "C19"],
                          "needs": ["lookup_enc", "lookup_dec", "options", "encode", "encode_stmt", "flows", "streams", "decode", "decoder_base", "decoder", "stmt_layout",
                                    "generic_sink", "generic_parse", "generic_serialize", "generic_round_trip", "rdflib_serialize", "rdflib_drivers", "rdflib_parse",
                                    "rdflib_round_trip"],
                          "theorems": ["C02_end_to_end_rdflib_graph", "C02_end_to_end_rdflib_dataset_quads", "C02_end_to_end_rdflib_dataset_graphs", "C14_end_to_end_rdflib_graph",
                                       "C03_source_rdflib_triples_driver_writes_valid_streams", "C03_source_rdflib_quads_driver_writes_valid_streams",
                                       "C03_source_rdflib_graphs_driver_writes_valid_streams", "C06_source_rdflib_nothing_left_behind_dataset",
                                       "C06_source_rdflib_nothing_left_behind_graph", "C19_source_rdflib_triples_driver_audit_clean",
                                       "C19_source_rdflib_quads_driver_audit_clean"]},
    # C15, serializers, on translated source: the generic triples driver over a sink and the rdflib triples driver over a Graph with the
    # corresponding statements, on streams made from the same options, yield the same list of message objects
    "serializers_agree": {"sources": ["pyjelly/integrations/generic/serialize.py", "pyjelly/integrations/rdflib/serialize.py", "pyjelly/serialize/encode.py",
                                      "pyjelly/serialize/streams.py", "pyjelly/serialize/flows.py"],
                          "unit": "rdflib_serialize", "gen": "RdflibSerializeGen", "tie": "SerializersAgree", "props": ["C15"],
                          "needs": ["lookup_enc", "lookup_dec", "options", "encode", "encode_stmt", "flows", "streams", "decode", "decoder_base", "stmt_layout",
                                    "generic_sink", "generic_serialize", "generic_drivers", "rdflib_serialize", "rdflib_drivers"],
                          "theorems": ["C15_source_serializers_agree_triples", "C15_source_serializers_agree_quads"]},
    # guess_options of the rdflib integration (a Graph: FLAT_TRIPLES; a Dataset: FLAT_QUADS; RDF-star and generalized statements off)
    "rdflib_entry": {"sources": ["pyjelly/integrations/rdflib/serialize.py", "pyjelly/serialize/streams.py", "pyjelly/options.py"],
                     "unit": "rdflib_serialize", "gen": "RdflibSerializeGen", "tie": "RdflibEntryTie",
                     "needs": ["lookup_enc", "lookup_dec", "options", "encode", "encode_stmt", "flows", "streams", "decode", "decoder_base", "stmt_layout"],
                     "theorems": ["rdflib_guess_options_is_model", "rdflib_guess_options_ds_is_model"]},
    "generic_sink": {"sources": ["pyjelly/integrations/generic/generic_sink.py"], "gen": "GenericSinkGen", "tie": "GenericTerms", "needs": [],
                     "theorems": ["source_term_eq_is_model"]},
    "generic_parse": {"sources": ["pyjelly/integrations/generic/parse.py", "pyjelly/integrations/generic/generic_sink.py", "pyjelly/parse/decode.py"],
                      "gen": "GenericParseGen", "tie": "GenericParseTie",
                      "needs": ["lookup_enc", "lookup_dec", "options", "encode", "decode", "decoder_base", "decoder", "generic_sink"],
                      "theorems": ["generic_decode_row_is_model", "generic_iter_rows_is_model", "generic_iter_rows_on_built_frame",
                                   "generic_decoder_init_is_model", "types_named_iff"]},
    # the generic integration's term encoder (GenericSinkTermEncoder.encode_spo / encode_graph), translated: the premises sim_spo /
    # sim_graph of the statement-level and Stream ties are PROVED for it, so those theorems hold for the generic integration outright
    "generic_serialize": {"sources": ["pyjelly/integrations/generic/serialize.py", "pyjelly/integrations/generic/generic_sink.py", "pyjelly/serialize/encode.py"],
                          "gen": "GenericSerializeGen", "tie": "GenericSerializeTie",
                          "needs": ["lookup_enc", "lookup_dec", "options", "encode", "encode_stmt", "flows", "streams", "decode", "decoder_base", "stmt_layout", "generic_sink"],
                          "theorems": ["gs_spo_fuel_tie", "generic_sim_spo", "generic_sim_graph", "generic_encode_triple_is_model", "generic_encode_quad_is_model",
                                       "generic_stream_triple_is_model", "generic_stream_quad_is_model", "generic_stream_graph_is_model"]},
    # C01 / C04 for the generic integration with the translated source on both sides of the message objects: what the translated
    # writer builds is what the translated reader is shown to read, composed with the model's round trip
    "generic_round_trip": {"sources": ["pyjelly/integrations/generic/serialize.py", "pyjelly/integrations/generic/parse.py",
                                       "pyjelly/integrations/generic/generic_sink.py", "pyjelly/serialize/encode.py", "pyjelly/parse/decode.py",
                                       "pyjelly/serialize/streams.py"],
                           "unit": "generic_serialize", "gen": "GenericSerializeGen", "tie": "GenericRoundTrip", "props": ["C01", "C04", "C14"],
                           "needs": ["lookup_enc", "lookup_dec", "options", "encode", "encode_stmt", "flows", "streams", "decode", "decoder_base", "decoder", "stmt_layout",
                                     "generic_sink", "generic_parse", "generic_serialize"],
                           "theorems": ["grmsg_owner", "generic_reads_written_frames", "C01_source_generic_triples", "C01_source_generic_quads",
                                        "C01_source_generic_graphs", "C04_source_generic_reads_valid_streams", "C14_source_generic_triples",
                                        "C04_source_generic_flat_parser"]},
    # the writer drivers of the generic integration (namespace_declarations, triples / quads / graphs_stream_frames, split_to_graphs) and
    # the GenericStatementSink they read, translated, against the model's drivers: frames yielded, how the run ends, the stream left
    "generic_drivers": {"sources": ["pyjelly/integrations/generic/serialize.py", "pyjelly/integrations/generic/generic_sink.py",
                                    "pyjelly/serialize/streams.py", "pyjelly/serialize/flows.py", "pyjelly/serialize/encode.py"],
                        "unit": "generic_serialize", "gen": "GenericSerializeGen", "tie": "GenericDriversTie",
                        "needs": ["lookup_enc", "lookup_dec", "options", "encode", "encode_stmt", "flows", "streams", "decode", "decoder_base", "stmt_layout", "generic_sink",
                                  "generic_serialize"],
                        "theorems": ["source_namespace_declarations_is_model", "source_triples_stream_frames_is_model",
                                     "source_quads_stream_frames_is_model", "source_split_to_graphs_is_model", "source_graphs_stream_frames_is_model"]},
    # the entry points around the drivers: the singledispatch stream_frames, guess_options, guess_stream, grouped_stream_to_frames (and
    # GenericStatementSink.is_triples_sink) against the model's stream_frames / guess_* / api_grouped_generic
    "generic_entry": {"sources": ["pyjelly/integrations/generic/serialize.py", "pyjelly/integrations/generic/generic_sink.py",
                                  "pyjelly/serialize/streams.py"],
                      "unit": "generic_serialize", "gen": "GenericSerializeGen", "tie": "GenericEntryTie",
                      "needs": ["lookup_enc", "lookup_dec", "options", "encode", "encode_stmt", "flows", "streams", "decode", "decoder_base", "stmt_layout", "generic_sink",
                                "generic_serialize", "generic_drivers"],
                      "theorems": ["source_is_triples_sink_is_model", "source_stream_frames_is_model", "source_guess_options_is_model",
                                   "source_guess_stream_is_model", "source_grouped_stream_to_frames_is_model"]},
    # the generator alternative of the drivers' `data` union (the _gen copies), stream_frames on it, and flat_stream_to_frames
    "generic_gen": {"sources": ["pyjelly/integrations/generic/serialize.py", "pyjelly/integrations/generic/generic_sink.py",
                                "pyjelly/serialize/streams.py"],
                    "unit": "generic_serialize", "gen": "GenericSerializeGen", "tie": "GenericGenTie",
                    "needs": ["lookup_enc", "lookup_dec", "options", "encode", "encode_stmt", "flows", "streams", "decode", "decoder_base", "stmt_layout", "generic_sink",
                              "generic_serialize", "generic_drivers", "generic_entry"],
                    "theorems": ["source_triples_stream_frames_gen_is_model", "source_quads_stream_frames_gen_is_model", "source_graphs_stream_frames_gen_is_model",
                                 "source_stream_frames_gen_is_model", "source_flat_stream_to_frames_is_model"]},
    # C01 / C14 end to end on translated source: the translated driver's yields through the translated flat parser give back the
    # objects of the declarations and statements (no model in the conclusion)
    "generic_end_to_end": {"sources": ["pyjelly/integrations/generic/serialize.py", "pyjelly/integrations/generic/parse.py",
                                       "pyjelly/integrations/generic/generic_sink.py", "pyjelly/serialize/encode.py", "pyjelly/parse/decode.py",
                                       "pyjelly/serialize/streams.py", "pyjelly/serialize/flows.py"],
                           "unit": "generic_serialize", "gen": "GenericSerializeGen", "tie": "GenericEndToEnd", "props": ["C01", "C14", "C06", "C03", "C19"],
                           "needs": ["lookup_enc", "lookup_dec", "options", "encode", "encode_stmt", "flows", "streams", "decode", "decoder_base", "decoder", "stmt_layout",
                                     "generic_sink", "generic_parse", "generic_serialize", "generic_round_trip", "generic_drivers"],
                           "theorems": ["constructed_stream_is_related", "C06_source_generic_nothing_left_behind", "C03_source_generic_drivers_write_valid_streams",
                                        "C19_source_generic_drivers_audit_clean", "C01_end_to_end_generic_triples",
                                        "C01_end_to_end_generic_quads", "C01_end_to_end_generic_graphs"]},
    # C07 / C15 on translated source: the grouped parser yields one sink per frame holding what the Decoder yields for it; its sinks'
    # statements concatenated are the flat parser's; parse_jelly_to_graph is one sink with all of it; for every stream the referee accepts
    "generic_grouped": {"sources": ["pyjelly/integrations/generic/parse.py", "pyjelly/integrations/generic/generic_sink.py", "pyjelly/parse/decode.py"],
                        "unit": "generic_parse", "gen": "GenericParseGen", "tie": "GenericGroupedTie", "props": ["C07", "C15"],
                        "needs": ["lookup_enc", "lookup_dec", "options", "encode", "encode_stmt", "flows", "streams", "decode", "decoder_base", "decoder", "stmt_layout",
                                  "generic_sink", "generic_parse", "generic_serialize", "generic_round_trip"],
                        "theorems": ["source_grouped_is_per_frame", "C07_source_generic_grouped_is_flat", "source_to_graph_is_flat",
                                     "C07_source_generic_valid_streams"]},
    # clauses of C16 / C13 directly about the translated Decoder, for ANY adapter (no model in the statement, nothing assumed of the adapter)
    "decoder_source": {"sources": ["pyjelly/parse/decode.py"], "unit": "decode", "gen": "DecodeGen", "tie": "DecoderSource", "needs": [],
                       "needs_gen": ["lookup_dec", "options"], "props": ["C16", "C13"],
                       "theorems": ["C16_source_datatype_while_disabled", "C16_source_datatype_zero", "C16_source_quoted_slot_missing",
                                    "C16_source_unknown_term_kind", "C16_source_unknown_row_kind", "C16_source_unset_row",
                                    "C16_source_repeated_without_previous", "C13_source_reader_checks_physical_type",
                                    "C13_source_reader_checks_version"]},
    # property C05 itself, about the translated writer and reader coupled as the wire couples them (no model in the statement)
    "c05_source": {"sources": ["pyjelly/serialize/lookup.py", "pyjelly/parse/lookup.py"], "unit": "lookup_enc", "gen": "LookupEncGen", "tie": "C05Source",
                   "needs": ["lookup_enc", "lookup_dec"], "props": ["C05"], "theorems": ["C05_source_mirror_all_histories"]},
    # clauses of C20 and C13 that live in the Stream classes, directly about the translated source
    "streams_source": {"sources": ["pyjelly/serialize/streams.py"], "unit": "streams", "gen": "StreamsGen", "tie": "StreamsSource", "needs": [],
                       "needs_gen": ["lookup_enc", "options", "encode", "flows", "streams"], "props": ["C20", "C13"],
                       "theorems": ["C20_source_refusal_marks_triple", "C20_source_refusal_marks_quad", "C20_source_refusal_marks_namespace",
                                    "C20_source_failed_stream_is_closed", "C13_source_header_says_the_options"]},
    # parts of C08 / C13 / C18 stated directly about the translated source
    "source_props": {"sources": ["pyjelly/parse/ioutils.py", "pyjelly/options.py", "pyjelly/serialize/encode.py"], "unit": "hint", "gen": "HintGen",
                     "tie": "SourceProps", "needs": [], "needs_gen": ["hint", "options", "lookup_enc", "encode"], "props": ["C08", "C13", "C18"],
                     "theorems": ["C08_source_truth_table", "C13_source_preset_bounds", "C13_source_declared_version", "C13_source_type_pairs",
                                  "C18_source_statement_bound"]},
}


def anchor_files(pid: str) -> list[str]:
    for ln in (VERIF / "properties.jsonl").read_text().splitlines():
        if ln.strip():
            d = json.loads(ln)
            if d["id"] == pid:
                return d["anchors"]["files"]
    return []


def _static_digest() -> str:
    """Hash of everything hand-written that a tie compilation reads (model, proofs, tie files)."""
    import hashlib

    h = hashlib.sha256()
    for d in ("model", "proofs", "tie"):
        for p in sorted((VERIF / "coq" / d).glob("*.v")):
            h.update(p.name.encode())
            h.update(p.read_bytes())
    for p in sorted((VERIF / "translate").glob("*.py")) + sorted((VERIF / "translate" / "stubs").glob("*.py")):
        h.update(p.name.encode())
        h.update(p.read_bytes())
    return h.hexdigest()


def _one_tie(unit: str, t: dict, repo: str) -> dict:
    """Translate the chain of units from the tree under check, then compile generated files and tie files.
    The outcome is remembered under _build/tiecache/ keyed by the hash of ALL inputs (the fresh translations of
    this run and every hand-written file): a later check of the same tree with the same development re-uses the
    kernel's verdict instead of asking for it again."""
    import hashlib
    import shutil
    import tempfile

    res = {"unit": unit, "broken": None, "lines": 0, "cached": False}
    chain0 = [(n, TIES[n], False) for n in t.get("needs_gen", [])] + [(n, TIES[n], True) for n in t["needs"]] + [(unit, t, True)]
    texts = {}
    for u, tu, _ in chain0:
        tu_unit = tu.get("unit", u)
        if tu_unit in texts:
            continue
        p = subprocess.run([sys.executable, str(VERIF / "translate" / "py2v.py"), repo, tu_unit], capture_output=True, text=True, timeout=120)
        if p.returncode != 0:
            res["broken"] = (f"source tie {unit}: the translator cannot read {', '.join(tu['sources'])} any more ({p.stderr.strip()[-300:]}); "
                             f"theorems {t['theorems']} of coq/tie/{t['tie']}.v are not re-proved")
            return res
        if FORBIDDEN.search(strip_comments(p.stdout)):
            res["broken"] = f"source tie {unit}: forbidden construct in the generated file"
            return res
        texts[tu_unit] = p.stdout
    res["lines"] = len(texts[t.get("unit", unit)].splitlines())
    key = hashlib.sha256((_static_digest() + unit + "".join(k + v for k, v in sorted(texts.items()))).encode()).hexdigest()
    cache = VERIF / "_build" / "tiecache" / f"{key}.json"
    if cache.exists():
        try:
            c = json.loads(cache.read_text())
            res["broken"], res["cached"] = c["broken"], True
            return res
        except Exception:  # noqa: BLE001
            pass
    out_res = _compile_tie(unit, t, texts)
    res["broken"] = out_res
    try:
        cache.parent.mkdir(parents=True, exist_ok=True)
        cache.write_text(json.dumps({"broken": out_res}))
    except OSError:
        pass
    return res


def _compile_tie(unit: str, t: dict, texts: dict) -> str | None:
    import shutil
    import tempfile

    res = {"broken": None}
    tmpd = tempfile.mkdtemp(prefix="verif_tie_")
    os.mkdir(f"{tmpd}/gen")
    os.mkdir(f"{tmpd}/tie")
    q = f"-Q model PJ.Model -Q proofs PJ.Proofs -Q tie PJ.Tie -Q {tmpd}/tie PJ.Tie -Q {tmpd}/gen PJ.Gen"
    try:
        chain = [(n, TIES[n], False) for n in t.get("needs_gen", [])] + [(n, TIES[n], True) for n in t["needs"]] + [(unit, t, True)]
        for u, tu, with_tie in chain:
            gen_file = Path(tmpd) / "gen" / f"{tu['gen']}.v"
            cmd = f"cd {VERIF}/coq && "
            if not gen_file.exists():
                gen_file.write_text(texts[tu.get("unit", u)])
                cmd += f"timeout 1800 coqc {q} {tmpd}/gen/{tu['gen']}.v && "
            if with_tie:
                cmd += f"timeout 1800 coqc {q} -o {tmpd}/tie/{tu['tie']}.vo tie/{tu['tie']}.v"
            else:
                cmd += "true"
            rc, out = sh(cmd, timeout=3700)
            closed = out.count("Closed under the global context")
            if rc != 0 or (with_tie and closed != len(tu["theorems"])) or "Axioms:" in out:
                return (f"source tie {unit}: coq/tie/{tu['tie']}.v no longer proves {tu['theorems']} against the translation of "
                        f"{', '.join(tu['sources'])} (the source and the model are not shown to be in lock step): {out[-500:]}")
        return None
    finally:
        shutil.rmtree(tmpd, ignore_errors=True)


def _prim_check(seed: int, n: int) -> tuple[str | None, int]:
    """PyPrims.v against CPython: random scripts of the built-ins as Coq Examples (see primcheck.py)."""
    import shutil
    import tempfile

    import primcheck

    rng = random.Random(seed * 31 + 7)
    cases = primcheck.gen_cases(rng, n) + primcheck.gen_dict_cases(rng, n // 2) + primcheck.gen_msg_cases(rng, n // 2)
    tmpd = tempfile.mkdtemp(prefix="verif_prim_")
    try:
        (Path(tmpd) / "PrimCases.v").write_text(primcheck.coq_file(cases))
        rc, out = sh(f"cd {VERIF}/coq && timeout 1800 coqc -Q tie PJ.Tie -Q {tmpd} PJ.Pc {tmpd}/PrimCases.v", timeout=1900)
    finally:
        shutil.rmtree(tmpd, ignore_errors=True)
    if rc == 0:
        return None, len(cases)
    m = re.search(r"line (\d+)", out)
    bad = cases[(int(m.group(1)) - 3) // 2] if m and 0 <= (int(m.group(1)) - 3) // 2 < len(cases) else "?"
    return (f"coq/tie/PyPrims.v does not describe CPython: `{bad[:300]}` is what CPython does and not what PyPrims computes "
            f"(the source ties rest on it): {out[-200:]}"), len(cases)


def _rdflib_literal_check(seed: int, n: int) -> tuple[str | None, int]:
    """model/Terms.v + model/Decoder.v `mk_literal Rdflib` (what rdflib.Literal(lex, lang=, datatype=, normalize=False) does with its
    arguments: language-tag check, lang-and-datatype refusal, whiteSpace facet of xsd:token / xsd:normalizedString) against the real
    rdflib on random arguments, as Coq Examples evaluated by vm_compute."""
    import logging
    import shutil
    import tempfile
    import warnings

    import rdflib

    rng = random.Random(seed * 57 + 11)
    ws = ["\t", "\n", "\r", " ", "  ", "\x0b", "\x0c", "\x1c", "\x1f", "\x85", "\xa0", "\u1680", "\u2000", "\u2005", "\u200a", "\u2028", "\u2029", "\u202f", "\u205f",
          "\u3000", "\u200b", "\x84", "a", "b", "\u00e9", " x", "\x1b", "\u3001", "1", "-"]
    tags = ["en", "en-GB", "", "-", "en-", "en--x", "e1", "a-1", "a-b-c9", "en\n", "en\n\n", "\n", "en-\n", "\u00e9", "en_US", "EN", "x-" + "a" * 12, "1a", "a b", "de", "pl"]
    xsd = "http://www.w3.org/2001/XMLSchema#"
    dts = [xsd + "token", xsd + "normalizedString", xsd + "integer", xsd + "string", xsd + "language", "http://dt.org/one", "", xsd + "Token"]

    def enc(s_):
        return "[" + "; ".join(str(b) for b in s_.encode()) + "]"

    def opt(s_):
        return "None" if s_ is None else f"(Some {enc(s_)})"
    cases = []
    logging.disable(logging.CRITICAL)
    try:
        with warnings.catch_warnings():
            warnings.simplefilter("ignore")
            for _ in range(n):
                lex = "".join(rng.choice(ws) for _ in range(rng.randint(0, 7)))
                k = rng.random()
                lang = rng.choice(tags) if k < 0.4 else None
                dt = rng.choice(dts) if 0.3 < k < 0.9 else None
                try:
                    lit = rdflib.Literal(lex, lang=lang, datatype=dt, normalize=False)
                    want = f"Ok (TLit {enc(str(lit))} {opt(lit.language)} {opt(None if lit.datatype is None else str(lit.datatype))})"
                except TypeError:
                    want = "Err TypeErr"
                except ValueError:
                    want = "Err ValueErr"
                cases.append(f"mk_literal Rdflib {enc(lex)} {opt(lang)} {opt(dt)} = {want}")
    finally:
        logging.disable(logging.NOTSET)
    body = ["From PJ.Model Require Import Base Terms Encoder Decoder."]
    for i, c in enumerate(cases):
        body.append(f"Example lit{i} : {c}.\nProof. vm_compute. reflexivity. Qed.")
    tmpd = tempfile.mkdtemp(prefix="verif_rlit_")
    try:
        (Path(tmpd) / "RlitCases.v").write_text("\n".join(body) + "\n")
        rc, out = sh(f"cd {VERIF}/coq && timeout 1800 coqc -Q model PJ.Model -Q {tmpd} PJ.Rl {tmpd}/RlitCases.v", timeout=1900)
    finally:
        shutil.rmtree(tmpd, ignore_errors=True)
    if rc == 0:
        return None, len(cases)
    m = re.search(r"line (\d+)", out)
    bad = cases[(int(m.group(1)) - 2) // 2] if m and 0 <= (int(m.group(1)) - 2) // 2 < len(cases) else "?"
    return (f"the model's account of rdflib's Literal constructor (model/Decoder.v mk_literal, model/Terms.v rdflib_lex / valid_langtag) differs from the real rdflib: "
            f"`{bad[:300]}` is what rdflib does :: {out[-200:]}"), len(cases)


def _tx_check(ctx, repo: str, n: int, reader: bool, writer: bool, rdf: bool = False, rdfp: bool = False) -> tuple[str | None, int, dict]:
    """The translation cross-check (txcheck.py): the generated Gallina of the reader and writer chains, evaluated by vm_compute, against
    the real code of the tree under check on the same inputs -- yields / frames and exception classes.  The cases are generated in one
    fixed order from one generator, then evaluated by several coqc processes side by side."""
    import shutil
    import tempfile
    from concurrent.futures import ThreadPoolExecutor

    import txcheck

    tmpd = tempfile.mkdtemp(prefix="verif_tx_")
    os.mkdir(f"{tmpd}/gen")
    q = f"-Q model PJ.Model -Q tie PJ.Tie -Q {tmpd}/tie PJ.Tie -Q {tmpd}/gen PJ.Gen"
    os.mkdir(f"{tmpd}/tie")
    gens = {"lookup_enc": "LookupEncGen", "lookup_dec": "LookupDecGen", "options": "OptionsGen", "encode": "EncodeGen", "flows": "FlowsGen",
            "streams": "StreamsGen", "decode": "DecodeGen", "generic_sink": "GenericSinkGen", "generic_parse": "GenericParseGen",
            "generic_serialize": "GenericSerializeGen", "rdflib_serialize": "RdflibSerializeGen", "rdflib_parse": "RdflibParseGen"}
    try:
        for unit in ("lookup_enc", "lookup_dec", "options", "encode", "flows", "streams", "decode", "generic_sink", "generic_parse", "generic_serialize") \
                + (("rdflib_serialize",) if rdf else ()) + (("rdflib_parse",) if rdfp else ()):
            p = subprocess.run([sys.executable, str(VERIF / "translate" / "py2v.py"), repo, unit], capture_output=True, text=True, timeout=120)
            if p.returncode != 0:
                return None, 0, {"note": "translator refuses the source (reported by the tie)"}
            (Path(tmpd) / "gen" / f"{gens[unit]}.v").write_text(p.stdout)
            rc, out = sh(f"cd {VERIF}/coq && timeout 1800 coqc {q} {tmpd}/gen/{gens[unit]}.v", timeout=1900)
            if rc != 0:
                return None, 0, {"note": "the generated code does not compile (reported by the tie)"}
        for fn, on in (("TxRun", True), ("TxRunRdflib", rdf), ("TxRunRdflibParse", rdfp)):
            if on:
                rc, out = sh(f"cd {VERIF}/coq && timeout 1800 coqc {q} -o {tmpd}/tie/{fn}.vo tie/{fn}.v", timeout=1900)
                if rc != 0:
                    return f"translation cross-check: coq/tie/{fn}.v does not compile against the translation of this tree: {out[-300:]}", 0, {}
        class _C:  # its own generator: the plan's sample does not depend on whether this check ran
            rng = random.Random(ctx.seed * 104729 + 7)
        cases, stats = txcheck.gen_cases(_C, n) if reader else ([], {})
        if writer:
            for key, fn_ in (("writer", txcheck.gen_writer_cases), ("drivers", txcheck.gen_driver_cases), ("grouped_writer", txcheck.gen_grouped_writer_cases),
                             ("flat_writer", txcheck.gen_flat_writer_cases)):
                cs_, st_ = fn_(_C, n)
                cases += cs_
                stats[key] = st_
        rcases: list[str] = []
        if rdf:
            rcases, stats["rdflib"] = txcheck.gen_rdflib_cases(_C, n)
            rdcases, stats["rdflib_drivers"] = txcheck.gen_rdflib_driver_cases(_C, max(20, n // 2))
            rcases += rdcases
        pcases: list[str] = []
        if rdfp:
            pcases, stats["rdflib_reader"] = txcheck.gen_rdflib_reader_cases(_C, max(10, n // 2))
        os.mkdir(f"{tmpd}/cases")
        jobs = []   # (file name, cases, what differs when it fails)
        generic_what = ("the translated source (generated Gallina of the reader chain -- options_from_frame, the generic adapters, Decoder.iter_rows -- or of the writer "
                        "chain -- the options, TermEncoder with the generic dispatchers, the Stream classes and flows, the generic drivers over a GenericStatementSink -- "
                        "evaluated by vm_compute) and the real code of this tree differ on a stream -- the translator or coq/tie/PyPrims.v does not describe this source")
        for k_ in range(0, len(cases), 30):
            jobs.append((f"TxCases{k_ // 30}", cases[k_:k_ + 30], txcheck.coq_file, generic_what))
        for k_ in range(0, len(rcases), 60):
            jobs.append((f"TxCasesR{k_ // 60}", rcases[k_:k_ + 60], txcheck.coq_file_rdflib,
                         "(rdflib): the specification of rdflib's term objects and Graph / Dataset containers in the translation unit, or the translated RDFLibTermEncoder with "
                         "the Stream classes and the rdflib drivers (generated Gallina evaluated by vm_compute), differs from the real rdflib / the real code of this tree"))
        for k_ in range(0, len(pcases), 12):
            jobs.append((f"TxCasesP{k_ // 12}", pcases[k_:k_ + 12], txcheck.coq_file_rdflib_reader,
                         "(rdflib reader): the specification of rdflib's constructors (URIRef, BNode, Literal with its language-tag check and whiteSpace-facet rewriting) in the "
                         "translation unit, or the translated rdflib adapters / flat parser (generated Gallina evaluated by vm_compute), differs from the real rdflib / the real code of this tree"))

        def run_job(job):
            name, cs_, mk, what = job
            (Path(tmpd) / "cases" / f"{name}.v").write_text(mk(cs_))
            rc_, out_ = sh(f"cd {VERIF}/coq && timeout 3000 coqc {q} -Q {tmpd}/cases PJ.Tx {tmpd}/cases/{name}.v", timeout=3100)
            if rc_ == 0:
                return None
            m = re.search(r"line (\d+)", out_)
            k = (int(m.group(1)) - 5) // 2 if m else -1
            bad = cs_[k][:400] + " ... " + cs_[k][-400:] if 0 <= k < len(cs_) else "?"
            return f"translation cross-check {what}: {bad} :: {out_[-200:]}"
        with ThreadPoolExecutor(max_workers=6) as ex:
            fails = [r for r in ex.map(run_job, jobs) if r]
    finally:
        shutil.rmtree(tmpd, ignore_errors=True)
    total = len(cases) + len(rcases) + len(pcases)
    if not fails:
        return None, total, stats
    return fails[0], total, stats


def source_ties(ctx, po: dict, pid: str) -> list[str]:
    """Regenerate and re-prove every tie whose source files the property is anchored in (in parallel).
    Returns the units that no longer check."""
    from concurrent.futures import ThreadPoolExecutor

    repo = os.environ.get("VERIF_REPO", "/repo")
    anchors = set(anchor_files(pid))
    units = [(u, t) for u, t in TIES.items() if anchors & set(t["sources"]) and pid in t.get("props", [pid])]
    broken_units = []
    if not units:
        return broken_units
    # a unit whose tie file is compiled (and its theorems counted) as part of another selected unit's chain is not compiled a
    # second time: it takes that chain's verdict; only if the chain fails is it checked on its own, to say which tie broke
    names = [u for u, _ in units]
    covered_by = {u: next((v for v in names if v != u and u in TIES[v]["needs"]), None) for u in names}
    roots = [(u, t) for u, t in units if covered_by[u] is None]
    with ThreadPoolExecutor(max_workers=len(units) + 1) as ex:
        prim = ex.submit(_prim_check, ctx.seed, 60 if ctx.quick else 400)
        rlit = ex.submit(_rdflib_literal_check, ctx.seed, 150 if ctx.quick else 1500) if "pyjelly/integrations/rdflib/parse.py" in anchors else None
        tx_r = bool(set(names) & {"decode", "decoder", "generic_parse"})
        tx_w = bool(set(names) & {"encode", "encode_stmt", "flows", "streams", "generic_serialize"})
        tx_rd = "rdflib_serialize" in names
        tx_rp = "rdflib_parse" in names
        tx = ex.submit(_tx_check, ctx, repo, 20 if ctx.quick else 120, tx_r, tx_w, tx_rd, tx_rp) if (tx_r or tx_w or tx_rd or tx_rp) else None
        root_res = dict(zip([u for u, _ in roots], ex.map(lambda ut: _one_tie(ut[0], ut[1], repo), roots)))

        def top(u):
            while covered_by[u] is not None:
                u = covered_by[u]
            return u
        again = [(u, t) for u, t in units if covered_by[u] is not None and root_res[top(u)]["broken"]]
        again_res = dict(zip([u for u, _ in again], ex.map(lambda ut: _one_tie(ut[0], ut[1], repo), again)))
        prim_bad, prim_n = prim.result()
        rlit_bad, rlit_n = rlit.result() if rlit else (None, 0)
    results = []
    for u, t in units:
        if u in root_res:
            results.append(root_res[u])
        elif u in again_res:
            results.append(again_res[u])
        else:
            r0 = root_res[top(u)]
            results.append({"unit": u, "broken": None, "lines": r0["lines"], "cached": r0.get("cached", False)})
    if tx is not None:
        tx_bad, tx_n, tx_stats = tx.result()
        if tx_bad:
            po["broken"].append(tx_bad)
        elif tx_n:
            ctx.report.count("translation-cross-check/streams", tx_n)
            w = tx_stats.get("writer")
            dr = tx_stats.get("drivers")
            rd = tx_stats.get("rdflib")
            gw = tx_stats.get("grouped_writer")
            fw = tx_stats.get("flat_writer")
            ctx.report.notes.append("translation cross-check: the generated Gallina, evaluated by vm_compute, against the real code of this tree"
                                    + (f"; reader chain (options_from_frame, parse_jelly_flat with the generic adapters and Decoder.iter_rows): same yields and same exception classes on "
                                       f"{tx_stats.get('valid', 0)} streams of the reference encoder as they are and {tx_stats.get('mutated', 0)} with one mutation "
                                       f"({tx_stats.get('yields', 0)} objects yielded; exceptions compared: {tx_stats.get('exceptions', {})}); the grouped parser and parse_jelly_to_graph (real: from the bytes; translated: "
                                       f"from the first frame's options and the frames) on {tx_stats.get('grouped', 0)} of the valid streams: same statements and bindings in each of {tx_stats.get('sinks', 0)} sinks" if "valid" in tx_stats else "")
                                    + (f"; writer chain (options, TermEncoder with the generic dispatchers, TripleStream / QuadStream, flows): same frames, field for "
                                       f"field, and same exception classes on {w['streams']} random configurations and statement lists ({w['frames']} frames; "
                                       f"exceptions compared: {w['exceptions']})" if w else "")
                                    + (f"; writer drivers (GenericStatementSink with bind / add, then triples_stream_frames / quads_stream_frames / graphs_stream_frames "
                                       f"with split_to_graphs, consumed to the end or to the exception): same frames and same exception classes on {dr['streams']} sinks "
                                       f"({dr['by_driver']}; {dr['mixed_sinks']} holding a statement of the other kind; {dr['frames']} frames; exceptions compared: {dr['exceptions']})"
                                       if dr else "")
                                    + (f"; grouped_stream_to_frames over lists of sinks with guess_options / guess_stream / the singledispatch stream_frames: same frames and exception "
                                       f"classes on {gw['streams']} runs ({gw['sinks']} sinks, options guessed in {gw['options_guessed']}; {gw['frames']} frames; exceptions compared: {gw['exceptions']})"
                                       if gw else "")
                                    + (f"; flat_stream_to_frames over generators of statements (the generator alternative of the drivers, stream_frames on it): same frames and exception classes on "
                                       f"{fw['streams']} runs ({fw['empty']} empty, options guessed in {fw['options_guessed']}; {fw['frames']} frames; exceptions compared: {fw['exceptions']})"
                                       if fw else "")
                                    + (f"; rdflib: the unit's specification of rdflib's term objects against the real ones (isinstance, str, ==: {rd['object_pairs']} pairs, "
                                       f"{rd['equal_pairs']} equal, {rd['case_only_pairs']} literals that differ in the case of the language tag only) and RDFLibTermEncoder under "
                                       f"TripleStream / QuadStream: same frames and exception classes on {rd['streams']} statement lists ({rd['frames']} frames; exceptions compared: {rd['exceptions']})"
                                       if rd else "")
                                    + (f"; rdflib drivers on real rdflib Graphs / Datasets (and generators of Triple / Quad) against the translated drivers on the stand-ins built from "
                                       f"what the real containers hand out (iteration, graphs(), quads(), namespaces()): same frames and exception classes on {rdd['runs']} runs "
                                       f"({rdd['by_driver']}; {rdd['frames']} frames; exceptions compared: {rdd['exceptions']})" if (rdd := tx_stats.get("rdflib_drivers")) else "")
                                    + (f"; rdflib reader (options_from_frame, parse_jelly_flat with the rdflib adapters over the unit's specification of rdflib's constructors): same yields "
                                       f"and exception classes on {rr['valid']} RDF 1.1 streams as they are ({rr['facet_rewritten']} events with an xsd:token / xsd:normalizedString literal "
                                       f"that rdflib rewrites), {rr['mutated']} with one mutation and {rr['bad_tag']} with a language tag made ill-formed ({rr['yields']} objects yielded; "
                                       f"exceptions compared: {rr['exceptions']})" if (rr := tx_stats.get("rdflib_reader")) else ""))
    if rlit_bad:
        po["broken"].append(rlit_bad)
    elif rlit_n:
        ctx.report.notes.append(f"the model's account of rdflib's Literal constructor (mk_literal Rdflib: language-tag check, refusal of a tag with a datatype, whiteSpace facet of "
                                f"xsd:token / xsd:normalizedString over Python's str.strip characters) agreed with the real rdflib on {rlit_n} random argument triples evaluated by vm_compute inside coqc")
    if prim_bad:
        po["broken"].append(prim_bad)
    else:
        ctx.report.notes.append(f"coq/tie/PyPrims.v (the meaning the source ties give to OrderedDict, deque, dict, str.rpartition, set, and to reading protobuf message objects: fields, defaults, HasField, WhichOneof, repeated fields) agreed with CPython on "
                                f"{prim_n} random operations evaluated by vm_compute inside coqc")
    for (unit, t), res in zip(units, results):
        po["obligations"] += len(t["theorems"])
        if res["broken"]:
            po["broken"].append(res["broken"])
            broken_units.append(unit)
            continue
        po["discharged"] += len(t["theorems"])
        for th in t["theorems"]:
            po["assumptions"][f"tie/{t['tie']}.{th}"] = "Closed under the global context"
        ctx.report.notes.append(f"source tie {unit}: {', '.join(t['sources'])} translated to Gallina by translate/py2v.py "
                                f"({res['lines']} lines), coq/tie/{t['tie']}.v re-proved against it: {', '.join(t['theorems'])}"
                                + (" (identical translation and development already checked by coqc in this build: verdict re-used from _build/tiecache)" if res.get("cached") else ""))
    return broken_units


def proof_obligations(pid: str) -> dict:
    """Re-compile props/<pid>.v and read the Print Assumptions output."""
    res = {"theorems": [], "obligations": 0, "discharged": 0, "broken": [], "checker_cmd": "", "assumptions": {}}
    f = VERIF / "coq" / "props" / f"{pid}.v"
    if not f.exists():
        res["broken"].append(f"props/{pid}.v missing")
        return res
    src = strip_comments(f.read_text())
    thms = re.findall(r"\bTheorem\s+(\w+)", src)
    res["theorems"] = thms
    res["obligations"] = len(thms)
    import tempfile

    tmpd = tempfile.mkdtemp(prefix="verif_props_")
    out_vo = f"{tmpd}/{pid}.vo"
    cmd = (f"cd {VERIF}/coq && timeout 900 coqc -Q model PJ.Model -Q proofs PJ.Proofs -Q props PJ.Props "
           f"-o {out_vo} props/{pid}.v")
    res["checker_cmd"] = cmd.replace(out_vo, "<tmp>.vo")
    rc, out = sh(cmd, timeout=1000)
    import shutil

    shutil.rmtree(tmpd, ignore_errors=True)
    if rc != 0:
        res["broken"].append(f"coqc failed on props/{pid}.v: {out[-400:]}")
        return res
    # Print Assumptions blocks, in order
    blocks = re.split(r"(?=Closed under the global context|Axioms:)", out)
    blocks = [b for b in blocks if b.startswith(("Closed under", "Axioms:"))]
    printed = re.findall(r"Print Assumptions\s+(\w+)", src)
    if len(blocks) != len(printed) or set(printed) != set(thms):
        res["broken"].append(f"every theorem needs its Print Assumptions: theorems={thms} printed={printed} blocks={len(blocks)}")
        return res
    for name, b in zip(printed, blocks):
        if b.startswith("Closed under"):
            res["assumptions"][name] = "Closed under the global context"
            res["discharged"] += 1
        else:
            axs = re.findall(r"^\s*([\w.]+)\s*:", b, flags=re.M)
            res["assumptions"][name] = "Axioms: " + ", ".join(axs)
            if set(axs) <= ALLOWED_AXIOMS:
                res["discharged"] += 1
            else:
                res["broken"].append(f"{name} depends on axioms {axs}")
    return res


class Ctx:
    def __init__(self, pid: str, tier: str, seed: int) -> None:
        from core import Driver, Report

        self.pid, self.tier, self.seed = pid, tier, seed
        self.rng = random.Random(seed * 1000003 + int(pid[1:]))
        self.driver = Driver()
        self.driver.sample_cap = 8 if tier == "quick" else 40
        self.report = Report(pid, tier, seed)
        self.quick = tier == "quick"

    def n(self, quick: int, thorough: int) -> int:
        return quick if self.quick else thorough


def load_known() -> list[dict]:
    p = VERIF / "known_findings.json"
    if not p.exists():
        return []
    return [k for k in json.loads(p.read_text()).get("findings", []) if k.get("status") == "known"]


def write_replay(pid: str, seed: int, idx: int, body: dict) -> str:
    d = VERIF / "replays"
    d.mkdir(exist_ok=True)
    path = d / f"{pid}-{seed}-{idx}.json"
    body = dict(body)
    body["property"] = pid
    body["rerun"] = f"./check {pid} --replay replays/{path.name}"
    path.write_text(json.dumps(body, indent=1, default=str))
    return str(path.relative_to(VERIF))


def main() -> int:
    ap = argparse.ArgumentParser()
    ap.add_argument("pid")
    ap.add_argument("--tier", default=os.environ.get("VERIF_TIER", "quick"), choices=["quick", "thorough"])
    ap.add_argument("--replay")
    ap.add_argument("--no-build", action="store_true")
    a = ap.parse_args()
    seed = int(os.environ.get("VERIF_SEED", "0"))
    pid = a.pid
    t0 = time.time()

    if not a.no_build:
        ok, out = ensure_build()
        if not ok:
            print(out)
            path = write_replay(pid, seed, 0, {"kind": "build", "what": "the Coq development or the driver no longer builds", "log": out[-2000:]})
            print(f"VIOLATION property={pid} replay={path} no-failing-input-found")
            return 1

    import checks  # noqa: PLC0415  (imports pyjelly from the working tree)

    if a.replay:
        return checks.replay(pid, json.loads(Path(VERIF / a.replay if not os.path.isabs(a.replay) else a.replay).read_text()))

    for old in (VERIF / "replays").glob(f"{pid}-*.json"):
        old.unlink()
    ctx = Ctx(pid, a.tier, seed)
    forb = scan_forbidden()
    po = proof_obligations(pid)
    if forb:
        po["broken"].append("forbidden constructs in the development: " + "; ".join(forb[:5]))
    if a.tier == "thorough" and os.environ.get("VERIF_COQCHK", "1") == "1" and pid == "C05":
        # independent re-check of the whole development once (by the C05 thorough run)
        rc, out = sh(f"cd {VERIF}/coq && timeout 3000 coqchk -silent -o -Q model PJ.Model -Q proofs PJ.Proofs -Q props PJ.Props "
                     + " ".join("PJ.Props." + p.stem for p in sorted((VERIF / 'coq' / 'props').glob('C*.v'))) + " 2>&1 | tail -40", timeout=3100)
        ctx.report.notes.append("coqchk: " + out[-1500:])
        if rc != 0 or "Fatal" in out or "Error" in out:
            po["broken"].append("coqchk rejected the development")

    try:
        broken_ties = source_ties(ctx, po, pid)
    except Exception as e:  # noqa: BLE001
        broken_ties = ["?"]
        po["broken"].append(f"source tie could not be checked: {e!r}")
    plan = checks.PLANS[pid]
    disagreements: list[dict] = []
    try:
        disagreements = plan(ctx)
        if broken_ties and not disagreements:
            # the source is no longer shown to be the model: look harder for an input on which the property
            # fails -- a second, independent sample judged by the property's own oracles
            ctx.rng = random.Random(seed * 7919 + 13)
            ctx.report.notes.append("a source tie broke: the plan was run a second time on an independent sample to search for a failing input")
            disagreements = plan(ctx)
    except Exception:  # noqa: BLE001
        import traceback

        # the harness could not complete on this tree: the implementation behaved in a way the
        # plan does not expect (a correspondence obligation that cannot even be evaluated)
        disagreements = [{"family": "HARNESS", "what": "the check could not be completed on this tree", "traceback": traceback.format_exc()[-3000:],
                          "property_violation": None, "signature": {}}]
    try:
        if not disagreements or all(d.get("family") != "HARNESS" for d in disagreements):
            extraction_cross_check(ctx, po)
    except Exception as e:  # noqa: BLE001
        po["broken"].append(f"extraction cross-check could not run: {e!r}")
    finally:
        ctx.driver.close()

    # classify
    known = load_known()
    violations, knowns = [], []
    for d in disagreements:
        k = checks.match_known(pid, d, known)
        if k:
            knowns.append((k, d))
        else:
            violations.append(d)

    rep = ctx.report
    lines: list[str] = []
    vio_count = 0
    idx = 0
    # a disagreement with a property-level failing input first
    shown = 0
    for d in violations:
        if d.get("property_violation"):
            idx += 1
            path = write_replay(pid, seed, idx, d)
            lines.append(f"VIOLATION property={pid} replay={path}")
            vio_count += 1
            shown += 1
            if shown >= 3:
                break
    if not vio_count:
        corr = [d for d in violations if not d.get("property_violation")]
        if corr:
            idx += 1
            body = dict(corr[0])
            body["obligation"] = f"correspondence family {corr[0].get('family')} (model vs implementation) no longer checks; theorems resting on it: {po['theorems']}"
            body["others"] = len(corr) - 1
            path = write_replay(pid, seed, idx, body)
            lines.append(f"VIOLATION property={pid} replay={path} no-failing-input-found")
            vio_count += 1
    if po["broken"] and not vio_count:
        idx += 1
        path = write_replay(pid, seed, idx, {"kind": "proof", "obligation": po["broken"], "theorems": po["theorems"]})
        lines.append(f"VIOLATION property={pid} replay={path} no-failing-input-found")
        vio_count += 1
    seen_known = set()
    for k, d in knowns:
        if k["id"] not in seen_known:
            seen_known.add(k["id"])
            lines.append(f"KNOWN-FINDING: property={pid} {k['what']}")

    wall = time.time() - t0
    ev = {
        "property_id": pid,
        "tier": a.tier,
        "seed": seed,
        "level": "proof",
        "coverage": {
            "obligations": max(po["obligations"], 1),
            "discharged": po["discharged"] if not po["broken"] else min(po["discharged"], max(po["obligations"], 1) - 1),
            "checker_cmd": po["checker_cmd"] or "coqc props/%s.v" % pid,
            "trusted_base": checks.TRUSTED_BASE,
            "theorems": po["assumptions"],
            "proof_obligations_broken": po["broken"],
            "evaluations": rep.evaluations,
            "distinct_nontrivial": len(rep.nontrivial),
            "rule": checks.RULES.get(pid, ""),
            "samples": rep.samples or [{"note": "no sample recorded"}],
            "exhaustive": rep.exhaustive,
            "traces_validated_against_impl": rep.evaluations,
            "correspondence_families": rep.families,
            "input_distribution": dict(sorted(rep.histo.items())),
            # cases where model and implementation differ / cases where they agree but the property's expectation is not met
            "correspondence_disagreements": len([d for d in disagreements if d.get("corresponds") is not True]),
            "property_deviations_with_model_agreeing": len([d for d in disagreements if d.get("corresponds") is True]),
            "known_findings_seen": sorted(seen_known),
            "known_finding_cases": len(knowns),
            "notes": rep.notes,
        },
        "assumptions": checks.ASSUMPTIONS.get(pid, []) + checks.COMMON_ASSUMPTIONS,
        "wall_s": round(wall, 2),
        "violations": vio_count,
    }
    (VERIF / "evidence").mkdir(exist_ok=True)
    (VERIF / "evidence" / f"{pid}.json").write_text(json.dumps(ev, indent=1, default=str))
    for ln in lines:
        print(ln)
    print(f"{pid} {a.tier}: theorems {po['discharged']}/{po['obligations']} closed, "
          f"{rep.evaluations} evaluations, {len(rep.nontrivial)} distinct non-trivial, "
          f"{len(disagreements)} disagreements ({len(knowns)} of a known finding), {vio_count} violations, {wall:.1f}s")
    return 1 if vio_count else 0


if __name__ == "__main__":
    sys.exit(main())
