"""fam_rdflib.py -- the rdflib integration's serializer entry points (Graph.serialize,
stream_frames, flat_/grouped_stream_to_frames) against model/Streams.v's rdf_* functions.
rdflib's containers are data: the harness hands the model the order in which rdflib iterated."""
from __future__ import annotations

import io

import rdflib
from rdflib import BNode, Dataset, Graph, URIRef
from rdflib.graph import DATASET_DEFAULT_GRAPH_ID

import core
from core import Cfg, PullLog, frame_tok, gs, hx, make_stream, ns_tok, stream_end_tok, trace_frames
from fam_encode import delimited, split_delimited, to_bytes
from fam_parse import rdflib_term_tok
from pyjelly.integrations.rdflib import parse as rparse
from pyjelly.integrations.rdflib import serialize as rser

assert rser.__file__.startswith(core.REPO), rser.__file__


def to_rdflib(t):
    if isinstance(t, gs.IRI):
        return URIRef(t._iri)
    if isinstance(t, gs.BlankNode):
        return BNode(t._identifier)
    if isinstance(t, gs.Literal):
        dt = URIRef(t._datatype) if t._datatype else None
        return rdflib.Literal(t._lex, lang=t._langtag or None, datatype=dt, normalize=False)
    if t is gs.DefaultGraph:
        return DATASET_DEFAULT_GRAPH_ID
    raise TypeError(t)


def build(stmts: list, ns: list, dataset: bool, empty_graphs=()):
    d = Dataset() if dataset else Graph(bind_namespaces="none")
    for a, b in ns:
        d.bind(a, URIRef(b), override=True, replace=True)
    if dataset:
        for kind, name in empty_graphs:  # named graphs that exist in the dataset (ds.graph(name)) and may stay empty
            d.graph(URIRef(name) if kind == "I" else BNode(name))
    for st in stmts:
        terms = [to_rdflib(t) for t in st]
        if dataset:
            g = terms[3] if len(terms) > 3 else DATASET_DEFAULT_GRAPH_ID
            d.get_context(g).add(tuple(terms[:3]))
        else:
            d.add(tuple(terms[:3]))
    return d


def term_in(t) -> str:
    """rdflib term -> model input token (the default graph id stays an IRI: the model's
    rdflib dispatcher recognises it, as the code does)."""
    if isinstance(t, URIRef):
        return "I " + hx(str(t))
    if isinstance(t, BNode):
        return "B " + hx(str(t))
    if isinstance(t, rdflib.Literal):
        dt = str(t.datatype) if t.datatype is not None else None
        return f"L {hx(str(t))} {core.ohx(t.language)} {core.ohx(dt)}"
    return "O"


def stmt_in(st) -> str:
    return f"{len(st)} " + " ".join(term_in(x) for x in st)


def stmts_in(sts) -> str:
    return f"{len(sts)} " + " ".join(stmt_in(s) for s in sts) if sts else "0"


def observe(mk) -> str:
    """The rdata the model needs: kind, namespaces, graphs (identifier, triples), statements.
    `mk()` builds a fresh copy of the data each time, because iterating an rdflib Dataset can
    change it (graphs() registers the default graph), and the implementation iterates only once."""
    d = mk()
    if isinstance(d, Dataset):
        ns = [(p, str(n)) for p, n in d.namespaces()]
        graphs = [(g.identifier, list(g)) for g in mk().graphs()]
        quads = list(mk().quads())
        gpart = f"{len(graphs)} " + " ".join(f"{term_in(i)} {stmts_in(ts)}" for i, ts in graphs) if graphs else "0"
        return f"dataset {ns_tok(ns)} {gpart} {stmts_in(quads)}"
    if isinstance(d, Graph):
        ns = [(p, str(n)) for p, n in d.namespaces()]
        return f"graph {ns_tok(ns)} 0 {stmts_in(list(d))}"
    # a plain list standing for a generator of Triple/Quad tuples
    sts = list(d)
    # the GRAPHS path loads a generator into a Dataset first
    graphs_part = "0"
    if sts and len(sts[0]) == 4:
        ds = Dataset()
        for q in sts:
            ds.get_context(q[3]).add((q[0], q[1], q[2]))
        graphs = [(g.identifier, list(g)) for g in ds.graphs()]
        graphs_part = f"{len(graphs)} " + " ".join(f"{term_in(i)} {stmts_in(ts)}" for i, ts in graphs)
    return f"gen 0 {graphs_part} {stmts_in(sts)}"


def gen_tuples(stmts: list):
    out = []
    for k, st in enumerate(stmts):
        terms = [to_rdflib(t) for t in st]
        if len(terms) == 4 and terms[3] is DATASET_DEFAULT_GRAPH_ID and k % 2 == 1:
            # quads that went through pickle / copy.deepcopy / another store name the default graph with an
            # EQUAL identifier that is not rdflib's own object
            terms[3] = rdflib.URIRef(str(DATASET_DEFAULT_GRAPH_ID))
        out.append(rparse.Triple(*terms) if len(terms) == 3 else rparse.Quad(*terms))
    return out


def run_rdflib_case(ctx, case: dict) -> dict | None:
    """case: cfg (ig='r'), stmts, ns, data ('graph'|'dataset'|'gen'), entry ('stream_frames'|'serialize'|'flat'|'grouped')"""
    cfg: Cfg = case["cfg"]
    entry = case["entry"]
    kind = case["data"]
    trace: list[str] = []
    impl = {"raised": False, "bytes": b"", "flow": None, "frames": []}
    obs = None
    try:
        if kind == "gen":
            tuples = gen_tuples(case["stmts"])
            obs = observe(lambda: tuples)
            data = PullLog(tuples, trace)
        else:
            mk = lambda: build(case["stmts"], case.get("ns", []), kind == "dataset", case.get("empty_graphs", ()))  # noqa: E731
            data = mk()
            obs = observe(mk)
    except Exception as e:  # noqa: BLE001
        return {"family": "ER", "harness_error": repr(e), "property_violation": None, "signature": {}}
    stream = None
    if entry == "stream_frames":
        try:
            stream = make_stream(cfg)
        except Exception:  # noqa: BLE001
            impl_trace = "ERRNEW"
        else:
            try:
                for fr in rser.stream_frames(stream, data):
                    trace.append(frame_tok(fr))
            except Exception:  # noqa: BLE001
                trace.append("R")
                impl["raised"] = True
            impl_trace = " ".join(trace) + " " + stream_end_tok(stream)
            impl["flow"] = len(stream.flow)
        impl["frames"] = trace_frames(impl_trace)
        impl["bytes"] = to_bytes(cfg, impl["frames"])
        model = ctx.driver.ask(f"ER {cfg.tok()} {obs}")
        if impl_trace == "ERRNEW":
            impl["raised"] = True
    elif entry == "serialize":
        # Graph.serialize(format="jelly", options=...)
        try:
            opts = core.make_options(cfg)
            stream = None
            if case.get("pass_stream"):
                stream = make_stream(cfg)
            out = data.serialize(encoding="jelly", format="jelly", options=opts, **({"stream": stream} if stream else {}))
            impl["bytes"] = out
        except Exception:  # noqa: BLE001
            impl["raised"] = True
        # observable: bytes only.  The model: guess_stream when no stream is passed
        if case.get("pass_stream"):
            model = ctx.driver.ask(f"ER {cfg.tok()} {obs}")
        else:
            model = ctx.driver.ask(f"GRR 1 {cfg.tok()} 1 {obs}")
        mfr = trace_frames(model)
        mbytes = delimited(mfr) if cfg.delim else b"".join(mfr)
        mraise = model == "ERRNEW" or " R " in " " + model + " "
        impl_trace = "bytes " + hx(impl["bytes"]) + (" R" if impl["raised"] else "")
        model = "bytes " + hx(mbytes) + (" R" if mraise else "")
        if stream is not None:
            impl["flow"] = len(stream.flow)
        if impl["raised"] and mraise:
            model = impl_trace  # partial output before an error is not compared
    elif entry == "flat":
        try:
            opts = core.make_options(cfg) if case.get("options_given", True) else None
            for fr in rser.flat_stream_to_frames(data, opts):
                trace.append(frame_tok(fr))
        except Exception:  # noqa: BLE001
            trace.append("R")
            impl["raised"] = True
        impl_trace = " ".join(trace)
        impl["frames"] = trace_frames(impl_trace)
        impl["bytes"] = delimited(impl["frames"])
        model = ctx.driver.ask(f"FLR {1 if case.get('options_given', True) else 0} {cfg.tok()} {obs}")
        model = model.split(" | ")[0].strip()
    else:
        raise ValueError(entry)
    same = impl_trace == model
    if kind != "gen" and entry == "stream_frames":
        same = core.strip_pulls(impl_trace) == core.strip_pulls(model)
    pv = None
    for o in case.get("oracles", []):
        pv = RORACLES[o](ctx, case, impl)
        if pv:
            pv = {"oracle": o, "what": pv}
            break
    if same and not pv:
        return None
    return {"family": "ER", "entry": entry, "cfg": cfg.as_json(), "stmts": [core.stmt_tok(s) for s in case["stmts"]],
            "ns": case.get("ns", []), "data": kind, "impl": impl_trace[:1500], "model": model[:1500], "corresponds": same,
            "property_violation": pv, "signature": case.get("signature", {}), "extra": {k: case[k] for k in ("pass_stream", "options_given", "empty_graphs") if k in case}}


def expected_set(case, out_quads: bool) -> set[str]:
    """Set of statements the rdflib input holds, as tokens (xsd:string == plain)."""
    from fam_encode import norm_event_toks

    out = set()
    for st in case["stmts"]:
        terms = [to_rdflib(t) for t in st]
        if out_quads:
            g = terms[3] if len(terms) > 3 else DATASET_DEFAULT_GRAPH_ID
            out.add("EQ " + " ".join(rdflib_term_tok(x) for x in (*terms[:3], g)))
        else:
            out.add("ET " + " ".join(rdflib_term_tok(x) for x in terms[:3]))
    return set(norm_event_toks(sorted(out)))


def roracle_roundtrip(ctx, case, impl):
    """C02: parse back with rdflib's Jelly parser; same set of triples/quads."""
    from fam_encode import norm_event_toks

    if impl["raised"] or not impl["bytes"]:
        return None
    cfg = case["cfg"]
    quads_in = case["data"] == "dataset" or (case["data"] == "gen" and case["stmts"] and len(case["stmts"][0]) == 4)
    triple_stream = effective_rdflib_class(case) == "T"
    try:
        sink = rparse.parse_jelly_to_graph(io.BytesIO(impl["bytes"]))
    except Exception as e:  # noqa: BLE001
        return f"written bytes do not parse back: {type(e).__name__}"
    if isinstance(sink, Dataset):
        got = {"EQ " + " ".join(rdflib_term_tok(x) for x in q) for q in sink.quads()}
    else:
        got = {"ET " + " ".join(rdflib_term_tok(x) for x in t) for t in sink}
    got = set(norm_event_toks(sorted(got)))
    exp = expected_set(case, out_quads=not triple_stream)
    if triple_stream and quads_in:
        exp = expected_set({"stmts": [s[:3] for s in case["stmts"]]}, out_quads=False)
    if got != exp:
        miss = sorted(exp - got)[:1]
        extra = sorted(got - exp)[:1]
        return f"round trip differs: missing {miss} unexpected {extra} ({len(exp)} expected, {len(got)} read)"
    return None


def effective_rdflib_class(case) -> str:
    cfg = case["cfg"]
    if case["entry"] == "stream_frames" or case.get("pass_stream"):
        return cfg.cls
    quads = case["data"] == "dataset" or (case["data"] == "gen" and case["stmts"] and len(case["stmts"][0]) == 4)
    logical = cfg.logical if case.get("options_given", True) else (2 if quads else 1)
    return "Q" if (logical % 10 != 3 and quads) else "T"


def roracle_flushed(ctx, case, impl):
    if impl["raised"]:
        return None
    if impl.get("flow"):
        return f"{impl['flow']} rows left in stream.flow after the entry point returned"
    return None


def roracle_spec(ctx, case, impl):
    from fam_encode import spec_events

    if impl["raised"] or not impl["bytes"]:
        return None
    cfg = case["cfg"]
    if not cfg.delim and impl.get("frames"):
        reply = ctx.driver.ask(f"SP {len(impl['frames'])} " + " ".join(hx(f) for f in impl["frames"]))
    else:
        reply = ctx.driver.ask("SB " + hx(impl["bytes"]))
    status, cls_, evs = spec_events(reply)
    if status != "valid":
        return f"the referee rejects what was written: {reply[:160]}"
    return None


RORACLES = {"roundtrip": roracle_roundtrip, "flushed": roracle_flushed, "spec": roracle_spec}
