"""hostile_worker.py -- parse hostile inputs in a sacrificial process (C17).
stdin: JSON list of hex strings.  stdout: one JSON object per input with the outcome of every
parsing entry point, wall time and peak RSS.  An address-space limit and an alarm stop a
library that hangs or balloons."""
import io
import json
import os
import resource
import signal
import sys
import time

sys.path.insert(0, os.path.dirname(__file__))
resource.setrlimit(resource.RLIMIT_AS, (3 << 30, 3 << 30))
import core  # noqa: E402
from pyjelly import jelly  # noqa: E402
from pyjelly.integrations.generic import parse as gparse  # noqa: E402
from pyjelly.integrations.rdflib import parse as rparse  # noqa: E402

inputs = [bytes.fromhex(h) for h in json.loads(sys.stdin.read())]


class Timeout(BaseException):
    pass


def on_alarm(*_):
    raise Timeout


signal.signal(signal.SIGALRM, on_alarm)


def run(fn, data):
    n = 0
    try:
        res = fn(io.BytesIO(data))
        if hasattr(res, "__next__") or hasattr(res, "__iter__") and not hasattr(res, "__len__"):
            for item in res:
                n += 1 if not hasattr(item, "__len__") else max(1, 0)
        return f"ok:{n}"
    except Timeout:
        raise
    except RecursionError:
        return "err:RecursionError"
    except MemoryError:
        return "err:MemoryError"
    except Exception as e:  # noqa: BLE001
        return f"err:{type(e).__name__}"


ENTRY = {
    "g.flat": gparse.parse_jelly_flat,
    "g.grouped": gparse.parse_jelly_grouped,
    "g.to_graph": gparse.parse_jelly_to_graph,
    "r.flat": rparse.parse_jelly_flat,
    "r.grouped": rparse.parse_jelly_grouped,
}

for i, data in enumerate(inputs):
    outcomes = {}
    max_s = 0.0
    hung = False
    for name, fn in ENTRY.items():
        t0 = time.time()
        signal.alarm(20)
        try:
            outcomes[name] = run(fn, data)
        except Timeout:
            outcomes[name] = "hang"
            hung = True
        finally:
            signal.alarm(0)
        max_s = max(max_s, time.time() - t0)
    # canonical form of the framing for the model (only when protobuf accepts the bytes as frames)
    canon = None
    canon_outcome = None
    try:
        from google.protobuf.proto import parse_length_prefixed

        if len(data) >= 3 and core.pio.delimited_jelly_hint(data[:3]) and len(data) < 3000:
            buf = io.BytesIO(data)
            frames = []
            while True:
                f = parse_length_prefixed(jelly.RdfStreamFrame, buf)
                if f is None:
                    break
                f.DiscardUnknownFields()
                frames.append(f)
            import fam_encode

            canon_b = b"".join(fam_encode.varint(len(b)) + b for b in (f.SerializeToString(deterministic=True) for f in frames))
            if len(canon_b) >= 3 and core.pio.delimited_jelly_hint(canon_b[:3]):
                canon = canon_b.hex()
                canon_outcome = run(gparse.parse_jelly_flat, canon_b)
    except Exception:  # noqa: BLE001
        canon = None
    rss = resource.getrusage(resource.RUSAGE_SELF).ru_maxrss // 1024
    print(json.dumps({"i": i, "outcomes": outcomes, "max_s": round(max_s, 3), "rss_mb": rss, "hung": hung, "canon": canon, "canon_outcome": canon_outcome}), flush=True)
