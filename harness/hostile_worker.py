"""hostile_worker.py -- parse hostile inputs in a sacrificial process (C17).
stdin: JSON list of hex strings.  stdout: one JSON object per input with the outcome of every
parsing entry point, wall time and peak RSS.  An address-space limit and an alarm stop a
library that hangs or balloons."""
import io
import json
import os
import resource
import signal
import sys
import tempfile
import time
import tracemalloc

sys.path.insert(0, os.path.dirname(__file__))
resource.setrlimit(resource.RLIMIT_AS, (3 << 30, 3 << 30))
import core  # noqa: E402
from pyjelly import jelly  # noqa: E402
from pyjelly.integrations.generic import parse as gparse  # noqa: E402
from pyjelly.integrations.rdflib import parse as rparse  # noqa: E402

inputs = [bytes.fromhex(h) for h in json.loads(sys.stdin.read())]


class Timeout(BaseException):
    pass


def on_alarm(*_):
    raise Timeout


signal.signal(signal.SIGALRM, on_alarm)
signal.signal(signal.SIGPROF, on_alarm)


# "promptly" and "hang" are measured in CPU time of this process (what the parser itself burns: a machine busy with other work does
# not change it), with a far more generous wall-clock alarm behind it for a parser that blocks without burning anything
CPU_LIMIT_S = 20
WALL_LIMIT_S = 300


def watch_on():
    signal.setitimer(signal.ITIMER_PROF, CPU_LIMIT_S)
    signal.alarm(WALL_LIMIT_S)


def watch_off():
    signal.setitimer(signal.ITIMER_PROF, 0)
    signal.alarm(0)


class RawSource(io.RawIOBase):
    """A non-seekable source (pipe / socket like): short reads, then end of input."""

    def __init__(self, data: bytes, chunk: int) -> None:
        self.data, self.pos, self.chunk = data, 0, chunk

    def readable(self) -> bool:
        return True

    def seekable(self) -> bool:
        return False

    def readinto(self, buf) -> int:
        n = min(self.chunk, len(buf), len(self.data) - self.pos)
        buf[:n] = self.data[self.pos : self.pos + n]
        self.pos += n
        return n


PEAK = [0]


def run(fn, data, raw_chunk=None, as_file=False):
    """One entry point on one carrier; PEAK[0] keeps the largest traced allocation peak seen."""
    tracemalloc.start()
    try:
        return _run(fn, data, raw_chunk, as_file)
    finally:
        PEAK[0] = max(PEAK[0], tracemalloc.get_traced_memory()[1])
        tracemalloc.stop()


def _run(fn, data, raw_chunk, as_file):
    n = 0
    tmp = None
    try:
        if as_file:
            tmp = tempfile.TemporaryFile()
            tmp.write(data)
            tmp.seek(0)
            src = tmp
        else:
            src = io.BytesIO(data) if raw_chunk is None else RawSource(data, raw_chunk)
        res = fn(src)
        if hasattr(res, "__next__") or hasattr(res, "__iter__") and not hasattr(res, "__len__"):
            for item in res:
                n += 1 if not hasattr(item, "__len__") else max(1, 0)
        return f"ok:{n}"
    except Timeout:
        raise
    except RecursionError:
        return "err:RecursionError"
    except MemoryError:
        return "err:MemoryError"
    except Exception as e:  # noqa: BLE001
        return f"err:{type(e).__name__}"
    finally:
        if tmp is not None:
            tmp.close()


ENTRY = {
    "g.flat": gparse.parse_jelly_flat,
    "g.grouped": gparse.parse_jelly_grouped,
    "g.to_graph": gparse.parse_jelly_to_graph,
    "r.flat": rparse.parse_jelly_flat,
    "r.grouped": rparse.parse_jelly_grouped,
}

def _calibration_input() -> bytes:
    """5 000 empty frames in front of a small valid stream: every frame makes the grouped parsers build a sink."""
    from pyjelly import jelly

    f = jelly.RdfStreamFrame(rows=[
        jelly.RdfStreamRow(options=jelly.RdfStreamOptions(physical_type=2, max_name_table_size=16, version=1)),
        jelly.RdfStreamRow(name=jelly.RdfNameEntry(id=0, value="http://e/s")),
        jelly.RdfStreamRow(quad=jelly.RdfQuad(s_iri=jelly.RdfIri(name_id=1), p_iri=jelly.RdfIri(name_id=1), o_iri=jelly.RdfIri(name_id=1),
                                               g_default_graph=jelly.RdfDefaultGraph()))])
    body = f.SerializeToString()
    return b"\x00" * 5000 + bytes([len(body)]) + body


CALIB = _calibration_input()


def calibrate() -> float:
    """CPU seconds per input byte of a benign LINEAR workload measured now, in this process: 5 000 empty frames of a valid QUADS stream
    through the rdflib grouped parser (one rdflib Dataset per frame: the most expensive kind of well-behaved input per byte).  The
    budgets below are stated in this unit, so a machine made slow by other work (CPU time inflates too: shared caches, SMT siblings)
    moves the budget with the measurement."""
    t0 = time.process_time()
    run(ENTRY["r.grouped"], CALIB)
    return max(1e-6, (time.process_time() - t0) / 5000)


IDLE_RATE = 27e-6          # what calibrate() gives on this image when nothing else runs
rate = calibrate()

for i, data in enumerate(inputs):
    if len(data) >= 20000:
        rate = calibrate()
    scale = max(1.0, rate / IDLE_RATE)
    # promptly: a constant plus time in proportion to the input, both in CPU seconds of this process and in today's units
    budget_s = 5.0 * scale + len(data) * max(50e-6, 2.0 * rate)
    CPU_LIMIT_S = max(20.0 * scale, 1.1 * budget_s)
    outcomes = {}
    max_s = 0.0
    hung = False
    PEAK[0] = 0
    for name, fn in ENTRY.items():
        t0 = time.process_time()
        watch_on()
        try:
            outcomes[name] = run(fn, data)
        except Timeout:
            outcomes[name] = "hang"
            hung = True
        finally:
            watch_off()
        max_s = max(max_s, time.process_time() - t0)
    # the same bytes from an ordinary file object (a BufferedReader: read(n) allocates n up front)
    if len(data) <= 64 or i % 3 == 0:
        for name in ("g.flat", "r.flat"):
            t0 = time.process_time()
            watch_on()
            try:
                o = run(ENTRY[name], data, as_file=True)
            except Timeout:
                o = "hang"
                hung = True
            finally:
                watch_off()
            outcomes[f"{name}/file"] = o
            max_s = max(max_s, time.process_time() - t0)
    # the same bytes from a non-seekable source (short inputs and a sample of the others): the header is
    # obtained differently there, and "ends after 0, 1, 2 bytes" is a case of its own
    if len(data) <= 8 or i % 4 == 0:
        for chunk in ((1, 2, 1 << 20) if len(data) <= 8 else (3,)):
            for name in ("g.flat", "r.grouped"):
                t0 = time.process_time()
                watch_on()
                try:
                    o = run(ENTRY[name], data, raw_chunk=chunk)
                except Timeout:
                    o = "hang"
                    hung = True
                finally:
                    watch_off()
                outcomes[f"{name}/raw{chunk}"] = o
                max_s = max(max_s, time.process_time() - t0)
    # canonical form of the framing for the model (only when protobuf accepts the bytes as frames)
    canon = None
    canon_outcome = None
    try:
        from google.protobuf.proto import parse_length_prefixed

        if len(data) >= 3 and core.pio.delimited_jelly_hint(data[:3]) and len(data) < 3000:
            buf = io.BytesIO(data)
            frames = []
            while True:
                f = parse_length_prefixed(jelly.RdfStreamFrame, buf)
                if f is None:
                    break
                f.DiscardUnknownFields()
                frames.append(f)
            import fam_encode

            canon_b = b"".join(fam_encode.varint(len(b)) + b for b in (f.SerializeToString(deterministic=True) for f in frames))
            if len(canon_b) >= 3 and core.pio.delimited_jelly_hint(canon_b[:3]):
                canon = canon_b.hex()
                canon_outcome = run(gparse.parse_jelly_flat, canon_b)
    except Exception:  # noqa: BLE001
        canon = None
    rss = resource.getrusage(resource.RUSAGE_SELF).ru_maxrss // 1024
    print(json.dumps({"i": i, "outcomes": outcomes, "max_s": round(max_s, 3), "budget_s": round(budget_s, 3), "cpu_rate_us_per_byte": round(rate * 1e6, 1), "rss_mb": rss, "peak_alloc_mb": round(PEAK[0] / 1e6, 1), "hung": hung, "canon": canon, "canon_outcome": canon_outcome}), flush=True)
